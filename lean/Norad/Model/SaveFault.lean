import Norad.Model.FontSave
/-!
# One fault kind for the save model: a step of the plan fails with an I/O error (session 2026-09-29)

`Model/AbsFS.lean` produces I/O errors only from the STATE of the abstract file system (a missing parent, a file in the
place of a directory, ...).  Here one more source: the effect at position `pos` of the plan (0 = `create_dir(path)`,
1 = the write of metainfo.plist, ...) fails with the error `err` whatever the abstract file system would have answered -
a full disk, a permission change, a removed medium.  The effects in front of it have run; it and everything behind it
have not.  (Kept in a file of its own so that the models below are not rebuilt; core Lean only.)
-/
namespace FontSave
open AbsFS

variable {β : Type}

structure Fault where
  pos : Nat
  err : IoErr
  deriving DecidableEq, Repr

/-- the plan with the fault injected: a position behind the end of the plan injects nothing -/
def injectFault (ft : Fault) (es : List (Eff β)) : List (Eff β) :=
  if ft.pos < es.length then es.take ft.pos ++ [.fail (.io ft.err)] else es

/-- `saveImpl` under a fault.  Validation and the wipe are as in `saveImpl`: the fault concerns a save that was NOT
    refused. -/
def saveImplFault (cfg : Cfg β) (f : AFont β) (fs : FS β) (t : APath) (ft : Fault) : Option SaveErr × FS β :=
  match validatePhase cfg f fs with
  | .error k => (some (.refused k), fs)
  | .ok (d, i) =>
    match wipe fs t with
    | .error e => (some (.cleanup e), fs)
    | .ok fs1 => runEffs (injectFault ft (plan cfg f d i t)) fs1

end FontSave
