import Norad.Generated.FontInfoTables
import Norad.Model.FontInfo
/-!
# C14 model, part 2 — loading a format 1 / format 2 font info

`FontInfo::from_file` for `FormatVersion::V1` / `V2` (fontinfo.rs:516-791), `upconvert_ufov1_robofab_data`
(upconversion.rs:121-217) and its call site in `Font::load_impl` (font.rs:288-300).  The attribute and
enumeration tables are the generated ones; the validation afterwards is the C13 model.
-/
namespace C14
open FI

def tables : Tables := ⟨Gen.fontStyleCodes, Gen.charSetCodes, Gen.widthNames, Gen.weightDropped⟩

def inI32 (z : Int) : Bool := decide (i32Min ≤ z ∧ z ≤ i32Max)
def inU (max : Nat) (z : Int) : Bool := decide (0 ≤ z ∧ z ≤ Int.ofNat max)

/-- serde typing of a legacy attribute -/
def wellTyped : Ty → Val → Bool
  | .num, .num _ => true
  | .int, .int z => inI32 z
  | .uint, .int z => inU u32Max z
  | .str, .str _ => true
  | .bool, .bool _ => true
  | .nums, .nums _ => true
  | .bits, .ints l => l.all (inU 255)
  | .famclass, .ints l => l.length == 2 && l.all (inU 255)
  | .panose, .ints l => l.length == 10 && l.all inI32
  | .width, .int z => decide (1 ≤ z ∧ z ≤ 9)
  | .charset, .int z => decide (1 ≤ z ∧ z ≤ 20)
  | .style, .str s => C13.styleNames.contains s.toList
  | _, _ => false

def allTyped (types : List (String × Ty)) (attrs : List (String × Val)) : Bool :=
  attrs.all fun (k, v) => match lookup types k with
    | some ty => wellTyped ty v
    | none => false

def getKey (info : List (String × Val)) (k : String) : Option Val := lookup info k

def setKey (info : List (String × Val)) (k : String) (v : Option Val) : List (String × Val) :=
  let rest := info.filter (fun p => p.1 != k)
  match v with
  | some x => rest ++ [(k, x)]
  | none => rest

/-- the rule-bearing projection of a converted font info (what `validate` looks at; guidelines, gasp
    and WOFF records do not exist in formats 1 and 2) -/
def project (info : List (String × Val)) : C13.Info :=
  let len (k : String) : Option Nat := match getKey info k with
    | some (.nums l) => some l.length
    | _ => none
  { created := match getKey info "openTypeHeadCreated" with | some (.str s) => some s.toList | _ => none
    selection := match getKey info "openTypeOS2Selection" with
      | some (.ints l) => some (l.map Int.toNat) | _ => none
    familyClass := match getKey info "openTypeOS2FamilyClass" with
      | some (.ints [c, s]) => some (c.toNat, s.toNat) | _ => none
    blueValues := len "postscriptBlueValues", otherBlues := len "postscriptOtherBlues"
    familyBlues := len "postscriptFamilyBlues", familyOtherBlues := len "postscriptFamilyOtherBlues"
    stemSnapH := len "postscriptStemSnapH", stemSnapV := len "postscriptStemSnapV" }

inductive LoadErr where
  | parse | conv (e : ConvErr) | invalid (k : C13.Kind) | panic
  deriving DecidableEq, Repr

def validated (info : List (String × Val)) : Except LoadErr (List (String × Val)) :=
  match C13.validate (project info) with
  | .ok => .ok info
  | .err k => .error (.invalid k)
  | .panic => .error .panic

def tableOf (fmt : Nat) : List (String × String × Conv) := if fmt = 1 then Gen.v1Table else Gen.v2Table
def typesOf (fmt : Nat) : List (String × Ty) := if fmt = 1 then Gen.v1Types else Gen.v2Types

/-- `FontInfo::from_file` for format 1 / 2 -/
def fromFile (fmt : Nat) (attrs : List (String × Val)) : Except LoadErr (List (String × Val)) :=
  if !allTyped (typesOf fmt) attrs then .error .parse else
  match convertAll tables (tableOf fmt) attrs with
  | .error e => .error (.conv e)
  | .ok info => validated info

/-- the robofab part of a format-1 `lib.plist` -/
structure Robofab where
  hint : Option (List (String × Val)) := none
  classes : Option String := none
  order : Option (List String) := none
  feats : Option (List (String × String)) := none   -- in the order the hash map happens to yield

/-- feature text: classes, then a newline and the blocks named by the order list (or all, in map order) -/
def featureText (r : Robofab) : String :=
  let head := r.classes.getD ""
  match r.feats with
  | none => head
  | some fs =>
    let order := match r.order with
      | some o => o
      | none => fs.map (fun (p : String × String) => p.1)
    head ++ "\n" ++ String.join (order.filterMap fun k => lookup fs k)

def flatten (v : Val) : Val :=
  match v with
  | .numss l => .nums l.flatten
  | x => x

/-- which hint entries are assigned even when absent (`font_info.x = data.x`) and which only when
    present (`if let Some(..)`) -/
def hintConditional : List String := ["blueValues", "otherBlues", "familyBlues", "familyOtherBlues"]

/-- one assignment of upconversion.rs:184-202 -/
def hintStep (hint : List (String × Val)) (acc : List (String × Val)) (row : String × String) :
    List (String × Val) :=
  match lookup hint row.1 with
  | some v => setKey acc row.2 (some (flatten v))
  | none => if hintConditional.contains row.1 then acc else setKey acc row.2 none

def applyHints (rows : List (String × String)) (hint : List (String × Val))
    (info : List (String × Val)) : List (String × Val) :=
  rows.foldl (hintStep hint) info

structure Input where
  fmt : Nat
  attrs : List (String × Val)
  hasLib : Bool := false
  robofab : Robofab := {}
  libKeys : List String := []       -- the other keys of lib.plist
  feaFile : Option String := none   -- a features.fea next to it
  /-- `DataRequest::lib` / `DataRequest::features` of the load (both true for `Font::load`) -/
  reqLib : Bool := true
  reqFeatures : Bool := true
  deriving Inhabited

structure Output where
  info : List (String × Val)
  features : String
  libKeys : List String
  formatVersion : Nat
  deriving Repr

/-- `Font::load_impl`, the parts that concern font info, features and lib.  The request decides which
    *files* are read into `lib` and `features`; the font info is always loaded, and the robofab data of a
    format-1 lib is converted whenever `lib.plist` exists (it is re-read for the conversion), whatever
    the request says — including the feature text, which replaces `features` when it is not empty. -/
def load (i : Input) : Except LoadErr Output :=
  match fromFile i.fmt i.attrs with
  | .error e => .error e
  | .ok info =>
    let fea0 := if i.reqFeatures then i.feaFile.getD "" else ""
    let lib0 := if i.reqLib then i.libKeys else []
    if i.fmt = 1 && i.hasLib then
      let r := i.robofab
      let text := featureText r
      let step : Except LoadErr (List (String × Val)) := match r.hint with
        | some h => validated (applyHints Gen.hintRows h info)
        | none => .ok info
      match step with
      | .error e => .error e
      | .ok info' =>
        .ok { info := info', features := if text.isEmpty then fea0 else text,
              libKeys := lib0.filter (fun k => !Gen.robofabRemoved.contains k), formatVersion := 3 }
    else
      .ok { info := info, features := fea0, libKeys := lib0, formatVersion := 3 }

end C14
