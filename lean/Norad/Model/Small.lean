import Norad.Model.Glif
/-!
# The small types the mechanisms rest on (`name.rs`, `identifier.rs`, `shared_types.rs`, `codepoints.rs`,
# `guideline.rs`, `glyph/mod.rs` `Image::new`, `write.rs`)

What the property models ASSUME of them, as executable definitions, so that the SMALL correspondence stream
(`harness/src/small.rs`, `Driver/Small.lean`) can check the real types against exactly these.  Name and identifier
validity are `Glif.validName` / `Glif.validIdent` (the definitions the glif model itself uses; `Props/Small.lean`
proves that the other models' copies are the same predicate).  Core Lean only.
-/
namespace Small

/-- `Color::new`: every channel in `0.0..=1.0` (negative zero is in, NaN is out) -/
def colorChanOK (x : Float) : Bool := 0.0 ≤ x && x ≤ 1.0

/-- guideline angle: `0.0..=360.0` (`FontInfo::validate`, the `Guideline` serialiser, the glif parser) -/
def angleOK (d : Float) : Bool := 0.0 ≤ d && d ≤ 360.0

/-- `Image::new` on a name without a trailing separator: non-empty, not absolute, no directory part -/
def imageNameOK (s : List Char) : Bool := !s.isEmpty && !s.contains '/'

/-- `Codepoints` is an insertion-ordered set: duplicates are dropped, the first occurrence keeps its place -/
def dedupKeepFirst : List String → List String
  | [] => []
  | a :: r => a :: (dedupKeepFirst r).filter (· ≠ a)

/-- colour texts norad itself writes (so it must read them) -/
def colorTextsAccepted : List String :=
  ["1,0,0,1", "0,0,0,0", "-0,0.5,1,1", "-0.0,0,0,0", "0.3333,0.6667,1,0"]

/-- colour texts that are not four numbers in range -/
def colorTextsRefused : List String :=
  ["0.5,0.5,0.5", "1,1,1,1,1", "", ",,,", "NaN,0,0,1", "inf,0,0,1", "1,0,0,1.0000001", "1,0,0,-0.0000001"]

def pointTypeNames : List String := ["move", "line", "offcurve", "curve", "qcurve"]

end Small
