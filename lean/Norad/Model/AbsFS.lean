import Norad.Base.Path
/-!
# Abstract file system (core Lean only) — shared by C08, C09, C17

An association list from absolute, normalised paths (lists of names from the root) to `dir | file b`,
for an arbitrary content type `β`.  Only `lookup` is ever observed, so all statements are about
`lookup`/`node`; the list form keeps the model executable and gives `readDir` for free.

Operations take *unresolved* component lists (`normal s | . | ..`, as `std::path` hands them to the
kernel) and resolve them the way the kernel does without symbolic links: every component that is
followed by another one must name an existing directory, `..` steps to the parent of the directory
reached.  `mkdirAll` is a transcription of `std::fs::create_dir_all` (lexical parents, kernel `mkdir`
at every level).  Errors other than not-found / exists / not-a-directory / is-a-directory are outside
the model (permissions, full disk, concurrent processes, symbolic links).
-/
namespace AbsFS
open Path (Comp)

abbrev Name := List Char
/-- an absolute, normalised path: the names from the root -/
abbrev APath := List Name

inductive Node (β : Type) where
  | dir
  | file (b : β)
  deriving DecidableEq, Repr

abbrev FS (β : Type) := List (APath × Node β)

inductive IoErr
  | notFound | alreadyExists | notADirectory | isADirectory | invalidInput
  deriving DecidableEq, Repr

variable {β : Type}

def lookup : FS β → APath → Option (Node β)
  | [], _ => none
  | (q, n) :: r, p => if q = p then some n else lookup r p

/-- the root always exists and is a directory -/
def node (fs : FS β) (p : APath) : Option (Node β) := if p = [] then some .dir else lookup fs p

def isDir (fs : FS β) (p : APath) : Bool :=
  match node fs p with
  | some .dir => true
  | _ => false

/-- `p` now holds `n` (any older entry for `p` is dropped) -/
def set (fs : FS β) (p : APath) (n : Node β) : FS β := (p, n) :: fs.filter (fun e => !(e.1 == p))

/-- everything at or below `p` disappears -/
def removeAll (fs : FS β) (p : APath) : FS β := fs.filter (fun e => !(p.isPrefixOf e.1))

/-- kernel path walk from the directory `st`: every component must land on an existing directory -/
def walk (fs : FS β) : APath → List Comp → Except IoErr APath
  | st, [] => .ok st
  | st, .cur :: r => walk fs st r
  | st, .parent :: r => walk fs st.dropLast r
  | st, .normal s :: r =>
    match node fs (st ++ [s]) with
    | some .dir => walk fs (st ++ [s]) r
    | some (.file _) => .error .notADirectory
    | none => .error .notFound

/-- where an absolute component list points: the directory part is walked, the last component is kept.
    `(p, false)`: `p = dir ++ [name]`, which may or may not exist; `(d, true)`: the path ends in `.`/`..`
    (or is the root) and denotes the existing directory `d`. -/
def locate (fs : FS β) (cs : List Comp) : Except IoErr (APath × Bool) :=
  match cs.getLast? with
  | none => .ok ([], true)
  | some last =>
    match walk fs [] cs.dropLast with
    | .error e => .error e
    | .ok d =>
      match last with
      | .normal s => .ok (d ++ [s], false)
      | .cur => .ok (d, true)
      | .parent => .ok (d.dropLast, true)

/-- `Path::exists` -/
def existsAt (fs : FS β) (cs : List Comp) : Bool :=
  match locate fs cs with
  | .ok (p, false) => (node fs p).isSome
  | .ok (_, true) => true
  | .error _ => false

/-- `Path::is_dir` -/
def isDirAt (fs : FS β) (cs : List Comp) : Bool :=
  match locate fs cs with
  | .ok (p, false) => isDir fs p
  | .ok (_, true) => true
  | .error _ => false

/-- `mkdir(2)` / `std::fs::create_dir` -/
def mkdir (fs : FS β) (cs : List Comp) : Except IoErr (FS β) :=
  match locate fs cs with
  | .error e => .error e
  | .ok (_, true) => .error .alreadyExists
  | .ok (p, false) => if (node fs p).isSome then .error .alreadyExists else .ok (set fs p .dir)

/-- `File::create` + write: creates or truncates a plain file -/
def writeFile (fs : FS β) (cs : List Comp) (b : β) : Except IoErr (FS β) :=
  match locate fs cs with
  | .error e => .error e
  | .ok (_, true) => .error .isADirectory
  | .ok (p, false) => if isDir fs p then .error .isADirectory else .ok (set fs p (.file b))

/-- `std::fs::read` -/
def readFile (fs : FS β) (cs : List Comp) : Except IoErr β :=
  match locate fs cs with
  | .error e => .error e
  | .ok (_, true) => .error .isADirectory
  | .ok (p, false) =>
    match node fs p with
    | some (.file b) => .ok b
    | some .dir => .error .isADirectory
    | none => .error .notFound

/-- `std::fs::remove_dir_all` on a path that does not end in `.`/`..`: a plain file is refused
    (`ENOTDIR`, the deletion root must be a directory) -/
def removeDirAll (fs : FS β) (cs : List Comp) : Except IoErr (FS β) :=
  match locate fs cs with
  | .error e => .error e
  | .ok (_, true) => .error .invalidInput
  | .ok (p, false) =>
    match node fs p with
    | none => .error .notFound
    | some (.file _) => .error .notADirectory
    | some .dir => .ok (removeAll fs p)

/-- `std::fs::create_dir_all`, on the reversed component list (`c :: rest` is the path
    `(c :: rest).reverse`, `rest` its lexical parent).  The state reached is returned even on error. -/
def mkdirAllRev (fs : FS β) : List Comp → FS β × Option IoErr
  | [] => (fs, none)
  | c :: rest =>
    let cs := (c :: rest).reverse
    match mkdir fs cs with
    | .ok fs' => (fs', none)
    | .error .notFound =>
      match mkdirAllRev fs rest with
      | (fs1, some e) => (fs1, some e)
      | (fs1, none) =>
        match mkdir fs1 cs with
        | .ok fs2 => (fs2, none)
        | .error e => if isDirAt fs1 cs then (fs1, none) else (fs1, some e)
    | .error e => if isDirAt fs cs then (fs, none) else (fs, some e)

def mkdirAll (fs : FS β) (cs : List Comp) : FS β × Option IoErr := mkdirAllRev fs cs.reverse

/-- all paths of the file system that lie strictly below `d`, relative to `d`, with their kind
    (`true` = plain file); first entry per path wins, as in `lookup` -/
def listBelow (fs : FS β) (d : APath) : List (APath × Bool) :=
  let rec go : FS β → List APath → List (APath × Bool)
    | [], _ => []
    | (q, n) :: r, seen =>
      if seen.contains q then go r seen
      else if d.isPrefixOf q && q.length > d.length then
        (q.drop d.length, match n with | .file _ => true | .dir => false) :: go r (q :: seen)
      else go r (q :: seen)
  go fs []

end AbsFS
