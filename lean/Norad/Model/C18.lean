import Norad.Model.DSTypes
/-!
# C18 — model of `designspace.rs` (serde attribute table) and `serde_xml_plist.rs` (plist-in-XML glue)

`toTree` transcribes what `DesignSpaceDocument::save` writes (derive(Serialize) with the `rename`,
`skip_serializing_if` and `with` attributes, through quick-xml's serializer: `@x` fields become
attributes, other fields child elements, `Vec` fields repeated elements, `()` an empty element, an empty
string an empty element), `fromTree` what `DesignSpaceDocument::load` reads back from such a tree
(derive(Deserialize): attributes and children looked up by name, unknown ones ignored, a missing
non-`default` field is an error, a repeated non-sequence field is an error, text content trimmed at both
ends by quick-xml).  One named helper per Rust item.  Core Lean only.

The model follows the tree **after** the two `fix:` commits of branch fix/ds (`<data>`/`<date>` read into
owned strings; `Rules::is_empty` considers `processing`).
-/
namespace C18

/-- save outcome: `err` = `DesignSpaceSaveError`, `panic` = a Rust panic -/
inductive Out (α : Type)
  | ok (a : α)
  | err
  | panic

def Out.bind {α β : Type} : Out α → (α → Out β) → Out β
  | .ok a, f => f a
  | .err, _ => .err
  | .panic, _ => .panic

def Out.map {α β : Type} (f : α → β) : Out α → Out β
  | .ok a => .ok (f a)
  | .err => .err
  | .panic => .panic

/-! ## Writer side -/

/-- element with text content; quick-xml writes an empty string as an empty element -/
def textElem (name s : String) : Tree :=
  .elem name [] (if s = "" then [] else [.txt s])

/-- attributes from a field table: `skip_serializing_if = "Option::is_none"` -/
def mkAttrs : List (String × Option String) → List (String × String)
  | [] => []
  | (k, some v) :: r => (k, v) :: mkAttrs r
  | (_, none) :: r => mkAttrs r

/-- `ValueInnerHelper::serialize` (serde_xml_plist.rs:380-401), the arms without recursion: the content of
    the tagged element of a leaf value.  The boolean arm is the `unreachable!`. -/
def leafInner (c : Codec) : PV → Out (List Tree)
  | .bool _ => .panic
  | .data d => .ok (if c.encData d = "" then [] else [.txt (c.encData d)])
  | .date d => match c.showDate d with
    | some s => .ok (if s = "" then [] else [.txt s])
    | none => .panic
  | .real r => .ok (if c.showF64 r = "" then [] else [.txt (c.showF64 r)])
  | .int i => .ok (if c.showInt i = "" then [] else [.txt (c.showInt i)])
  | .str s => .ok (if s = "" then [] else [.txt s])
  | .uid _ => .err
  | .arr _ => .err
  | .dict _ => .err

mutual
/-- `ValueHelper::serialize_within` (serde_xml_plist.rs:339-358): the tagged element of a value -/
def serializeWithin (c : Codec) : PV → Out Tree
  | .arr a => (arrayInner c a).map (Tree.elem "array" [])
  | .dict d => (dictInner c d).map (Tree.elem "dict" [])
  | .bool true => .ok (.elem "true" [] [])
  | .bool false => .ok (.elem "false" [] [])
  | .data d => (leafInner c (.data d)).map (Tree.elem "data" [])
  | .date d => (leafInner c (.date d)).map (Tree.elem "date" [])
  | .real r => (leafInner c (.real r)).map (Tree.elem "real" [])
  | .int i => (leafInner c (.int i)).map (Tree.elem "integer" [])
  | .str s => (leafInner c (.str s)).map (Tree.elem "string" [])
  | .uid _ => .err
/-- `ArrayInnerHelper::serialize` (:426-439) -/
def arrayInner (c : Codec) : PVs → Out (List Tree)
  | .nil => .ok []
  | .cons v r => (serializeWithin c v).bind fun n => (arrayInner c r).bind fun ns => .ok (n :: ns)
/-- `DictionaryInnerHelper::serialize` (:407-421): `<key>` then the tagged value, per entry -/
def dictInner (c : Codec) : KVs → Out (List Tree)
  | .nil => .ok []
  | .cons k v r =>
    (serializeWithin c v).bind fun n => (dictInner c r).bind fun ns => .ok (textElem "key" k :: n :: ns)
end

/-- `ValueInnerHelper::serialize` in full: the container arms are dead code (`serialize_within` goes to the
    inner helpers directly) -/
def valueInner (c : Codec) : PV → Out (List Tree)
  | .arr a => arrayInner c a
  | .dict d => dictInner c d
  | v => leafInner c v

/-- `serde_xml_plist::serialize` (:318-325) under `skip_serializing_if = "Dictionary::is_empty"` -/
def libNodes (c : Codec) (l : KVs) : Out (List Tree) :=
  match l with
  | .nil => .ok []
  | l => (dictInner c l).map fun ns => [.elem "lib" [] [.elem "dict" [] ns]]

def joinSp : List (List Char) → List Char
  | [] => []
  | [w] => w
  | w :: ws => w ++ ' ' :: joinSp ws

/-- a `Vec<f32>` in an attribute: quick-xml writes an `xs:list`, items separated by one blank -/
def showValues (c : Codec) (vs : List F32) : String :=
  String.ofList (joinSp (vs.map fun v => (c.showF32 v).toList))

/-! the attribute table of every struct: serde name and the value written, `none` = omitted
    (`skip_serializing_if`).  The names are compared with the table regenerated from designspace.rs
    (`source_*` theorems). -/

@[simp] def dimensionAttrs (c : Codec) (d : Dimension) : List (String × Option String) :=
  [("name", some d.name), ("uservalue", d.uservalue.map c.showF32),
    ("xvalue", d.xvalue.map c.showF32), ("yvalue", d.yvalue.map c.showF32)]

def dimensionNode (c : Codec) (d : Dimension) : Tree :=
  .elem "dimension" (mkAttrs (dimensionAttrs c d)) []

/-- `serde_impls::location::serialize` -/
def locationNode (c : Codec) (l : List Dimension) : Tree :=
  .elem "location" [] (l.map (dimensionNode c))

@[simp] def mapAttrs (c : Codec) (m : AxisMapping) : List (String × Option String) :=
  [("input", some (c.showF32 m.input)), ("output", some (c.showF32 m.output))]

def mapNode (c : Codec) (m : AxisMapping) : Tree :=
  .elem "map" (mkAttrs (mapAttrs c m)) []

/-- `map: Option<Vec<AxisMapping>>` under `skip_serializing_if = "Option::is_none"` -/
def mapNodes (c : Codec) : Option (List AxisMapping) → List Tree
  | none => []
  | some ms => ms.map (mapNode c)

@[simp] def axisAttrs (c : Codec) (a : Axis) : List (String × Option String) :=
  [("name", some a.name), ("tag", some a.tag), ("default", some (c.showF32 a.default)),
      ("hidden", if a.hidden then some "true" else none),
      ("minimum", a.minimum.map c.showF32), ("maximum", a.maximum.map c.showF32),
      ("values", a.values.map (showValues c))]

def axisNode (c : Codec) (a : Axis) : Tree :=
  .elem "axis" (mkAttrs (axisAttrs c a)) (mapNodes c a.map)

@[simp] def conditionAttrs (c : Codec) (x : Condition) : List (String × Option String) :=
  [("name", some x.name), ("minimum", x.minimum.map c.showF32), ("maximum", x.maximum.map c.showF32)]

def conditionNode (c : Codec) (x : Condition) : Tree :=
  .elem "condition" (mkAttrs (conditionAttrs c x)) []

def conditionSetNode (c : Codec) (s : ConditionSet) : Tree :=
  .elem "conditionset" [] (s.conditions.map (conditionNode c))

@[simp] def subAttrs (s : Substitution) : List (String × Option String) :=
  [("name", some s.name), ("with", some s.withName)]

def subNode (s : Substitution) : Tree :=
  .elem "sub" (mkAttrs (subAttrs s)) []

@[simp] def ruleAttrs (r : Rule) : List (String × Option String) := [("name", r.name)]

def ruleNode (c : Codec) (r : Rule) : Tree :=
  .elem "rule" (mkAttrs (ruleAttrs r))
    (r.conditionSets.map (conditionSetNode c) ++ r.substitutions.map subNode)

def showProcessing : RuleProcessing → String
  | .first => "first"
  | .last => "last"

@[simp] def rulesAttrs (r : Rules) : List (String × Option String) :=
  [("processing", some (showProcessing r.processing))]

def rulesNode (c : Codec) (r : Rules) : Tree :=
  .elem "rules" (mkAttrs (rulesAttrs r)) (r.rules.map (ruleNode c))

/-- `Rules::is_empty` (designspace.rs:270-275, after the fix: the processing mode counts) -/
def rulesIsEmpty (r : Rules) : Bool := r.rules.isEmpty && r.processing == .first

@[simp] def sourceAttrs (s : Source) : List (String × Option String) :=
  [("familyname", s.familyname), ("stylename", s.stylename), ("name", s.name),
      ("filename", some s.filename), ("layer", s.layer)]

def sourceNode (c : Codec) (s : Source) : Tree :=
  .elem "source" (mkAttrs (sourceAttrs s)) [locationNode c s.location]

@[simp] def instanceAttrSpec (i : Instance) : List (String × Option String) :=
  [("familyname", i.familyname), ("stylename", i.stylename), ("name", i.name),
    ("filename", i.filename), ("postscriptfontname", i.postscriptfontname),
    ("stylemapfamilyname", i.stylemapfamilyname), ("stylemapstylename", i.stylemapstylename)]

def instanceAttrs (i : Instance) : List (String × String) := mkAttrs (instanceAttrSpec i)

def instanceNode (c : Codec) (i : Instance) : Out Tree :=
  (libNodes c i.lib).map fun ls => .elem "instance" (instanceAttrs i) (locationNode c i.location :: ls)

def instanceNodes (c : Codec) : List Instance → Out (List Tree)
  | [] => .ok []
  | i :: r => (instanceNode c i).bind fun n => (instanceNodes c r).bind fun ns => .ok (n :: ns)

/-- a list wrapper (`serde_impls::axes` …) under `skip_serializing_if = "Vec::is_empty"` -/
def wrapList (name : String) (items : List Tree) : List Tree :=
  if items.isEmpty then [] else [.elem name [] items]

@[simp] def docAttrs (c : Codec) (d : Doc) : List (String × Option String) :=
  [("format", some (c.showF32 d.format))]

/-- `DesignSpaceDocument::save` up to the XML tree (designspace.rs:17-38, 258-267) -/
def toTree (c : Codec) (d : Doc) : Out Tree :=
  (instanceNodes c d.instances).bind fun insts =>
  (libNodes c d.lib).bind fun ls =>
  .ok (.elem "designspace" (mkAttrs (docAttrs c d))
    (wrapList "axes" (d.axes.map (axisNode c)) ++
     (if rulesIsEmpty d.rules then [] else [rulesNode c d.rules]) ++
     wrapList "sources" (d.sources.map (sourceNode c)) ++
     wrapList "instances" insts ++ ls))

/-! ## Reader side -/

def attr? (as : List (String × String)) (k : String) : Option String := as.lookup k

def named (n : String) : Tree → Bool
  | .elem m _ _ => m == n
  | .txt _ => false

def childrenNamed (n : String) (cs : List Tree) : List Tree := cs.filter (named n)

def rawText : List Tree → Option String
  | [] => some ""
  | .txt s :: r => (rawText r).map (s ++ ·)
  | .elem _ _ _ :: _ => none

/-- the text content of an element as quick-xml's deserializer hands it over: trimmed at both ends -/
def elemText (cs : List Tree) : Option String := (rawText cs).map trimXml

def stripAll0x : List Char → List Char
  | '0' :: 'x' :: r => stripAll0x r
  | cs => cs

/-- `s.starts_with("0x")` -/
def hasPrefix0x (s : String) : Bool :=
  match s.toList with
  | '0' :: 'x' :: _ => true
  | _ => false

/-- `IntWrapper` visitor (serde_xml_plist.rs:205-223) -/
def readIntText (c : Codec) (s : String) : Option Int :=
  if hasPrefix0x s then c.parseHexU64 (String.ofList (stripAll0x s.toList))
  else match c.parseI64 s with
    | some v => some v
    | none => c.parseU64 s

/-- `read_key` (:113-122): the element must be `<key>` -/
def readKey : Tree → Option String
  | .elem n _ cs => if n = "key" then elemText cs else none
  | .txt _ => none

mutual
/-- `read_xml_value` (:67-105) for one element -/
def readValue (c : Codec) : Tree → Option PV
  | .txt _ => none
  | .elem n _ cs =>
    if n = "dict" then (readPairs c cs).map fun kvs => .dict (KVs.nil.insertAll kvs)
    else if n = "string" then (elemText cs).map .str
    else if n = "array" then (readArray c cs).map .arr
    else if n = "data" then (elemText cs).bind fun s => (c.decData s).map .data
    else if n = "date" then (elemText cs).bind fun s => (c.readDate s).map .date
    else if n = "real" then (elemText cs).bind fun s => (c.readF64 s).map .real
    else if n = "integer" then (elemText cs).bind fun s => (readIntText c s).map .int
    else if n = "true" then some (.bool true)
    else if n = "false" then some (.bool false)
    else none
/-- `ArrayWrapper` visitor (:168-177) -/
def readArray (c : Codec) : List Tree → Option PVs
  | [] => some .nil
  | t :: r =>
    match readValue c t, readArray c r with
    | some v, some vs => some (.cons v vs)
    | _, _ => none
/-- `DictWrapper` visitor (:133-147), the key/value pairs in file order (before `dict.insert`) -/
def readPairs (c : Codec) : List Tree → Option KVs
  | [] => some .nil
  | [_] => none
  | k :: v :: r =>
    match readKey k, readValue c v, readPairs c r with
    | some key, some val, some rest => some (.cons key val rest)
    | _, _, _ => none
end

/-- a struct field that is one child element: absent / present once / repeated (an error) -/
inductive One
  | absent
  | one (attrs : List (String × String)) (children : List Tree)
  | dup

def oneChild (n : String) (cs : List Tree) : One :=
  match childrenNamed n cs with
  | [] => .absent
  | [.elem _ as k] => .one as k
  | _ => .dup

/-- `serde_xml_plist::deserialize` (:16-29) under `#[serde(default)]` -/
def readLib (c : Codec) (cs : List Tree) : Option KVs :=
  match oneChild "lib" cs with
  | .absent => some .nil
  | .dup => none
  | .one _ k =>
    match oneChild "dict" k with
    | .one _ d => (readPairs c d).map fun kvs => KVs.nil.insertAll kvs
    | _ => none

/-- an optional numeric attribute: absent = `None`, present = must parse -/
def readOptF32 (c : Codec) : Option String → Option (Option F32)
  | none => some none
  | some s => (c.readF32 s).map some

def optF32Attr (c : Codec) (as : List (String × String)) (k : String) : Option (Option F32) :=
  readOptF32 c (attr? as k)

def splitSp : List Char → List Char → List (List Char)
  | [], cur => if cur.isEmpty then [] else [cur]
  | ch :: r, cur =>
    if ch = ' ' then (if cur.isEmpty then splitSp r [] else cur :: splitSp r [])
    else splitSp r (cur ++ [ch])

/-- quick-xml `xs:list`: items separated by one or more blanks -/
def readValues (c : Codec) (s : String) : Option (List F32) :=
  (splitSp s.toList []).mapM fun w => c.readF32 (String.ofList w)

def readBool (s : String) : Option Bool :=
  if s = "true" ∨ s = "1" then some true
  else if s = "false" ∨ s = "0" then some false
  else none

/-- `#[serde(default)] hidden: bool` -/
def readHidden : Option String → Option Bool
  | none => some false
  | some s => readBool s

/-- `values: Option<Vec<f32>>` in an attribute -/
def readOptValues (c : Codec) : Option String → Option (Option (List F32))
  | none => some none
  | some s => (readValues c s).map some

/-- a `Vec` field without `default`: at least one element or "missing field" -/
def readVec1 {α : Type} (f : Tree → Option α) (n : String) (cs : List Tree) : Option (List α) :=
  match childrenNamed n cs with
  | [] => none
  | ts => ts.mapM f

def dimensionOf (c : Codec) : Tree → Option Dimension
  | .elem _ as _ => do
    let name ← attr? as "name"
    let u ← optF32Attr c as "uservalue"
    let x ← optF32Attr c as "xvalue"
    let y ← optF32Attr c as "yvalue"
    pure ⟨name, u, x, y⟩
  | .txt _ => none

/-- `serde_impls::location::deserialize`: exactly one `<location>` holding at least one `<dimension>` -/
def readLocation (c : Codec) (cs : List Tree) : Option (List Dimension) :=
  match oneChild "location" cs with
  | .one _ k => readVec1 (dimensionOf c) "dimension" k
  | _ => none

def mapOf (c : Codec) : Tree → Option AxisMapping
  | .elem _ as _ => do
    let i ← (attr? as "input").bind c.readF32
    let o ← (attr? as "output").bind c.readF32
    pure ⟨i, o⟩
  | .txt _ => none

/-- `map: Option<Vec<AxisMapping>>`: no `<map>` child = `None` -/
def readOptMaps (c : Codec) : List Tree → Option (Option (List AxisMapping))
  | [] => some none
  | ts => (ts.mapM (mapOf c)).map some

def axisOf (c : Codec) : Tree → Option Axis
  | .elem _ as cs => do
    let name ← attr? as "name"
    let tag ← attr? as "tag"
    let default ← (attr? as "default").bind c.readF32
    let hidden ← readHidden (attr? as "hidden")
    let minimum ← optF32Attr c as "minimum"
    let maximum ← optF32Attr c as "maximum"
    let values ← readOptValues c (attr? as "values")
    let map ← readOptMaps c (childrenNamed "map" cs)
    pure ⟨name, tag, default, hidden, minimum, maximum, values, map⟩
  | .txt _ => none

def conditionOf (c : Codec) : Tree → Option Condition
  | .elem _ as _ => do
    let name ← attr? as "name"
    let mn ← optF32Attr c as "minimum"
    let mx ← optF32Attr c as "maximum"
    pure ⟨name, mn, mx⟩
  | .txt _ => none

def conditionSetOf (c : Codec) : Tree → Option ConditionSet
  | .elem _ _ cs => ((childrenNamed "condition" cs).mapM (conditionOf c)).map ConditionSet.mk
  | .txt _ => none

/-- `Name::is_valid` (name.rs): non-empty, no C0/C1 control characters, no DEL -/
def nameValid (s : String) : Bool :=
  !s.toList.isEmpty && s.toList.all fun ch => !(ch.toNat ≤ 0x1f || (0x80 ≤ ch.toNat && ch.toNat ≤ 0x9f) || ch.toNat == 0x7f)

def subOf : Tree → Option Substitution
  | .elem _ as _ => do
    let n ← attr? as "name"
    let w ← attr? as "with"
    if nameValid n && nameValid w then pure ⟨n, w⟩ else none
  | .txt _ => none

def ruleOf (c : Codec) : Tree → Option Rule
  | .elem _ as cs => do
    let sets ← readVec1 (conditionSetOf c) "conditionset" cs
    let subs ← readVec1 subOf "sub" cs
    pure ⟨attr? as "name", sets, subs⟩
  | .txt _ => none

def readProcessing (s : String) : Option RuleProcessing :=
  if s = "first" then some .first else if s = "last" then some .last else none

/-- `#[serde(default)] processing` -/
def readOptProcessing : Option String → Option RuleProcessing
  | none => some .first
  | some s => readProcessing s

def readRules (c : Codec) (cs : List Tree) : Option Rules :=
  match oneChild "rules" cs with
  | .absent => some ⟨.first, []⟩
  | .dup => none
  | .one as k => do
    let p ← readOptProcessing (attr? as "processing")
    let rs ← (childrenNamed "rule" k).mapM (ruleOf c)
    pure ⟨p, rs⟩

def sourceOf (c : Codec) : Tree → Option Source
  | .elem _ as cs => do
    let filename ← attr? as "filename"
    let loc ← readLocation c cs
    pure ⟨attr? as "familyname", attr? as "stylename", attr? as "name", filename, attr? as "layer", loc⟩
  | .txt _ => none

def instanceOf (c : Codec) : Tree → Option Instance
  | .elem _ as cs => do
    let loc ← readLocation c cs
    let lib ← readLib c cs
    pure ⟨attr? as "familyname", attr? as "stylename", attr? as "name", attr? as "filename",
      attr? as "postscriptfontname", attr? as "stylemapfamilyname", attr? as "stylemapstylename", loc, lib⟩
  | .txt _ => none

/-- a list wrapper field without `default`: the wrapper must be present once and hold ≥ 1 item -/
def readWrapped {α : Type} (f : Tree → Option α) (wrapper item : String) (cs : List Tree) : Option (List α) :=
  match oneChild wrapper cs with
  | .one _ k => readVec1 f item k
  | _ => none

/-- the same with `#[serde(default)]`: an absent wrapper is the empty list -/
def readWrappedDefault {α : Type} (f : Tree → Option α) (wrapper item : String) (cs : List Tree) :
    Option (List α) :=
  match oneChild wrapper cs with
  | .absent => some []
  | .one _ k => readVec1 f item k
  | .dup => none

/-- `DesignSpaceDocument::load` from the XML tree; the root element's own name is not looked at -/
def fromTree (c : Codec) : Tree → Option Doc
  | .elem _ as cs => do
    let format ← (attr? as "format").bind c.readF32
    let axes ← readWrapped (axisOf c) "axes" "axis" cs
    let rules ← readRules c cs
    let sources ← readWrapped (sourceOf c) "sources" "source" cs
    let instances ← readWrappedDefault (instanceOf c) "instances" "instance" cs
    let lib ← readLib c cs
    pure ⟨format, axes, rules, sources, instances, lib⟩
  | .txt _ => none

/-- save then load, as one function -/
def saveLoad (c : Codec) (d : Doc) : Out (Option Doc) := (toTree c d).map (fromTree c)

end C18
