/-!
# Font save / load at the level "font = parts; each part has a codec to/from an abstract file value"
(C01, C04).  Core Lean only: this file is compiled into the driver.

Transcribed from `font.rs:215-313` (load_impl), `:423-556` (save_impl), `kerning.rs:45-60`,
`fontinfo.rs:1105-1167` (int-or-float writers), `fontinfo.rs:1013-1050` (object libs),
`layer.rs:58-106, 330-457` (layer set / layer reader and writer, layerinfo.plist),
`glyph/serialize.rs:316` (colour string), `util.rs:11` (recursive key sort).

What is *not* modelled here and enters as an opaque token that both codecs carry unchanged (the
round-trip hypotheses of the trusted base; other properties discharge them): glyph files (C02/C12),
font-info fields other than the numbers, unitsPerEm and the guidelines (C13/C05), store entries (C16),
file-name assignment (C06/C07), the XML plist reader/writer of the `plist` crate and the decimal
formatting/parsing of doubles (a value written as `<real>` reads back bit-identically).
-/
namespace RT

/-! ## exact numbers: a finite double is an exact rational -/

/-- `f64::EPSILON` = 2⁻⁵² -/
def eps : Rat := 1 / 4503599627370496

/-- `f64::trunc` (`as i32` also truncates toward zero) -/
def truncQ (x : Rat) : Int := if 0 ≤ x then x.floor else -((-x).floor)
/-- `f64::round`: half away from zero -/
def roundQ (x : Rat) : Int := if 0 ≤ x then (x + 1/2).floor else -((-x + 1/2).floor)
/-- `f64::fract` = `x - x.trunc()` (exact for every double) -/
def fractQ (x : Rat) : Rat := x - (truncQ x : Int)
def absQ (x : Rat) : Rat := if 0 ≤ x then x else -x
def i32Min : Int := -2147483648
def i32Max : Int := 2147483647
/-- the saturating float → `i32` cast applied to an integral value -/
def sat32 (n : Int) : Int := if n < i32Min then i32Min else if i32Max < n then i32Max else n

/-- what a number writer emits: `<integer>n</integer>` or `<real>x</real>` -/
inductive Num where
  | int (n : Int)
  | real (x : Rat)
deriving Repr, DecidableEq

def Num.val : Num → Rat
  | .int n => (n : Rat)
  | .real x => x

/-! ### the writers as they are on the pinned tree (`eb00306`), kept for the counterexample theorems -/

/-- `kerning.rs:51`: `if (v - v.round()).abs() < EPSILON { v as i32 } else { v }` -/
def kernWritePinned (v : Rat) : Num :=
  if absQ (v - (roundQ v : Int)) < eps then .int (sat32 (truncQ v)) else .real v
/-- `fontinfo.rs:1143`: `if self.0.fract().abs() <= EPSILON { self.0 as i32 }` -/
def infoWritePinned (v : Rat) : Num :=
  if absQ (fractQ v) ≤ eps then .int (sat32 (truncQ v)) else .real v
/-- `fontinfo.rs:1112` with `is_integer` = `fract().abs() < EPSILON` -/
def upmWritePinned (v : Rat) : Num :=
  if absQ (fractQ v) < eps then .int (sat32 (truncQ v)) else .real v

/-! ### the writers after the `fix:` commits (round before the cast; integer path only inside i32) -/

def fits32 (x : Rat) : Bool := decide ((i32Min : Rat) ≤ x) && decide (x ≤ (i32Max : Rat))

/-- `let rounded = v.round(); if (v - rounded).abs() < EPSILON && fits_i32 { rounded as i32 } else { v }` -/
def kernWrite (v : Rat) : Num :=
  if absQ (v - (roundQ v : Int)) < eps ∧ fits32 (roundQ v : Int) = true then .int (sat32 (roundQ v)) else .real v
/-- `if self.0.fract().abs() <= EPSILON && fits_i32 { self.0 as i32 } else { self.0 }` -/
def infoWrite (v : Rat) : Num :=
  if absQ (fractQ v) ≤ eps ∧ fits32 v = true then .int (sat32 (truncQ v)) else .real v
/-- `if self.is_integer() && self.0 <= i32::MAX as f64 { self.0 as i32 } else { self.0 }` -/
def upmWrite (v : Rat) : Num :=
  if absQ (fractQ v) < eps ∧ v ≤ (i32Max : Rat) then .int (sat32 (truncQ v)) else .real v

/-! ### doubles on the protocol: bit patterns -/

def pow2 (e : Int) : Rat :=
  if 0 ≤ e then ((2 ^ e.toNat : Nat) : Rat) else 1 / ((2 ^ (-e).toNat : Nat) : Rat)

/-- exact value of a finite double; `none` for ±inf and NaN -/
def decode (bits : Nat) : Option Rat :=
  let s : Nat := bits / 2 ^ 63 % 2
  let e : Nat := bits / 2 ^ 52 % 2048
  let m : Nat := bits % 2 ^ 52
  if e = 2047 then none else
  let mag : Rat :=
    if e = 0 then (m : Rat) * pow2 (-1074)
    else (((2 ^ 52 + m : Nat) : Int) : Rat) * pow2 ((e : Int) - 1075)
  some (if s = 1 then -mag else mag)

/-- a number held in memory: the double with these bits, or the double equal to an integer read from
    an `<integer>` element (exact for |n| ≤ 2⁵³) -/
inductive NumV where
  | bits (b : Nat)
  | ofInt (n : Int)
deriving Repr, DecidableEq

def NumV.val? : NumV → Option Rat
  | .bits b => decode b
  | .ofInt n => some (n : Rat)

/-- a number in a file: an integer, or a real holding (the shortest decimal form of) a value -/
inductive NumW where
  | int (n : Int)
  | real (v : NumV)
deriving Repr, DecidableEq

/-- run one of the writers on an in-memory number; non-finite values fail every integer test -/
def writeWith (w : Rat → Num) (v : NumV) : NumW :=
  match v.val? with
  | none => .real v
  | some q =>
    match w q with
    | .int k => .int k
    | .real _ => .real v

/-- reading: an integer becomes the double of that value, a real reads back as written -/
def readNum : NumW → NumV
  | .int n => .ofInt n
  | .real v => v

/-! ## plist values -/

inductive PV where
  | str (s : String)
  | int (n : Int)
  | real (b : Nat)
  | bool (b : Bool)
  | data (h : String)
  | date (s : String)
  | arr (l : List PV)
  | dict (l : List (String × PV))

abbrev Dict := List (String × PV)

def lookupKV (k : String) : Dict → Option PV
  | [] => none
  | (k', v) :: r => if k' = k then some v else lookupKV k r

def eraseKV (k : String) : Dict → Dict
  | [] => []
  | (k', v) :: r => if k' = k then eraseKV k r else (k', v) :: eraseKV k r

/-- stable insertion into a list sorted by key (`IndexMap::sort_keys` is a stable sort by key) -/
def insertKV (a : String × PV) : Dict → Dict
  | [] => [a]
  | b :: r => if b.1 < a.1 then b :: insertKV a r else a :: b :: r

def sortKV : Dict → Dict
  | [] => []
  | a :: r => insertKV a (sortKV r)

mutual
/-- `util::recursive_sort_plist_keys`: sort this dictionary, descend into values that are
    dictionaries (not into arrays) -/
def sortRec : PV → PV
  | .dict l => .dict (sortKV (sortRecL l))
  | v => v
def sortRecL : List (String × PV) → List (String × PV)
  | [] => []
  | (k, v) :: r => (k, sortRec v) :: sortRecL r
end

def sortDict (d : Dict) : Dict := sortKV (sortRecL d)

inductive Seg where
  | key (k : String)
  | idx (i : Nat)

/-- the sub-value at a path -/
def PV.get : PV → List Seg → Option PV
  | v, [] => some v
  | .dict l, .key k :: p =>
    match lookupKV k l with
    | some v => v.get p
    | none => none
  | .arr l, .idx i :: p =>
    match l[i]? with
    | some v => v.get p
    | none => none
  | _, _ => none

/-- what is observable at a node without looking at key order -/
inductive Leaf where
  | str (s : String) | int (n : Int) | real (b : Nat) | bool (b : Bool) | data (h : String) | date (s : String)
  | arrOf (n : Nat) | dictOf (n : Nat)
deriving DecidableEq

def PV.leaf : PV → Leaf
  | .str s => .str s | .int n => .int n | .real b => .real b | .bool b => .bool b
  | .data h => .data h | .date s => .date s
  | .arr l => .arrOf l.length | .dict l => .dictOf l.length

/-! ## the font and the abstract tree -/

def objectLibsKey : String := "public.objectLibs"
def defaultCreator : String := "org.linebender.norad"
def glyphsDir : String := "glyphs"

/-- The parts of a font this model does not look into, as PARAMETERS: their in-memory type, their
    file type and the codec between the two.  The driver instantiates them with opaque tokens
    (`tokenParts`); `Props/C01Bridge.lean` instantiates the glyph codec with the glif writer / parser
    of `Model/GlifWrite.lean` / `Model/Glif.lean`. -/
structure Parts where
  /-- a glyph in memory -/
  Glyph : Type
  /-- a glif file -/
  GlifFile : Type
  /-- `Glyph::encode_xml_with_options` -/
  encGlyph : Glyph → GlifFile
  /-- `Glyph::load` / `GlifParser` (`none` = the file is rejected) -/
  decGlyph : GlifFile → Option Glyph
  /-- the font-info fields other than the int-or-float numbers, unitsPerEm and the guidelines -/
  Rest : Type
  /-- their part of fontinfo.plist -/
  RestFile : Type
  encRest : Rest → RestFile
  /-- serde deserialisation of those keys (`none` = fontinfo.plist is rejected) -/
  decRest : RestFile → Option Rest
  /-- `FontInfo::validate` on those fields -/
  restValid : Rest → Bool

/-- opaque tokens carried unchanged: the instance the correspondence driver runs -/
abbrev tokenParts : Parts where
  Glyph := String
  GlifFile := String
  encGlyph := id
  decGlyph := some
  Rest := String
  RestFile := String
  encRest := id
  decRest := some
  restValid := fun _ => true

variable {P : Parts}

structure Guide where
  id : Option String
  lib : Option Dict
  /-- line, name, colour: not modelled (token) -/
  rest : String

structure Info (P : Parts) where
  /-- the int-or-float fields in struct order; list elements `key.i`, list lengths `key.n` -/
  nums : List (String × NumV) := []
  upm : Option NumV := none
  guides : Option (List Guide) := none
  /-- all other fields; `none` = all default -/
  rest : Option P.Rest := none

def Info.isEmpty {P : Parts} (i : (Info P)) : Bool := i.nums.isEmpty && i.upm.isNone && i.guides.isNone && i.rest.isNone

/-- a colour in memory: four doubles, or (after loading) the doubles nearest to k/1000 -/
inductive ColV where
  | bits (r g b a : Nat)
  | milli (r g b a : Nat)
deriving DecidableEq

structure GlyphE (P : Parts) where
  name : String
  file : String
  /-- the glyph itself -/
  tok : P.Glyph

structure Layer (P : Parts) where
  name : String
  dir : String
  color : Option ColV := none
  lib : Dict := []
  glyphs : List (GlyphE P) := []

structure Font (P : Parts) where
  creator : Option String
  fv : Nat
  minor : Nat
  info : (Info P)
  lib : Dict
  groups : List (String × List String)
  kerning : List (String × List (String × NumV))
  features : List Char
  layers : List (Layer P)
  data : List (String × String)
  images : List (String × String)

structure GuideF where
  id : Option String
  rest : String

structure InfoF (P : Parts) where
  nums : List (String × NumW)
  upm : Option NumW
  guides : Option (List GuideF)
  rest : Option P.RestFile

structure LayerInfoF where
  /-- the four channels in thousandths (the string `r,g,b,a` with at most three decimals) -/
  color : Option (Nat × Nat × Nat × Nat)
  lib : Option Dict

structure LayerDirF (P : Parts) where
  contents : List (String × String)
  info : Option LayerInfoF
  glifs : List (String × P.GlifFile)

structure Tree (P : Parts) where
  creator : Option String
  fv : Nat
  minor : Nat
  fontinfo : Option (InfoF P)
  lib : Option Dict
  groups : Option (List (String × List String))
  kerning : Option (List (String × List (String × NumW)))
  features : Option (List Char)
  layercontents : List (String × String)
  dirs : List (String × (LayerDirF P))
  data : List (String × String)
  images : List (String × String)

inductive Err where
  | downgrade | objectLibsKey | invalidInfo | layerDir | missingDefault | missingLayerDir | missingGlif
  | objectLibsNotDict | guideLibNotDict
deriving DecidableEq, Repr

inductive Out (α : Type) where
  | ok (a : α)
  | err (e : Err)
  | panic (site : String)

/-! ### per-part writers -/

def isLenKey (k : String) : Bool := k.endsWith ".n"

def saveNums (l : List (String × NumV)) : List (String × NumW) :=
  l.map fun e => (e.1, if isLenKey e.1 then .real e.2 else writeWith infoWrite e.2)
def loadNums (l : List (String × NumW)) : List (String × NumV) := l.map fun e => (e.1, readNum e.2)

def saveKerning (k : List (String × List (String × NumV))) : List (String × List (String × NumW)) :=
  k.map fun e => (e.1, e.2.map fun p => (p.1, writeWith kernWrite p.2))
def loadKerning (k : List (String × List (String × NumW))) : List (String × List (String × NumV)) :=
  k.map fun e => (e.1, e.2.map fun p => (p.1, readNum p.2))

/-- `features.replace("\r\n", "\n")` (only evaluated when a CR is present; the same function otherwise) -/
def crlfToLf : List Char → List Char
  | '\r' :: '\n' :: r => '\n' :: crlfToLf r
  | c :: r => c :: crlfToLf r
  | [] => []

/-- line-ending normal form used to compare feature text: every run of CRs directly in front of an LF
    is dropped (`replace("\r\n", "\n")` is not idempotent: CR CR LF ↦ CR LF ↦ LF) -/
def startsCRsLF : List Char → Bool
  | '\r' :: r => startsCRsLF r
  | '\n' :: _ => true
  | _ => false

def lfNorm : List Char → List Char
  | [] => []
  | c :: r => if c = '\r' ∧ startsCRsLF r = true then lfNorm r else c :: lfNorm r

/-- `FontInfo::validate`, the part that concerns modelled fields: guideline identifiers are unique -/
def idsNodup : List (Option String) → Bool
  | [] => true
  | none :: r => idsNodup r
  | some i :: r => !r.contains (some i) && idsNodup r

/-- `FontInfo::dump_object_libs`: `id.unwrap()` on a guideline that has a lib -/
def dumpObjectLibs : List Guide → Out Dict
  | [] => .ok []
  | g :: r =>
    match dumpObjectLibs r with
    | .ok d =>
      match g.lib, g.id with
      | none, _ => .ok d
      | some l, some i => .ok ((i, PV.dict l) :: d)
      | some _, none => .panic "dump_object_libs: guideline with a lib and no identifier"
    | o => o

/-- `{:.3}` of a channel in [0,1], in thousandths: round half to even on the exact value -/
def milliOf (q : Rat) : Nat :=
  let x := q * 1000
  let f := x.floor
  let r := x - (f : Int)
  let k := if r < 1/2 then f else if 1/2 < r then f + 1 else (if f % 2 = 0 then f else f + 1)
  k.toNat

def chanMilli (b : Nat) : Nat := match decode b with | some q => milliOf q | none => 0

def saveColor : ColV → Nat × Nat × Nat × Nat
  | .bits r g b a => (chanMilli r, chanMilli g, chanMilli b, chanMilli a)
  | .milli r g b a => (r, g, b, a)

def saveLayerInfo (l : (Layer P)) : Option LayerInfoF :=
  if l.color.isNone && l.lib.isEmpty then none
  else some { color := l.color.map saveColor, lib := if l.lib.isEmpty then none else some (sortDict l.lib) }

def saveLayerDir (l : (Layer P)) : (LayerDirF P) :=
  { contents := l.glyphs.map (fun g => (g.name, g.file)), info := saveLayerInfo l,
    glifs := l.glyphs.map (fun g => (g.file, P.encGlyph g.tok)) }

def nodupS : List String → Bool
  | [] => true
  | a :: r => !r.contains a && nodupS r

/-- `FontInfo::validate` on the un-modelled fields -/
def restOK (i : (Info P)) : Bool :=
  match i.rest with
  | some r => P.restValid r
  | none => true

def saveInfo (i : (Info P)) : (InfoF P) :=
  { nums := saveNums i.nums, upm := i.upm.map (writeWith upmWrite),
    guides := i.guides.map (fun gs => gs.map fun g => { id := g.id, rest := g.rest }),
    rest := i.rest.map P.encRest }

/-- the files written once the checks have passed; `ol` = the dumped object libs -/
def mkTree (f : (Font P)) (ol : Dict) : (Tree P) :=
  let lib1 := if ol.isEmpty then f.lib else f.lib ++ [(objectLibsKey, PV.dict ol)]
  { creator := if f.creator = some defaultCreator then f.creator else some defaultCreator
    fv := 3
    minor := if f.creator = some defaultCreator then f.minor else 0
    fontinfo := if f.info.isEmpty then none else some (saveInfo f.info)
    lib := if lib1.isEmpty then none else some (sortDict lib1)
    groups := if f.groups.isEmpty then none else some f.groups
    kerning := if f.kerning.isEmpty then none else some (saveKerning f.kerning)
    features := if f.features.isEmpty then none else some (crlfToLf f.features)
    layercontents := f.layers.map (fun l => (l.name, l.dir))
    dirs := f.layers.map (fun l => (l.dir, saveLayerDir l))
    data := f.data
    images := f.images }

/-- `Font::save_impl` -/
def saveFont (f : (Font P)) : Out (Tree P) :=
  if f.fv ≠ 3 then .err .downgrade else
  if (lookupKV objectLibsKey f.lib).isSome then .err .objectLibsKey else
  if !idsNodup ((f.info.guides.getD []).map (·.id)) then .err .invalidInfo else
  if !restOK f.info then .err .invalidInfo else
  match dumpObjectLibs (f.info.guides.getD []) with
  | .panic s => .panic s
  | .err e => .err e
  | .ok ol =>
    -- every layer directory is created with `create_dir`: a directory used twice is an error
    if !nodupS (f.layers.map (·.dir)) then .err .layerDir else .ok (mkTree f ol)

/-! ### per-part readers -/

def lookupS {α : Type} (k : String) : List (String × α) → Option α
  | [] => none
  | (k', v) :: r => if k' = k then some v else lookupS k r

/-- `FontInfo::load_object_libs`, the loop over the guidelines -/
def attachLibs : List GuideF → Dict → Out (List Guide)
  | [], _ => .ok []
  | g :: r, ol =>
    match g.id with
    | none =>
      match attachLibs r ol with
      | .ok gs => .ok ({ id := none, lib := none, rest := g.rest } :: gs)
      | o => o
    | some i =>
      match lookupKV i ol with
      | none =>
        match attachLibs r ol with
        | .ok gs => .ok ({ id := some i, lib := none, rest := g.rest } :: gs)
        | o => o
      | some (.dict l) =>
        match attachLibs r (eraseKV i ol) with
        | .ok gs => .ok ({ id := some i, lib := some l, rest := g.rest } :: gs)
        | o => o
      | some _ => .err .guideLibNotDict

def plainGuides (gs : List GuideF) : List Guide := gs.map fun g => { id := g.id, lib := none, rest := g.rest }

/-- serde deserialisation and `validate` of the un-modelled fields (`none` = fontinfo.plist is refused) -/
def loadRest (r : Option P.RestFile) : Option (Option P.Rest) :=
  match r with
  | none => some none
  | some rf =>
    match P.decRest rf with
    | some x => if P.restValid x then some (some x) else none
    | none => none

/-- `FontInfo::from_file` (format 3) on the modelled fields; returns the info and the remaining lib -/
def loadInfo (i : (InfoF P)) (lib : Dict) : Out (Info P × Dict) :=
  if !idsNodup ((i.guides.getD []).map (·.id)) then .err .invalidInfo else
  match loadRest i.rest with
  | none => .err .invalidInfo
  | some rest =>
  let base : (Info P) := { nums := loadNums i.nums, upm := i.upm.map readNum, guides := i.guides.map plainGuides, rest := rest }
  match lookupKV objectLibsKey lib with
  | none => .ok (base, lib)
  | some (.dict ol) =>
    match i.guides with
    | none => .ok (base, eraseKV objectLibsKey lib)
    | some gs =>
      match attachLibs gs ol with
      | .ok gs' => .ok ({ base with guides := some gs' }, eraseKV objectLibsKey lib)
      | .err e => .err e
      | .panic s => .panic s
  | some _ => .err .objectLibsNotDict

def loadGlyphs (d : (LayerDirF P)) : List (String × String) → Option (List (GlyphE P))
  | [] => some []
  | (n, file) :: r =>
    match (lookupS file d.glifs).bind P.decGlyph, loadGlyphs d r with
    | some tok, some gs => some ({ name := n, file := file, tok := tok } :: gs)
    | _, _ => none

def loadLayer (name dir : String) (d : (LayerDirF P)) : Option (Layer P) :=
  match loadGlyphs d d.contents with
  | none => none
  | some gs =>
    some { name := name, dir := dir,
           color := (d.info.bind (·.color)).map (fun c => ColV.milli c.1 c.2.1 c.2.2.1 c.2.2.2),
           lib := (d.info.bind (·.lib)).getD [], glyphs := gs }

def loadLayers (t : (Tree P)) : List (String × String) → Out (List (Layer P))
  | [] => .ok []
  | (n, dir) :: r =>
    match lookupS dir t.dirs with
    | none => .err .missingLayerDir
    | some d =>
      match loadLayer n dir d, loadLayers t r with
      | some l, .ok ls => .ok (l :: ls)
      | none, _ => .err .missingGlif
      | _, o => o

def findDefault : List (Layer P) → Option Nat
  | [] => none
  | l :: r => if l.dir = glyphsDir then some 0 else (findDefault r).map (· + 1)

/-- `layers.remove(default_idx); layers.insert(0, default_layer)` -/
def defaultFirst (ls : List (Layer P)) : Out (List (Layer P)) :=
  match findDefault ls with
  | none => .err .missingDefault
  | some i =>
    match ls[i]? with
    | some d => .ok (d :: ls.eraseIdx i)
    | none => .err .missingDefault

/-- `Font::load_impl` for a format-3 tree, everything requested -/
def loadFont (t : (Tree P)) : Out (Font P) :=
  let lib0 := t.lib.getD []
  let infoR : Out (Info P × Dict) := match t.fontinfo with
    | none => .ok ({}, lib0)
    | some i => loadInfo i lib0
  match infoR with
  | .err e => .err e
  | .panic s => .panic s
  | .ok (info, lib) =>
    match loadLayers t t.layercontents with
    | .err e => .err e
    | .panic s => .panic s
    | .ok ls =>
      match defaultFirst ls with
      | .err e => .err e
      | .panic s => .panic s
      | .ok layers =>
        .ok { creator := t.creator, fv := 3, minor := t.minor, info := info, lib := lib,
              groups := t.groups.getD [], kerning := (t.kerning.map loadKerning).getD [],
              features := t.features.getD [], layers := layers, data := t.data, images := t.images }

end RT
