import Norad.Base.Path
/-!
# C16 model: data and image stores (`datastore.rs`), and the store part of `Font::save`

`Store<T>` = `HashMap<PathBuf, RefCell<Item>>` is an association list from the *raw* key string (the
`PathBuf` first inserted stays the key of the map) to a cell; look-up compares the component form
(`Path.parse`), as `PathBuf`'s `Eq`/`Hash` do.  The disk is an explicit environment `Disk`: the
result of `std::fs::read(ufo_root/<dir>/<path>)` for the path handed to `get`; it may be replaced
by any other disk between two operations (`Op.setDisk`).

The model follows the code *after* the `fix:` commit that made the file-under-file rule symmetric
(`descendantInStore`).
-/
namespace C16
open Path

abbrev Bytes := List UInt8
abbrev Key := List Char

inductive Kind | data | image
  deriving DecidableEq, Repr

inductive Err | emptyPath | pathIsAbsolute | dirUnderFile | subdir | invalidImage | io
  deriving DecidableEq, Repr

inductive Cell
  | notLoaded
  | loaded (b : Bytes)
  | error (e : Err)
  deriving DecidableEq, Repr

abbrev Items := List (Key × Cell)

structure Store where
  kind : Kind
  items : Items
  deriving DecidableEq, Repr

/-- `std::fs::read(root/dir/path)`: `none` = any I/O error -/
abbrev Disk := Key → Option Bytes

def pngSig : Bytes := [137, 80, 78, 71, 13, 10, 26, 10]

/-- `font.rs`: `DATA_DIR`, `IMAGES_DIR` -/
def storeDirName : Kind → List Char
  | .data => ['d', 'a', 't', 'a']
  | .image => ['i', 'm', 'a', 'g', 'e', 's']

/-- the `StoreError` variant an error stands for -/
def Err.variantName : Err → List Char
  | .emptyPath => "EmptyPath".toList
  | .pathIsAbsolute => "PathIsAbsolute".toList
  | .dirUnderFile => "DirUnderFile".toList
  | .subdir => "Subdir".toList
  | .invalidImage => "InvalidImage".toList
  | .io => "Io".toList

/-- the early returns of the two `validate_entry`, in model order -/
def dataClauseErrs : List Err := [.emptyPath, .pathIsAbsolute, .dirUnderFile, .dirUnderFile]
def imageClauseErrs : List Err := [.emptyPath, .pathIsAbsolute, .subdir, .invalidImage]

/-- `items.contains_key(p)` -/
def hasKey (items : Items) (p : P) : Bool := items.any fun e => parse e.1 == p

/-- `datastore.rs:178-182`: some non-empty proper ancestor of the path is a key -/
def ancestorInStore (items : Items) (p : P) : Bool :=
  p.properAncestors.any fun a => !a.isEmpty && hasKey items a

/-- the symmetric clause (fix): the path is a proper ancestor of some key -/
def descendantInStore (items : Items) (p : P) : Bool :=
  items.any fun e => (parse e.1).startsWith p && parse e.1 != p

/-- `<Data as DataType>::validate_entry` -/
def validateData (k : Key) (items : Items) : Except Err Unit :=
  if k.isEmpty then .error .emptyPath
  else if (parse k).abs then .error .pathIsAbsolute
  else if ancestorInStore items (parse k) then .error .dirUnderFile
  else if descendantInStore items (parse k) then .error .dirUnderFile
  else .ok ()

/-- `path.parent().is_some_and(|p| !p.as_os_str().is_empty())` -/
def hasDirPart (p : P) : Bool :=
  match p.parent? with
  | none => false
  | some q => !q.isEmpty

/-- `<Image as DataType>::validate_entry`; the first three clauses are also `Image::new` -/
def validateImagePath (k : Key) : Except Err Unit :=
  if k.isEmpty then .error .emptyPath
  else if (parse k).abs then .error .pathIsAbsolute
  else if hasDirPart (parse k) then .error .subdir
  else .ok ()

def validateImage (k : Key) (b : Bytes) : Except Err Unit :=
  match validateImagePath k with
  | .error e => .error e
  | .ok _ => if pngSig.isPrefixOf b then .ok () else .error .invalidImage

def validate (kind : Kind) (k : Key) (items : Items) (b : Bytes) : Except Err Unit :=
  match kind with
  | .data => validateData k items
  | .image => validateImage k b

/-- `HashMap::get`: the entry whose key has the same components -/
def find? (items : Items) (k : Key) : Option (Key × Cell) :=
  items.find? fun e => parse e.1 == parse k

/-- `HashMap::insert`: an existing equal key keeps its `PathBuf`, the value is replaced -/
def setCell (items : Items) (k : Key) (c : Cell) : Items :=
  if hasKey items (parse k) then
    items.map fun e => if parse e.1 == parse k then (e.1, c) else e
  else items ++ [(k, c)]

/-- `Store::load_item` -/
def loadItem (kind : Kind) (disk : Disk) (k : Key) (items : Items) : Cell :=
  match disk k with
  | none => .error .io
  | some b =>
    match validate kind k items b with
    | .ok _ => .loaded b
    | .error e => .error e

def cellResult : Cell → Except Err Bytes
  | .loaded b => .ok b
  | .error e => .error e
  | .notLoaded => .error .io   -- `unreachable!()`: `get` never returns from a `NotLoaded` cell

/-- `Store::get`; the path read from the disk is the one handed in, not the stored key -/
def get (s : Store) (disk : Disk) (k : Key) : Store × Option (Except Err Bytes) :=
  match find? s.items k with
  | none => (s, none)
  | some (_, .notLoaded) =>
    let c := loadItem s.kind disk k s.items
    ({ s with items := setCell s.items k c }, some (cellResult c))
  | some (_, c) => (s, some (cellResult c))

/-- `Store::insert`: validation first, mutation only afterwards -/
def insert (s : Store) (k : Key) (b : Bytes) : Store × Except Err Unit :=
  match validate s.kind k s.items b with
  | .error e => (s, .error e)
  | .ok _ => ({ s with items := setCell s.items k (.loaded b) }, .ok ())

def remove (s : Store) (k : Key) : Store :=
  { s with items := s.items.filter fun e => !(parse e.1 == parse k) }

def clear (s : Store) : Store := { s with items := [] }

def keys (s : Store) : List Key := s.items.map (·.1)

def isEmpty (s : Store) : Bool := s.items.isEmpty

/-- `Store::iter`, consumed completely: `get` on every stored key, in map order -/
def iterFrom (s : Store) (disk : Disk) : List Key → Store × List (Key × Except Err Bytes)
  | [] => (s, [])
  | k :: r =>
    let (s1, v) := get s disk k
    let (s2, vs) := iterFrom s1 disk r
    (s2, (k, v.getD (.error .io)) :: vs)

def iter (s : Store) (disk : Disk) : Store × List (Key × Except Err Bytes) :=
  iterFrom s disk (keys s)

/-- `impl PartialEq for Store<T>`: as many entries, and every key of the left store is a key of the right one -/
def storeEq (a b : Store) : Bool :=
  a.items.length == b.items.length && a.items.all fun e => hasKey b.items (parse e.1)

/-- the fields of `Store<T>` the model accounts for: `items` (the association list), `ufo_root` (the directory the
    abstract `Disk` of the store is read below), `impl_type` (`kind`).  A clone is the same store value - root
    included -, the default store is the empty one. -/
def modelledFields : List String := ["items", "ufo_root", "impl_type"]

/-! ## Operation histories -/

inductive Op
  | insert (k : Key) (b : Bytes)
  | remove (k : Key)
  | get (k : Key)
  | clear
  | iter
  | keys
  | isEmpty
  /-- environment step: the disk changes arbitrarily -/
  | setDisk (d : Disk)

structure State where
  store : Store
  disk : Disk

inductive Obs
  | unit
  | ins (r : Except Err Unit)
  | got (r : Option (Except Err Bytes))
  | all (l : List (Key × Except Err Bytes))
  | ks (l : List Key)
  | flag (b : Bool)

def step (st : State) : Op → State × Obs
  | .insert k b => let (s, r) := insert st.store k b; ({ st with store := s }, .ins r)
  | .remove k => ({ st with store := remove st.store k }, .unit)
  | .get k => let (s, r) := get st.store st.disk k; ({ st with store := s }, .got r)
  | .clear => ({ st with store := clear st.store }, .unit)
  | .iter => let (s, r) := iter st.store st.disk; ({ st with store := s }, .all r)
  | .keys => (st, .ks (keys st.store))
  | .isEmpty => (st, .flag (isEmpty st.store))
  | .setDisk d => ({ st with disk := d }, .unit)

def run (st : State) : List Op → State
  | [] => st
  | op :: r => run (step st op).1 r

/-! ## `Store::new` on a listed directory -/

/-- what `read_dir` + `metadata` (not following symlinks) report for one entry -/
inductive NodeKind | file | dir | symlink
  deriving DecidableEq, Repr

/-- a directory tree as the list of its entries: relative name list ↦ kind -/
abbrev Listing := List (List (List Char) × NodeKind)

/-- the names joined by `/` (what `strip_prefix(&source_root)` leaves of an entry's path) -/
def keyOfNames : List (List Char) → Key
  | [] => []
  | [n] => n
  | n :: m :: rest => n ++ '/' :: keyOfNames (m :: rest)

/-- `Data::try_list_contents`: every plain file at any depth; anything that is neither a file nor a
    directory (a symlink) is refused -/
def listData (t : Listing) : Except Err (List Key) :=
  if t.any (fun e => e.2 == .symlink) then .error .io
  else .ok ((t.filter fun e => e.2 == .file).map fun e => keyOfNames e.1)

/-- `Image::try_list_contents`: the top level only; a directory or a symlink is refused -/
def listImages (t : Listing) : Except Err (List Key) :=
  let top := t.filter fun e => e.1.length == 1
  if top.any (fun e => e.2 != .file) then .error .subdir
  else .ok (top.map fun e => keyOfNames e.1)

def newStore (kind : Kind) (t : Listing) : Except Err Store :=
  match (match kind with | .data => listData t | .image => listImages t) with
  | .error e => .error e
  | .ok ks => .ok ⟨kind, ks.map fun k => (k, .notLoaded)⟩

/-! ## The store part of `Font::save` (`font.rs:436-442`, `:526-553`) -/

/-- phase 1: `for (path, entry) in data.iter().chain(images.iter())`, stopping at the first error -/
def forceUntilError (s : Store) (disk : Disk) : List Key → Store × Option Key
  | [] => (s, none)
  | k :: r =>
    match get s disk k with
    | (s1, some (.ok _)) => forceUntilError s1 disk r
    | (s1, _) => (s1, some k)

/-- one file-system effect of phase 2 -/
structure WriteFile where
  kind : Kind
  key : Key
  bytes : Bytes
  deriving DecidableEq, Repr

/-- phase 2 for one store: every entry is written with the bytes of its cell.  `none` stands for
    the `expect("internal error: should have been checked")` panic. -/
def writesOfItems (kind : Kind) : Items → Option (List WriteFile)
  | [] => some []
  | (k, .loaded b) :: r =>
    match writesOfItems kind r with
    | some ws => some (⟨kind, k, b⟩ :: ws)
    | none => none
  | _ :: _ => none

def writesOf (s : Store) : Option (List WriteFile) := writesOfItems s.kind s.items

inductive SaveOutcome
  | refused (k : Key)                    -- `InvalidStoreEntry`, returned before any effect
  | effects (ws : List WriteFile)        -- the wipe happens, then exactly these writes, in this order
  | panic
  deriving DecidableEq, Repr

/-- the stores' part of `save_impl`: returns the stores as the forced loads left them -/
def saveStores (data images : Store) (dd di : Disk) : (Store × Store) × SaveOutcome :=
  match forceUntilError data dd (keys data) with
  | (d1, some k) => ((d1, images), .refused k)
  | (d1, none) =>
    match forceUntilError images di (keys images) with
    | (i1, some k) => ((d1, i1), .refused k)
    | (i1, none) =>
      match writesOf d1, writesOf i1 with
      | some a, some b => ((d1, i1), .effects (a ++ b))
      | _, _ => ((d1, i1), .panic)

end C16
