/-!
# C11 model: contour acceptance (`src/glyph/builder.rs:73-168`)

Transcription of `OutlineBuilder::add_point` / `end_path`.  The off-curve counter is a `Nat`;
the `u32` saturation in the Rust is unreachable below 2^32 points (stated in DESIGN.md).
-/
namespace C11

inductive PT | move | line | off | curve | qcurve
  deriving DecidableEq, Repr

structure Pt where
  typ : PT
  smooth : Bool
  deriving DecidableEq, Repr

inductive Err | unexpectedMove | afterOff | smoothOff | tooMany | trailing
  deriving DecidableEq, Repr


def addPoint (empty : Bool) (n : Nat) (p : Pt) : Except Err Nat :=
  match p.typ with
  | .move => if empty then .ok n else .error .unexpectedMove
  | .line => if n > 0 then .error .afterOff else .ok n
  | .off => if p.smooth then .error .smoothOff else .ok (n + 1)
  | .qcurve => .ok 0
  | .curve => if n > 2 then .error .tooMany else .ok 0

def feed : List Pt → Bool → Nat → Except Err Nat
  | [], _, n => .ok n
  | p :: ps, e, n =>
    match addPoint e n p with
    | .error x => .error x
    | .ok n' => feed ps false n'

def isClosed : List Pt → Bool
  | [] => true
  | p :: _ => p.typ ≠ .move

/-- the wrap-around loop of `end_path` -/
def wrap : List Pt → Nat → Except Err Unit
  | [], _ => .ok ()
  | p :: ps, n =>
    match p.typ with
    | .off => wrap ps (n + 1)
    | .qcurve => .ok ()
    | .curve => if n > 2 then .error .tooMany else .ok ()
    | .line => .error .afterOff
    | .move => .ok ()   -- `unreachable!()` in the Rust; shown unreachable below

def endPath (pts : List Pt) (n : Nat) : Except Err Unit :=
  if n > 0 then (if isClosed pts then wrap pts n else .error .trailing) else .ok ()

def accepts (pts : List Pt) : Bool :=
  match feed pts true 0 with
  | .error _ => false
  | .ok n => match endPath pts n with | .ok _ => true | .error _ => false

/-- `parse_contour` + `end_path` for a whole outline: every contour must be accepted, empty
    contours are dropped (`builder.rs:162`), the others are returned point for point. -/
def parseContours : List (List Pt) → Option (List (List Pt))
  | [] => some []
  | c :: cs =>
    if accepts c then
      match parseContours cs with
      | none => none
      | some r => some (if c.isEmpty then r else c :: r)
    else none

end C11
