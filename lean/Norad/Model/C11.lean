/-!
# C11 model: contour acceptance (`src/glyph/builder.rs:73-168`)

Transcription of `OutlineBuilder::add_point` / `end_path`.  The off-curve counter is a `Nat`;
the `u32` saturation in the Rust is unreachable below 2^32 points (stated in DESIGN.md).
-/
namespace C11

inductive PT | move | line | off | curve | qcurve
  deriving DecidableEq, Repr

structure Pt where
  typ : PT
  smooth : Bool
  deriving DecidableEq, Repr

inductive Err | unexpectedMove | afterOff | smoothOff | tooMany | trailing
  deriving DecidableEq, Repr


def addPoint (empty : Bool) (n : Nat) (p : Pt) : Except Err Nat :=
  match p.typ with
  | .move => if empty then .ok n else .error .unexpectedMove
  | .line => if n > 0 then .error .afterOff else .ok n
  | .off => if p.smooth then .error .smoothOff else .ok (n + 1)
  | .qcurve => .ok 0
  | .curve => if n > 2 then .error .tooMany else .ok 0

def feed : List Pt → Bool → Nat → Except Err Nat
  | [], _, n => .ok n
  | p :: ps, e, n =>
    match addPoint e n p with
    | .error x => .error x
    | .ok n' => feed ps false n'

def isClosed : List Pt → Bool
  | [] => true
  | p :: _ => p.typ ≠ .move

/-- the wrap-around loop of `end_path` -/
def wrap : List Pt → Nat → Except Err Unit
  | [], _ => .ok ()
  | p :: ps, n =>
    match p.typ with
    | .off => wrap ps (n + 1)
    | .qcurve => .ok ()
    | .curve => if n > 2 then .error .tooMany else .ok ()
    | .line => .error .afterOff
    | .move => .ok ()   -- `unreachable!()` in the Rust; shown unreachable below

def endPath (pts : List Pt) (n : Nat) : Except Err Unit :=
  if n > 0 then (if isClosed pts then wrap pts n else .error .trailing) else .ok ()

def accepts (pts : List Pt) : Bool :=
  match feed pts true 0 with
  | .error _ => false
  | .ok n => match endPath pts n with | .ok _ => true | .error _ => false

/-- `parse_contour` + `end_path` for a whole outline: every contour must be accepted, empty
    contours are dropped (`builder.rs:162`), the others are returned point for point. -/
def parseContours : List (List Pt) → Option (List (List Pt))
  | [] => some []
  | c :: cs =>
    if accepts c then
      match parseContours cs with
      | none => none
      | some r => some (if c.isEmpty then r else c :: r)
    else none


/-! ## outlines with named points (`parse.rs` `parse_outline`, incl. the format-1 anchor upgrade) -/

/-- format 1: a contour of exactly one point that is a named `move` is an implicit anchor
    (`parse.rs:175-186`) -/
def isImplicitAnchor (c : List (Pt × Bool)) : Bool :=
  match c with
  | [(p, true)] => p.typ == .move
  | _ => false

/-- number the contours -/
def enumFrom {α : Type} (i : Nat) : List α → List (Nat × α)
  | [] => []
  | a :: r => (i, a) :: enumFrom (i + 1) r

/-- `parse_outline`: every contour passes the builder (point names play no part in that); empty contours
    are dropped; in format 1 the implicit anchors leave the contour list and become anchors.  Result: the
    kept contours and the anchors, each with its position in the document. -/
def parseOutline (v1 : Bool) (cs : List (List (Pt × Bool))) :
    Option (List (Nat × List (Pt × Bool)) × List Nat) :=
  match parseContours (cs.map (·.map Prod.fst)) with
  | none => none
  | some _ =>
    let ne := (enumFrom 0 cs).filter (fun e => !e.2.isEmpty)
    if v1 then
      some (ne.filter (fun e => !isImplicitAnchor e.2), (ne.filter (fun e => isImplicitAnchor e.2)).map (·.1))
    else some (ne, [])

end C11
