/-!
# C19 model — name interning shared between workers, parallel glyph loading and saving

Transcription (core Lean only, executable, total) of

* `src/names.rs`        `ParNameList::get` / `SeqNameList::get`: look the name up under the read lock;
                         if absent, take the write lock, `HashSet::insert` (which keeps the element that
                         is already there, if another thread got in between) and return a name.
                         The two lock sections are the two **atomic steps** `read` and `write` of a request.
* `src/layer.rs`        `Layer::load_impl`: every entry of `contents` (glyph name ↦ file) is one task:
                         intern the contents key, parse the file (which interns the `name` attribute and
                         every component base, `glyph/parse.rs:561` and `:271`), set `glyph.name` to the
                         interned contents key, hand `(name, glyph)` to the collector; the collector builds
                         a map keyed by glyph name; a task that fails makes the whole load fail.
* `src/layer.rs`        `Layer::save_with_options`: every entry of `contents` is one file write.

A *schedule* is a list of worker ids: the worker named next performs its next atomic step.  The
assignment of files to workers is arbitrary (work stealing = some assignment in hindsight: the per-glyph
closure never yields to rayon, so a task runs to completion on the thread that started it).

`NameObj.tag` is the identity of the allocation (`Arc` pointer); equality of names in norad is string
equality, which is what `View` keeps.
-/
namespace Par

abbrev Str := List Char

/-- a `Name` (`Arc<str>`): its text and the identity of the allocation -/
structure NameObj where
  str : Str
  tag : Nat
deriving DecidableEq, Repr

/-- `HashSet<Name>`: hashing and equality are those of the text -/
abbrev NameSet := List NameObj

/-- `HashSet::get` -/
def lookup (s : NameSet) (n : Str) : Option NameObj := s.find? (fun e => decide (e.str = n))

/-- `HashSet::insert`: an equal element that is already present is kept, the new one dropped -/
def insertIfAbsent (s : NameSet) (x : NameObj) : NameSet :=
  match lookup s x.str with
  | some _ => s
  | none => x :: s

/-- second atomic step of `get` (names.rs:54-55), on whatever the set holds *now*.
    `retStored = false` is the code as it is (returns the requested `Arc`); `retStored = true` is the
    variant that returns the element the set holds after the insert.  All theorems hold for both. -/
def writeStep (retStored : Bool) (s : NameSet) (req : NameObj) : NameSet × NameObj :=
  let s' := insertIfAbsent s req
  (s', if retStored then (lookup s' req.str).getD req else req)

/-- the double-checked form of the second step: look the name up again under the write lock; hand out the
    stored element if another thread got in between, otherwise insert and hand out the requested name.
    This IS `writeStep true` (`recheck_is_writeStep_true`), so every theorem covers it. -/
def writeStepRecheck (s : NameSet) (req : NameObj) : NameSet × NameObj :=
  match lookup s req.str with
  | some e => (s, e)
  | none => (req :: s, req)

/-- `get` with nothing in between its two steps (the sequential build; a single worker) -/
def getAtomic (retStored : Bool) (s : NameSet) (req : NameObj) : NameSet × NameObj :=
  match lookup s req.str with
  | some e => (s, e)
  | none => writeStep retStored s req

/-- `get` as it runs next to other threads: the read step sees `sRead`, and when it misses, the write step
    lands on `sWrite` — whatever the other threads have made of the set in between -/
def getSplit (retStored : Bool) (sRead sWrite : NameSet) (req : NameObj) : NameObj :=
  match lookup sRead req.str with
  | some e => e
  | none => (writeStep retStored sWrite req).2

/-! ## files, glyphs, what a font comparison sees -/

/-- one entry of `contents.plist` together with what the parser will ask of the name list -/
structure File where
  /-- glyph name in `contents.plist` -/
  key : Str
  /-- `name` attribute of the `.glif` (interned, then overwritten by the contents key) -/
  attr : Str
  /-- component bases in document order -/
  comps : List Str
  /-- everything else the file holds (never touched by interning) -/
  body : Nat
  /-- the file does not parse: the task fails after its requests -/
  bad : Bool
deriving DecidableEq, Repr

/-- the interning requests of a task, in program order (layer.rs:352, parse.rs:561, parse.rs:271) -/
def File.reqs (f : File) : List Str := f.key :: f.attr :: f.comps

structure Glyph where
  name : NameObj
  comps : List NameObj
  body : Nat
deriving DecidableEq, Repr

/-- what equality of fonts / the canonical dump sees of a glyph -/
structure View where
  name : Str
  comps : List Str
  body : Nat
deriving DecidableEq, Repr

def Glyph.view (g : Glyph) : View := ⟨g.name.str, g.comps.map (·.str), g.body⟩
def File.view (f : File) : View := ⟨f.key, f.comps, f.body⟩

/-- what a finished task hands to the collector -/
inductive Item
  | glyph (g : Glyph)
  | failed (key : Str)
  /-- a task finished without the results of its first two requests: impossible (`par_no_stuck`) -/
  | stuck
deriving DecidableEq, Repr

inductive IView
  | glyph (v : View)
  | failed (key : Str)
  | stuck
deriving DecidableEq, Repr

def Item.view : Item → IView
  | .glyph g => .glyph g.view
  | .failed k => .failed k
  | .stuck => .stuck

/-- what the task of file `f` must hand over -/
def File.expect (f : File) : IView := if f.bad then .failed f.key else .glyph f.view

/-- layer.rs:355-364: the glyph of a task from the names it was handed (first: contents key, second: the
    `name` attribute — dropped, `glyph.name = name.clone()` —, then the component bases) -/
def buildItem (f : File) (got : List NameObj) : Item :=
  if f.bad then .failed f.key else
  match got with
  | k :: _ :: cs => .glyph ⟨k, cs, f.body⟩
  | _ => .stuck

/-! ## workers and schedules -/

/-- a task in progress -/
structure Job where
  file : File
  /-- requests not yet started -/
  todo : List Str
  /-- the request that missed under the read lock and waits for the write lock -/
  wr : Option NameObj
  /-- names handed out so far, in request order -/
  got : List NameObj
deriving Repr

def Job.new (f : File) : Job := ⟨f, f.reqs, none, []⟩

structure Worker where
  cur : Option Job
  rest : List File
deriving Repr

/-- what the workers share: the name list, the collector, the allocator -/
structure Shared where
  set : NameSet
  /-- finished tasks in completion order -/
  out : List Item
  /-- identity of the next allocation -/
  next : Nat
deriving Repr

/-- one atomic step of a worker -/
def Worker.step (b : Bool) (w : Worker) (sh : Shared) : Worker × Shared :=
  match w.cur with
  | none =>
    match w.rest with
    | [] => (w, sh)
    | f :: r => (⟨some (Job.new f), r⟩, sh)
  | some j =>
    match j.wr with
    | some req =>
      -- write lock: insert unless present, return
      let p := writeStep b sh.set req
      (⟨some { j with wr := none, got := j.got ++ [p.2] }, w.rest⟩, { sh with set := p.1 })
    | none =>
      match j.todo with
      | n :: t =>
        -- `Name::new` allocates, then the read lock: look up
        match lookup sh.set n with
        | some e => (⟨some { j with todo := t, got := j.got ++ [e] }, w.rest⟩, { sh with next := sh.next + 1 })
        | none => (⟨some { j with todo := t, wr := some ⟨n, sh.next⟩ }, w.rest⟩, { sh with next := sh.next + 1 })
      | [] => (⟨none, w.rest⟩, { sh with out := sh.out ++ [buildItem j.file j.got] })

/-- worker `i` takes a step (an id outside the pool is a no-op) -/
def stepAt (b : Bool) : Nat → List Worker → Shared → List Worker × Shared
  | _, [], sh => ([], sh)
  | 0, w :: r, sh => let p := w.step b sh; (p.1 :: r, p.2)
  | i + 1, w :: r, sh => let p := stepAt b i r sh; (w :: p.1, p.2)

structure St where
  ws : List Worker
  sh : Shared
deriving Repr

def St.step (b : Bool) (st : St) (i : Nat) : St :=
  let p := stepAt b i st.ws st.sh
  ⟨p.1, p.2⟩

def run (b : Bool) (sched : List Nat) (st : St) : St := sched.foldl (St.step b) st

def Worker.done (w : Worker) : Bool := w.cur.isNone && w.rest.isEmpty
def St.allDone (st : St) : Bool := st.ws.all Worker.done

/-- start of a layer load: the name list as the previous layers left it, files assigned to workers -/
def St.init (s0 : NameSet) (next0 : Nat) (assign : List (List File)) : St :=
  ⟨assign.map (fun fs => ⟨none, fs⟩), ⟨s0, [], next0⟩⟩

/-! ## the collector (`collect::<Result<BTreeMap<Name, Glyph>, _>>`) -/

/-- a map keyed by glyph name -/
abbrev LayerMap := Str → Option View

def insertView (m : LayerMap) (v : View) : LayerMap := fun k => if k = v.name then some v else m k

def IView.isGlyph : IView → Bool
  | .glyph _ => true
  | _ => false

def IView.glyph? : IView → Option View
  | .glyph v => some v
  | _ => none

/-- `Err` as soon as one task failed, otherwise the map of all `(name, glyph)` pairs, later pairs
    replacing earlier ones with the same key -/
def layerOf (items : List IView) : Option LayerMap :=
  if items.all IView.isGlyph then some ((items.filterMap IView.glyph?).foldl insertView (fun _ => none))
  else none

/-- the same collector with the map kept as `BTreeMap` keeps it: a list sorted by key under the order `lt`
    of `Name`, an equal key replacing the entry -/
def insertSorted (lt : Str → Str → Bool) (v : View) : List View → List View
  | [] => [v]
  | w :: r =>
    if lt v.name w.name then v :: w :: r
    else if v.name = w.name then v :: r
    else w :: insertSorted lt v r

/-- the order of `Name`: `str::cmp` compares bytes; on valid UTF-8 that is the lexicographic order of the
    code points -/
def lexLt (a b : Str) : Bool := decide (a < b)

def sortedLayerOf (lt : Str → Str → Bool) (items : List IView) : Option (List View) :=
  if items.all IView.isGlyph then
    some ((items.filterMap IView.glyph?).foldl (fun m v => insertSorted lt v m) [])
  else none

/-- result of a (complete) parallel layer load under a schedule -/
def parLoad (b : Bool) (s0 : NameSet) (next0 : Nat) (assign : List (List File)) (sched : List Nat) :
    Option LayerMap :=
  layerOf ((run b sched (St.init s0 next0 assign)).sh.out.map Item.view)

/-! ## the sequential build: same interning, no interleaving, files in `contents` order -/

def internAll (b : Bool) : NameSet → Nat → List Str → NameSet × Nat × List NameObj
  | s, nx, [] => (s, nx, [])
  | s, nx, n :: t =>
    let p := getAtomic b s ⟨n, nx⟩
    let q := internAll b p.1 (nx + 1) t
    (q.1, q.2.1, p.2 :: q.2.2)

def seqItems (b : Bool) : NameSet → Nat → List File → NameSet × Nat × List Item
  | s, nx, [] => (s, nx, [])
  | s, nx, f :: fs =>
    let p := internAll b s nx f.reqs
    let q := seqItems b p.1 p.2.1 fs
    (q.1, q.2.1, buildItem f p.2.2 :: q.2.2)

def seqLoad (b : Bool) (s0 : NameSet) (next0 : Nat) (files : List File) : Option LayerMap :=
  layerOf ((seqItems b s0 next0 files).2.2.map Item.view)

/-! ## a font: the layers one after the other, sharing the name list (layer.rs:71-84) -/

structure LayerPlan where
  assign : List (List File)
  sched : List Nat
deriving Repr

/-- `none`: some layer's schedule stops before every worker is done (not a run of the program) -/
def parFont (b : Bool) : NameSet → Nat → List LayerPlan → Option (List (Option LayerMap))
  | _, _, [] => some []
  | s, nx, p :: ps =>
    let st := run b p.sched (St.init s nx p.assign)
    if st.allDone then
      (parFont b st.sh.set st.sh.next ps).map (fun r => layerOf (st.sh.out.map Item.view) :: r)
    else none

def seqFont (b : Bool) : NameSet → Nat → List (List File) → List (Option LayerMap)
  | _, _, [] => []
  | s, nx, fs :: r =>
    let q := seqItems b s nx fs
    layerOf (q.2.2.map Item.view) :: seqFont b q.1 q.2.1 r

/-! ## saving: one file write per `contents` entry -/

/-- `contents` entry: glyph name ↦ file name inside the layer directory -/
structure Entry where
  key : Str
  path : Str
deriving DecidableEq, Repr

/-- the layer directory: file name ↦ the glyph (by key) whose data the file holds -/
abbrev Dir := Str → Option Str

/-- `glyph.save_with_options(path.join(glyph_path))`: the file now holds that glyph's data -/
def writeEntry (d : Dir) (e : Entry) : Dir := fun p => if p = e.path then some e.key else d p

/-- the writes of a save in the order they land -/
def saveIn (order : List Entry) (d : Dir) : Dir := order.foldl writeEntry d

/-! ## executable helpers for the driver: a complete pseudo-random schedule -/

def lcg (x : Nat) : Nat := (x * 6364136223846793005 + 1442695040888963407) % 18446744073709551616

/-- ids of workers that still have something to do -/
def busy (ws : List Worker) : List Nat :=
  (ws.zipIdx.filter (fun p => !p.1.done)).map (·.2)

/-- run until every worker is done, choosing the next worker pseudo-randomly among the busy ones;
    returns the schedule actually taken (so that it can be re-run with `run`) -/
def runRandom (b : Bool) : Nat → Nat → St → List Nat → St × List Nat
  | 0, _, st, acc => (st, acc.reverse)
  | fuel + 1, x, st, acc =>
    match busy st.ws with
    | [] => (st, acc.reverse)
    | bs =>
      let x' := lcg x
      let i := bs.getD ((x' / 65536) % bs.length) 0
      runRandom b fuel x' (st.step b i) (i :: acc)

end Par
