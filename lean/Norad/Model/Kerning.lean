import Norad.Base.StrMap
/-!
# C15 / C10 model: groups validation and kerning upconversion

Transcription of `src/groups.rs:13-51` (`validate_groups`), `src/upconversion.rs:21-114`
(`upconvert_kerning`, `make_unique_group_name`, `find_known_kerning_groups`) and of the call site
`src/font.rs:239-251, 275-286` (`load_impl`: which files are read, when the conversion runs, where the
validator sits).  Every `unwrap` is an explicit `Res.panic`; the unbounded `while` of
`make_unique_group_name` takes fuel (`Res.outOfFuel` when it runs out — proved unreachable).

The two sets of groups to rename are visited in the order given to `upconvertWith`; the repaired code
(`BTreeSet`) visits them in sorted order, which is what `upconvertKerning` supplies.  The theorems of
C15 hold for every visiting order; C10 is about the order.
-/
namespace Kern
open StrMap

abbrev Groups := List (Str × List Str)
/-- second-side name ↦ value; the value is the bit pattern of the `f64` (never inspected) -/
abbrev Seconds := List (Str × UInt64)
abbrev Kerning := List (Str × Seconds)
abbrev Table := List (Str × Str)

def pfx1 : Str := "public.kern1.".toList
def pfx2 : Str := "public.kern2.".toList
def mmkL : Str := "@MMK_L_".toList
def mmkR : Str := "@MMK_R_".toList

inductive Res (α : Type) where
  | ok (a : α)
  | panic (site : String)
  | outOfFuel
  deriving Repr

/-! ### `Name::new` (`name.rs:27-56`) -/

def isCtl (c : Char) : Bool :=
  c.toNat ≤ 0x1f || (0x80 ≤ c.toNat && c.toNat ≤ 0x9f) || c.toNat == 0x7f

def validName (s : Str) : Bool := !s.isEmpty && !s.any isCtl

def mkName (s : Str) : Option Str := if validName s then some s else none

/-! ### `validate_groups` (`groups.rs:13-51`) -/

/-- the inner `for glyph_name in group_glyph_names { if !set.insert(..) { return Err } }` -/
def insertAll : List Str → List Str → Option (List Str)
  | set, [] => some set
  | set, m :: ms => if set.contains m then none else insertAll (m :: set) ms

inductive VErr | invalidName | overlapping
  deriving DecidableEq, Repr

/-- the loop over the map in key order, with the two `HashSet`s (membership only) -/
def validateLoop : Groups → List Str → List Str → Except VErr Unit
  | [], _, _ => .ok ()
  | (name, members) :: rest, k1, k2 =>
    if name.isEmpty then .error .invalidName
    else if pfx1.isPrefixOf name then
      if byteLen name == 13 then .error .invalidName
      else match insertAll k1 members with
        | none => .error .overlapping
        | some k1' => validateLoop rest k1' k2
    else if pfx2.isPrefixOf name then
      if byteLen name == 13 then .error .invalidName
      else match insertAll k2 members with
        | none => .error .overlapping
        | some k2' => validateLoop rest k1 k2'
    else validateLoop rest k1 k2

def validateGroups (g : Groups) : Except VErr Unit := validateLoop g [] []

/-! ### `make_unique_group_name` (`upconversion.rs:86-99`) -/

/-- the `while` loop: candidates `name1, name2, …`; `sfx` renders the counter (`{}` of an integer) -/
def tryNames (sfx : Nat → Str) (name : Str) (g : Groups) : Nat → Nat → Res Str
  | 0, _ => .outOfFuel
  | fuel + 1, c =>
    match mkName (name ++ sfx c) with
    | none => .panic "make_unique_group_name: Name::new(..).unwrap()"
    | some cand => if hasKey cand g then tryNames sfx name g fuel (c + 1) else .ok cand

def makeUnique (sfx : Nat → Str) (name : Str) (g : Groups) (fuel : Nat) : Res Str :=
  if hasKey name g then tryNames sfx name g fuel 1 else .ok name

/-! ### `find_known_kerning_groups` and the referenced groups (`upconversion.rs:28-46, 101-114`) -/

def knownFirst (g : Groups) : List Str := (keys g).filter (fun n => mmkL.isPrefixOf n)

def knownSecond (g : Groups) : List Str :=
  (keys g).filter (fun n => !mmkL.isPrefixOf n && mmkR.isPrefixOf n)

def referencedFirst (g : Groups) (k : Kerning) (glyphSet : List Str) : List Str :=
  (keys k).filter (fun f => hasKey f g && !glyphSet.contains f && !pfx1.isPrefixOf f)

def referencedSecond (g : Groups) (k : Kerning) (glyphSet : List Str) : List Str :=
  (k.flatMap (fun e => keys e.2)).filter
    (fun s => hasKey s g && !glyphSet.contains s && !pfx2.isPrefixOf s)

/-- the elements of `groups_first` (as a list with repetitions, in insertion order) -/
def firstSet (g : Groups) (k : Kerning) (glyphSet : List Str) : List Str :=
  knownFirst g ++ referencedFirst g k glyphSet

def secondSet (g : Groups) (k : Kerning) (glyphSet : List Str) : List Str :=
  knownSecond g ++ referencedSecond g k glyphSet

/-! ### the two renaming loops (`upconversion.rs:49-68`) -/

/-- one loop: visit `order`; each group gets a copy under `pfx ++ name.replace(legacy, "")`, made unique
    against the *growing* map.  State: the growing map and the old ↦ new table. -/
def renameSide (sfx : Nat → Str) (pfx legacy : Str) :
    List Str → Groups → Table → Res (Groups × Table)
  | [], g, tbl => .ok (g, tbl)
  | n :: ns, g, tbl =>
    match mkName (pfx ++ removeAll legacy n) with
    | none => .panic "upconvert_kerning: Name::new(..).unwrap()"
    | some base =>
      match makeUnique sfx base g (g.length + 1) with
      | .panic s => .panic s
      | .outOfFuel => .outOfFuel
      | .ok u =>
        match lookup n g with
        | none => .panic "upconvert_kerning: groups_new.get(..).unwrap()"
        | some members => renameSide sfx pfx legacy ns ((u, members) :: g) ((n, u) :: tbl)

/-! ### rewriting the pairs (`upconversion.rs:70-81`) -/

/-- `table.get(name).unwrap_or(name)` -/
def rn (t : Table) (n : Str) : Str := (lookup n t).getD n

def rewriteSeconds (t2 : Table) (secs : Seconds) : Seconds :=
  secs.foldl (fun acc e => insert (rn t2 e.1) e.2 acc) []

def rewriteKerning (t1 t2 : Table) (k : Kerning) : Kerning :=
  k.foldl (fun acc e => insert (rn t1 e.1) (rewriteSeconds t2 e.2) acc) []

structure UpOut where
  groups : Groups
  kerning : Kerning
  t1 : Table
  t2 : Table

/-- `upconvert_kerning` with the visiting orders of the two sets given explicitly -/
def upconvertWith (sfx : Nat → Str) (ord1 ord2 : List Str) (g : Groups) (k : Kerning) : Res UpOut :=
  match renameSide sfx pfx1 mmkL ord1 g [] with
  | .panic s => .panic s
  | .outOfFuel => .outOfFuel
  | .ok (g1, t1) =>
    match renameSide sfx pfx2 mmkR ord2 g1 [] with
    | .panic s => .panic s
    | .outOfFuel => .outOfFuel
    | .ok (g2, t2) => .ok ⟨g2, rewriteKerning t1 t2 k, t1, t2⟩

/-- `upconvert_kerning` as repaired: both sets are `BTreeSet`s, visited in sorted order -/
def upconvertKerning (sfx : Nat → Str) (g : Groups) (k : Kerning) (glyphSet : List Str) : Res UpOut :=
  upconvertWith sfx (sortDedup (firstSet g k glyphSet)) (sortDedup (secondSet g k glyphSet)) g k

/-! ### the call site in `Font::load_impl` (`font.rs:239-251, 275-286, 626-631`) -/

inductive LoadErr | invalidGroups | upconversionFailure
  deriving DecidableEq, Repr

/-- groups and kerning of the loaded font.  `groups`/`kerning` = `none` when the file is absent.
    `load_groups` validates what it read (every format); formats 1 and 2 convert when a groups file
    exists and validate the result. -/
def loadGroupsKerning (sfx : Nat → Str) (fmt : Nat) (groups : Option Groups) (kerning : Option Kerning)
    (glyphSet : List Str) : Res (Except LoadErr (Groups × Kerning)) :=
  match groups with
  | none => .ok (.ok ([], kerning.getD []))
  | some g =>
    match validateGroups g with
    | .error _ => .ok (.error .invalidGroups)
    | .ok () =>
      if fmt == 3 then .ok (.ok (g, kerning.getD []))
      else
        match upconvertKerning sfx g (kerning.getD []) glyphSet with
        | .panic s => .panic s
        | .outOfFuel => .outOfFuel
        | .ok o =>
          match validateGroups (sortEntries o.groups) with
          | .error _ => .ok (.error .upconversionFailure)
          | .ok () => .ok (.ok (o.groups, o.kerning))

/-! ### robofab feature blocks (`upconversion.rs:158-180`, `font.rs:290-298`), as repaired -/

/-- `for key in order { if let Some(txt) = features_split.get(&key) { push_str(txt) } }` -/
def joinBlocks (blocks : List (Str × Str)) : List Str → Str
  | [] => []
  | t :: ts => (match lookup t blocks with | some txt => txt | none => []) ++ joinBlocks blocks ts

/-- the text built from the lib of a format 1 font, for a given order of the tags when there is no
    `featureorder` list (`keys` = iteration order of the `HashMap` before the repair) -/
def featuresTextWith (keysOrder : List Str) (classes : Option Str) (order : Option (List Str))
    (blocks : Option (List (Str × Str))) : Str :=
  (classes.getD []) ++
  (match blocks with
   | none => []
   | some b => '\n' :: joinBlocks b (order.getD keysOrder))

/-- as repaired: without a `featureorder` the tags are sorted -/
def featuresText (classes : Option Str) (order : Option (List Str)) (blocks : Option (List (Str × Str))) : Str :=
  featuresTextWith (sortDedup (keys (blocks.getD []))) classes order blocks

/-- the lib keys of the robofab data (`LibData`, `upconversion.rs:127-137`; all four are removed from the lib) -/
def robofabHintKey : Str := "org.robofab.postScriptHintData".toList
def robofabClassesKey : Str := "org.robofab.opentype.classes".toList
def robofabOrderKey : Str := "org.robofab.opentype.featureorder".toList
def robofabFeaturesKey : Str := "org.robofab.opentype.features".toList

/-- collections whose iteration order is a function of their contents: what `sortDedup` / `sortEntries`
    model (`HashMap.keys.sorted` = the keys of a hash map collected into a `Vec` and `.sort()`ed), and the two
    harmless shapes of a walk over a hashed collection: collected and sorted at once, or consumed by an
    order-insensitive consumer (`any`, `all`, `count`, `sum`, `contains`, `min`, `max`, collected into a set/map) -/
def orderedCollections : List String :=
  ["BTreeSet", "BTreeMap", "HashMap.keys.sorted",
   -- walks over a hashed collection whose order cannot reach the result (extractor's classification):
   "Hash.sorted", "Hash.order-insensitive"]

/-! ### what is written from `BTreeMap`s (groups.plist, kerning.plist, contents.plist)

serde serialises a `BTreeMap` by iterating it, i.e. in ascending key order, whatever the insertion
history; the map is the association list, the written order is `sortEntries`. -/

def writeMap {β : Type} (m : List (Str × β)) : List (Str × β) := sortEntries m

/-- kerning.plist: `KerningSerializer` walks the outer and every inner `BTreeMap` -/
def writeKerning (k : Kerning) : List (Str × Seconds) := sortEntries (k.map (fun e => (e.1, sortEntries e.2)))

/-- decimal rendering of the counter -/
def decimal (n : Nat) : Str := (Nat.repr n).toList

end Kern
