import Norad.Model.AbsFS
/-!
# `Font::save_impl` (font.rs:423-556) and `Layer::save_with_options` (layer.rs:432-457) over the
abstract file system (core Lean only) — shared by C08 and C09

The font is abstract: every part is a token (`Nat`, `0` = the empty default) plus the booleans the
orchestration looks at (validity, serialisability, emptiness).  What the validators *mean* is proved
elsewhere (C13, C15); here only *when* they run matters.  File contents are `cfg.render part` for an
uninterpreted `render`; store contents are written verbatim.

Order transcribed: (1) format version, (2) `public.objectLibs` in the font lib, (3) `validate_groups`,
(4) `FontInfo::validate`, (5) one `get` on every data and image cell, — no file-system effect so far —
(6) `exists` → `remove_dir_all`, (7) `create_dir`, (8) the files in the order of the code.
A failed step keeps the state reached.
-/
namespace FontSave
open AbsFS
open Path (Comp)

abbrev Str := List Char

/-! ## the abstract font -/

inductive StoreKind | data | images
  deriving DecidableEq, Repr

inductive Cell (β : Type) where
  | notLoaded
  | loaded (b : β)
  | error
  deriving DecidableEq, Repr

/-- `Store<T>`: `ufo_root` and the items in iteration (hash) order -/
structure Store (β : Type) where
  root : APath
  items : List (Path.P × Cell β)
  deriving DecidableEq, Repr

structure AGuide where
  ident : Option Str
  lib : Option Nat
  deriving DecidableEq, Repr

/-- font info: everything except the guideline libs is one token (`0` = `FontInfo::default()`);
    `valid` = `FontInfo::validate()` is `Ok`; `serialisable` = the serde writer accepts it -/
structure AInfo where
  body : Nat
  guides : List AGuide
  valid : Bool
  serialisable : Bool
  deriving DecidableEq, Repr

def AInfo.isEmpty (i : AInfo) : Bool := i.body == 0 && i.guides.isEmpty

/-- value of a font-lib entry: opaque, or the (still unconsumed) `public.objectLibs` value -/
inductive LVal where
  | v (n : Nat)
  | objNotDict
  | objDict (d : List (Str × Option Nat))   -- `none`: the entry is not a dictionary
  deriving DecidableEq, Repr

/-- glyph as far as saving is concerned: a token and whether `encode_xml` succeeds -/
structure AGlyph where
  tok : Nat
  encodable : Bool
  deriving DecidableEq, Repr

/-- one entry of `Layer.contents` (BTreeMap order) with the glyph found in `Layer.glyphs`
    (`none` = missing: the `expect` of layer.rs:449) -/
structure AEntry where
  name : Str
  file : Str
  glyph : Option AGlyph
  deriving DecidableEq, Repr

structure ALayer where
  name : Str
  dir : Str          -- `Layer.path`
  info : Nat         -- colour and lib as one token; `0` = neither (no layerinfo.plist)
  entries : List AEntry
  deriving DecidableEq, Repr

structure AFont (β : Type) where
  version : Nat
  metaTok : Nat
  info : AInfo
  lib : List (Str × LVal)
  groups : Nat
  groupsValid : Bool
  kerning : Nat
  features : Nat
  layers : List ALayer
  data : Store β
  images : Store β
  deriving DecidableEq, Repr

def AFont.store {β : Type} (f : AFont β) : StoreKind → Store β
  | .data => f.data
  | .images => f.images

def objectLibsKey : Str := "public.objectLibs".toList

/-- what a written file is rendered from -/
inductive Part where
  | metainfo (m : Nat)
  | fontinfo (i : AInfo)
  | lib (l : List (Str × LVal)) (objectLibs : List (Str × Nat))
  | groups (g : Nat)
  | kerning (k : Nat)
  | features (f : Nat)
  | layercontents (l : List (Str × Str))
  | contents (c : List (Str × Str))
  | layerinfo (i : Nat)
  | glif (g : Nat)
  | truncated          -- what `File::create` + a failed serialiser leave behind
  deriving DecidableEq, Repr

structure Cfg (β : Type) where
  render : Part → β
  /-- `validate_entry` at first access: kind, all keys of the store, the key, the bytes read -/
  entryOk : StoreKind → List Path.P → Path.P → β → Bool

inductive Refusal
  | downgrade | objectLibsKey | invalidGroups | invalidFontInfo | invalidStoreEntry
  deriving DecidableEq, Repr

inductive SaveErr
  | refused (k : Refusal)
  | cleanup (e : IoErr)
  | io (e : IoErr)
  | serialise
  | panic
  deriving DecidableEq, Repr

variable {β : Type}

/-! ## paths -/

def tC (t : APath) : List Comp := t.map .normal

/-- `base.join(rel)` for a non-empty `base`: an absolute right side replaces, a leading `.` vanishes -/
def joinRel (base : List Comp) (rel : Path.P) : List Comp :=
  if rel.abs then rel.comps
  else base ++ (match rel.comps with
    | .cur :: r => r
    | l => l)

def sub (t : APath) (name : String) : List Comp := tC t ++ [.normal name.toList]

def storeDirName : StoreKind → String
  | .data => "data"
  | .images => "images"

/-! ## step 5: forcing the lazy cells (`Store::get`, datastore.rs:280-311) -/

def forceCell (cfg : Cfg β) (kind : StoreKind) (fs : FS β) (root : APath) (keys : List Path.P)
    (k : Path.P) : Cell β → Cell β
  | .notLoaded =>
    match readFile fs (joinRel (sub root (storeDirName kind)) k) with
    | .ok b => if cfg.entryOk kind keys k b then .loaded b else .error
    | .error _ => .error
  | c => c

/-- the loop of font.rs:438-442 over one store: `none` at the first cell in error state -/
def forceList (cfg : Cfg β) (kind : StoreKind) (fs : FS β) (root : APath) (keys : List Path.P) :
    List (Path.P × Cell β) → Option (List (Path.P × β))
  | [] => some []
  | (k, c) :: r =>
    match forceCell cfg kind fs root keys k c with
    | .loaded b =>
      match forceList cfg kind fs root keys r with
      | some l => some ((k, b) :: l)
      | none => none
    | _ => none

def forceStore (cfg : Cfg β) (kind : StoreKind) (fs : FS β) (s : Store β) : Option (List (Path.P × β)) :=
  forceList cfg kind fs s.root (s.items.map (·.1)) s.items

def hasObjectLibsKey (lib : List (Str × LVal)) : Bool := lib.any (fun e => e.1 == objectLibsKey)

/-- steps 1–5: nothing here touches the file system -/
def validatePhase (cfg : Cfg β) (f : AFont β) (fs : FS β) :
    Except Refusal (List (Path.P × β) × List (Path.P × β)) :=
  if f.version ≠ 3 then .error .downgrade
  else if hasObjectLibsKey f.lib then .error .objectLibsKey
  else if !f.groupsValid then .error .invalidGroups
  else if !f.info.valid then .error .invalidFontInfo
  else
    match forceStore cfg .data fs f.data with
    | none => .error .invalidStoreEntry
    | some d =>
      match forceStore cfg .images fs f.images with
      | none => .error .invalidStoreEntry
      | some i => .ok (d, i)

/-! ## steps 7–8 as a plan of effects -/

inductive Eff (β : Type) where
  | mkdir (cs : List Comp)
  | mkdirAll (cs : List Comp)
  | write (cs : List Comp) (b : β)
  | fail (e : SaveErr)

def runEff (e : Eff β) (fs : FS β) : Option SaveErr × FS β :=
  match e with
  | .mkdir cs =>
    match mkdir fs cs with
    | .ok fs' => (none, fs')
    | .error x => (some (.io x), fs)
  | .mkdirAll cs =>
    match mkdirAll fs cs with
    | (fs', none) => (none, fs')
    | (fs', some x) => (some (.io x), fs')
  | .write cs b =>
    match writeFile fs cs b with
    | .ok fs' => (none, fs')
    | .error x => (some (.io x), fs)
  | .fail x => (some x, fs)

def runEffs : List (Eff β) → FS β → Option SaveErr × FS β
  | [], fs => (none, fs)
  | e :: r, fs =>
    match runEff e fs with
    | (none, fs') => runEffs r fs'
    | (some x, fs') => (some x, fs')

/-- `FontInfo::dump_object_libs`: `none` = the `unwrap` on a guideline with a lib and no identifier -/
def dumpObjectLibs : List AGuide → Option (List (Str × Nat))
  | [] => some []
  | g :: r =>
    match g.lib with
    | none => dumpObjectLibs r
    | some l =>
      match g.ident with
      | none => none
      | some i =>
        match dumpObjectLibs r with
        | some t => some ((i, l) :: t)
        | none => none

def contentsFile : String := "contents.plist"
def layerinfoFile : String := "layerinfo.plist"

def planGlyph (cfg : Cfg β) (ldir : List Comp) (e : AEntry) : List (Eff β) :=
  match e.glyph with
  | none => [.fail .panic]
  | some g =>
    if g.encodable then [.write (joinRel ldir (Path.parse e.file)) (cfg.render (.glif g.tok))]
    else [.fail .serialise]

/-- `Layer::save_with_options` -/
def planLayer (cfg : Cfg β) (t : APath) (l : ALayer) : List (Eff β) :=
  let ldir := joinRel (tC t) (Path.parse l.dir)
  [.mkdir ldir,
   .write (ldir ++ [.normal contentsFile.toList]) (cfg.render (.contents (l.entries.map fun e => (e.name, e.file))))] ++
  (if l.info = 0 then [] else [.write (ldir ++ [.normal layerinfoFile.toList]) (cfg.render (.layerinfo l.info))]) ++
  l.entries.flatMap (planGlyph cfg ldir)

def planDataItem (t : APath) (kb : Path.P × β) : List (Eff β) :=
  let dest := joinRel (sub t "data") kb.1
  [.mkdirAll dest.dropLast, .write dest kb.2]

def planImages (t : APath) (items : List (Path.P × β)) : List (Eff β) :=
  if items.isEmpty then []
  else .mkdir (sub t "images") :: items.map fun kb => .write (joinRel (sub t "images") kb.1) kb.2

def planFontinfo (cfg : Cfg β) (t : APath) (i : AInfo) : List (Eff β) :=
  if i.isEmpty then []
  else if i.serialisable then [.write (sub t "fontinfo.plist") (cfg.render (.fontinfo i))]
  else [.write (sub t "fontinfo.plist") (cfg.render .truncated), .fail .serialise]

def planLib (cfg : Cfg β) (t : APath) (f : AFont β) : List (Eff β) :=
  match dumpObjectLibs f.info.guides with
  | none => [.fail .panic]
  | some ol =>
    if f.lib.isEmpty && ol.isEmpty then [] else [.write (sub t "lib.plist") (cfg.render (.lib f.lib ol))]

def planOpt (t : APath) (name : String) (tok : Nat) (b : β) : List (Eff β) :=
  if tok = 0 then [] else [.write (sub t name) b]

/-- everything after the wipe, in the order of font.rs:450-553 -/
def plan (cfg : Cfg β) (f : AFont β) (d i : List (Path.P × β)) (t : APath) : List (Eff β) :=
  [.mkdir (tC t), .write (sub t "metainfo.plist") (cfg.render (.metainfo f.metaTok))] ++
  planFontinfo cfg t f.info ++
  planLib cfg t f ++
  planOpt t "groups.plist" f.groups (cfg.render (.groups f.groups)) ++
  planOpt t "kerning.plist" f.kerning (cfg.render (.kerning f.kerning)) ++
  planOpt t "features.fea" f.features (cfg.render (.features f.features)) ++
  [.write (sub t "layercontents.plist") (cfg.render (.layercontents (f.layers.map fun l => (l.name, l.dir))))] ++
  f.layers.flatMap (planLayer cfg t) ++
  d.flatMap (planDataItem t) ++
  planImages t i

/-- step 6: `if path.exists() { remove_dir_all(path)? }` -/
def wipe (fs : FS β) (t : APath) : Except IoErr (FS β) :=
  if existsAt fs (tC t) then removeDirAll fs (tC t) else .ok fs

def saveImpl (cfg : Cfg β) (f : AFont β) (fs : FS β) (t : APath) : Option SaveErr × FS β :=
  match validatePhase cfg f fs with
  | .error k => (some (.refused k), fs)
  | .ok (d, i) =>
    match wipe fs t with
    | .error e => (some (.cleanup e), fs)
    | .ok fs1 => runEffs (plan cfg f d i t) fs1

/-! ## specification side (C09): safe relative paths and the files a font determines -/

def namesOf (p : Path.P) : List Name :=
  p.comps.filterMap fun c => match c with
    | .normal n => some n
    | _ => none

/-- a relative path made of one or more normal components: no root, no `.`, no `..`, not empty -/
def safeRel (p : Path.P) : Bool := !p.abs && !p.comps.isEmpty && p.allNormal

/-- every relative path the save joins onto the target is safe: layer directories, glif file names, store keys -/
def safePaths (f : AFont β) : Bool :=
  f.layers.all (fun l => safeRel (Path.parse l.dir) && l.entries.all fun e => safeRel (Path.parse e.file)) &&
  f.data.items.all (fun kc => safeRel kc.1) && f.images.items.all (fun kc => safeRel kc.1)

/-- all non-empty proper prefixes of `names`, under `base` -/
def dirsBelow (base : APath) : List Name → List APath
  | [] => []
  | [_] => []
  | n :: r => (base ++ [n]) :: dirsBelow (base ++ [n]) r

def expTop (t : APath) (name : String) : APath × Bool := (t ++ [name.toList], true)

/-- a layer: its directory, `contents.plist`, `layerinfo.plist` iff colour or lib, one glif per contents entry -/
def expLayer (t : APath) (l : ALayer) : List (APath × Bool) :=
  let d := t ++ namesOf (Path.parse l.dir)
  [(d, false), (d ++ [contentsFile.toList], true)] ++
  (if l.info = 0 then [] else [(d ++ [layerinfoFile.toList], true)]) ++
  l.entries.map fun e => (d ++ namesOf (Path.parse e.file), true)

/-- a data entry: `data/`, the directories on the way, the file -/
def expDataItem (t : APath) (key : Path.P) : List (APath × Bool) :=
  (t ++ ["data".toList], false) :: (dirsBelow (t ++ ["data".toList]) (namesOf key)).map (·, false) ++
  [(t ++ ["data".toList] ++ namesOf key, true)]

/-- `images/` (flat) iff there is an image -/
def expImages (t : APath) (keys : List Path.P) : List (APath × Bool) :=
  if keys.isEmpty then [] else
    (t ++ ["images".toList], false) :: keys.map fun key => (t ++ ["images".toList] ++ namesOf key, true)

def hasLibFile (f : AFont β) : Bool := !(f.lib.isEmpty && ((dumpObjectLibs f.info.guides).getD []).isEmpty)

/-- the paths below (and including) the target that a font with safe paths determines: `(path, isFile)` -/
def expectedPaths (f : AFont β) (t : APath) : List (APath × Bool) :=
  [(t, false), expTop t "metainfo.plist"] ++
  (if f.info.isEmpty then [] else [expTop t "fontinfo.plist"]) ++
  (if hasLibFile f then [expTop t "lib.plist"] else []) ++
  (if f.groups = 0 then [] else [expTop t "groups.plist"]) ++
  (if f.kerning = 0 then [] else [expTop t "kerning.plist"]) ++
  (if f.features = 0 then [] else [expTop t "features.fea"]) ++
  [expTop t "layercontents.plist"] ++
  f.layers.flatMap (expLayer t) ++
  (f.data.items.map (·.1)).flatMap (expDataItem t) ++
  expImages t (f.images.items.map (·.1))

end FontSave
