import Norad.Model.C11
/-!
# C20 model: contour → Bézier path (`src/glyph/mod.rs:302-371`, `Contour::to_kurbo`) and the
point transform / affine conversions (`src/glyph/mod.rs:606-612`, `:717-744`)

Transcription of the code **after** the three `fix:` commits of branch `fix/c20` (a `curve` / `qcurve`
point without pending off-curves draws a line; a closed contour of off-curve points only starts at
the implied point between its last and first point).  Coordinates are an abstract type `α` with an
abstract midpoint `mid` (`kurbo::Point::midpoint`).  The point type and the smooth flag are C11's
(`C11.Pt`), so that C11's legality predicate applies to `pts.map (·.base)` without translation.
-/
namespace C20
open C11 (PT)

variable {α : Type}

/-- a contour point: C11's (type, smooth) plus a position -/
structure Pt (α : Type) where
  base : C11.Pt
  pos : α
  deriving DecidableEq, Repr

abbrev Pt.typ (p : Pt α) : PT := p.base.typ

/-- `kurbo::PathEl`; `close` is never produced by `to_kurbo` but can be observed -/
inductive El (α : Type)
  | moveTo (p : α) | lineTo (p : α) | quadTo (a p : α) | curveTo (a b p : α) | close
  deriving DecidableEq, Repr

/-- `ConvertContourError` kinds of `to_kurbo`: `TooManyOffCurves`, and `BadPoint` (not returned by the repaired code;
    kept so that the translator of `tools/extract_kurbo_conv.py` can express a source that returns it) -/
inductive Err | tooMany | badPoint
  deriving DecidableEq, Repr

/-- `Contour::is_closed`: `points.first().is_none_or(|v| v.typ != Move)` -/
def isClosed : List (Pt α) → Bool
  | [] => true
  | p :: _ => p.typ != .move

/-- `iter().rev().position(|pt| pt.typ != OffCurve).map(|idx| len - 1 - idx)` -/
def rotateIdx (pts : List (Pt α)) : Option Nat :=
  match pts.reverse.findIdx? (fun p => p.typ != .off) with
  | none => none
  | some idx => some (pts.length - 1 - idx)

/-- `iter().cycle().skip(k).take(n)`; two laps suffice because `k < len` and `n ≤ len + 1`
    (and the cycle of an empty slice is empty) -/
def cycleSkipTake (pts : List (Pt α)) (k n : Nat) : List (Pt α) := ((pts ++ pts).drop k).take n

/-- the `Curve` arm: `match offs.make_contiguous()` -/
def curveArm (offs : List α) (e : α) : Except Err (List (El α)) :=
  match offs with
  | [] => .ok [.lineTo e]
  | [a] => .ok [.quadTo a e]
  | [a, b] => .ok [.curveTo a b e]
  | _ => .error .tooMany

/-- the `while let Some(pt) = offs.pop_front()` loop of the `QCurve` arm -/
def qcurveLoop (mid : α → α → α) : List α → α → List (El α)
  | [], _ => []
  | [a], e => [.quadTo a e]
  | a :: b :: r, e => .quadTo a (mid a b) :: qcurveLoop mid (b :: r) e

/-- the `QCurve` arm: `if offs.is_empty() { line_to }` then the loop -/
def qcurveArm (mid : α → α → α) (offs : List α) (e : α) : List (El α) :=
  (if offs.isEmpty then [.lineTo e] else []) ++ qcurveLoop mid offs e

def prepend (a : List (El α)) : Except Err (List (El α)) → Except Err (List (El α))
  | .ok b => .ok (a ++ b)
  | .error e => .error e

/-- the `for pt in points` loop; the first argument is the queue `offs`.  As in the Rust, the
    `Move` and `Line` arms do not clear the queue (legality makes it empty there). -/
def go (mid : α → α → α) : List α → List (Pt α) → Except Err (List (El α))
  | _, [] => .ok []
  | offs, p :: ps =>
    match p.typ with
    | .move => prepend [.moveTo p.pos] (go mid offs ps)
    | .line => prepend [.lineTo p.pos] (go mid offs ps)
    | .off => go mid (offs ++ [p.pos]) ps
    | .curve =>
      match curveArm offs p.pos with
      | .error e => .error e
      | .ok a => prepend a (go mid [] ps)
    | .qcurve => prepend (qcurveArm mid offs p.pos) (go mid [] ps)

/-- `if let Some(start) = points.next() { move_to }` followed by the loop -/
def drawWalk (mid : α → α → α) : List (Pt α) → Except Err (List (El α))
  | [] => .ok []
  | start :: rest => prepend [.moveTo start.pos] (go mid [] rest)

/-- the block for a closed contour without on-curve point (`rotate.is_none()`):
    `move_to(last.midpoint(first))`, then for `(pt, next)` in `points.zip(points.cycle().skip(1))`
    a `quad_to(pt, pt.midpoint(next))` -/
def allOffPath (mid : α → α → α) (pts : List (Pt α)) : List (El α) :=
  match pts.head?, pts.getLast? with
  | some first, some last =>
    .moveTo (mid last.pos first.pos) ::
      (pts.zip (pts.drop 1 ++ pts.take 1)).map (fun pn => .quadTo pn.1.pos (mid pn.1.pos pn.2.pos))
  | _, _ => []

/-- `Contour::to_kurbo` -/
def toKurbo (mid : α → α → α) (pts : List (Pt α)) : Except Err (List (El α)) :=
  if isClosed pts then
    match rotateIdx pts with
    | none => .ok (allOffPath mid pts)
    | some r => drawWalk mid (cycleSkipTake pts r (pts.length + 1))
  else drawWalk mid (cycleSkipTake pts 0 pts.length)

/-! ## transforms -/

/-- `AffineTransform` -/
structure Affine (α : Type) where
  xScale : α
  xyScale : α
  yxScale : α
  yScale : α
  xOffset : α
  yOffset : α
  deriving DecidableEq, Repr

/-- abstract numeric operations, only used by `tools/extract_kurbo_conv.py` to express a condition the source may put
    in front of the transform formula (`(a - b).abs() < f64::EPSILON`, `a == 1.0`, …); the model itself has none -/
structure Num (α : Type) where
  zero : α
  one : α
  eps : α
  sub : α → α → α
  abs : α → α
  lt : α → α → Bool
  le : α → α → Bool
  beq : α → α → Bool

/-- `ContourPoint::transform` -/
def transform [Add α] [Mul α] (t : Affine α) (x y : α) : α × α :=
  (t.xScale * x + t.yxScale * y + t.xOffset, t.xyScale * x + t.yScale * y + t.yOffset)

/-- `kurbo::Affine`: the coefficient array `[c0, c1, c2, c3, c4, c5]` -/
structure KAffine (α : Type) where
  c0 : α
  c1 : α
  c2 : α
  c3 : α
  c4 : α
  c5 : α
  deriving DecidableEq, Repr

/-- `impl Mul<Point> for Affine` (kurbo 0.11.3 `affine.rs:449`) -/
def KAffine.apply [Add α] [Mul α] (k : KAffine α) (x y : α) : α × α :=
  (k.c0 * x + k.c2 * y + k.c4, k.c1 * x + k.c3 * y + k.c5)

/-- `impl From<AffineTransform> for kurbo::Affine` -/
def toK (t : Affine α) : KAffine α :=
  ⟨t.xScale, t.xyScale, t.yxScale, t.yScale, t.xOffset, t.yOffset⟩

/-- `impl From<kurbo::Affine> for AffineTransform` -/
def ofK (k : KAffine α) : Affine α :=
  { xScale := k.c0, xyScale := k.c1, yxScale := k.c2, yScale := k.c3, xOffset := k.c4, yOffset := k.c5 }

end C20
