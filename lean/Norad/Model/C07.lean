/-!
# C07 model: user name → file name (`src/util.rs:20-180`)

Transcription of `user_name_to_file_name` and its two wrappers.  Strings are `List Char`; byte
lengths are UTF-8 sizes (`usize`).  `U` (`char::is_uppercase`) and `lower` (`str::to_lowercase`)
are **parameters**; `accept` (an `FnMut`) is indexed by the call number (call 0 = first candidate,
call `k` = counter `k`).  `none` = a panic: the documented one ("no unique file name after 99
tries") or a `String::truncate` off a char boundary (proved unreachable in `Props/C07.lean`).
Every Rust block is a named helper.
-/
namespace C07

abbrev Str := List Char

/-- `str::len` (bytes of the UTF-8 encoding) -/
def usize (s : Str) : Nat := (s.map Char.utf8Size).sum

/-- `SPECIAL_ILLEGAL`, util.rs:58 -/
def illegal : List Char := [':', '?', '"', '(', ')', '[', ']', '*', '/', '\\', '+', '<', '>', '|']

/-- `SPECIAL_RESERVED`, util.rs:103 -/
def reserved : List Str :=
  [['c','o','n'], ['p','r','n'], ['a','u','x'], ['n','u','l'],
   ['c','o','m','1'], ['c','o','m','2'], ['c','o','m','3'], ['c','o','m','4'], ['c','o','m','5'],
   ['c','o','m','6'], ['c','o','m','7'], ['c','o','m','8'], ['c','o','m','9'],
   ['l','p','t','1'], ['l','p','t','2'], ['l','p','t','3'], ['l','p','t','4'], ['l','p','t','5'],
   ['l','p','t','6'], ['l','p','t','7'], ['l','p','t','8'], ['l','p','t','9']]

/-- `MAX_LEN`, util.rs:117 -/
def maxLen : Nat := 255
/-- `NUMBER_LEN`, util.rs:150 -/
def numberLen : Nat := 2

/-- one arm of the `match c` at util.rs:79-92; `atStart` = `result.is_empty()` -/
def escChar (U : Char → Bool) (atStart : Bool) (c : Char) : Str :=
  if c = '.' ∧ atStart = true then ['_']
  else if c ∈ illegal then ['_']
  else if U c = true then [c, '_']
  else [c]

/-- the per-character loop util.rs:78-93; `acc` already holds the prefix -/
def escapeInto (U : Char → Bool) : Str → Str → Str
  | acc, [] => acc
  | acc, c :: cs => escapeInto U (acc ++ escChar U acc.isEmpty c) cs

/-- `result.split('.').next()`: everything before the first period (always `Some`) -/
def stem (s : Str) : Str := s.takeWhile (· ≠ '.')

/-- util.rs:107-114: the underscore goes to position 0, i.e. *before the prefix* -/
def insertReserved (r : Str) : Str := if stem r ∈ reserved then '_' :: r else r

/-- `str::is_char_boundary`: 0, the length, and every start of a character -/
def isCharBoundary : Str → Nat → Bool
  | _, 0 => true
  | [], _ + 1 => false
  | c :: cs, n + 1 => if c.utf8Size ≤ n + 1 then isCharBoundary cs (n + 1 - c.utf8Size) else false

/-- `while !result.is_char_boundary(boundary) { boundary -= 1 }` (util.rs:120, :153).  Index 0 is a
    boundary, so the loop cannot underflow; structural recursion on the index needs no fuel, and
    `backoff_steps_le_3` bounds the number of iterations by 3. -/
def backoff (s : Str) : Nat → Nat
  | 0 => 0
  | b + 1 => if isCharBoundary s (b + 1) then b + 1 else backoff s b

/-- `String::truncate(new_len)`: no effect when `new_len ≥ len`, **panics** (`none`) when `new_len`
    is inside a character -/
def truncateAt : Str → Nat → Option Str
  | _, 0 => some []
  | [], _ + 1 => some []
  | c :: cs, n + 1 =>
    if c.utf8Size ≤ n + 1 then (truncateAt cs (n + 1 - c.utf8Size)).map (c :: ·) else none

/-- util.rs:118-124 (saturating arithmetic = `Nat` arithmetic) -/
def clip (suf r : Str) : Option Str :=
  if usize r + usize suf > maxLen then truncateAt r (backoff r (maxLen - usize suf)) else some r

def isDotSp (c : Char) : Bool := c == '.' || c == ' '

/-- util.rs:129-137: the trailing run of periods/spaces (one byte each) becomes as many
    underscores.  Without such a run this is the identity, which is the `ends_with` guard. -/
def fixTrailing (s : Str) : Str :=
  let k := (s.reverse.takeWhile isDotSp).length
  s.take (s.length - k) ++ List.replicate k '_'

/-- util.rs:77-140: the candidate offered to `accept_path` first -/
def firstCandidate (U : Char → Bool) (name pre suf : Str) : Option Str :=
  match clip suf (insertReserved (escapeInto U pre name)) with
  | none => none
  | some r2 => some ((if suf.isEmpty then fixTrailing r2 else r2) ++ suf)

/-- util.rs:151-160, on the whole candidate `result` (suffix included), as in the Rust.
    `len - suffix_len + 2 > 255` ignores the suffix: the 257-byte finding. -/
def cutForCounter (result suf : Str) : Option Str :=
  if usize result - usize suf + numberLen > maxLen then
    truncateAt result (backoff result (maxLen - usize suf - numberLen))
  else truncateAt result (usize result - usize suf)

def digit (n : Nat) : Char :=
  match n % 10 with
  | 0 => '0' | 1 => '1' | 2 => '2' | 3 => '3' | 4 => '4'
  | 5 => '5' | 6 => '6' | 7 => '7' | 8 => '8' | _ => '9'

/-- `write!(result, "{:0>2}", counter)` for a counter below 100 -/
def twoDigits (k : Nat) : Str := [digit (k / 10), digit k]

/-- util.rs:163-172: `fuel` counters starting at `k`; the `truncate` at :171 restores `base` -/
def tryCounters (lower : Str → Str) (accept : Nat → Str → Bool) (base suf : Str) :
    Nat → Nat → Option Str
  | 0, _ => none                                   -- util.rs:175, the documented panic
  | fuel + 1, k =>
    let cand := base ++ twoDigits k ++ suf
    if accept k (lower cand) then some cand else tryCounters lower accept base suf fuel (k + 1)

/-- `norad::user_name_to_file_name(name, prefix, suffix, accept_path)` -/
def userNameToFileName (U : Char → Bool) (lower : Str → Str) (name pre suf : Str)
    (accept : Nat → Str → Bool) : Option Str :=
  match firstCandidate U name pre suf with
  | none => none
  | some c =>
    if accept 0 (lower c) then some c
    else
      match cutForCounter c suf with
      | none => none
      | some base => tryCounters lower accept base suf 99 1

def glifSuffix : Str := ['.', 'g', 'l', 'i', 'f']
def layerPrefix : Str := ['g', 'l', 'y', 'p', 'h', 's', '.']

/-- `default_file_name_for_glyph_name`, util.rs:21; `existing` holds lower-cased names -/
def glyphFileName (U : Char → Bool) (lower : Str → Str) (name : Str) (existing : List Str) :
    Option Str :=
  userNameToFileName U lower name [] glifSuffix (fun _ s => !existing.contains s)

/-- `default_file_name_for_layer_name`, util.rs:26 -/
def layerDirName (U : Char → Bool) (lower : Str → Str) (name : Str) (existing : List Str) :
    Option Str :=
  userNameToFileName U lower name layerPrefix [] (fun _ s => !existing.contains s)

/-! ## Closed form (no `Option`): what the candidates are, proved equal to the above in
`Lemmas/C07.lean`; the driver uses it to predict every string `accept_path` is called with. -/

/-- longest character prefix of at most `n` bytes -/
def takeBytes : Nat → Str → Str
  | _, [] => []
  | n, c :: cs => if c.utf8Size ≤ n then c :: takeBytes (n - c.utf8Size) cs else []

/-- the escaped name without accumulator; only the first character can see an empty `result` -/
def escape (U : Char → Bool) : Bool → Str → Str
  | _, [] => []
  | atStart, c :: cs => escChar U atStart c ++ escape U false cs

/-- prefix + escaped name, reserved-word underscore, clipped, trailing fix: candidate 0 without
    its suffix -/
def body (U : Char → Bool) (name pre suf : Str) : Str :=
  let r1 := insertReserved (pre ++ escape U pre.isEmpty name)
  let r2 := if usize r1 + usize suf > maxLen then takeBytes (maxLen - usize suf) r1 else r1
  if suf.isEmpty then fixTrailing r2 else r2

/-- what the counters are appended to -/
def counterBase (U : Char → Bool) (name pre suf : Str) : Str :=
  let b := body U name pre suf
  if usize b + numberLen > maxLen then takeBytes (maxLen - usize suf - numberLen) b else b

/-- candidate `k` from the two stems (shared by all 100 candidates) -/
def candidateFrom (b cb suf : Str) (k : Nat) : Str :=
  if k = 0 then b ++ suf else cb ++ twoDigits k ++ suf

/-- the string offered at call `k` (0 ≤ k ≤ 99) -/
def candidate (U : Char → Bool) (name pre suf : Str) (k : Nat) : Str :=
  candidateFrom (body U name pre suf) (counterBase U name pre suf) suf k

end C07
