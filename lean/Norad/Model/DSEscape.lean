/-!
# C18 — the file level below the tree: how quick-xml writes a string and reads it back (core Lean only)

norad's designspace writer goes through `quick_xml::se::Serializer::new` without touching the quote level:
strings are escaped by `escape_list` at `QuoteLevel::Partial`, target `Text` for element content and
`DoubleQAttr` for attribute values; the replacement of an escaped byte is the `_escape` table; the reader
resolves `&name;` with `resolve_xml_entity` and `&#N;` / `&#xH;` with `parse_number`.  The tables here are
compared with the ones regenerated from the vendored quick-xml source (`source_*` theorems in Props/C18).
-/
namespace C18

/-- `_escape`: what is written instead of a character (all nine arms of the `match`) -/
def entityOf (ch : Char) : Option (List Char) :=
  if ch = '<' then some ['&', 'l', 't', ';']
  else if ch = '>' then some ['&', 'g', 't', ';']
  else if ch = '\'' then some ['&', 'a', 'p', 'o', 's', ';']
  else if ch = '&' then some ['&', 'a', 'm', 'p', ';']
  else if ch = '"' then some ['&', 'q', 'u', 'o', 't', ';']
  else if ch = '\t' then some ['&', '#', '9', ';']
  else if ch = '\n' then some ['&', '#', '1', '0', ';']
  else if ch = '\r' then some ['&', '#', '1', '3', ';']
  else if ch = ' ' then some ['&', '#', '3', '2', ';']
  else none

/-- `escape_list (Text, Partial)`: the characters escaped in element content -/
def escTextSet : List Char := ['&', '<', '>']
/-- `escape_list (DoubleQAttr, Partial)`: the characters escaped in an attribute value -/
def escAttrSet : List Char := ['"', '&', '<', '>']

def escChar (set : List Char) (ch : Char) : List Char :=
  if set.contains ch then (entityOf ch).getD [ch] else [ch]

def escWith (set : List Char) : List Char → List Char
  | [] => []
  | ch :: r => escChar set ch ++ escWith set r

/-- what `save` writes for a string in element content / in an attribute value -/
def escText (s : List Char) : List Char := escWith escTextSet s
def escAttr (s : List Char) : List Char := escWith escAttrSet s

/-- `resolve_xml_entity` -/
def xmlEntity (name : List Char) : Option Char :=
  if name = ['l', 't'] then some '<'
  else if name = ['g', 't'] then some '>'
  else if name = ['a', 'm', 'p'] then some '&'
  else if name = ['a', 'p', 'o', 's'] then some '\''
  else if name = ['q', 'u', 'o', 't'] then some '"'
  else none

def digitVal (radix : Nat) (ch : Char) : Option Nat :=
  let v :=
    if '0' ≤ ch ∧ ch ≤ '9' then some (ch.toNat - '0'.toNat)
    else if 'a' ≤ ch ∧ ch ≤ 'f' then some (ch.toNat - 'a'.toNat + 10)
    else if 'A' ≤ ch ∧ ch ≤ 'F' then some (ch.toNat - 'A'.toNat + 10)
    else none
  match v with
  | some d => if d < radix then some d else none
  | none => none

def numVal (radix : Nat) : List Char → Option Nat
  | [] => none
  | cs => cs.foldl (fun acc ch => match acc, digitVal radix ch with
    | some n, some d => some (n * radix + d)
    | _, _ => none) (some 0)

/-- `parse_number`: `x` prefix = hexadecimal, code 0 refused, the code must be a Unicode scalar value -/
def charRef (num : List Char) : Option Char :=
  let code := match num with
    | 'x' :: hex => numVal 16 hex
    | dec => numVal 10 dec
  match code with
  | some n => if n = 0 ∨ ¬ n.isValidChar then none else some (Char.ofNat n)
  | none => none

/-- the text between `&` and `;` -/
def resolveRef (body : List Char) (entities : List Char → Option Char) : Option Char :=
  match body with
  | '#' :: num => charRef num
  | name => entities name

/-- `unescape_with`, as one pass: `none` outside a reference, `some acc` inside one (reversed body) -/
def unescGo (entities : List Char → Option Char) : Option (List Char) → List Char → Option (List Char)
  | none, [] => some []
  | some _, [] => none
  | none, ch :: r =>
    if ch = '&' then unescGo entities (some []) r
    else (unescGo entities none r).map (ch :: ·)
  | some acc, ch :: r =>
    if ch = ';' then
      match resolveRef acc.reverse entities with
      | some x => (unescGo entities none r).map (x :: ·)
      | none => none
    else unescGo entities (some (ch :: acc)) r

/-- what `load` reads back from an escaped string -/
def unescape (s : List Char) : Option (List Char) := unescGo xmlEntity none s

end C18
