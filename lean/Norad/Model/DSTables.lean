import Norad.Model.C18
import Norad.Model.DSEscape
import Norad.Model.DSCodec
/-!
# C18 — helpers that read a regenerated field table (`Generated/DsConsts.lean`) and the model's own view of
the same facts, for the `source_*` theorems (core Lean only)
-/
namespace C18.Tables

abbrev Row := String × String × String × String × Bool
abbrev Table := List (String × List Row)

def rowsOf (t : Table) (struct : String) : List Row := (t.lookup struct).getD []

/-- `@name` → `name` -/
def attrName (n : String) : Option String :=
  match n.toList with
  | '@' :: r => some (String.ofList r)
  | _ => none

def rowName (r : Row) : String := r.1
def rowSkip (r : Row) : String := r.2.2.1
def rowWith (r : Row) : String := r.2.2.2.1
def rowDefault (r : Row) : Bool := r.2.2.2.2

/-- all attribute names of a struct / only those that are always written (no `skip_serializing_if`) -/
def attrsOf (t : Table) (struct : String) : List String := (rowsOf t struct).filterMap fun r => attrName (rowName r)
def alwaysAttrsOf (t : Table) (struct : String) : List String :=
  (rowsOf t struct).filterMap fun r => if rowSkip r = "" then attrName (rowName r) else none
def elemsOf (t : Table) (struct : String) : List String :=
  (rowsOf t struct).filterMap fun r => if (attrName (rowName r)).isNone then some (rowName r) else none
def alwaysElemsOf (t : Table) (struct : String) : List String :=
  (rowsOf t struct).filterMap fun r =>
    if (attrName (rowName r)).isNone && rowSkip r = "" then some (rowName r) else none
/-- fields re-created on read when absent (`#[serde(default)]`) -/
def defaultsOf (t : Table) (struct : String) : List String :=
  (rowsOf t struct).filterMap fun r => if rowDefault r then some (rowName r) else none
def skipOf (t : Table) (struct field : String) : String :=
  match (rowsOf t struct).find? fun r => rowName r = field with
  | some r => rowSkip r
  | none => "?"

def sameSet (a b : List String) : Bool := a.all (b.contains ·) && b.all (a.contains ·)

def names (spec : List (String × Option String)) : List String := spec.map (·.1)
def written (spec : List (String × Option String)) : List String := (mkAttrs spec).map (·.1)

def childNames : Tree → List String
  | .elem _ _ k => k.filterMap fun t => match t with
    | .elem n _ _ => some n
    | .txt _ => none
  | .txt _ => []

def rootName : Tree → String
  | .elem n _ _ => n
  | .txt _ => ""

/-! closed sample values: everything present / everything that can be absent is absent -/

def z : F32 := ⟨0⟩
def fullDim : Dimension := ⟨"d", some z, some z, some z⟩
def minDim : Dimension := ⟨"d", none, none, none⟩
def fullAxis : Axis := ⟨"a", "t", z, true, some z, some z, some [z], some [⟨z, z⟩]⟩
def minAxis : Axis := ⟨"a", "t", z, false, none, none, none, none⟩
def fullCond : Condition := ⟨"c", some z, some z⟩
def minCond : Condition := ⟨"c", none, none⟩
def fullRule : Rule := ⟨some "r", [⟨[fullCond]⟩], [⟨"a", "b"⟩]⟩
def minRule : Rule := ⟨none, [⟨[]⟩], [⟨"a", "b"⟩]⟩
def fullSource : Source := ⟨some "f", some "s", some "n", "x.ufo", some "l", [fullDim]⟩
def minSource : Source := ⟨none, none, none, "x.ufo", none, [minDim]⟩
def someLib : KVs := .cons "k" (.bool true) .nil
def fullInstance : Instance := ⟨some "f", some "s", some "n", some "x", some "p", some "sf", some "ss", [fullDim], someLib⟩
def minInstance : Instance := ⟨none, none, none, none, none, none, none, [minDim], .nil⟩
def fullDoc : Doc := ⟨z, [fullAxis], ⟨.last, [fullRule]⟩, [fullSource], [fullInstance], someLib⟩
/-- nothing that `skip_serializing_if` can drop is present (not a loadable document: no axes, no sources) -/
def minDoc : Doc := ⟨z, [], ⟨.first, []⟩, [], [], .nil⟩

/-- a closed codec for the samples (the names written do not depend on it) -/
def kc : Codec where
  showF32 _ := "0"
  readF32 _ := some ⟨0⟩
  showF64 _ := "0"
  readF64 _ := some ⟨0⟩
  showInt _ := "0"
  parseI64 _ := some 0
  parseU64 _ := some 0
  parseHexU64 _ := some 0
  encData _ := ""
  decData _ := some []
  showDate _ := some "0"
  readDate _ := some ⟨0, 0⟩

def treeOf : Out Tree → Tree
  | .ok t => t
  | _ => .txt ""

/-- the element a plist value is written as -/
def glueTag (c : Codec) (v : PV) : String := rootName (treeOf (serializeWithin c v))

/-- first child element named `w`: the names of its child elements -/
def itemsUnder (t : Tree) (w : String) : List String :=
  match t with
  | .elem _ _ k => match k.find? (named w) with
    | some x => childNames x
    | none => []
  | .txt _ => []

/-- a sample value of every `plist::Value` kind the glue writes, by the Rust variant name -/
def samplePV (kind : String) : Option PV :=
  if kind = "Array" then some (.arr .nil) else if kind = "Dictionary" then some (.dict .nil)
  else if kind = "Boolean:true" then some (.bool true) else if kind = "Boolean:false" then some (.bool false)
  else if kind = "Data" then some (.data []) else if kind = "Date" then some (.date ⟨0, 0⟩)
  else if kind = "Real" then some (.real ⟨0⟩) else if kind = "Integer" then some (.int 0)
  else if kind = "String" then some (.str "") else none

/-- the `ValueKeyword` a read value corresponds to -/
def kindRead : Option PV → String
  | some (.str _) => "String" | some (.int _) => "Integer" | some (.real _) => "Real"
  | some (.bool true) => "True" | some (.bool false) => "False" | some (.data _) => "Data"
  | some (.date _) => "Date" | some (.arr _) => "Array" | some (.dict _) => "Dict"
  | _ => "?"

/-- a minimal element of the given name that the glue can read -/
def sampleElem (tag : String) : Tree :=
  .elem tag [] (if tag = "integer" ∨ tag = "real" ∨ tag = "date" then [.txt "0"] else [])

def entitiesOf (tbl : List (String × Nat)) (name : List Char) : Option Char :=
  (tbl.find? fun p => p.1.toList = name).map fun p => Char.ofNat p.2

def isInfix (pat : List Char) : List Char → Bool
  | [] => pat.isEmpty
  | c :: r => pat.isPrefixOf (c :: r) || isInfix pat r

/-- an XML declaration that names UTF-8 (either quote style, either case), or none at all: what lets a
    conforming reader decode the bytes `save` writes -/
def declOk (s : String) : Bool :=
  let cs := s.toList
  cs.isEmpty ||
  ("<?xml ".toList.isPrefixOf cs &&
   (isInfix "encoding='UTF-8'".toList cs || isInfix "encoding=\"UTF-8\"".toList cs ||
    isInfix "encoding='utf-8'".toList cs || isInfix "encoding=\"utf-8\"".toList cs) &&
   (isInfix "?>".toList cs))

end C18.Tables
