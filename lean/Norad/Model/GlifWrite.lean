import Norad.Model.Glif
/-!
# glif writer model (`src/glyph/serialize.rs`, `src/glyph/mod.rs:208-246`) to quick-xml events

`encodeGlif f g`: the events a reader sees in what `Glyph::encode_xml_with_options` writes.  Parameters
(`Fmt`): Rust's `f64::to_string` and `format!("{:.3}")` as functions on bit patterns, and the indent string
of the options.  The lib section is norad's own text transformation (`write_lib_section` re-indents every
line of the plist XML), lifted to values: every `\n` inside a string or key is followed by two indents.
-/
namespace Glif

structure Fmt where
  shw : Nat → Str
  fmt3 : Nat → Str
  indent : Str

def f64Exp (b : Nat) : Nat := (b / 4503599627370496) % 2048
def f64Man (b : Nat) : Nat := b % 4503599627370496
def isNormal (b : Nat) : Bool := f64Exp b != 0 && f64Exp b != 2047
def isNaN (b : Nat) : Bool := f64Exp b == 2047 && f64Man b != 0
/-- `v != 0.` -/
def nonZero (b : Nat) : Bool := !(b == 0 || b == f64NegZero)
/-- `(v - 1.0).abs() > f64::EPSILON` is false exactly for the four doubles within 2^-52 of 1 (the subtraction is
    exact there) and for NaN -/
def farFromOne (b : Nat) : Bool :=
  !(b == 0x3FEFFFFFFFFFFFFE || b == 0x3FEFFFFFFFFFFFFF || b == 0x3FF0000000000000 || b == 0x3FF0000000000001 || isNaN b)

def dropTrailing (c : Char) (s : Str) : Str := (s.reverse.dropWhile (· = c)).reverse

/-- `Color::to_rgba_string` (`serialize.rs:316-334`) -/
def showColor (f : Fmt) (c : Color) : Str :=
  let ch (b : Nat) : Str := dropTrailing '.' (dropTrailing '0' (f.fmt3 b))
  ch c.r ++ [','] ++ ch c.g ++ [','] ++ ch c.b ++ [','] ++ ch c.a

def optAttr (k : String) : Option Str → List Attr
  | some v => [(k.toList, v)]
  | none => []

/-- `write_transform_attributes` (`serialize.rs:358-382`) -/
def transformAttrs (f : Fmt) (t : Transform) : List Attr :=
  (if farFromOne t.xScale then [("xScale".toList, f.shw t.xScale)] else []) ++
  (if nonZero t.xyScale then [("xyScale".toList, f.shw t.xyScale)] else []) ++
  (if nonZero t.yxScale then [("yxScale".toList, f.shw t.yxScale)] else []) ++
  (if farFromOne t.yScale then [("yScale".toList, f.shw t.yScale)] else []) ++
  (if nonZero t.xOffset then [("xOffset".toList, f.shw t.xOffset)] else []) ++
  (if nonZero t.yOffset then [("yOffset".toList, f.shw t.yOffset)] else [])

def hexDigitU (n : Nat) : Char := if n < 10 then Char.ofNat (48 + n) else Char.ofNat (55 + n)

def hexUpper : Nat → Nat → Str → Str
  | 0, _, acc => acc
  | fuel + 1, n, acc => if n = 0 then acc else hexUpper fuel (n / 16) (hexDigitU (n % 16) :: acc)

/-- `format!("{:04X}", c as u32)` -/
def showCodepoint (c : Nat) : Str :=
  let d := hexUpper 8 c []
  List.replicate (4 - d.length) '0' ++ d

def pointTypeAttr : C11.PT → List Attr
  | .move => [("type".toList, "move".toList)]
  | .line => [("type".toList, "line".toList)]
  | .off => []
  | .curve => [("type".toList, "curve".toList)]
  | .qcurve => [("type".toList, "qcurve".toList)]

def anchorAttrs (f : Fmt) (a : Anchor) : List Attr :=
  optAttr "name" a.name ++ [("x".toList, f.shw a.x), ("y".toList, f.shw a.y)] ++
    optAttr "color" (a.color.map (showColor f)) ++ optAttr "identifier" a.ident

def anchorEv (f : Fmt) (a : Anchor) : Ev := .empty sAnchor (some (anchorAttrs f a))

def lineAttrs (f : Fmt) : Line → List Attr
  | .vertical x => [("x".toList, f.shw x)]
  | .horizontal y => [("y".toList, f.shw y)]
  | .angle x y d => [("x".toList, f.shw x), ("y".toList, f.shw y), ("angle".toList, f.shw d)]

def guidelineAttrs (f : Fmt) (g : Guideline) : List Attr :=
  optAttr "name" g.name ++ lineAttrs f g.line ++
    optAttr "color" (g.color.map (showColor f)) ++ optAttr "identifier" g.ident

def guidelineEv (f : Fmt) (g : Guideline) : Ev := .empty sGuideline (some (guidelineAttrs f g))

def pointAttrs (f : Fmt) (p : Point) : List Attr :=
  optAttr "name" p.name ++ [("x".toList, f.shw p.x), ("y".toList, f.shw p.y)] ++
    pointTypeAttr p.typ ++ (if p.smooth then [("smooth".toList, "yes".toList)] else []) ++ optAttr "identifier" p.ident

def pointEv (f : Fmt) (p : Point) : Ev := .empty sPoint (some (pointAttrs f p))

def contourEvs (f : Fmt) (c : Contour) : List Ev :=
  .start sContour (some (optAttr "identifier" c.ident)) :: (c.points.map (pointEv f) ++ [.close sContour])

def componentAttrs (f : Fmt) (k : Component) : List Attr :=
  [("base".toList, k.base)] ++ transformAttrs f k.transform ++ optAttr "identifier" k.ident

def componentEv (f : Fmt) (k : Component) : Ev := .empty sComponent (some (componentAttrs f k))

def imageAttrs (f : Fmt) (i : Image) : List Attr :=
  [("fileName".toList, i.fileName)] ++ transformAttrs f i.transform ++ optAttr "color" (i.color.map (showColor f))

def imageEv (f : Fmt) (i : Image) : Ev := .empty sImage (some (imageAttrs f i))

def advanceAttrs (f : Fmt) (w h : Nat) : List Attr :=
  (if nonZero h then [("height".toList, f.shw h)] else []) ++ (if nonZero w then [("width".toList, f.shw w)] else [])

/-- `dump_object_libs` (`mod.rs:208-246`); `Dictionary::insert` replaces an existing key -/
def dictInsert (k : Str) (v : PV) (d : Dict) : Dict :=
  if (dictGet k d).isSome then d.map (fun e => if e.1 = k then (k, v) else e) else d ++ [(k, v)]

def dumpOne (id : Option Str) (lib : Option Dict) (acc : Dict) : Dict :=
  match lib, id with
  | some l, some i => dictInsert i (.dict l) acc
  | _, _ => acc     -- a lib without identifier cannot be built through the public API (`unwrap` in the Rust)

def dumpObjectLibs (g : Glyph) : Dict :=
  let acc := g.anchors.foldl (fun acc a => dumpOne a.ident a.lib acc) []
  let acc := g.guidelines.foldl (fun acc a => dumpOne a.ident a.lib acc) acc
  let acc := g.contours.foldl (fun acc c =>
    c.points.foldl (fun acc p => dumpOne p.ident p.lib acc) (dumpOne c.ident c.lib acc)) acc
  g.components.foldl (fun acc a => dumpOne a.ident a.lib acc) acc

/-- the text-level re-indentation of `write_lib_section`, seen from a string inside the lib -/
def reindent (ind : Str) : Str → Str
  | [] => []
  | c :: r => if c = '\n' then '\n' :: (ind ++ ind ++ reindent ind r) else c :: reindent ind r

mutual
  def reindentPV (ind : Str) : PV → PV
    | .str s => .str (reindent ind s)
    | .atom t => .atom t
    | .arr xs => .arr (reindentList ind xs)
    | .dict kvs => .dict (reindentDict ind kvs)
  def reindentList (ind : Str) : List PV → List PV
    | [] => []
    | x :: r => reindentPV ind x :: reindentList ind r
  def reindentDict (ind : Str) : List (Str × PV) → List (Str × PV)
    | [] => []
    | (k, v) :: r => (reindent ind k, reindentPV ind v) :: reindentDict ind r
end

def isBlank (c : Char) : Bool := c = ' ' || c = '\t' || c = '\n' || c = '\r'

/-- what `trim_text(true)` leaves of a text node -/
def trimText (s : Str) : Str := ((s.dropWhile isBlank).reverse.dropWhile isBlank).reverse

/-- the lib that is written: the glyph lib plus the object libs under `public.objectLibs` -/
def writtenLib (g : Glyph) : Dict :=
  let ol := dumpObjectLibs g
  if ol.isEmpty then g.lib else dictInsert objectLibsKey (.dict ol) g.lib

def encodeGlif (f : Fmt) (g : Glyph) : List Ev :=
  [.decl, .start sGlyph (some [("name".toList, g.name), ("format".toList, ['2'])])] ++
  g.codepoints.map (fun c => .empty sUnicode (some [(sHex, showCodepoint c)])) ++
  (if isNormal g.width || isNormal g.height then
    [.empty sAdvance (some (advanceAttrs f g.width g.height))] else []) ++
  (match g.image with | some i => [imageEv f i] | none => []) ++
  (if !g.contours.isEmpty || !g.components.isEmpty then
    .start sOutline (some []) :: (g.contours.flatMap (contourEvs f) ++ g.components.map (componentEv f) ++ [.close sOutline])
   else []) ++
  g.anchors.map (anchorEv f) ++
  g.guidelines.map (guidelineEv f) ++
  (let lib := writtenLib g
   if lib.isEmpty then [] else [.startLib (some []) (.dict (reindentDict f.indent lib)), .close sLib]) ++
  (match g.note with
   | some n =>
     let t := trimText n
     .start sNote (some []) :: ((if t.isEmpty then [] else [.text (some t)]) ++ [.close sNote])
   | none => []) ++
  [.close sGlyph]

end Glif
