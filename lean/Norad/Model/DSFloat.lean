import Norad.Model.DSCodec
/-!
# C18 — Rust's `Display` / `FromStr` of `f32` / `f64` on the fragment designspace files mostly hold
(core Lean only)

A *simple* float is `±N / 2^j` with `N` below the mantissa range and few fractional bits (`j = 0`: every
integer of magnitude below 2^24 / 2^53; `j ≥ 1`: `N` odd and `N · 5^(j-1) ≤ 2^23 / 2^52`, which is what keeps
every shorter decimal outside the rounding interval, so that the shortest round-trip representation Rust
prints IS the exact decimal).  On this fragment `Display` is modelled exactly: optional sign, the integer
part in decimal, and for `j ≥ 1` a point and exactly `j` fraction digits (`(N mod 2^j) · 5^j`).  `FromStr` is
modelled on decimals that denote such a value exactly (a correctly rounding parser returns an exactly
representable value unchanged).  Outside the fragment the codec keeps a stand-in (`~` + the bit pattern):
there the general shortest-round-trip law stays a hypothesis, checked per string by the driver.

That `encodeDyadic` is the IEEE 754 bit pattern of `±N / 2^j` and that Rust prints exactly `showDyadic` on
the fragment is not proved here; the driver checks both on every simple float of every run (tag
`float-impl-differs`).
-/
namespace C18

structure FloatFmt where
  mant : Nat
  expBits : Nat
  bias : Nat

def fmt32 : FloatFmt := ⟨23, 8, 127⟩
def fmt64 : FloatFmt := ⟨52, 11, 1023⟩

def signBit (f : FloatFmt) (neg : Bool) : Nat := if neg then 2 ^ (f.mant + f.expBits) else 0

/-- the bit pattern of `±N / 2^j` (normal numbers and the two zeros only) -/
def encodeDyadic (f : FloatFmt) (neg : Bool) (N j : Nat) : Option Nat :=
  if N = 0 then some (signBit f neg)
  else
    let p := Nat.log2 N + 1
    if f.mant + 1 < p then none
    else if f.bias + (p - 1) ≤ j then none
    else if 2 ^ f.expBits - 1 ≤ f.bias + (p - 1) - j then none
    else some (signBit f neg + (f.bias + (p - 1) - j) * 2 ^ f.mant + (N * 2 ^ (f.mant + 1 - p) - 2 ^ f.mant))

def trailingZeros : Nat → Nat → Nat
  | 0, _ => 0
  | fuel + 1, n => if n = 0 ∨ n % 2 = 1 then 0 else trailingZeros fuel (n / 2) + 1

/-- candidate `(neg, N, j)` for a bit pattern -/
def decodeDyadic (f : FloatFmt) (bits : Nat) : Option (Bool × Nat × Nat) :=
  let neg := bits / 2 ^ (f.mant + f.expBits) % 2 = 1
  let e := bits / 2 ^ f.mant % 2 ^ f.expBits
  let m := bits % 2 ^ f.mant
  if e = 0 then (if m = 0 then some (neg, 0, 0) else none)
  else
    let M := 2 ^ f.mant + m
    let sh := f.bias + f.mant
    if sh ≤ e then (if e = sh then some (neg, M, 0) else none)
    else
      let k := sh - e
      let t := min (trailingZeros 64 M) k
      some (neg, M / 2 ^ t, k - t)

/-- the simple fragment: the candidate encodes back to the bit pattern (checked, so nothing about the bit
    manipulation has to be believed) and satisfies the exact-decimal condition -/
def simpleOf (f : FloatFmt) (bits : Nat) : Option (Bool × Nat × Nat) :=
  match decodeDyadic f bits with
  | some (neg, N, j) =>
    if encodeDyadic f neg N j = some bits ∧ j ≤ 40 ∧ (j = 0 ∨ (N % 2 = 1 ∧ N * 5 ^ (j - 1) ≤ 2 ^ f.mant))
    then some (neg, N, j) else none
  | none => none

/-- decimal digits of a natural number (fuel = any bound above the number) -/
def natDigits : Nat → Nat → List Char
  | 0, _ => []
  | fuel + 1, n => if n < 10 then [digitChar n] else natDigits fuel (n / 10) ++ [digitChar n]

def showNat (n : Nat) : List Char := natDigits (n + 1) n

/-- exactly `w` decimal digits, zero padded -/
def showFixed : Nat → Nat → List Char
  | 0, _ => []
  | w + 1, n => showFixed w (n / 10) ++ [digitChar n]

/-- `Display` of `±N / 2^j`, exactly -/
def showDyadic (neg : Bool) (N j : Nat) : List Char :=
  (if neg then ['-'] else []) ++ showNat (N / 2 ^ j) ++
    (if j = 0 then [] else '.' :: showFixed j (N % 2 ^ j * 5 ^ j))

/-- non-empty digit string → number -/
def parseNat (cs : List Char) : Option Nat := if cs.isEmpty then none else parseDigits cs

/-- `[-]digits[.digits]` → `(neg, a, k)` denoting `±a / 10^k` -/
def parseDec (cs : List Char) : Option (Bool × Nat × Nat) :=
  let neg := cs.head? = some '-'
  let r := if neg then cs.drop 1 else cs
  let ip := r.takeWhile (· != '.')
  match parseNat ip, r.dropWhile (· != '.') with
  | some i, [] => some (neg, i, 0)
  | some i, _ :: fr =>
    match parseNat fr with
    | some fv => some (neg, i * 10 ^ fr.length + fv, fr.length)
    | none => none
  | none, _ => none

/-- `FromStr` on decimals that denote a dyadic exactly -/
def readDyadic (f : FloatFmt) (cs : List Char) : Option Nat :=
  match parseDec cs with
  | some (neg, a, k) => if a % 5 ^ k = 0 then encodeDyadic f neg (a / 5 ^ k) k else none
  | none => none

/-- `Display`: exact on the simple fragment, stand-in elsewhere -/
def showFloat (f : FloatFmt) (bits : Nat) : List Char :=
  match simpleOf f bits with
  | some (neg, N, j) => showDyadic neg N j
  | none => '~' :: showNat bits

def readFloat (f : FloatFmt) (cs : List Char) : Option Nat :=
  match cs with
  | '~' :: r => parseNat r
  | _ => readDyadic f cs

/-- real integers, base64 and dates; floats exact on the simple fragment -/
def simpleFloatCodec : Codec :=
  { realDateCodec with
    showF32 := fun x => String.ofList (showFloat fmt32 x.bits)
    readF32 := fun s => (readFloat fmt32 s.toList).map F32.mk
    showF64 := fun x => String.ofList (showFloat fmt64 x.bits)
    readF64 := fun s => (readFloat fmt64 s.toList).map F64.mk }

end C18
