import Norad.Base.StrMap
/-!
# C10 model: key sorting of written property lists, store writes

* `sortRec` transcribes `recursive_sort_plist_keys` (`util.rs:11-18`): `sort_keys()` on the dictionary, then
  recursion into those *values that are dictionaries*.  Arrays are not visited: a dictionary inside an
  array (and everything below it) keeps its insertion order.  Used for the font lib (`font.rs:481`),
  layerinfo (`layer.rs:412`) and glyph libs (`glyph/serialize.rs:119`).
* `pvEq` transcribes `==` of `plist::Value` (`Dictionary` = `IndexMap`: equal as maps, insertion order
  ignored — at every depth, also inside arrays).
* `writeAll` transcribes the loop that writes a store (`font.rs:526-553`): the `HashMap` is iterated and
  every entry written to `data_dir.join(key)`; the order of the entries is a parameter.
A plist value is `int | str | dict | arr` (the other scalar kinds behave like `int`/`str` here).
-/
namespace PlistM
open StrMap

inductive PV where
  | int (n : Int)
  | str (s : Str)
  | dict (es : List (Str × PV))
  | arr (xs : List PV)

mutual
/-- `recursive_sort_plist_keys` applied to a value (a no-op unless it is a dictionary) -/
def sortRec : PV → PV
  | .dict es => .dict (sortEntries (sortVals es))
  | v => v
/-- `for val in plist.values_mut() { if let Some(dict) = val.as_dictionary_mut() { recurse } }` -/
def sortVals : List (Str × PV) → List (Str × PV)
  | [] => []
  | (k, v) :: r => (k, sortRec v) :: sortVals r
end

mutual
/-- the keys in the order they are written (pre-order), the observable trace of a written plist -/
def writtenKeys : PV → List Str
  | .dict es => writtenKeysE es
  | .arr xs => writtenKeysA xs
  | _ => []
def writtenKeysE : List (Str × PV) → List Str
  | [] => []
  | (k, v) :: r => k :: (writtenKeys v ++ writtenKeysE r)
def writtenKeysA : List PV → List Str
  | [] => []
  | v :: r => writtenKeys v ++ writtenKeysA r
end

def lookupPV (k : Str) : List (Str × PV) → Option PV
  | [] => none
  | (k', v) :: r => if k' = k then some v else lookupPV k r

mutual
/-- `plist::Value::eq` -/
def pvEq : PV → PV → Bool
  | .int a, .int b => a == b
  | .str a, .str b => a == b
  | .dict a, .dict b => a.length == b.length && entriesIn a b
  | .arr a, .arr b => arrEq a b
  | _, _ => false
/-- every entry of the first map is in the second with an equal value -/
def entriesIn : List (Str × PV) → List (Str × PV) → Bool
  | [], _ => true
  | (k, v) :: r, b =>
    (match lookupPV k b with
     | some v' => pvEq v v'
     | none => false) && entriesIn r b
def arrEq : List PV → List PV → Bool
  | [], [] => true
  | x :: xs, y :: ys => pvEq x y && arrEq xs ys
  | _, _ => false
end

mutual
/-- the value with every array emptied: what remains is where the sort reaches -/
def stripArrays : PV → PV
  | .dict es => .dict (stripArraysE es)
  | .arr _ => .arr []
  | v => v
def stripArraysE : List (Str × PV) → List (Str × PV)
  | [] => []
  | (k, v) :: r => (k, stripArrays v) :: stripArraysE r
end

/-! ### store writes (`font.rs:526-553`) -/

/-- `std::path` components of a relative key: empty and `.` components vanish when the path is
    resolved below the store directory -/
def splitSlash : Str → List Str
  | [] => [[]]
  | c :: cs =>
    match splitSlash cs with
    | [] => [[c]]      -- unreachable: the result is never empty
    | h :: t => if c = '/' then [] :: h :: t else (c :: h) :: t

def normKey (k : Str) : List Str := (splitSlash k).filter (fun c => c ≠ [] ∧ c ≠ ['.'])

/-- the files of the store directory: resolved path ↦ contents -/
abbrev Files := List Str → Option Str

def writeFile (p : List Str) (b : Str) (fs : Files) : Files := fun q => if q = p then some b else fs q

/-- the save loop over the store entries in the given (hash) order -/
def writeAll (entries : List (Str × Str)) (fs : Files) : Files :=
  entries.foldl (fun fs e => writeFile (normKey e.1) e.2 fs) fs

end PlistM
