import Norad.Model.FINum
/-!
# C14 model, part 1 — values and the value conversions of the legacy font-info upconversion

`Conv` names the shapes that occur in the two struct literals of `FontInfo::from_file`
(fontinfo.rs:516-791); which legacy attribute gets which conversion is the *generated* table
(`Generated/FontInfoTables.lean`).  Core Lean only.
-/
namespace C14
open FI

inductive Conv where
  | id | roundI32 | roundAbsU32 | absNum | absU32 | panoseAbs
  | weight | enumWidth | enumCharSet | enumFontStyle
  deriving DecidableEq, Repr

/-- the type a legacy attribute is read with (`FontInfoV1` / `FontInfoV2`) -/
inductive Ty where
  | num | int | uint | str | bool | nums | bits | famclass | panose | width | charset | style
  deriving DecidableEq, Repr

/-- a font-info value as it travels on the protocol; an `f64` keeps its bit pattern -/
inductive Val where
  | num (bits : Nat)
  | int (z : Int)
  | str (s : String)
  | bool (b : Bool)
  | nums (l : List Nat)
  | ints (l : List Int)
  | numss (l : List (List Nat))     -- robofab blue zones: a list of lists
  deriving DecidableEq, Repr

/-- how one entry of the robofab lib data reaches the format-3 data (`upconvert_ufov1_robofab_data`): an
    unconditional assignment (an absent entry clears the attribute), an assignment of the flattened zone list made
    only when the entry is present, an assignment of the value made only when present; for the feature text: the
    text is appended, a newline and the blocks are appended, the entry gives the order of the blocks -/
inductive RConv where
  | direct | flattenIfPresent | copyIfPresent | appendText | newlineThenBlocks | blockOrder
  deriving DecidableEq, Repr

inductive ConvErr where
  | unknownWidth | unknownCharSet | unknownFontStyle | illTyped
  deriving DecidableEq, Repr

def lookup {α β} [BEq α] (t : List (α × β)) (k : α) : Option β :=
  match t.find? (fun p => p.1 == k) with
  | some p => some p.2
  | none => none

/-- the enumeration tables and the dropped weight values, as read from the source -/
structure Tables where
  fontStyle : List (Int × String)
  charSet : List (Int × Nat)
  width : List (String × Nat)
  weightDropped : List Int

/-- `f64::abs` on the bit pattern: clear the sign bit -/
def absBits (bits : Nat) : Nat := bits % 2 ^ 63

/-- one legacy value through its conversion; `ok none` = attribute dropped -/
def applyConv (t : Tables) (c : Conv) (v : Val) : Except ConvErr (Option Val) :=
  match c, v with
  | .id, v => .ok (some v)
  | .roundI32, .num b => .ok (some (.int (roundI32 (decode b))))
  | .roundAbsU32, .num b => .ok (some (.int (Int.ofNat (roundAbsU32 (decode b)))))
  | .absNum, .num b => .ok (some (.num (absBits b)))
  | .absU32, .int z => .ok (some (.int (Int.ofNat z.natAbs)))
  | .panoseAbs, .ints l => .ok (some (.ints (l.map fun z => Int.ofNat z.natAbs)))
  | .weight, .int z => if t.weightDropped.contains z then .ok none else .ok (some (.int (Int.ofNat z.natAbs)))
  | .enumWidth, .str s =>
    match lookup t.width s with
    | some n => .ok (some (.int (Int.ofNat n)))
    | none => .error .unknownWidth
  | .enumCharSet, .int z =>
    match lookup t.charSet z with
    | some n => .ok (some (.int (Int.ofNat n)))
    | none => .error .unknownCharSet
  | .enumFontStyle, .int z =>
    match lookup t.fontStyle z with
    | some n => .ok (some (.str n))
    | none => .error .unknownFontStyle
  | _, _ => .error .illTyped

/-- convert a list of legacy attributes with a table `(legacy key, v3 key, conversion)`;
    an attribute without a row is refused (`deny_unknown_fields`) -/
def convertAll (t : Tables) (table : List (String × String × Conv)) :
    List (String × Val) → Except ConvErr (List (String × Val))
  | [] => .ok []
  | (k, v) :: r =>
    match lookup table k with
    | none => .error .illTyped
    | some (k3, c) =>
      match applyConv t c v, convertAll t table r with
      | .ok (some v3), .ok rest => .ok ((k3, v3) :: rest)
      | .ok none, .ok rest => .ok rest
      | .error e, _ => .error e
      | _, .error e => .error e

end C14
