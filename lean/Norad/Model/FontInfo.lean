import Norad.Model.FINum
/-!
# C13 model — `FontInfo::validate`, the typed deserialisers and the three entry points

Transcription of `src/fontinfo.rs` (`validate`, `from_file` for format 3, the hand-written
`Deserialize` impls), `src/guideline.rs` (`Serialize`/`Deserialize` of `Guideline`) and the
font-info part of `Font::save_impl` (`src/font.rs`), *as the code is on the fix/fontinfo branch*:
month and day have the lower bound 1, and `validate` checks guideline angles.

Only the rule-bearing projection of `FontInfo` is carried: for the PostScript lists their lengths,
for the WOFF records their emptiness structure.  Core Lean only.
-/
namespace C13
open FI

/-! ## strings as characters with UTF-8 sizes; slicing is partial (Rust panics off a boundary) -/

def utf8Size (c : Char) : Nat :=
  if c.toNat < 0x80 then 1 else if c.toNat < 0x800 then 2 else if c.toNat < 0x10000 then 3 else 4

/-- `str::len` -/
def byteLen : List Char → Nat
  | [] => 0
  | c :: r => utf8Size c + byteLen r

/-- split at a byte offset; `none` = offset beyond the end or inside a character -/
def splitAtByte : List Char → Nat → Option (List Char × List Char)
  | v, 0 => some ([], v)
  | [], _ + 1 => none
  | c :: r, n + 1 =>
    if utf8Size c ≤ n + 1 then
      match splitAtByte r (n + 1 - utf8Size c) with
      | some (a, b) => some (c :: a, b)
      | none => none
    else none

/-- `&v[a..b]`; `none` is the slicing panic -/
def slice (v : List Char) (a b : Nat) : Option (List Char) :=
  match splitAtByte v a with
  | none => none
  | some (_, rest) =>
    match splitAtByte rest (b - a) with
    | none => none
    | some (mid, _) => some mid

def digitVal (c : Char) : Option Nat :=
  if '0' ≤ c ∧ c ≤ '9' then some (c.toNat - 48) else none

def parseDigits : List Char → Nat → Option Nat
  | [], acc => some acc
  | c :: r, acc =>
    match digitVal c with
    | none => none
    | some d => parseDigits r (acc * 10 + d)

def stripPlus : List Char → List Char
  | '+' :: r => r
  | s => s

/-- `str::parse::<uN>()`: an optional `+`, at least one digit, no overflow -/
def parseUnsigned (max : Nat) (s : List Char) : Option Nat :=
  if (stripPlus s).isEmpty then none else
  match parseDigits (stripPlus s) 0 with
  | none => none
  | some n => if n ≤ max then some n else none

/-! ## outcome -/

inductive Kind where
  | date | gasp | dupId | angle | selBits | familyClass | listLen | listPairs | emptyWoff
  deriving DecidableEq, Repr

inductive Outcome where
  | ok
  | err (k : Kind)
  | panic
  deriving DecidableEq, Repr

/-- `?` / early return: the first check that does not pass decides -/
def Outcome.andThen (o : Outcome) (k : Outcome) : Outcome :=
  match o with
  | .ok => k
  | e => e

/-! ## the projection of `FontInfo` -/

inductive Line where
  | vertical
  | horizontal
  | angle (deg : Dbl)
  deriving DecidableEq, Repr

structure Guide where
  ident : Option (List Char)
  line : Line
  deriving DecidableEq, Repr

/-- one `WoffMetadataExtensionItemRecord`: number of names, number of values -/
structure ExtItem where
  names : Nat
  values : Nat
  deriving DecidableEq, Repr

structure Info where
  created : Option (List Char) := none
  /-- `rangeMaxPPEM` of every gasp record, in order -/
  gasp : Option (List Nat) := none
  guidelines : Option (List Guide) := none
  selection : Option (List Nat) := none
  familyClass : Option (Nat × Nat) := none
  blueValues : Option Nat := none
  otherBlues : Option Nat := none
  familyBlues : Option Nat := none
  familyOtherBlues : Option Nat := none
  stemSnapH : Option Nat := none
  stemSnapV : Option Nat := none
  /-- records → items of each record -/
  woffExtensions : Option (List (List ExtItem)) := none
  woffCredits : Option Nat := none
  woffCopyright : Option Nat := none
  woffDescription : Option Nat := none
  woffTrademark : Option Nat := none
  /-- `woffMetadataLicense.text` — no rule (the specification makes it optional) -/
  woffLicense : Option Nat := none
  deriving DecidableEq, Repr

/-! ## `validate`, block by block in source order -/

def okChar (c : Char) : Bool := ('0' ≤ c && c ≤ '9') || c == ' ' || c == '/' || c == ':'

/-- value of one `&&` operand: true, false, `?` taken, slicing panic -/
inductive Step where
  | tt | ff | err | panic
  deriving DecidableEq, Repr

def Step.andThen (s : Step) (k : Step) : Step :=
  match s with
  | .tt => k
  | o => o

/-- `v[0..4].parse::<u16>().is_ok()` -/
def yearOk (v : List Char) : Step :=
  match slice v 0 4 with
  | none => .panic
  | some s => if (parseUnsigned 65535 s).isSome then .tt else .ff

/-- `&v[a..a+1] == c` -/
def sepAt (v : List Char) (a : Nat) (c : Char) : Step :=
  match slice v a (a + 1) with
  | none => .panic
  | some s => if s = [c] then .tt else .ff

/-- `(lo..=hi).contains(&v[a..b].parse::<u8>().map_err(..)?)` -/
def fieldIn (v : List Char) (a b lo hi : Nat) : Step :=
  match slice v a b with
  | none => .panic
  | some s =>
    match parseUnsigned 255 s with
    | none => .err
    | some n => if lo ≤ n ∧ n ≤ hi then .tt else .ff

/-- the `&&` chain of fontinfo.rs:816-841 (short-circuit: a later slice is not evaluated once an
    earlier operand is false) -/
def dateChain (v : List Char) : Step :=
  (yearOk v).andThen <| (sepAt v 4 '/').andThen <| (fieldIn v 5 7 1 12).andThen <|
  (sepAt v 7 '/').andThen <| (fieldIn v 8 10 1 31).andThen <| (sepAt v 10 ' ').andThen <|
  (fieldIn v 11 13 0 23).andThen <| (sepAt v 13 ':').andThen <| (fieldIn v 14 16 0 59).andThen <|
  (sepAt v 16 ':').andThen <| (fieldIn v 17 19 0 59)

def validateDate (v : List Char) : Outcome :=
  if byteLen v ≠ 19 then .err .date
  else if !(v.all okChar) then .err .date
  else match dateChain v with
    | .tt => .ok
    | .ff => .err .date
    | .err => .err .date
    | .panic => .panic

def checkDate (i : Info) : Outcome :=
  match i.created with
  | none => .ok
  | some v => validateDate v

def gaspLoop (last : Nat) : List Nat → Outcome
  | [] => .ok
  | c :: r => if last > c then .err .gasp else gaspLoop c r

def checkGasp (i : Info) : Outcome :=
  match i.gasp with
  | none => .ok
  | some v =>
    if v.length > 1 then
      match v with
      | [] => .panic            -- `vs_iter.next().unwrap()`
      | a :: r => gaspLoop a r
    else .ok

def angleBad : Line → Bool
  | .angle d => !d.in0to360
  | _ => false

/-- the guideline loop: identifier set first, then (fix/fontinfo) the angle of the same guideline -/
def guideLoop (seen : List (List Char)) : List Guide → Outcome
  | [] => .ok
  | g :: r =>
    match g.ident with
    | some id =>
      if seen.contains id then .err .dupId
      else if angleBad g.line then .err .angle
      else guideLoop (id :: seen) r
    | none =>
      if angleBad g.line then .err .angle else guideLoop seen r

def checkGuidelines (i : Info) : Outcome :=
  match i.guidelines with
  | none => .ok
  | some gs => guideLoop [] gs

def checkSelection (i : Info) : Outcome :=
  match i.selection with
  | none => .ok
  | some v => if v.contains 0 || v.contains 5 || v.contains 6 then .err .selBits else .ok

def checkFamilyClass (i : Info) : Outcome :=
  match i.familyClass with
  | none => .ok
  | some (c, s) => if c ≤ 14 && s ≤ 15 then .ok else .err .familyClass

/-- a blue-zone list: length limit first, then pairs -/
def checkBlue (len : Option Nat) (max : Nat) : Outcome :=
  match len with
  | none => .ok
  | some n => if n > max then .err .listLen else if n % 2 ≠ 0 then .err .listPairs else .ok

def checkStem (len : Option Nat) : Outcome :=
  match len with
  | none => .ok
  | some n => if n > 12 then .err .listLen else .ok

def itemLoop : List ExtItem → Outcome
  | [] => .ok
  | it :: r => if it.names = 0 || it.values = 0 then .err .emptyWoff else itemLoop r

def recordLoop : List (List ExtItem) → Outcome
  | [] => .ok
  | items :: r =>
    if items.isEmpty then .err .emptyWoff
    else (itemLoop items).andThen (recordLoop r)

def checkExtensions (i : Info) : Outcome :=
  match i.woffExtensions with
  | none => .ok
  | some v => if v.isEmpty then .err .emptyWoff else recordLoop v

def checkNonEmpty (n : Option Nat) : Outcome :=
  match n with
  | none => .ok
  | some k => if k = 0 then .err .emptyWoff else .ok

/-- `FontInfo::validate` -/
def validate (i : Info) : Outcome :=
  (checkDate i).andThen <| (checkGasp i).andThen <| (checkGuidelines i).andThen <|
  (checkSelection i).andThen <| (checkFamilyClass i).andThen <|
  (checkBlue i.blueValues 14).andThen <| (checkBlue i.otherBlues 10).andThen <|
  (checkBlue i.familyBlues 14).andThen <| (checkBlue i.familyOtherBlues 10).andThen <|
  (checkStem i.stemSnapH).andThen <| (checkStem i.stemSnapV).andThen <|
  (checkExtensions i).andThen <| (checkNonEmpty i.woffCredits).andThen <|
  (checkNonEmpty i.woffCopyright).andThen <| (checkNonEmpty i.woffDescription).andThen <|
  (checkNonEmpty i.woffTrademark)

/-! ## save: `validate` before anything is touched, then the serialiser (guideline.rs) -/

/-- `Guideline::serialize` refuses an angle outside 0..=360 -/
def serGuides : List Guide → Outcome
  | [] => .ok
  | g :: r => if angleBad g.line then .err .angle else serGuides r

/-- what writing `fontinfo.plist` can still refuse after the target was wiped -/
def serializeInfo (i : Info) : Outcome :=
  match i.guidelines with
  | none => .ok
  | some gs => serGuides gs

inductive SaveResult where
  | ok
  | refused (k : Kind)      -- before the file system is touched
  | late (k : Kind)         -- after `remove_dir_all`
  | panic
  deriving DecidableEq, Repr

def saveInfo (i : Info) : SaveResult :=
  match validate i with
  | .err k => .refused k
  | .panic => .panic
  | .ok =>
    match serializeInfo i with
    | .ok => .ok
    | .err k => .late k
    | .panic => .panic

/-! ## load: typed deserialisers, then `validate` -/

/-- a guideline dictionary as found in the file: which of x / y are present, the angle if present -/
structure RawGuide where
  x : Bool
  y : Bool
  angle : Option Dbl
  ident : Option (List Char)
  deriving DecidableEq, Repr

/-- the file-level view: integers not yet narrowed to `u8` / `u32`, arrays not yet of fixed length -/
structure RawInfo where
  created : Option (List Char) := none
  gasp : Option (List Int) := none
  guidelines : Option (List RawGuide) := none
  selection : Option (List Int) := none
  familyClass : Option (List Int) := none
  blueValues : Option Nat := none
  otherBlues : Option Nat := none
  familyBlues : Option Nat := none
  familyOtherBlues : Option Nat := none
  stemSnapH : Option Nat := none
  stemSnapV : Option Nat := none
  woffExtensions : Option (List (List ExtItem)) := none
  woffCredits : Option Nat := none
  woffCopyright : Option Nat := none
  woffDescription : Option Nat := none
  woffTrademark : Option Nat := none
  woffLicense : Option Nat := none
  /-- type-only fields: they have no rule in `validate`, the deserialiser alone decides -/
  panose : Option (List Int) := none
  widthClass : Option Int := none
  winCharSet : Option Int := none
  styleMap : Option (List Char) := none
  deriving DecidableEq, Repr

def narrow (max : Nat) (z : Int) : Option Nat :=
  if 0 ≤ z ∧ z ≤ Int.ofNat max then some z.toNat else none

def narrowAll (max : Nat) : List Int → Option (List Nat)
  | [] => some []
  | z :: r =>
    match narrow max z, narrowAll max r with
    | some n, some t => some (n :: t)
    | _, _ => none

/-- the shape part of `Guideline::deserialize` (guideline.rs:140-166): which combinations of
    x / y / angle denote a line at all -/
def shapeGuide (g : RawGuide) : Option Guide :=
  match g.x, g.y, g.angle with
  | true, false, none => some ⟨g.ident, .vertical⟩
  | false, true, none => some ⟨g.ident, .horizontal⟩
  | true, true, some d => some ⟨g.ident, .angle d⟩
  | _, _, _ => none

/-- `Guideline::deserialize`: the shape, and an angle must lie in 0..=360 -/
def deserGuide (g : RawGuide) : Option Guide :=
  match shapeGuide g with
  | some a => if angleBad a.line then none else some a
  | none => none

def mapAll {α β} (f : α → Option β) : List α → Option (List β)
  | [] => some []
  | g :: r =>
    match f g, mapAll f r with
    | some a, some t => some (a :: t)
    | _, _ => none

def deserGuides (checked : Bool) : List RawGuide → Option (List Guide) :=
  mapAll (if checked then deserGuide else shapeGuide)

/-- `Os2FamilyClass::deserialize`: exactly two `u8` -/
def deserFamilyClass (v : List Int) : Option (Nat × Nat) :=
  match narrowAll 255 v with
  | some [c, s] => some (c, s)
  | _ => none

/-- `Os2Panose::deserialize`: exactly ten `u32` -/
def deserPanoseOk (v : List Int) : Bool :=
  match narrowAll u32Max v with
  | some l => l.length == 10
  | none => false

def styleNames : List (List Char) :=
  ["regular".toList, "italic".toList, "bold".toList, "bold italic".toList]

def optMap {α β} (f : α → Option β) : Option α → Option (Option β)
  | none => some none
  | some a => (f a).map some

/-- every typed field must narrow.  `checked = true` is serde over the plist (`deser`);
    `checked = false` is only the typing, i.e. the value a program can build in memory (`inMemory`) -/
def deserWith (checked : Bool) (r : RawInfo) : Option Info :=
  match optMap (narrowAll u32Max) r.gasp, optMap (deserGuides checked) r.guidelines,
        optMap (narrowAll 255) r.selection, optMap deserFamilyClass r.familyClass with
  | some gasp, some gl, some sel, some fc =>
    if (match r.panose with | some p => deserPanoseOk p | none => true) &&
       (match r.widthClass with | some w => decide (1 ≤ w ∧ w ≤ 9) | none => true) &&
       (match r.winCharSet with | some w => decide (1 ≤ w ∧ w ≤ 20) | none => true) &&
       (match r.styleMap with | some s => styleNames.contains s | none => true) then
      some { created := r.created, gasp := gasp, guidelines := gl, selection := sel, familyClass := fc,
             blueValues := r.blueValues, otherBlues := r.otherBlues, familyBlues := r.familyBlues,
             familyOtherBlues := r.familyOtherBlues, stemSnapH := r.stemSnapH, stemSnapV := r.stemSnapV,
             woffExtensions := r.woffExtensions, woffCredits := r.woffCredits,
             woffCopyright := r.woffCopyright, woffDescription := r.woffDescription,
             woffTrademark := r.woffTrademark, woffLicense := r.woffLicense }
    else none
  | _, _, _, _ => none

inductive LoadResult where
  | loaded (i : Info)
  | parseErr
  | invalid (k : Kind)
  | panic
  deriving DecidableEq, Repr

def deser (r : RawInfo) : Option Info := deserWith true r
def inMemory (r : RawInfo) : Option Info := deserWith false r

/-- `FontInfo::from_file` for format 3 -/
def loadInfo (r : RawInfo) : LoadResult :=
  match deser r with
  | none => .parseErr
  | some i =>
    match validate i with
    | .ok => .loaded i
    | .err k => .invalid k
    | .panic => .panic

/-- what the writer puts into the file for an in-memory value -/
def rawGuide (g : Guide) : RawGuide :=
  match g.line with
  | .vertical => ⟨true, false, none, g.ident⟩
  | .horizontal => ⟨false, true, none, g.ident⟩
  | .angle d => ⟨true, true, some d, g.ident⟩

def toRaw (i : Info) : RawInfo :=
  { created := i.created, gasp := i.gasp.map (·.map Int.ofNat),
    guidelines := i.guidelines.map (·.map rawGuide),
    selection := i.selection.map (·.map Int.ofNat),
    familyClass := i.familyClass.map (fun p => [Int.ofNat p.1, Int.ofNat p.2]),
    blueValues := i.blueValues, otherBlues := i.otherBlues, familyBlues := i.familyBlues,
    familyOtherBlues := i.familyOtherBlues, stemSnapH := i.stemSnapH, stemSnapV := i.stemSnapV,
    woffExtensions := i.woffExtensions, woffCredits := i.woffCredits, woffCopyright := i.woffCopyright,
    woffDescription := i.woffDescription, woffTrademark := i.woffTrademark, woffLicense := i.woffLicense }

end C13
