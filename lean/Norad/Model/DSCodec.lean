import Norad.Model.DSTypes
/-!
# C18 — the parts of the codec that are implemented for real in Lean (core only)

* integers: `Int.repr` / `String.toInt?` with the `i64` / `u64` range tests of `str::parse`;
* base64 (standard alphabet, `=` padding, canonical trailing bits) as `base64::STANDARD`;
* stand-ins for the two parts that stay hypotheses about third-party formatting (`f32`/`f64`
  shortest-round-trip `Display`, RFC 3339 dates of the `time` crate): an injective decimal rendering of the
  bit pattern / of `secs·10⁹+nanos`, used only to show that `CodecLaws` is satisfiable (`refCodec`).

The driver's per-line codec uses `intShow`/`parseI64`/`parseU64`/`b64enc`/`b64dec` from here, so the
correspondence run ties exactly these definitions to what Rust wrote into the files.
-/
namespace C18

/-- printable ASCII without the blank: every character a number, base64 or RFC 3339 string consists of -/
def safeChar (ch : Char) : Bool := 0x20 < ch.toNat && ch.toNat < 0x7f

def intShow (i : Int) : String := i.repr

def parseI64 (s : String) : Option Int :=
  match s.toInt? with
  | some i => if i64Min ≤ i ∧ i ≤ i64Max then some i else none
  | none => none

def parseU64 (s : String) : Option Int :=
  match s.toInt? with
  | some i => if 0 ≤ i ∧ i ≤ u64Max then some i else none
  | none => none

/-- the base64 alphabet -/
def b64char (i : Nat) : Char :=
  if i < 26 then Char.ofNat (65 + i)
  else if i < 52 then Char.ofNat (97 + (i - 26))
  else if i < 62 then Char.ofNat (48 + (i - 52))
  else if i = 62 then '+' else '/'

def b64val (ch : Char) : Option Nat :=
  if 65 ≤ ch.toNat ∧ ch.toNat ≤ 90 then some (ch.toNat - 65)
  else if 97 ≤ ch.toNat ∧ ch.toNat ≤ 122 then some (ch.toNat - 97 + 26)
  else if 48 ≤ ch.toNat ∧ ch.toNat ≤ 57 then some (ch.toNat - 48 + 52)
  else if ch = '+' then some 62 else if ch = '/' then some 63 else none

def b64enc : List UInt8 → List Char
  | [] => []
  | [a] =>
    let n := a.toNat * 65536
    [b64char (n / 262144 % 64), b64char (n / 4096 % 64), '=', '=']
  | [a, b] =>
    let n := a.toNat * 65536 + b.toNat * 256
    [b64char (n / 262144 % 64), b64char (n / 4096 % 64), b64char (n / 64 % 64), '=']
  | a :: b :: c :: r =>
    let n := a.toNat * 65536 + b.toNat * 256 + c.toNat
    b64char (n / 262144 % 64) :: b64char (n / 4096 % 64) :: b64char (n / 64 % 64) :: b64char (n % 64) :: b64enc r

def b64dec : List Char → Option (List UInt8)
  | [] => some []
  | a :: b :: c :: d :: r =>
    if d = '=' then
      if r ≠ [] then none
      else if c = '=' then
        match b64val a, b64val b with
        | some x, some y => if y % 16 = 0 then some [UInt8.ofNat ((x * 64 + y) / 16)] else none
        | _, _ => none
      else
        match b64val a, b64val b, b64val c with
        | some x, some y, some z =>
          let n := (x * 64 + y) * 64 + z
          if n % 4 = 0 then some [UInt8.ofNat (n / 1024), UInt8.ofNat (n / 4 % 256)] else none
        | _, _, _ => none
    else
      match b64val a, b64val b, b64val c, b64val d, b64dec r with
      | some x, some y, some z, some w, some t =>
        let n := ((x * 64 + y) * 64 + z) * 64 + w
        some (UInt8.ofNat (n / 65536) :: UInt8.ofNat (n / 256 % 256) :: UInt8.ofNat (n % 256) :: t)
      | _, _, _, _, _ => none
  | _ => none

def dateLo' : Int := -62167219200
def dateHi' : Int := 253402300799

/-! ### the calendar (proleptic Gregorian, Hinnant's `days_from_civil` / `civil_from_days`), with the part inside
    one 400-year era (146 097 days, starting on March 1 of a year ≡ 0 mod 400) on `Nat` -/

/-- year of the era of a day of the era -/
def yoeOf (doe : Nat) : Nat := (doe - doe / 1460 + doe / 36524 - doe / 146096) / 365
/-- first day of the era of a (March-based) year of the era -/
def baseOf (y : Nat) : Nat := 365 * y + y / 4 - y / 100
/-- length of the March-based year `y` of an era: it holds the February of civil year `y + 1` -/
def yearLen (y : Nat) : Nat := if (y + 1) % 4 = 0 ∧ ((y + 1) % 100 ≠ 0 ∨ (y + 1) % 400 = 0) then 366 else 365
/-- March-based month (0 = March … 11 = February) of a day of the year -/
def mpOf (doy : Nat) : Nat := (5 * doy + 2) / 153
/-- first day of the year of a March-based month -/
def dpreOf (mp : Nat) : Nat := (153 * mp + 2) / 5
def monthOfMp (mp : Nat) : Nat := if mp < 10 then mp + 3 else mp - 9
def mpOfMonth (m : Nat) : Nat := (m + 9) % 12

/-- day of the era → (year of the era, month 1–12, day 1–31) -/
def civilOfDoe (doe : Nat) : Nat × Nat × Nat :=
  (yoeOf doe, monthOfMp (mpOf (doe - baseOf (yoeOf doe))),
    doe - baseOf (yoeOf doe) - dpreOf (mpOf (doe - baseOf (yoeOf doe))) + 1)

/-- (year of the era, month, day) → day of the era -/
def doeOfCivil (yoe m d : Nat) : Nat := baseOf yoe + (dpreOf (mpOfMonth m) + d - 1)

/-- the civil date of a day number (days since 1970-01-01) -/
def civilFromDays (z0 : Int) : Int × Nat × Nat :=
  let era := (z0 + 719468) / 146097
  let c := civilOfDoe ((z0 + 719468) - era * 146097).toNat
  ((c.1 : Int) + era * 400 + (if c.2.1 ≤ 2 then 1 else 0), c.2.1, c.2.2)

/-- days from 1970-01-01 to the civil date `y-m-d` -/
def daysFromCivil (y : Int) (m d : Nat) : Int :=
  let y' : Int := if m ≤ 2 then y - 1 else y
  let era : Int := y' / 400
  era * 146097 + (doeOfCivil (y' - era * 400).toNat m d : Nat) - 719468

/-- a Gregorian leap year -/
def isLeap (y : Int) : Bool := y % 4 = 0 ∧ (y % 100 ≠ 0 ∨ y % 400 = 0)
def daysInMonth (y : Int) (m : Nat) : Nat :=
  if m = 2 then (if isLeap y then 29 else 28) else if m = 4 ∨ m = 6 ∨ m = 9 ∨ m = 11 then 30 else 31

def digitChar (d : Nat) : Char := Char.ofNat (48 + d % 10)
def digitVal? (ch : Char) : Option Nat := if 48 ≤ ch.toNat ∧ ch.toNat ≤ 57 then some (ch.toNat - 48) else none

def show2 (n : Nat) : List Char := [digitChar (n / 10), digitChar n]
def show4 (n : Nat) : List Char := [digitChar (n / 1000), digitChar (n / 100), digitChar (n / 10), digitChar n]
def show9 (n : Nat) : List Char :=
  [digitChar (n / 100000000), digitChar (n / 10000000), digitChar (n / 1000000), digitChar (n / 100000),
   digitChar (n / 10000), digitChar (n / 1000), digitChar (n / 100), digitChar (n / 10), digitChar n]

/-- fixed-width decimal: every character a digit -/
def parseDigits : List Char → Option Nat
  | [] => some 0
  | cs => cs.foldl (fun acc ch => match acc, digitVal? ch with
    | some n, some d => some (n * 10 + d)
    | _, _ => none) (some 0)

def dropTrailingZeros (cs : List Char) : List Char := (cs.reverse.dropWhile (· == '0')).reverse

/-- the broken-down fields of an RFC 3339 UTC time stamp -/
structure Stamp where
  year : Nat
  month : Nat
  day : Nat
  hour : Nat
  minute : Nat
  second : Nat
  nanos : Nat
deriving DecidableEq

/-- `YYYY-MM-DDTHH:MM:SS[.f…]Z`: the sub-second digits only when non-zero, trailing zeros dropped -/
def showStamp (t : Stamp) : List Char :=
  show4 t.year ++ '-' :: show2 t.month ++ '-' :: show2 t.day ++ 'T' :: show2 t.hour ++ ':' :: show2 t.minute ++
    ':' :: show2 t.second ++ (if t.nanos = 0 then [] else '.' :: dropTrailingZeros (show9 t.nanos)) ++ ['Z']

/-- reader for the `Z` form (what `to_xml_format` writes): 1–9 sub-second digits -/
def parseStamp (cs : List Char) : Option Stamp :=
  match cs with
  | y1 :: y2 :: y3 :: y4 :: '-' :: m1 :: m2 :: '-' :: d1 :: d2 :: 'T' :: h1 :: h2 :: ':' :: i1 :: i2 :: ':' ::
      s1 :: s2 :: rest =>
    let frac : Option Nat := match rest with
      | ['Z'] => some 0
      | '.' :: r =>
        match r.reverse with
        | 'Z' :: fr =>
          let ds := fr.reverse
          if ds.isEmpty ∨ 9 < ds.length then none
          else parseDigits (ds ++ List.replicate (9 - ds.length) '0')
        | _ => none
      | _ => none
    match parseDigits [y1, y2, y3, y4], parseDigits [m1, m2], parseDigits [d1, d2], parseDigits [h1, h2],
          parseDigits [i1, i2], parseDigits [s1, s2], frac with
    | some y, some m, some d, some h, some i, some s, some f => some ⟨y, m, d, h, i, s, f⟩
    | _, _, _, _, _, _, _ => none
  | _ => none

/-- `plist::Date::to_xml_format` for real: `none` (a panic) outside years 0000–9999 -/
def rfc3339Show (d : Date) : Option String :=
  if dateLo' ≤ d.secs ∧ d.secs ≤ dateHi' ∧ d.nanos < 1000000000 then
    let days := d.secs / 86400
    let sod := (d.secs % 86400).toNat
    let (y, m, dd) := civilFromDays days
    some (String.ofList (showStamp ⟨y.toNat, m, dd, sod / 3600, sod / 60 % 60, sod % 60, d.nanos⟩))
  else none

/-- `plist::Date::from_xml_format` on the `Z` form -/
def rfc3339Read (s : String) : Option Date :=
  match parseStamp s.toList with
  | some t =>
    if 1 ≤ t.month ∧ t.month ≤ 12 ∧ 1 ≤ t.day ∧ t.day ≤ 31 ∧ t.hour < 24 ∧ t.minute < 60 ∧ t.second < 60 then
      some ⟨daysFromCivil t.year t.month t.day * 86400 + (t.hour * 3600 + t.minute * 60 + t.second : Nat), t.nanos⟩
    else none
  | none => none

/-- dates the stand-in prints: the range `Date::to_xml_format` accepts (years 0000–9999), nanos < 10⁹ -/
def dateLo : Int := -62167219200
def dateHi : Int := 253402300799

/-- reference codec: real integers and base64; stand-ins for floats (decimal of the bit pattern) and
    dates (decimal of `(secs − dateLo)·10⁹ + nanos`) -/
def refCodec : Codec where
  showF32 x := x.bits.repr
  readF32 s := s.toNat?.map F32.mk
  showF64 x := x.bits.repr
  readF64 s := s.toNat?.map F64.mk
  showInt := intShow
  parseI64 := parseI64
  parseU64 := parseU64
  parseHexU64 _ := none
  encData d := String.ofList (b64enc d)
  decData s := b64dec s.toList
  showDate d :=
    if dateLo ≤ d.secs ∧ d.secs ≤ dateHi ∧ d.nanos < 1000000000
    then some (((d.secs - dateLo).toNat * 1000000000 + d.nanos).repr) else none
  readDate s := s.toNat?.map fun n => ⟨(n / 1000000000 : Nat) + dateLo, n % 1000000000⟩

/-- the reference codec with the date component replaced by the real RFC 3339 implementation -/
def realDateCodec : Codec := { refCodec with showDate := rfc3339Show, readDate := rfc3339Read }

end C18
