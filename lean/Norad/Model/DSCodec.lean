import Norad.Model.DSTypes
/-!
# C18 — the parts of the codec that are implemented for real in Lean (core only)

* integers: `Int.repr` / `String.toInt?` with the `i64` / `u64` range tests of `str::parse`;
* base64 (standard alphabet, `=` padding, canonical trailing bits) as `base64::STANDARD`;
* stand-ins for the two parts that stay hypotheses about third-party formatting (`f32`/`f64`
  shortest-round-trip `Display`, RFC 3339 dates of the `time` crate): an injective decimal rendering of the
  bit pattern / of `secs·10⁹+nanos`, used only to show that `CodecLaws` is satisfiable (`refCodec`).

The driver's per-line codec uses `intShow`/`parseI64`/`parseU64`/`b64enc`/`b64dec` from here, so the
correspondence run ties exactly these definitions to what Rust wrote into the files.
-/
namespace C18

/-- printable ASCII without the blank: every character a number, base64 or RFC 3339 string consists of -/
def safeChar (ch : Char) : Bool := 0x20 < ch.toNat && ch.toNat < 0x7f

def intShow (i : Int) : String := i.repr

def parseI64 (s : String) : Option Int :=
  match s.toInt? with
  | some i => if i64Min ≤ i ∧ i ≤ i64Max then some i else none
  | none => none

def parseU64 (s : String) : Option Int :=
  match s.toInt? with
  | some i => if 0 ≤ i ∧ i ≤ u64Max then some i else none
  | none => none

/-- the base64 alphabet -/
def b64char (i : Nat) : Char :=
  if i < 26 then Char.ofNat (65 + i)
  else if i < 52 then Char.ofNat (97 + (i - 26))
  else if i < 62 then Char.ofNat (48 + (i - 52))
  else if i = 62 then '+' else '/'

def b64val (ch : Char) : Option Nat :=
  if 65 ≤ ch.toNat ∧ ch.toNat ≤ 90 then some (ch.toNat - 65)
  else if 97 ≤ ch.toNat ∧ ch.toNat ≤ 122 then some (ch.toNat - 97 + 26)
  else if 48 ≤ ch.toNat ∧ ch.toNat ≤ 57 then some (ch.toNat - 48 + 52)
  else if ch = '+' then some 62 else if ch = '/' then some 63 else none

def b64enc : List UInt8 → List Char
  | [] => []
  | [a] =>
    let n := a.toNat * 65536
    [b64char (n / 262144 % 64), b64char (n / 4096 % 64), '=', '=']
  | [a, b] =>
    let n := a.toNat * 65536 + b.toNat * 256
    [b64char (n / 262144 % 64), b64char (n / 4096 % 64), b64char (n / 64 % 64), '=']
  | a :: b :: c :: r =>
    let n := a.toNat * 65536 + b.toNat * 256 + c.toNat
    b64char (n / 262144 % 64) :: b64char (n / 4096 % 64) :: b64char (n / 64 % 64) :: b64char (n % 64) :: b64enc r

def b64dec : List Char → Option (List UInt8)
  | [] => some []
  | a :: b :: c :: d :: r =>
    if d = '=' then
      if r ≠ [] then none
      else if c = '=' then
        match b64val a, b64val b with
        | some x, some y => if y % 16 = 0 then some [UInt8.ofNat ((x * 64 + y) / 16)] else none
        | _, _ => none
      else
        match b64val a, b64val b, b64val c with
        | some x, some y, some z =>
          let n := (x * 64 + y) * 64 + z
          if n % 4 = 0 then some [UInt8.ofNat (n / 1024), UInt8.ofNat (n / 4 % 256)] else none
        | _, _, _ => none
    else
      match b64val a, b64val b, b64val c, b64val d, b64dec r with
      | some x, some y, some z, some w, some t =>
        let n := ((x * 64 + y) * 64 + z) * 64 + w
        some (UInt8.ofNat (n / 65536) :: UInt8.ofNat (n / 256 % 256) :: UInt8.ofNat (n % 256) :: t)
      | _, _, _, _, _ => none
  | _ => none

/-- days from 1970-01-01 to the civil date `y-m-d` (proleptic Gregorian calendar; Hinnant's algorithm) -/
def daysFromCivil (y : Int) (m d : Nat) : Int :=
  let y' : Int := if m ≤ 2 then y - 1 else y
  let era : Int := y' / 400
  let yoe : Int := y' - era * 400
  let mp : Int := (((m : Int) + 9) % 12)
  let doy : Int := (153 * mp + 2) / 5 + (d : Int) - 1
  let doe : Int := yoe * 365 + yoe / 4 - yoe / 100 + doy
  era * 146097 + doe - 719468

/-- dates the stand-in prints: the range `Date::to_xml_format` accepts (years 0000–9999), nanos < 10⁹ -/
def dateLo : Int := -62167219200
def dateHi : Int := 253402300799

/-- reference codec: real integers and base64; stand-ins for floats (decimal of the bit pattern) and
    dates (decimal of `(secs − dateLo)·10⁹ + nanos`) -/
def refCodec : Codec where
  showF32 x := x.bits.repr
  readF32 s := s.toNat?.map F32.mk
  showF64 x := x.bits.repr
  readF64 s := s.toNat?.map F64.mk
  showInt := intShow
  parseI64 := parseI64
  parseU64 := parseU64
  parseHexU64 _ := none
  encData d := String.ofList (b64enc d)
  decData s := b64dec s.toList
  showDate d :=
    if dateLo ≤ d.secs ∧ d.secs ≤ dateHi ∧ d.nanos < 1000000000
    then some (((d.secs - dateLo).toNat * 1000000000 + d.nanos).repr) else none
  readDate s := s.toNat?.map fun n => ⟨(n / 1000000000 : Nat) + dateLo, n % 1000000000⟩

end C18
