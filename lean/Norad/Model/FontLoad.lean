import Norad.Model.FontSave
/-!
# `Font::load_impl` (font.rs:215-313), `LayerContents::load` (layer.rs:58-106), `Layer::load_impl`
(layer.rs:330-379), `DataRequest` / `LayerFilter` (data_request.rs) over the abstract file system
(core Lean only) — C17, and the load half of C08's in-place theorem

Parsing is uninterpreted: a `Parser β` maps the bytes of a file to `none` (corrupt) or the parsed
value.  A file is therefore *absent*, *corrupt* or *parsed v*; a directory in the place of a file is
an error.  Only format-3 trees are modelled (C17 speaks about those): a `metainfo.plist` with
another format version yields `legacyFormat`, which is outside every theorem.
The result is the abstract font of `FontSave`, with all store cells `notLoaded`.
-/
namespace FontLoad
open AbsFS FontSave
open Path (Comp)

/-- `DataRequest` with its `LayerFilter` -/
structure Request where
  lib : Bool
  groups : Bool
  kerning : Bool
  features : Bool
  data : Bool
  images : Bool
  all : Bool
  loadDefault : Bool
  custom : Option (Str → Str → Bool)    -- layer name, layer directory as written in layercontents.plist

def Request.everything : Request :=
  { lib := true, groups := true, kerning := true, features := true, data := true, images := true,
    all := true, loadDefault := false, custom := none }

def Request.nothing : Request :=
  { lib := false, groups := false, kerning := false, features := false, data := false, images := false,
    all := false, loadDefault := false, custom := none }

/-! ### the builder calls of `DataRequest` (data_request.rs:84-194), as the documentation states them -/

inductive PartSwitch | lib | groups | kerning | features | data | images
  deriving DecidableEq, Repr

/-- one builder call; a filter carries a tag (for the protocol) next to its predicate -/
inductive Call where
  | all                                   -- `DataRequest::all()` / `default()`: everything
  | none                                  -- `DataRequest::none()`: nothing
  | layers (b : Bool)                     -- "include layers and their glyph data"
  | defaultLayer (b : Bool)               -- "only load the default layer. If set, we will ignore the `layers` option"
  | filter (tag : Char) (p : Str → Str → Bool)   -- "load a subset of layers using a closure ... overrides the `layers` option"
  | part (s : PartSwitch) (b : Bool)      -- `lib(b)`, `groups(b)`, ...

def Request.setPart (r : Request) (s : PartSwitch) (b : Bool) : Request :=
  match s with
  | .lib => { r with lib := b }
  | .groups => { r with groups := b }
  | .kerning => { r with kerning := b }
  | .features => { r with features := b }
  | .data => { r with data := b }
  | .images => { r with images := b }

def Request.getPart (r : Request) : PartSwitch → Bool
  | .lib => r.lib
  | .groups => r.groups
  | .kerning => r.kerning
  | .features => r.features
  | .data => r.data
  | .images => r.images

/-- the documented meaning of one call -/
def Request.step (r : Request) : Call → Request
  | .all => Request.everything
  | .none => Request.nothing
  | .layers b => { r with all := b }
  | .defaultLayer b => { r with loadDefault := b, all := false }
  | .filter _ p => { r with custom := some p, all := false }
  | .part s b => r.setPart s b

/-- a request built by a sequence of calls, applied in order (the chain starts from `none()`; a leading `all()` /
    `none()` call replaces it) -/
def Req.apply (cs : List Call) : Request := cs.foldl Request.step Request.nothing

def glyphsDir : Str := "glyphs".toList
def defaultLayerName : Str := "public.default".toList

/-- `LayerFilter::should_load`; `path == Path::new("glyphs")` compares components -/
def shouldLoad (r : Request) (name dir : Str) : Bool :=
  r.all || (r.loadDefault && Path.parse dir == Path.parse glyphsDir) ||
  (match r.custom with
   | some f => f name dir
   | none => false)

def includesDefault (r : Request) : Bool := r.all || r.loadDefault

/-- parsed `fontinfo.plist` (guideline libs live in lib.plist, not here) -/
structure InfoFile where
  body : Nat
  guides : List (Option Str)      -- identifier of every guideline
  valid : Bool                    -- `FontInfo::validate`
  serialisable : Bool

structure Parser (β : Type) where
  metainfo : β → Option (Nat × Nat)                    -- format version, token
  lib : β → Option (Option (List (Str × LVal)))        -- `some none`: a plist that is not a dictionary
  fontinfo : β → Option InfoFile
  groups : β → Option (Nat × Bool)                     -- token, `validate_groups` is `Ok`
  kerning : β → Option Nat
  features : β → Option Nat
  layercontents : β → Option (List (Str × Str))
  contents : β → Option (List (Str × Str))             -- as the `BTreeMap`: sorted, keys unique
  layerinfo : β → Option Nat
  glif : β → Option AGlyph

inductive LoadErr
  | accessUfoDir | ufoNotADir | missingMetaInfo | parse (file : String) | libNotDict | fontInfo
  | invalidGroups | missingLayerContents | layer | missingDefaultLayer | store | legacyFormat | panic
  deriving DecidableEq, Repr

variable {β : Type}

/-- `plist::from_file` / `fs::read_to_string` on an existing path: a directory or unparsable bytes fail -/
def readParsed {α : Type} (fs : FS β) (cs : List Comp) (parse : β → Option α) (name : String) :
    Except LoadErr α :=
  match readFile fs cs with
  | .error _ => .error (.parse name)
  | .ok b =>
    match parse b with
    | some v => .ok v
    | none => .error (.parse name)

/-- a switch-guarded optional file: read only when requested *and* present -/
def readOpt {α : Type} (sw : Bool) (fs : FS β) (cs : List Comp) (parse : β → Option α) (name : String) :
    Except LoadErr (Option α) :=
  if sw && existsAt fs cs then
    match readParsed fs cs parse name with
    | .ok v => .ok (some v)
    | .error e => .error e
  else .ok none

/-! ### font info and the object libs (fontinfo.rs:509-514, 1010-1034) -/

def lookupKey {α : Type} (k : Str) : List (Str × α) → Option α
  | [] => none
  | (a, v) :: r => if a = k then some v else lookupKey k r

def eraseKey {α : Type} (k : Str) (l : List (Str × α)) : List (Str × α) := l.filter (fun e => !(e.1 == k))

/-- assign the object libs to the guidelines that name them; `none` = an entry that is not a dictionary -/
def assignLibs (ol : List (Str × Option Nat)) : List (Option Str) → Option (List AGuide)
  | [] => some []
  | g :: r =>
    match assignLibs ol r with
    | none => none
    | some t =>
      match g with
      | none => some ({ ident := none, lib := none } :: t)
      | some i =>
        match lookupKey i ol with
        | none => some ({ ident := some i, lib := none } :: t)
        | some none => none
        | some (some l) => some ({ ident := some i, lib := some l } :: t)

/-- `FontInfo::from_file` for format 3: parse, `validate`, `load_object_libs` (consumes the lib key) -/
def loadFontInfo (i : InfoFile) (lib : List (Str × LVal)) : Except LoadErr (AInfo × List (Str × LVal)) :=
  if !i.valid then .error .fontInfo
  else
    match lookupKey objectLibsKey lib with
    | none =>
      .ok ({ body := i.body, guides := i.guides.map fun g => { ident := g, lib := none },
             valid := true, serialisable := i.serialisable }, lib)
    | some (.objDict ol) =>
      match assignLibs ol i.guides with
      | none => .error .fontInfo
      | some gs => .ok ({ body := i.body, guides := gs, valid := true, serialisable := i.serialisable },
                        eraseKey objectLibsKey lib)
    | some _ => .error .fontInfo

def defaultInfo : AInfo := { body := 0, guides := [], valid := true, serialisable := true }

/-! ### layers -/

/-- `Layer::load_impl`'s glyph loop (sequential build) -/
def loadGlyphs (P : Parser β) (fs : FS β) (ldir : List Comp) : List (Str × Str) → Except LoadErr (List AEntry)
  | [] => .ok []
  | (g, file) :: r =>
    match readParsed fs (joinRel ldir (Path.parse file)) P.glif "glif" with
    | .error _ => .error .layer
    | .ok gl =>
      match loadGlyphs P fs ldir r with
      | .error e => .error e
      | .ok t => .ok ({ name := g, file := file, glyph := some gl } :: t)

def lastName (cs : List Comp) : Option Str :=
  match cs.getLast? with
  | some (.normal s) => some s
  | _ => none

/-- `Layer::load_impl(base_dir.join(dir), name)` -/
def loadLayer (P : Parser β) (fs : FS β) (t : APath) (name dir : Str) : Except LoadErr ALayer :=
  let ldir := joinRel (tC t) (Path.parse dir)
  let cpath := ldir ++ [.normal contentsFile.toList]
  if !existsAt fs cpath then .error .layer
  else
    match readParsed fs cpath P.contents contentsFile with
    | .error _ => .error .layer
    | .ok contents =>
      match loadGlyphs P fs ldir contents with
      | .error e => .error e
      | .ok entries =>
        match readOpt true fs (ldir ++ [.normal layerinfoFile.toList]) P.layerinfo layerinfoFile with
        | .error _ => .error .layer
        | .ok info =>
          match lastName ldir with
          | none => .error .panic        -- `path.file_name().unwrap()`, layer.rs:376
          | some d => .ok { name := name, dir := d, info := info.getD 0, entries := entries }

/-- the filtered, fallible `map` of layer.rs:71-84 -/
def loadLayers (P : Parser β) (fs : FS β) (t : APath) (r : Request) : List (Str × Str) → Except LoadErr (List ALayer)
  | [] => .ok []
  | (n, d) :: rest =>
    if shouldLoad r n d then
      match loadLayer P fs t n d with
      | .error e => .error e
      | .ok l =>
        match loadLayers P fs t r rest with
        | .error e => .error e
        | .ok ls => .ok (l :: ls)
    else loadLayers P fs t r rest

def isDefaultLayer (l : ALayer) : Bool := l.dir == glyphsDir

def placeholder : ALayer := { name := defaultLayerName, dir := glyphsDir, info := 0, entries := [] }

/-- `position` + `remove` + `insert(0, ..)`, layer.rs:91-96 -/
def extractDefault : List ALayer → Option (ALayer × List ALayer)
  | [] => none
  | l :: r =>
    if isDefaultLayer l then some (l, r)
    else
      match extractDefault r with
      | none => none
      | some (d, r') => some (d, l :: r')

/-- layer.rs:85-96: the placeholder for a filtered-out default layer, then the default layer first -/
def finishLayers (r : Request) (ls : List ALayer) : Except LoadErr (List ALayer) :=
  let ls' := if !includesDefault r && !ls.any isDefaultLayer then ls ++ [placeholder] else ls
  match extractDefault ls' with
  | none => .error .missingDefaultLayer
  | some (d, rest) => .ok (d :: rest)

def loadLayerSet (P : Parser β) (fs : FS β) (t : APath) (r : Request) : Except LoadErr (List ALayer) :=
  let lc := sub t "layercontents.plist"
  if !existsAt fs lc then .error .missingLayerContents
  else
    match readParsed fs lc P.layercontents "layercontents.plist" with
    | .error e => .error e
    | .ok toLoad =>
      match loadLayers P fs t r toLoad with
      | .error e => .error e
      | .ok ls => finishLayers r ls

/-! ### stores (datastore.rs:131-160, 189-215, 246-252) -/

def relKey (p : APath) : Path.P := ⟨false, p.map .normal⟩

/-- `Store::new`: the plain files below the store directory, all cells lazy; the images directory must be flat -/
def loadStore (sw : Bool) (kind : StoreKind) (fs : FS β) (t : APath) : Except LoadErr (Store β) :=
  let d := t ++ [(storeDirName kind).toList]
  if sw && existsAt fs (tC d) then
    if !isDir fs d then .error .store
    else
      let l := listBelow fs d
      match kind with
      | .data => .ok { root := t, items := (l.filter (·.2)).map fun e => (relKey e.1, .notLoaded) }
      | .images =>
        if l.any (fun e => !e.2) then .error .store
        else .ok { root := t, items := l.map fun e => (relKey e.1, .notLoaded) }
  else .ok { root := [], items := [] }

/-! ### the whole load -/

/-- the single-file parts of a font -/
structure Scalars where
  metaTok : Nat
  info : AInfo
  lib : List (Str × LVal)
  groups : Nat
  kerning : Nat
  features : Nat

def infoStage (infoFile : Option InfoFile) (lib0 : List (Str × LVal)) : Except LoadErr (AInfo × List (Str × LVal)) :=
  match infoFile with
  | none => .ok (defaultInfo, lib0)
  | some i => loadFontInfo i lib0

def libStage (P : Parser β) (fs : FS β) (t : APath) (sw : Bool) : Except LoadErr (List (Str × LVal)) :=
  match readOpt sw fs (sub t "lib.plist") P.lib "lib.plist" with
  | .error e => .error e
  | .ok (some none) => .error .libNotDict
  | .ok (some (some l)) => .ok l
  | .ok none => .ok []

def groupsStage (P : Parser β) (fs : FS β) (t : APath) (sw : Bool) : Except LoadErr Nat :=
  match readOpt sw fs (sub t "groups.plist") P.groups "groups.plist" with
  | .error e => .error e
  | .ok (some (_, false)) => .error .invalidGroups
  | .ok (some (g, true)) => .ok g
  | .ok none => .ok 0

def tokStage (fs : FS β) (t : APath) (sw : Bool) (name : String) (parse : β → Option Nat) : Except LoadErr Nat :=
  match readOpt sw fs (sub t name) parse name with
  | .error e => .error e
  | .ok v => .ok (v.getD 0)

/-- font.rs:216-258 for a format-3 tree -/
def loadScalars (P : Parser β) (fs : FS β) (t : APath) (r : Request) : Except LoadErr Scalars :=
  match node fs t with
  | none => .error .accessUfoDir
  | some (.file _) => .error .ufoNotADir
  | some .dir =>
    if !existsAt fs (sub t "metainfo.plist") then .error .missingMetaInfo
    else
      match readParsed fs (sub t "metainfo.plist") P.metainfo "metainfo.plist" with
      | .error e => .error e
      | .ok (version, metaTok) =>
        if version ≠ 3 then .error .legacyFormat
        else
        match libStage P fs t r.lib with
        | .error e => .error e
        | .ok lib0 =>
          match readOpt true fs (sub t "fontinfo.plist") P.fontinfo "fontinfo.plist" with
          | .error _ => .error .fontInfo
          | .ok infoFile =>
            match infoStage infoFile lib0 with
            | .error e => .error e
            | .ok (info, lib) =>
              match groupsStage P fs t r.groups with
              | .error e => .error e
              | .ok groups =>
                match tokStage fs t r.kerning "kerning.plist" P.kerning with
                | .error e => .error e
                | .ok kerning =>
                  match tokStage fs t r.features "features.fea" P.features with
                  | .error e => .error e
                  | .ok features =>
                    .ok { metaTok := metaTok, info := info, lib := lib, groups := groups,
                          kerning := kerning, features := features }

def loadImpl (P : Parser β) (fs : FS β) (t : APath) (r : Request) : Except LoadErr (AFont β) :=
  match loadScalars P fs t r with
  | .error e => .error e
  | .ok sc =>
    match loadLayerSet P fs t r with
    | .error e => .error e
    | .ok layers =>
      match loadStore r.data .data fs t with
      | .error e => .error e
      | .ok data =>
        match loadStore r.images .images fs t with
        | .error e => .error e
        | .ok images =>
          .ok { version := 3, metaTok := sc.metaTok, info := sc.info, lib := sc.lib,
                groups := sc.groups, groupsValid := true, kerning := sc.kerning, features := sc.features,
                layers := layers, data := data, images := images }

/-! ### the specification side: the full load restricted to what was requested -/

def emptyStore : Store β := { root := [], items := [] }

def restrictLayers (r : Request) (ls : List ALayer) : List ALayer :=
  let kept := ls.filter fun l => shouldLoad r l.name l.dir
  if includesDefault r || kept.any isDefaultLayer then kept else placeholder :: kept

/-- un-requested parts replaced by their empty defaults; without `lib` the guideline libs go too (they are
    stored in lib.plist); the default layer is always present, empty if it was filtered out -/
def restrict (r : Request) (f : AFont β) : AFont β :=
  { f with
    lib := if r.lib then f.lib else [],
    info := if r.lib then f.info else { f.info with guides := f.info.guides.map fun g => { g with lib := none } },
    groups := if r.groups then f.groups else 0,
    kerning := if r.kerning then f.kerning else 0,
    features := if r.features then f.features else 0,
    data := if r.data then f.data else emptyStore,
    images := if r.images then f.images else emptyStore,
    layers := restrictLayers r f.layers }

end FontLoad
