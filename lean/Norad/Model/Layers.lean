/-!
# C06 / C07 (container level) model: `Layer` and `LayerContents` (`src/layer.rs`)

State machines transcribing the container operations of `layer.rs:145-249` (layer set) and
`:482-581` (layer), the load order of `:58-106` and the save/load of the name-level tree
(`:318-367`, `:420-445`, `font.rs:510-524`).

* Strings are `List Char`.  `lower` (`str::to_lowercase`) and the file-name functions
  (`util.rs:21-28`, modelled in `Model/FileName.lean` and proved to satisfy the contracts below)
  are PARAMETERS: every theorem holds for every `lower` and every `assign` meeting `AssignOK`.
* Glyph *contents* are irrelevant here: a layer holds glyph names.  The three redundant
  indices of the Rust (`glyphs`, `contents`, `path_set`) are all present.
* Every operation returns the new state together with a result; the two places where the Rust
  can panic (`layer.rs:215` `position(..).unwrap()`, `:437` `expect("all glyphs in contents
  must exist")`) are explicit `panic` results, never totalised.
-/
namespace Layers

abbrev Str := List Char

/-! ## association lists (`BTreeMap<Name, PathBuf>`) -/

def lookup (k : Str) : List (Str × Str) → Option Str
  | [] => none
  | (k', v) :: r => if k' = k then some v else lookup k r

def eraseKey (k : Str) (l : List (Str × Str)) : List (Str × Str) := l.filter (fun e => e.1 ≠ k)

def keys (l : List (Str × Str)) : List Str := l.map (·.1)

/-! ## Layer -/

structure Layer where
  name     : Str
  /-- directory of the layer inside the UFO -/
  path     : Str
  /-- keys of the user-visible glyph map -/
  glyphs   : List Str
  /-- glyph name ↦ glif file name (the `contents.plist` index) -/
  contents : List (Str × Str)
  /-- lower-cased glif file names in use -/
  pathSet  : List Str
  deriving Repr, DecidableEq

inductive NErr | duplicate | missing | invalid | reserved
  deriving DecidableEq, Repr

/-- result of an operation: `ok`, an error value, or a panic at a named site -/
inductive Res | ok | err (e : NErr) | panic (site : String)
  deriving DecidableEq, Repr

def defaultName : Str := "public.default".toList
def glyphsDir : Str := "glyphs".toList

def Layer.new (name path : Str) : Layer :=
  { name := name, path := path, glyphs := [], contents := [], pathSet := [] }

def Layer.default : Layer := Layer.new defaultName glyphsDir

def Layer.isDefault (L : Layer) : Bool := L.path = glyphsDir

section
variable (lower : Str → Str)
-- `default_file_name_for_glyph_name name path_set` (`none` = the documented panic after 99 clashes)
variable (assignG : Str → List Str → Option Str)
-- `default_file_name_for_layer_name name path_set`
variable (assignL : Str → List Str → Option Str)
-- `Name::new(..).is_ok()`
variable (valid : Str → Bool)

def addGlyphName (g : Str) (gs : List Str) : List Str := if g ∈ gs then gs else g :: gs

/-- `Layer::insert_glyph` (`layer.rs:505-513`) -/
def insertGlyph (L : Layer) (g : Str) : Layer × Res :=
  if g ∈ keys L.contents then
    ({ L with glyphs := addGlyphName g L.glyphs }, .ok)
  else
    match assignG g L.pathSet with
    | none => (L, .panic "99 file-name clashes (documented)")
    | some p =>
      ({ L with glyphs := addGlyphName g L.glyphs,
                contents := (g, p) :: L.contents,
                pathSet := lower p :: L.pathSet }, .ok)

/-- `Layer::remove_glyph` (`layer.rs:523-528`) -/
def removeGlyph (L : Layer) (n : Str) : Layer :=
  { L with glyphs := L.glyphs.filter (· ≠ n),
           contents := eraseKey n L.contents,
           pathSet := match lookup n L.contents with
             | some p => L.pathSet.filter (· ≠ lower p)
             | none => L.pathSet }

/-- `Layer::clear` -/
def clearLayer (L : Layer) : Layer := { L with glyphs := [], contents := [], pathSet := [] }

/-- `Layer::retain` (`layer.rs:571-584`, after the repair): glyph map filtered, then the contents
    index and the path set pruned to the surviving glyphs -/
def retainGlyphs (L : Layer) (keep : Str → Bool) : Layer :=
  let gs := L.glyphs.filter keep
  let dropped := L.contents.filter (fun e => e.1 ∉ gs)
  { L with glyphs := gs,
           contents := L.contents.filter (fun e => e.1 ∈ gs),
           pathSet := L.pathSet.filter (fun s => s ∉ dropped.map (fun e => lower e.2)) }

/-- `Layer::entry(name).or_insert(..)`: touches the glyph map only (`layer.rs:482-484`) -/
def entryOrInsert (L : Layer) (n : Str) : Layer := { L with glyphs := addGlyphName n L.glyphs }

/-- `Layer::entry(name)` → `Occupied` → `remove()`: touches the glyph map only -/
def entryRemove (L : Layer) (n : Str) : Layer := { L with glyphs := L.glyphs.filter (· ≠ n) }

/-- `Layer::rename_glyph` (`layer.rs:538-555`) -/
def renameGlyph (L : Layer) (old new : Str) (overwrite : Bool) : Layer × Res :=
  if !overwrite && new ∈ L.glyphs then (L, .err .duplicate)
  else if old ∉ L.glyphs then (L, .err .missing)
  else if !valid new then (L, .err .invalid)
  else insertGlyph lower assignG (removeGlyph lower L old) new

/-! ## Layer set -/

structure LayerSet where
  layers  : List Layer
  /-- lower-cased directories of the non-default layers -/
  pathSet : List Str
  deriving Repr, DecidableEq

def LayerSet.default : LayerSet := { layers := [Layer.default], pathSet := [] }

def getLayer (S : LayerSet) (name : Str) : Option Layer := S.layers.find? (·.name = name)

def headName (S : LayerSet) : Option Str := S.layers.head?.map (·.name)

/-- `LayerContents::new_layer` (`layer.rs:145-158`) -/
def newLayer (S : LayerSet) (name : Str) : LayerSet × Res :=
  if name = defaultName then (S, .err .reserved)
  else if S.layers.any (·.name = name) then (S, .err .duplicate)
  else if !valid name then (S, .err .invalid)
  else
    match assignL name S.pathSet with
    | none => (S, .panic "99 file-name clashes (documented)")
    | some p => ({ layers := S.layers ++ [Layer.new name p], pathSet := lower p :: S.pathSet }, .ok)

/-- `LayerContents::get_or_create_layer` -/
def getOrCreateLayer (S : LayerSet) (name : Str) : LayerSet × Res :=
  if S.layers.any (·.name = name) then (S, .ok) else newLayer lower assignL valid S name

/-- remove the first element satisfying `p` -/
def removeFirst (p : Layer → Bool) : List Layer → List Layer
  | [] => []
  | l :: r => if p l then r else l :: removeFirst p r

/-- `LayerContents::remove` (`layer.rs:172-185`): the first non-default-position layer of that name -/
def removeLayer (S : LayerSet) (name : Str) : LayerSet :=
  match S.layers with
  | [] => S
  | d :: rest =>
    match rest.find? (·.name = name) with
    | none => S
    | some l => { layers := d :: removeFirst (·.name = name) rest,
                  pathSet := S.pathSet.filter (· ≠ lower l.path) }

/-- rename the first layer called `old` to `new`, giving it `path` when it is not in first position -/
def renameAt (old new : Str) (newPath : Option Str) : List Layer → List Layer
  | [] => []
  | l :: r =>
    if l.name = old then
      { l with name := new, path := match newPath with | some p => p | none => l.path } :: r
    else l :: renameAt old new newPath r

/-- `LayerContents::rename_layer` (`layer.rs:196-233`, after the two repairs) -/
def renameLayer (S : LayerSet) (old new : Str) (overwrite : Bool) : LayerSet × Res :=
  if !overwrite && (getLayer S new).isSome then (S, .err .duplicate)
  else if (getLayer S old).isNone then (S, .err .missing)
  else if new = defaultName && headName S ≠ some old then (S, .err .reserved)
  else if headName S = some new && headName S ≠ some old then (S, .err .duplicate)
  else if !valid new then (S, .err .invalid)
  else
    let S₁ := if overwrite && old ≠ new then removeLayer lower S new else S
    match S₁.layers with
    | [] => (S₁, .panic "layer.rs:215 position(..).unwrap()")
    | d :: rest =>
      if d.name = old then
        -- the default layer keeps its directory
        ({ S₁ with layers := { d with name := new } :: rest }, .ok)
      else
        match rest.find? (·.name = old) with
        | none => (S₁, .panic "layer.rs:215 position(..).unwrap()")
        | some l =>
          let ps := S₁.pathSet.filter (· ≠ lower l.path)
          match assignL new ps with
          | none => (S₁, .panic "99 file-name clashes (documented)")
          | some p =>
            ({ layers := d :: renameAt old new (some p) rest, pathSet := lower p :: ps }, .ok)

/-- `LayerContents::retain` (`layer.rs:238-243`): the path set is not touched -/
def retainLayers (S : LayerSet) (keep : Layer → Bool) : LayerSet :=
  { S with layers := S.layers.filter (fun l => l.isDefault || keep l) }

/-- `LayerContents::remove_empty_layers` -/
def removeEmptyLayers (S : LayerSet) : LayerSet := retainLayers S (fun l => !l.glyphs.isEmpty)

/-! ## operations as data, histories -/

inductive Op
  | insertGlyph (li : Nat) (g : Str)
  | removeGlyph (li : Nat) (g : Str)
  | renameGlyph (li : Nat) (old new : Str) (ow : Bool)
  | clear (li : Nat)
  | retain (li : Nat) (keep : List Str)
  | entryOrInsert (li : Nat) (g : Str)
  | entryRemove (li : Nat) (g : Str)
  | newLayer (n : Str)
  | getOrCreate (n : Str)
  | removeLayer (n : Str)
  | renameLayer (old new : Str) (ow : Bool)
  | retainLayers (keep : List Str)
  | removeEmpty
  deriving Repr, DecidableEq

/-- apply a layer operation to the layer at index `li` (an index out of range is not a call) -/
def onLayer (S : LayerSet) (li : Nat) (f : Layer → Layer × Res) : LayerSet × Res :=
  match S.layers[li]? with
  | none => (S, .ok)
  | some L =>
    let (L', r) := f L
    ({ S with layers := S.layers.set li L' }, r)

def step (S : LayerSet) : Op → LayerSet × Res
  | .insertGlyph li g => onLayer S li (fun L => insertGlyph lower assignG L g)
  | .removeGlyph li g => onLayer S li (fun L => (removeGlyph lower L g, .ok))
  | .renameGlyph li o n ow => onLayer S li (fun L => renameGlyph lower assignG valid L o n ow)
  | .clear li => onLayer S li (fun L => (clearLayer L, .ok))
  | .retain li keep => onLayer S li (fun L => (retainGlyphs lower L (fun g => g ∈ keep), .ok))
  | .entryOrInsert li g => onLayer S li (fun L => (entryOrInsert L g, .ok))
  | .entryRemove li g => onLayer S li (fun L => (entryRemove L g, .ok))
  | .newLayer n => newLayer lower assignL valid S n
  | .getOrCreate n => getOrCreateLayer lower assignL valid S n
  | .removeLayer n => (removeLayer lower S n, .ok)
  | .renameLayer o n ow => renameLayer lower assignL valid S o n ow
  | .retainLayers keep => (retainLayers S (fun l => l.name ∈ keep), .ok)
  | .removeEmpty => (removeEmptyLayers S, .ok)

def run (S : LayerSet) : List Op → LayerSet
  | [] => S
  | op :: ops => run (step lower assignG assignL valid S op).1 ops

end

/-! ## the name-level tree written by `Font::save` and read by `Font::load` -/

/-- one layer directory: the `contents.plist` index and the glif files present -/
structure DirT where
  contents : List (Str × Str)
  files    : List Str
  deriving Repr, DecidableEq

/-- `layercontents.plist` entries (name, directory) and the directories -/
structure Tree where
  layercontents : List (Str × Str)
  dirs : List (Str × DirT)
  deriving Repr, DecidableEq

inductive SaveRes | ok (t : Tree) | panic (site : String)
  deriving Repr, DecidableEq

/-- `Layer::save_with_options` at name level: `contents.plist` is the index; one glif per index entry,
    and the glyph must exist (`layer.rs:437`) -/
def saveLayer (L : Layer) : Option DirT :=
  if L.contents.all (fun e => e.1 ∈ L.glyphs) then
    some { contents := L.contents, files := L.contents.map (·.2) }
  else none

def saveDirs : List Layer → Option (List (Str × DirT))
  | [] => some []
  | L :: r =>
    match saveLayer L, saveDirs r with
    | some d, some ds => some ((L.path, d) :: ds)
    | _, _ => none

/-- `Font::save` at name level (`font.rs:510-524`); `create_dir` failures for a repeated directory are
    outside this model (the invariant makes directories distinct) -/
def saveTree (S : LayerSet) : SaveRes :=
  match saveDirs S.layers with
  | some ds => .ok { layercontents := S.layers.map (fun l => (l.name, l.path)), dirs := ds }
  | none => .panic "layer.rs:437 all glyphs in contents must exist"

def lookupDir (k : Str) : List (Str × DirT) → Option DirT
  | [] => none
  | (k', v) :: r => if k' = k then some v else lookupDir k r

/-- `Layer::load_impl` at name level: glyph names are the keys of `contents.plist`; every listed glif
    file must exist; the path set is rebuilt from the index (`layer.rs:331`) -/
def loadLayer (lower : Str → Str) (name path : Str) (d : DirT) : Option Layer :=
  if d.contents.all (fun e => e.2 ∈ d.files) then
    some { name := name, path := path, glyphs := keys d.contents, contents := d.contents,
           pathSet := d.contents.map (fun e => lower e.2) }
  else none

def loadLayers (lower : Str → Str) (dirs : List (Str × DirT)) : List (Str × Str) → Option (List Layer)
  | [] => some []
  | (n, p) :: r =>
    match lookupDir p dirs with
    | none => none
    | some d =>
      match loadLayer lower n p d, loadLayers lower dirs r with
      | some L, some Ls => some (L :: Ls)
      | _, _ => none

/-- move the first layer living in `glyphs` to the front, keeping the order of the others
    (`layer.rs:97-104`, after the repair) -/
def defaultFirst : List Layer → Option (List Layer)
  | ls =>
    match ls.find? (·.isDefault) with
    | none => none
    | some d => some (d :: removeFirst (·.isDefault) ls)

/-- `LayerContents::load` with the all-layers filter (`layer.rs:58-113`, after the repairs) -/
def loadTree (lower : Str → Str) (t : Tree) : Option LayerSet :=
  match loadLayers lower t.dirs t.layercontents with
  | none => none
  | some ls =>
    match defaultFirst ls with
    | none => none
    | some ls' => some { layers := ls', pathSet := (ls'.drop 1).map (fun l => lower l.path) }

/-! ### partial loads: the layer filter of `DataRequest` (`data_request.rs:62-82`, `layer.rs:71-96`) -/

structure LFilter where
  all : Bool
  loadDefault : Bool
  custom : Option (Str → Str → Bool)

def LFilter.shouldLoad (f : LFilter) (name dir : Str) : Bool :=
  f.all || (f.loadDefault && dir = glyphsDir) || (match f.custom with | some c => c name dir | none => false)

def LFilter.includesDefault (f : LFilter) : Bool := f.all || f.loadDefault

/-- `LayerContents::load` with a filter (after the repair: the empty placeholder is added only when the
    filter does not ask for the default layer AND no loaded layer is the default one) -/
def loadTreeF (lower : Str → Str) (f : LFilter) (t : Tree) : Option LayerSet :=
  match loadLayers lower t.dirs (t.layercontents.filter fun e => f.shouldLoad e.1 e.2) with
  | none => none
  | some ls =>
    let ls₁ := if !f.includesDefault && !ls.any (·.isDefault) then ls ++ [Layer.default] else ls
    match defaultFirst ls₁ with
    | none => none
    | some ls' => some { layers := ls', pathSet := (ls'.drop 1).map (fun l => lower l.path) }

/-- what the containers report: per layer its name, directory and glyph names -/
def report (S : LayerSet) : List (Str × Str × List Str) := S.layers.map (fun l => (l.name, l.path, l.glyphs))

end Layers
