/-!
# C18 — data types shared by the designspace model, its specification and the driver (core Lean only)

* `Tree` — generic XML tree (`elem name attrs children | txt`), attributes after unescaping.
* `PV` — property-list value as `plist::Value` (`str | int | real | bool | data | date | arr | dict | uid`);
  arrays and dictionaries are explicit mutual list types so that every function on them is plainly
  structural.  A dictionary is an ordered key/value list (`plist::Dictionary` is an `IndexMap`).
* `Doc` … — mirror of `norad::designspace::DesignSpaceDocument`, field by field.
* `Codec` — everything norad delegates to `std`/third-party formatting: `f32`/`f64` `Display`/`FromStr`,
  integer `Display`/`FromStr`, base64, `plist::Date::{to,from}_xml_format`.  `f32`/`f64` values are bit
  patterns; the laws assumed of the codec are hypotheses of the theorems (`CodecLaws`), never axioms.
-/
namespace C18

structure F32 where
  bits : Nat
deriving DecidableEq, Repr

structure F64 where
  bits : Nat
deriving DecidableEq, Repr

/-- `plist::Date` = a `SystemTime`: seconds since the Unix epoch (floor) and nanoseconds -/
structure Date where
  secs : Int
  nanos : Nat
deriving DecidableEq, Repr

mutual
inductive PV
  | str (s : String)
  | int (i : Int)
  | real (r : F64)
  | bool (b : Bool)
  | data (d : List UInt8)
  | date (d : Date)
  | arr (xs : PVs)
  | dict (kvs : KVs)
  | uid (n : Nat)
inductive PVs
  | nil
  | cons (v : PV) (r : PVs)
inductive KVs
  | nil
  | cons (k : String) (v : PV) (r : KVs)
end

deriving instance DecidableEq for PV, PVs, KVs

/-- `Dictionary::insert` (`IndexMap`): an existing key keeps its position and gets the new value -/
def KVs.insert : KVs → String → PV → KVs
  | .nil, k, v => .cons k v .nil
  | .cons k' v' r, k, v => if k' = k then .cons k' v r else .cons k' v' (r.insert k v)

def KVs.insertAll (acc : KVs) : KVs → KVs
  | .nil => acc
  | .cons k v r => (acc.insert k v).insertAll r

def KVs.keys : KVs → List String
  | .nil => []
  | .cons k _ r => k :: r.keys

def KVs.append : KVs → KVs → KVs
  | .nil, b => b
  | .cons k v r, b => .cons k v (r.append b)

inductive Tree
  | elem (name : String) (attrs : List (String × String)) (children : List Tree)
  | txt (s : String)

structure AxisMapping where
  input : F32
  output : F32
deriving DecidableEq

structure Axis where
  name : String
  tag : String
  default : F32
  hidden : Bool
  minimum : Option F32
  maximum : Option F32
  values : Option (List F32)
  map : Option (List AxisMapping)
deriving DecidableEq

inductive RuleProcessing
  | first
  | last
deriving DecidableEq

structure Condition where
  name : String
  minimum : Option F32
  maximum : Option F32
deriving DecidableEq

structure ConditionSet where
  conditions : List Condition
deriving DecidableEq

structure Substitution where
  name : String
  withName : String
deriving DecidableEq

structure Rule where
  name : Option String
  conditionSets : List ConditionSet
  substitutions : List Substitution
deriving DecidableEq

structure Rules where
  processing : RuleProcessing
  rules : List Rule
deriving DecidableEq

structure Dimension where
  name : String
  uservalue : Option F32
  xvalue : Option F32
  yvalue : Option F32
deriving DecidableEq

structure Source where
  familyname : Option String
  stylename : Option String
  name : Option String
  filename : String
  layer : Option String
  location : List Dimension
deriving DecidableEq

structure Instance where
  familyname : Option String
  stylename : Option String
  name : Option String
  filename : Option String
  postscriptfontname : Option String
  stylemapfamilyname : Option String
  stylemapstylename : Option String
  location : List Dimension
  lib : KVs
deriving DecidableEq

structure Doc where
  format : F32
  axes : List Axis
  rules : Rules
  sources : List Source
  instances : List Instance
  lib : KVs
deriving DecidableEq

/-- formatting and parsing that norad delegates to `std`, `base64` and `plist` -/
structure Codec where
  /-- `f32::to_string` -/
  showF32 : F32 → String
  /-- `str::parse::<f32>` -/
  readF32 : String → Option F32
  /-- `f64::to_string` -/
  showF64 : F64 → String
  /-- `str::parse::<f64>` -/
  readF64 : String → Option F64
  /-- `i64::to_string` / `u64::to_string` (through `plist::Integer`'s `Serialize`) -/
  showInt : Int → String
  /-- `str::parse::<i64>` -/
  parseI64 : String → Option Int
  /-- `str::parse::<u64>` -/
  parseU64 : String → Option Int
  /-- `u64::from_str_radix(_, 16)` -/
  parseHexU64 : String → Option Int
  /-- `base64::STANDARD.encode` -/
  encData : List UInt8 → String
  /-- `base64::STANDARD.decode` -/
  decData : String → Option (List UInt8)
  /-- `plist::Date::to_xml_format`; `none` = it panics (date not printable as RFC 3339) -/
  showDate : Date → Option String
  /-- `plist::Date::from_xml_format` -/
  readDate : String → Option Date

/-- the white space quick-xml trims from text content: blank, tab, CR, LF -/
def isXmlBlank (c : Char) : Bool := c == ' ' || c == '\t' || c == '\r' || c == '\n'

def trimChars (cs : List Char) : List Char :=
  ((cs.dropWhile isXmlBlank).reverse.dropWhile isXmlBlank).reverse

/-- what quick-xml's serde deserializer hands over for a text node: both ends trimmed -/
def trimXml (s : String) : String := String.ofList (trimChars s.toList)

/-- no XML blank at either end (the empty string qualifies) -/
def edgeClean (s : String) : Bool :=
  match s.toList with
  | [] => true
  | c :: r => !isXmlBlank c && !isXmlBlank ((c :: r).getLast?.getD c)

def i64Min : Int := -9223372036854775808
def i64Max : Int := 9223372036854775807
def u64Max : Int := 18446744073709551615

/-- a representable `f32` / `f64` bit pattern that is not a NaN -/
def F32.notNaN (x : F32) : Bool := x.bits < 4294967296 && !(x.bits % 2147483648 > 2139095040)
def F64.notNaN (x : F64) : Bool :=
  x.bits < 18446744073709551616 && !(x.bits % 9223372036854775808 > 9218868437227405312)

end C18
