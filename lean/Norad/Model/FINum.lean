/-!
# Exact content of an `f64` bit pattern and the casts font info uses (core Lean only)

A finite double is `(-1)^neg · m · 2^up / 2^down` with natural numbers only (one of `up`, `down` is 0),
so that `round`, `abs`, the range test of guideline angles and the saturating `as i32` / `as u32`
are exact integer arithmetic.  Shared by the C13 and C14 models; base vocabulary, not property logic.
-/
namespace FI

inductive Dbl where
  | nan
  | inf (neg : Bool)
  | fin (neg : Bool) (m up down : Nat)
  deriving Repr, DecidableEq, Inhabited

/-- decode the 64 bits of an IEEE-754 double -/
def decode (bits : Nat) : Dbl :=
  let neg := (bits / 2 ^ 63) % 2 == 1
  let ex := (bits / 2 ^ 52) % 2048
  let fr := bits % 2 ^ 52
  if ex = 2047 then (if fr = 0 then .inf neg else .nan)
  else if ex = 0 then .fin neg fr 0 1074
  else .fin neg (fr + 2 ^ 52) (ex - 1075) (1075 - ex)

/-- numerator and denominator of the magnitude of a finite double -/
def Dbl.num (m up : Nat) : Nat := m * 2 ^ up
def Dbl.den (down : Nat) : Nat := 2 ^ down

/-- `f64::round` (half away from zero) of the magnitude `n / d` -/
def roundMag (n d : Nat) : Nat := (2 * n + d) / (2 * d)

/-- truncation of the magnitude -/
def truncMag (n d : Nat) : Nat := n / d

def i32Max : Int := 2147483647
def i32Min : Int := -2147483648
def u32Max : Nat := 4294967295

def satI32 (z : Int) : Int := if z > i32Max then i32Max else if z < i32Min then i32Min else z
def satU32 (n : Nat) : Nat := if n > u32Max then u32Max else n

/-- `v.round() as i32` (Rust: saturating, NaN ↦ 0) -/
def roundI32 : Dbl → Int
  | .nan => 0
  | .inf neg => if neg then i32Min else i32Max
  | .fin neg m up down =>
    let r : Int := Int.ofNat (roundMag (Dbl.num m up) (Dbl.den down))
    satI32 (if neg then -r else r)

/-- `v.round().abs() as u32` (Rust: saturating, NaN ↦ 0) -/
def roundAbsU32 : Dbl → Nat
  | .nan => 0
  | .inf _ => u32Max
  | .fin _ m up down => satU32 (roundMag (Dbl.num m up) (Dbl.den down))

/-- `v.abs()` -/
def Dbl.abs : Dbl → Dbl
  | .nan => .nan
  | .inf _ => .inf false
  | .fin _ m up down => .fin false m up down

/-- `is_sign_positive` — for NaN the sign bit decides; the decoder drops it, callers pass it separately
    when it matters (only `NonNegativeIntegerOrFloat::new(v.abs())`, where the sign is cleared) -/
def Dbl.signPositive : Dbl → Bool
  | .nan => true
  | .inf neg => !neg
  | .fin neg _ _ _ => !neg

/-- `(0.0..=360.0).contains(&x)`: NaN and the infinities are outside, `-0.0` is inside -/
def Dbl.in0to360 : Dbl → Bool
  | .nan => false
  | .inf _ => false
  | .fin neg m up down =>
    if neg then m == 0 else decide (Dbl.num m up ≤ 360 * Dbl.den down)

/-- numeric equality of two doubles as Rust's `==` sees it (NaN ≠ NaN, `-0.0 == 0.0`) -/
def Dbl.numEq : Dbl → Dbl → Bool
  | .inf a, .inf b => a == b
  | .fin n1 m1 u1 d1, .fin n2 m2 u2 d2 =>
    (m1 == 0 && m2 == 0) ||
    (n1 == n2 && Dbl.num m1 u1 * Dbl.den d2 == Dbl.num m2 u2 * Dbl.den d1)
  | _, _ => false

def hexNat (s : String) : Option Nat :=
  s.toList.foldl (fun acc c =>
    match acc with
    | none => none
    | some n =>
      if '0' ≤ c ∧ c ≤ '9' then some (n * 16 + (c.toNat - '0'.toNat))
      else if 'a' ≤ c ∧ c ≤ 'f' then some (n * 16 + (c.toNat - 'a'.toNat + 10))
      else none) (some 0)

/-- 16 hex digits → double -/
def dblOfHex (s : String) : Option Dbl :=
  if s.length ≠ 16 then none else (hexNat s).map decode

end FI
