import Norad.Model.C11
/-!
# glif parser model (`src/glyph/parse.rs`, `src/glyph/mod.rs:167-206`) over quick-xml events

`parseGlif rd evs` transcribes `GlifParser::from_xml` on the event list the tokeniser produces
for the document (tokenising itself is trusted; the harness obtains the list by running quick-xml
0.37 with norad's reader configuration).  The nested read loops of the Rust (`start`,
`parse_body`, `parse_outline`, `parse_contour`, `parse_lib`, `parse_note`) are one state machine
with an explicit `Mode`, so that the whole parser is a structural fold over the event list.

* numbers: `rd : Str → Option Nat` is Rust's `str::parse::<f64>` as a parameter (bits of the
  double, `none` = parse error).  Range tests are done on the bit pattern.
* attribute lists: `none` = quick-xml reported an attribute error (syntax, duplicate, bad escape)
  somewhere in the element.  Every loop over attributes in parse.rs fails in that case.
* per-element attribute parsers return `Option` (error kinds inside one element are erased: only
  accept/reject is compared); the caller names the element in the error kind.
* `Ev.startLib a v`: the Start event of an element named `lib`, together with the `plist` crate's
  verdict on the byte slice from there to the next `</lib>` (`parse_lib` hands exactly that slice
  to `plist::Value::from_reader_xml`).  The tokeniser never produces `start "lib"`.
* comments between elements are skipped in `glyph`, `outline` and `contour` (the `fix:` commit of
  this check; the pinned tree rejected them with `MissingCloseTag`/`UnexpectedElement`).
* contour legality is `C11.accepts` (already proved equivalent to `C11.Legal`); the builder's
  per-point checks are evaluated at `</contour>` instead of point by point, which gives the same
  accept/reject verdict because every error aborts the parse.
-/
namespace Glif

abbrev Str := List Char
abbrev Attr := Str × Str

/-- property-list value; scalars other than strings travel as their canonical protocol token -/
inductive PV where
  | str (s : Str)
  | atom (tok : String)
  | arr (xs : List PV)
  | dict (kvs : List (Str × PV))

abbrev Dict := List (Str × PV)

/-- verdict of the `plist` crate on the lib slice -/
inductive LibV where
  | bad | notDict | dict (d : Dict)

inductive Ev where
  | decl | comment | other | cdata
  /-- the reader returned an error (ill-formed XML, mismatched end tag, …) -/
  | error
  /-- text after trimming; `none` = `unescape()` failed -/
  | text (s : Option Str)
  | start (n : Str) (a : Option (List Attr))
  | startLib (a : Option (List Attr)) (v : LibV)
  | empty (n : Str) (a : Option (List Attr))
  | close (n : Str)

inductive Kind where
  | xml | wrongFirstElement | unsupportedVersion | glyphAttrs
  | duplicateElement (n : String) | unexpectedV1Element (n : String)
  | unexpectedElement | missingCloseTag | unexpectedEof
  | badElement (n : String)
  | contour | badLib | libMustBeDictionary | objectLibsMustBeDictionary | objectLibMustBeDictionary
  deriving DecidableEq, Repr

/-! ### values -/

structure Color where
  r : Nat
  g : Nat
  b : Nat
  a : Nat
  deriving DecidableEq, Repr

def f64One : Nat := 0x3FF0000000000000
def f64NegZero : Nat := 0x8000000000000000

/-- `(0.0..=hi).contains(v)` on bit patterns, `hi` a positive finite double: `-0.0` or
    non-negative with bits ≤ bits(hi) (NaN and +inf have larger bit patterns). -/
def inRange (hi b : Nat) : Bool := b == f64NegZero || decide (b ≤ hi)
def angleOk (b : Nat) : Bool := inRange 0x4076800000000000 b
def unitOk (b : Nat) : Bool := inRange f64One b

structure Transform where
  xScale : Nat := f64One
  xyScale : Nat := 0
  yxScale : Nat := 0
  yScale : Nat := f64One
  xOffset : Nat := 0
  yOffset : Nat := 0
  deriving DecidableEq, Repr

structure Anchor where
  x : Nat
  y : Nat
  name : Option Str
  color : Option Color
  ident : Option Str
  lib : Option Dict := none

inductive Line where
  | vertical (x : Nat) | horizontal (y : Nat) | angle (x y deg : Nat)
  deriving DecidableEq, Repr

structure Guideline where
  line : Line
  name : Option Str
  color : Option Color
  ident : Option Str
  lib : Option Dict := none

structure Point where
  x : Nat
  y : Nat
  typ : C11.PT
  smooth : Bool
  name : Option Str
  ident : Option Str
  lib : Option Dict := none

structure Contour where
  points : List Point
  ident : Option Str
  lib : Option Dict := none

structure Component where
  base : Str
  transform : Transform
  ident : Option Str
  lib : Option Dict := none

structure Image where
  fileName : Str
  color : Option Color
  transform : Transform
  deriving DecidableEq, Repr

structure Glyph where
  name : Str
  width : Nat := 0
  height : Nat := 0
  codepoints : List Nat := []
  note : Option Str := none
  guidelines : List Guideline := []
  anchors : List Anchor := []
  components : List Component := []
  contours : List Contour := []
  image : Option Image := none
  lib : Dict := []

/-! ### attribute value parsers -/

def sHex : Str := "hex".toList
def sIdentifier : Str := "identifier".toList

/-- `Name::new` (`name.rs:47`) -/
def validName (s : Str) : Bool :=
  !s.isEmpty && s.all fun c => !(c.toNat ≤ 31 || c.toNat == 127 || (128 ≤ c.toNat && c.toNat ≤ 159))

/-- `Identifier::new` (`identifier.rs:49`); note: the empty string passes -/
def validIdent (s : Str) : Bool :=
  decide (s.length ≤ 100) && s.all fun c => 32 ≤ c.toNat && c.toNat ≤ 126

def digitVal (base : Nat) (c : Char) : Option Nat :=
  let v := if '0' ≤ c ∧ c ≤ '9' then some (c.toNat - '0'.toNat)
    else if 'a' ≤ c ∧ c ≤ 'z' then some (c.toNat - 'a'.toNat + 10)
    else if 'A' ≤ c ∧ c ≤ 'Z' then some (c.toNat - 'A'.toNat + 10)
    else none
  match v with
  | some d => if d < base then some d else none
  | none => none

def digitsVal (base : Nat) : Str → Nat → Option Nat
  | [], acc => some acc
  | c :: r, acc => match digitVal base c with
    | none => none
    | some d => digitsVal base r (acc * base + d)

/-- Rust's `u32::from_str_radix`: an optional `+`, at least one digit, no overflow -/
def parseU32 (base : Nat) (s : Str) : Option Nat :=
  let ds := match s with
    | '+' :: r => if r.isEmpty then s else r
    | _ => s
  if ds.isEmpty then none else
  match digitsVal base ds 0 with
  | some n => if n ≤ 4294967295 then some n else none
  | none => none

/-- `u32::from_str_radix(v, 16)` then `char::try_from` (`parse.rs:412-415`) -/
def parseHex (s : Str) : Option Nat :=
  match parseU32 16 s with
  | some n => if n ≤ 0x10FFFF && !(0xD800 ≤ n && n ≤ 0xDFFF) then some n else none
  | none => none

/-- Rust's `str::split(sep)` -/
def splitOn (sep : Char) : Str → List Str
  | [] => [[]]
  | c :: r =>
    if c = sep then [] :: splitOn sep r
    else match splitOn sep r with
      | [] => [[c]]
      | h :: t => (c :: h) :: t

section
variable (rd : Str → Option Nat)

/-- `Color::from_str` (`shared_types.rs:58-74`): exactly four numbers in `0..=1` -/
def readCol (v : Str) : Option Color :=
  match (splitOn ',' v).map rd with
  | [some r, some g, some b, some a] =>
    if unitOk r && unitOk g && unitOk b && unitOk a then some ⟨r, g, b, a⟩ else none
  | _ => none

/-- `parse_identifier` (`parse.rs:196-207`) for an element; the caller inserts the result into `seen` -/
def readIdent (ver : Nat) (seen : List Str) (v : Str) : Option Str :=
  if ver = 1 then none
  else if validIdent v && !seen.contains v then some v else none

/-- generic attribute loop: `for attr in data.attributes() { … }` -/
def foldAttrs {σ : Type} (step : σ → Attr → Option σ) : σ → List Attr → Option σ
  | acc, [] => some acc
  | acc, a :: as => match step acc a with
    | none => none
    | some acc' => foldAttrs step acc' as

/-! #### `<glyph>` (`parse.rs:551-580`) -/

structure GlyphAcc where
  name : Option Str := none
  major : Nat := 0
  minor : Nat := 0

inductive GKey | name | format | formatMinor
  deriving DecidableEq, Repr

def gKeyOf (s : Str) : Option GKey :=
  if s = "name".toList then some .name
  else if s = "format".toList then some .format
  else if s = "formatMinor".toList then some .formatMinor
  else none

def gApply (k : GKey) (v : Str) (acc : GlyphAcc) : Option GlyphAcc :=
  match k with
  | .name => if validName v then some { acc with name := some v } else none
  | .format => match parseU32 10 v with | some n => some { acc with major := n } | none => none
  | .formatMinor => match parseU32 10 v with | some n => some { acc with minor := n } | none => none

def gStep (acc : GlyphAcc) (a : Attr) : Option GlyphAcc :=
  match gKeyOf a.1 with
  | none => none
  | some k => gApply k a.2 acc

/-- name and version (1 or 2) -/
def gFinish (acc : GlyphAcc) : Except Kind (Str × Nat) :=
  match acc.name with
  | none => .error .wrongFirstElement
  | some n =>
    if acc.major = 1 ∧ acc.minor = 0 then .ok (n, 1)
    else if acc.major = 2 ∧ acc.minor = 0 then .ok (n, 2)
    else .error .unsupportedVersion

def parseGlyphAttrs (a : Option (List Attr)) : Except Kind (Str × Nat) :=
  match a with
  | none => .error .xml
  | some as => match foldAttrs gStep {} as with
    | none => .error .glyphAttrs
    | some acc => gFinish acc

/-! #### `<advance>` (`parse.rs:382-404`) -/

inductive AdvKey | width | height
  deriving DecidableEq, Repr

def advKeyOf (s : Str) : Option AdvKey :=
  if s = "width".toList then some .width
  else if s = "height".toList then some .height
  else none

/-- accumulator: (width, height) -/
def advApply (k : AdvKey) (v : Str) (acc : Nat × Nat) : Option (Nat × Nat) :=
  match k with
  | .width => match rd v with | some n => some (n, acc.2) | none => none
  | .height => match rd v with | some n => some (acc.1, n) | none => none

def advStep (acc : Nat × Nat) (a : Attr) : Option (Nat × Nat) :=
  match advKeyOf a.1 with
  | none => none
  | some k => advApply rd k a.2 acc

def parseAdvance (as : List Attr) : Option (Nat × Nat) := foldAttrs (advStep rd) (0, 0) as

/-! #### `<unicode>` (`parse.rs:406-422`) -/

/-- `IndexSet::insert`: keeps the first occurrence -/
def cpInsert (cps : List Nat) (c : Nat) : List Nat := if cps.contains c then cps else cps ++ [c]

def uniStep (cps : List Nat) (a : Attr) : Option (List Nat) :=
  if a.1 = sHex then
    match parseHex a.2 with
    | some c => some (cpInsert cps c)
    | none => none
  else none

def parseUnicode (cps : List Nat) (as : List Attr) : Option (List Nat) := foldAttrs uniStep cps as

/-! #### `<anchor>` (`parse.rs:424-457`) -/

structure AnchorAcc where
  x : Option Nat := none
  y : Option Nat := none
  name : Option Str := none
  color : Option Color := none
  ident : Option Str := none

inductive AKey | x | y | name | color | ident
  deriving DecidableEq, Repr

def aKeyOf (s : Str) : Option AKey :=
  if s = "x".toList then some .x
  else if s = "y".toList then some .y
  else if s = "name".toList then some .name
  else if s = "color".toList then some .color
  else if s = "identifier".toList then some .ident
  else none

def aApply (ver : Nat) (seen : List Str) (k : AKey) (v : Str) (acc : AnchorAcc) : Option AnchorAcc :=
  match k with
  | .x => match rd v with | some n => some { acc with x := some n } | none => none
  | .y => match rd v with | some n => some { acc with y := some n } | none => none
  | .name => if validName v then some { acc with name := some v } else none
  | .color => match readCol rd v with | some c => some { acc with color := some c } | none => none
  | .ident => match readIdent ver seen v with | some i => some { acc with ident := some i } | none => none

def aStep (ver : Nat) (seen : List Str) (acc : AnchorAcc) (a : Attr) : Option AnchorAcc :=
  match aKeyOf a.1 with
  | none => none
  | some k => aApply rd ver seen k a.2 acc

def aFinish (acc : AnchorAcc) : Option Anchor :=
  match acc.x, acc.y with
  | some x, some y => some { x := x, y := y, name := acc.name, color := acc.color, ident := acc.ident }
  | _, _ => none

def parseAnchor (ver : Nat) (seen : List Str) (as : List Attr) : Option Anchor :=
  match foldAttrs (aStep rd ver seen) {} as with
  | none => none
  | some acc => aFinish acc

/-! #### `<guideline>` (`parse.rs:459-502`) -/

structure GuideAcc where
  x : Option Nat := none
  y : Option Nat := none
  angle : Option Nat := none
  name : Option Str := none
  color : Option Color := none
  ident : Option Str := none

inductive GuKey | x | y | angle | name | color | ident
  deriving DecidableEq, Repr

def guKeyOf (s : Str) : Option GuKey :=
  if s = "x".toList then some .x
  else if s = "y".toList then some .y
  else if s = "angle".toList then some .angle
  else if s = "name".toList then some .name
  else if s = "color".toList then some .color
  else if s = "identifier".toList then some .ident
  else none

def guApply (ver : Nat) (seen : List Str) (k : GuKey) (v : Str) (acc : GuideAcc) : Option GuideAcc :=
  match k with
  | .x => match rd v with | some n => some { acc with x := some n } | none => none
  | .y => match rd v with | some n => some { acc with y := some n } | none => none
  | .angle => match rd v with
    | some n => if angleOk n then some { acc with angle := some n } else none
    | none => none
  | .name => if validName v then some { acc with name := some v } else none
  | .color => match readCol rd v with | some c => some { acc with color := some c } | none => none
  | .ident => match readIdent ver seen v with | some i => some { acc with ident := some i } | none => none

def guStep (ver : Nat) (seen : List Str) (acc : GuideAcc) (a : Attr) : Option GuideAcc :=
  match guKeyOf a.1 with
  | none => none
  | some k => guApply rd ver seen k a.2 acc

def guFinish (acc : GuideAcc) : Option Guideline :=
  let mk (l : Line) : Guideline := { line := l, name := acc.name, color := acc.color, ident := acc.ident }
  match acc.x, acc.y, acc.angle with
  | some x, none, none => some (mk (.vertical x))
  | none, some y, none => some (mk (.horizontal y))
  | some x, some y, some d => some (mk (.angle x y d))
  | _, _, _ => none

def parseGuideline (ver : Nat) (seen : List Str) (as : List Attr) : Option Guideline :=
  match foldAttrs (guStep rd ver seen) {} as with
  | none => none
  | some acc => guFinish acc

/-! #### transforms, `<image>` (`parse.rs:504-536`), `<component>` (`parse.rs:246-288`) -/

inductive TKey | xScale | xyScale | yxScale | yScale | xOffset | yOffset
  deriving DecidableEq, Repr

def tKeyOf (s : Str) : Option TKey :=
  if s = "xScale".toList then some .xScale
  else if s = "xyScale".toList then some .xyScale
  else if s = "yxScale".toList then some .yxScale
  else if s = "yScale".toList then some .yScale
  else if s = "xOffset".toList then some .xOffset
  else if s = "yOffset".toList then some .yOffset
  else none

def tSet (k : TKey) (n : Nat) (t : Transform) : Transform :=
  match k with
  | .xScale => { t with xScale := n }
  | .xyScale => { t with xyScale := n }
  | .yxScale => { t with yxScale := n }
  | .yScale => { t with yScale := n }
  | .xOffset => { t with xOffset := n }
  | .yOffset => { t with yOffset := n }

/-- path components of a relative path, as `std::path::Components` counts them: empty pieces and
    interior `.` pieces are dropped, a leading `.` is kept -/
def relComponents (s : Str) : List Str :=
  match splitOn '/' s with
  | [] => []
  | h :: t => (if h.isEmpty then [] else [h]) ++ t.filter (fun p => !p.isEmpty && p ≠ ['.'])

/-- `Image::new` (`mod.rs:693-709`): not empty, not absolute, no parent directory -/
def imageNameOk (s : Str) : Bool :=
  !s.isEmpty && s.head? != some '/' && decide ((relComponents s).length ≤ 1)

structure ImageAcc where
  fileName : Option Str := none
  color : Option Color := none
  transform : Transform := {}

inductive IKey | t (k : TKey) | color | fileName
  deriving DecidableEq, Repr

def iKeyOf (s : Str) : Option IKey :=
  match tKeyOf s with
  | some k => some (.t k)
  | none =>
    if s = "color".toList then some .color
    else if s = "fileName".toList then some .fileName
    else none

def iApply (k : IKey) (v : Str) (acc : ImageAcc) : Option ImageAcc :=
  match k with
  | .t tk => match rd v with | some n => some { acc with transform := tSet tk n acc.transform } | none => none
  | .color => match readCol rd v with | some c => some { acc with color := some c } | none => none
  | .fileName => some { acc with fileName := some v }

def iStep (acc : ImageAcc) (a : Attr) : Option ImageAcc :=
  match iKeyOf a.1 with
  | none => none
  | some k => iApply rd k a.2 acc

def iFinish (acc : ImageAcc) : Option Image :=
  match acc.fileName with
  | some f => if imageNameOk f then some { fileName := f, color := acc.color, transform := acc.transform } else none
  | none => none

def parseImage (as : List Attr) : Option Image :=
  match foldAttrs (iStep rd) {} as with
  | none => none
  | some acc => iFinish acc

structure CompAcc where
  base : Option Str := none
  ident : Option Str := none
  transform : Transform := {}

inductive CKey | t (k : TKey) | base | ident
  deriving DecidableEq, Repr

def cKeyOf (s : Str) : Option CKey :=
  match tKeyOf s with
  | some k => some (.t k)
  | none =>
    if s = "base".toList then some .base
    else if s = "identifier".toList then some .ident
    else none

def cApply (ver : Nat) (seen : List Str) (k : CKey) (v : Str) (acc : CompAcc) : Option CompAcc :=
  match k with
  | .t tk => match rd v with | some n => some { acc with transform := tSet tk n acc.transform } | none => none
  | .base => if validName v then some { acc with base := some v } else none   -- "" is ComponentEmptyBase
  | .ident => match readIdent ver seen v with | some i => some { acc with ident := some i } | none => none

def cStep (ver : Nat) (seen : List Str) (acc : CompAcc) (a : Attr) : Option CompAcc :=
  match cKeyOf a.1 with
  | none => none
  | some k => cApply rd ver seen k a.2 acc

def cFinish (acc : CompAcc) : Option Component :=
  match acc.base with
  | some b => some { base := b, transform := acc.transform, ident := acc.ident }
  | none => none

def parseComponent (ver : Nat) (seen : List Str) (as : List Attr) : Option Component :=
  match foldAttrs (cStep rd ver seen) {} as with
  | none => none
  | some acc => cFinish acc

/-! #### `<point>` (`parse.rs:339-380`) -/

structure PointAcc where
  x : Option Nat := none
  y : Option Nat := none
  typ : C11.PT := .off
  smooth : Bool := false
  name : Option Str := none
  ident : Option Str := none

inductive PKey | x | y | name | typ | smooth | ident
  deriving DecidableEq, Repr

def pKeyOf (s : Str) : Option PKey :=
  if s = "x".toList then some .x
  else if s = "y".toList then some .y
  else if s = "name".toList then some .name
  else if s = "type".toList then some .typ
  else if s = "smooth".toList then some .smooth
  else if s = "identifier".toList then some .ident
  else none

/-- `PointType::from_str` (`mod.rs:414-426`) -/
def readPointType (v : Str) : Option C11.PT :=
  if v = "move".toList then some .move
  else if v = "line".toList then some .line
  else if v = "offcurve".toList then some .off
  else if v = "curve".toList then some .curve
  else if v = "qcurve".toList then some .qcurve
  else none

def pApply (ver : Nat) (seen : List Str) (k : PKey) (v : Str) (acc : PointAcc) : Option PointAcc :=
  match k with
  | .x => match rd v with | some n => some { acc with x := some n } | none => none
  | .y => match rd v with | some n => some { acc with y := some n } | none => none
  | .name => if validName v then some { acc with name := some v } else none
  | .typ => match readPointType v with | some t => some { acc with typ := t } | none => none
  | .smooth => some { acc with smooth := decide (v = "yes".toList) }
  | .ident => match readIdent ver seen v with | some i => some { acc with ident := some i } | none => none

def pStep (ver : Nat) (seen : List Str) (acc : PointAcc) (a : Attr) : Option PointAcc :=
  match pKeyOf a.1 with
  | none => none
  | some k => pApply rd ver seen k a.2 acc

def pFinish (acc : PointAcc) : Option Point :=
  match acc.x, acc.y with
  | some x, some y =>
    some { x := x, y := y, typ := acc.typ, smooth := acc.smooth, name := acc.name, ident := acc.ident }
  | _, _ => none

def parsePoint (ver : Nat) (seen : List Str) (as : List Attr) : Option Point :=
  match foldAttrs (pStep rd ver seen) {} as with
  | none => none
  | some acc => pFinish acc

/-! #### `<contour …>` start tag (`parse.rs:216-227`) -/

def ctStep (ver : Nat) (seen : List Str) (_acc : Option Str) (a : Attr) : Option (Option Str) :=
  if ver = 1 then none
  else if a.1 = sIdentifier then
    match readIdent ver seen a.2 with
    | some i => some (some i)
    | none => none
  else none

def parseContourAttrs (ver : Nat) (seen : List Str) (as : List Attr) : Option (Option Str) :=
  foldAttrs (ctStep ver seen) none as

end

/-! ### object libs (`mod.rs:167-206`) -/

/-- `Dictionary::remove`: the entry for `k` (keys of a `plist::Dictionary` are unique) -/
def dictGet (k : Str) : Dict → Option PV
  | [] => none
  | (k', v) :: r => if k' = k then some v else dictGet k r

def dictErase (k : Str) (d : Dict) : Dict := d.filter (fun e => e.1 ≠ k)

def objectLibsKey : Str := "public.objectLibs".toList

/-- `transfer_lib!`: `some (lib, remaining)`; `none` = the entry is not a dictionary -/
def transferLib (id : Option Str) (ol : Dict) : Option (Option Dict × Dict) :=
  match id with
  | none => some (none, ol)
  | some i =>
    match dictGet i ol with
    | none => some (none, ol)
    | some (.dict d) => some (some d, dictErase i ol)
    | some _ => none

def loadAnchors : List Anchor → Dict → Option (List Anchor × Dict)
  | [], ol => some ([], ol)
  | a :: r, ol =>
    match transferLib a.ident ol with
    | none => none
    | some (l, ol') =>
      match loadAnchors r ol' with
      | none => none
      | some (r', ol'') => some ({ a with lib := l } :: r', ol'')

def loadGuidelines : List Guideline → Dict → Option (List Guideline × Dict)
  | [], ol => some ([], ol)
  | a :: r, ol =>
    match transferLib a.ident ol with
    | none => none
    | some (l, ol') =>
      match loadGuidelines r ol' with
      | none => none
      | some (r', ol'') => some ({ a with lib := l } :: r', ol'')

def loadPoints : List Point → Dict → Option (List Point × Dict)
  | [], ol => some ([], ol)
  | a :: r, ol =>
    match transferLib a.ident ol with
    | none => none
    | some (l, ol') =>
      match loadPoints r ol' with
      | none => none
      | some (r', ol'') => some ({ a with lib := l } :: r', ol'')

def loadContours : List Contour → Dict → Option (List Contour × Dict)
  | [], ol => some ([], ol)
  | c :: r, ol =>
    match transferLib c.ident ol with
    | none => none
    | some (l, ol1) =>
      match loadPoints c.points ol1 with
      | none => none
      | some (ps, ol2) =>
        match loadContours r ol2 with
        | none => none
        | some (r', ol3) => some ({ c with lib := l, points := ps } :: r', ol3)

def loadComponents : List Component → Dict → Option (List Component × Dict)
  | [], ol => some ([], ol)
  | a :: r, ol =>
    match transferLib a.ident ol with
    | none => none
    | some (l, ol') =>
      match loadComponents r ol' with
      | none => none
      | some (r', ol'') => some ({ a with lib := l } :: r', ol'')

/-- `Glyph::load_object_libs` -/
def loadObjectLibs (g : Glyph) : Except Kind Glyph :=
  match dictGet objectLibsKey g.lib with
  | none => .ok g
  | some (.dict ol) =>
    let lib := dictErase objectLibsKey g.lib
    match loadAnchors g.anchors ol with
    | none => .error .objectLibMustBeDictionary
    | some (as, ol1) =>
      match loadGuidelines g.guidelines ol1 with
      | none => .error .objectLibMustBeDictionary
      | some (gs, ol2) =>
        match loadContours g.contours ol2 with
        | none => .error .objectLibMustBeDictionary
        | some (cs, ol3) =>
          match loadComponents g.components ol3 with
          | none => .error .objectLibMustBeDictionary
          | some (ks, _) =>
            .ok { g with lib := lib, anchors := as, guidelines := gs, contours := cs, components := ks }
  | some _ => .error .objectLibsMustBeDictionary

/-! ### the state machine -/

/-- `OutlineBuilder`: finished contours and components, in order -/
structure OB where
  contours : List Contour := []
  components : List Component := []

inductive Mode where
  | body
  | outline (ob : OB)
  | contour (ob : OB) (cid : Option Str) (pts : List Point)
  | lib (v : LibV)
  | note

structure PS where
  g : Glyph
  seen : List Str := []
  ver : Nat
  seenAdvance : Bool := false
  seenLib : Bool := false
  seenOutline : Bool := false
  mode : Mode := .body

def addSeen (seen : List Str) : Option Str → List Str
  | some i => i :: seen
  | none => seen

def sGlyph : Str := "glyph".toList
def sOutline : Str := "outline".toList
def sLib : Str := "lib".toList
def sNote : Str := "note".toList
def sAdvance : Str := "advance".toList
def sUnicode : Str := "unicode".toList
def sAnchor : Str := "anchor".toList
def sGuideline : Str := "guideline".toList
def sImage : Str := "image".toList
def sContour : Str := "contour".toList
def sComponent : Str := "component".toList
def sPoint : Str := "point".toList

def toPt (p : Point) : C11.Pt := ⟨p.typ, p.smooth⟩

/-- v1: a contour that is a single named `move` point is an anchor (`parse.rs:173-188`) -/
def implicitAnchor (c : Contour) : Option Anchor :=
  match c.points with
  | [p] =>
    if p.typ = .move ∧ p.name.isSome then
      some { x := p.x, y := p.y, name := p.name, color := none, ident := none }
    else none
  | _ => none

def upgradeV1 : List Contour → List Anchor × List Contour
  | [] => ([], [])
  | c :: r =>
    let (as, cs) := upgradeV1 r
    match implicitAnchor c with
    | some a => (a :: as, cs)
    | none => (as, c :: cs)

/-- end of `parse_outline` -/
def finishOutline (s : PS) (ob : OB) : PS :=
  if s.ver = 1 then
    let (as, cs) := upgradeV1 ob.contours
    { s with mode := .body,
             g := { s.g with anchors := s.g.anchors ++ as, contours := s.g.contours ++ cs,
                             components := s.g.components ++ ob.components } }
  else
    { s with mode := .body,
             g := { s.g with contours := s.g.contours ++ ob.contours,
                             components := s.g.components ++ ob.components } }

abbrev StepRes := Except Kind (PS ⊕ Glyph)

def cont (s : PS) : StepRes := .ok (.inl s)

section
variable (rd : Str → Option Nat)

/-- the `Event::Empty` arm of `parse_body` (`parse.rs:92-123`) -/
def bodyEmpty (s : PS) (n : Str) (a : Option (List Attr)) : StepRes :=
  if n = sOutline then
    if s.seenOutline then .error (.duplicateElement "outline") else cont { s with seenOutline := true }
  else if n = sAdvance then
    if s.seenAdvance then .error (.duplicateElement "advance") else
    match a with
    | none => .error .xml
    | some as => match parseAdvance rd as with
      | none => .error (.badElement "advance")
      | some (w, h) => cont { s with seenAdvance := true, g := { s.g with width := w, height := h } }
  else if n = sUnicode then
    match a with
    | none => .error .xml
    | some as => match parseUnicode s.g.codepoints as with
      | none => .error (.badElement "unicode")
      | some cps => cont { s with g := { s.g with codepoints := cps } }
  else if n = sAnchor then
    if s.ver = 1 then .error (.unexpectedV1Element "anchor") else
    match a with
    | none => .error .xml
    | some as => match parseAnchor rd s.ver s.seen as with
      | none => .error (.badElement "anchor")
      | some x => cont { s with seen := addSeen s.seen x.ident, g := { s.g with anchors := s.g.anchors ++ [x] } }
  else if n = sGuideline then
    if s.ver = 1 then .error (.unexpectedV1Element "guideline") else
    match a with
    | none => .error .xml
    | some as => match parseGuideline rd s.ver s.seen as with
      | none => .error (.badElement "guideline")
      | some x => cont { s with seen := addSeen s.seen x.ident, g := { s.g with guidelines := s.g.guidelines ++ [x] } }
  else if n = sImage then
    if s.ver = 1 then .error (.unexpectedV1Element "image")
    else if s.g.image.isSome then .error (.duplicateElement "image") else
    match a with
    | none => .error .xml
    | some as => match parseImage rd as with
      | none => .error (.badElement "image")
      | some x => cont { s with g := { s.g with image := some x } }
  else .error .unexpectedElement

/-- the `Event::Start` arm of `parse_body` (`parse.rs:67-90`) for names other than `lib` -/
def bodyStart (s : PS) (n : Str) : StepRes :=
  if n = sOutline then
    if s.seenOutline then .error (.duplicateElement "outline")
    else cont { s with seenOutline := true, mode := .outline {} }
  else if n = sNote then
    if s.ver = 1 then .error (.unexpectedV1Element "note")
    else if s.g.note.isSome then .error (.duplicateElement "note")
    else cont { s with mode := .note }
  else .error .unexpectedElement

def stepBody (s : PS) : Ev → StepRes
  | .error => .error .xml
  | .start n _ => bodyStart s n
  | .startLib _ v =>
    if s.seenLib then .error (.duplicateElement "lib") else cont { s with seenLib := true, mode := .lib v }
  | .empty n a => bodyEmpty rd s n a
  | .close n =>
    if n = sGlyph then
      match loadObjectLibs s.g with
      | .ok g => .ok (.inr g)
      | .error k => .error k
    else .error .missingCloseTag
  | .comment => cont s
  | _ => .error .missingCloseTag

/-- `parse_outline` loop (`parse.rs:145-168`) -/
def stepOutline (s : PS) (ob : OB) : Ev → StepRes
  | .error => .error .xml
  | .start n a =>
    if n = sContour then
      match a with
      | none => .error .xml
      | some as => match parseContourAttrs s.ver s.seen as with
        | none => .error (.badElement "contour")
        | some cid => cont { s with seen := addSeen s.seen cid, mode := .contour ob cid [] }
    else .error .unexpectedElement
  | .empty n a =>
    if n = sContour then cont s
    else if n = sComponent then
      match a with
      | none => .error .xml
      | some as => match parseComponent rd s.ver s.seen as with
        | none => .error (.badElement "component")
        | some c => cont { s with seen := addSeen s.seen c.ident,
                                  mode := .outline { ob with components := ob.components ++ [c] } }
    else .error .unexpectedElement
  | .close n => if n = sOutline then cont (finishOutline s ob) else .error .unexpectedElement
  | .comment => cont s
  | _ => .error .unexpectedElement

/-- `parse_contour` loop (`parse.rs:230-241`) and `end_path` -/
def stepContour (s : PS) (ob : OB) (cid : Option Str) (pts : List Point) : Ev → StepRes
  | .error => .error .xml
  | .close n =>
    if n = sContour then
      if C11.accepts (pts.map toPt) then
        let ob' := if pts.isEmpty then ob else { ob with contours := ob.contours ++ [{ points := pts, ident := cid }] }
        cont { s with mode := .outline ob' }
      else .error .contour
    else .error .unexpectedElement
  | .empty n a =>
    if n = sPoint then
      match a with
      | none => .error .xml
      | some as => match parsePoint rd s.ver s.seen as with
        | none => .error (.badElement "point")
        | some p => cont { s with seen := addSeen s.seen p.ident, mode := .contour ob cid (pts ++ [p]) }
    else .error .unexpectedElement
  | .comment => cont s
  | _ => .error .unexpectedElement

/-- `parse_lib` (`parse.rs:290-318`): skip to `</lib>`, then take plist's verdict -/
def stepLib (s : PS) (v : LibV) : Ev → StepRes
  | .error => .error .xml
  | .close n =>
    if n = sLib then
      match v with
      | .bad => .error .badLib
      | .notDict => .error .libMustBeDictionary
      | .dict d => cont { s with mode := .body, g := { s.g with lib := d } }
    else cont s
  | _ => cont s

/-- `parse_note` (`parse.rs:320-337`) -/
def stepNote (s : PS) : Ev → StepRes
  | .error => .error .xml
  | .close n => if n = sNote then cont { s with mode := .body } else cont s
  | .text (some t) => cont { s with g := { s.g with note := some t } }
  | .text none => .error .xml
  | _ => cont s

def step (s : PS) (e : Ev) : StepRes :=
  match s.mode with
  | .body => stepBody rd s e
  | .outline ob => stepOutline rd s ob e
  | .contour ob cid pts => stepContour rd s ob cid pts e
  | .lib v => stepLib s v e
  | .note => stepNote s e

/-- end of input = `Event::Eof` -/
def eofKind : Mode → Kind
  | .body => .missingCloseTag
  | _ => .unexpectedEof

def run : PS → List Ev → Except Kind Glyph
  | s, [] => .error (eofKind s.mode)
  | s, e :: es =>
    match step rd s e with
    | .error k => .error k
    | .ok (.inr g) => .ok g
    | .ok (.inl s') => run s' es

/-- `start` (`parse.rs:542-585`): skip comments and the declaration, expect `<glyph …>` -/
def scanStart : List Ev → Except Kind (Str × Nat × List Ev)
  | [] => .error .wrongFirstElement
  | .comment :: r => scanStart r
  | .decl :: r => scanStart r
  | .error :: _ => .error .xml
  | .start n a :: r =>
    if n = sGlyph then
      match parseGlyphAttrs a with
      | .ok (name, ver) => .ok (name, ver, r)
      | .error k => .error k
    else .error .wrongFirstElement
  | _ :: _ => .error .wrongFirstElement

/-- `GlifParser::from_xml` -/
def parseGlif (evs : List Ev) : Except Kind Glyph :=
  match scanStart evs with
  | .error k => .error k
  | .ok (name, ver, rest) => run rd { g := { name := name }, ver := ver } rest

end

end Glif

namespace Glif
/-- accept/reject verdict -/
def accepted (r : Except Kind Glyph) : Bool :=
  match r with
  | .ok _ => true
  | .error _ => false
end Glif
