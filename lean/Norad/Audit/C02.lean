import Norad.Props.C02
#print axioms Glif.reindent_id_of_no_newline
#print axioms Glif.reindent_empty_indent
#print axioms Glif.reindent_length
#print axioms Glif.glif_roundtrip_counterexample_lib_newline
#print axioms Glif.glif_roundtrip_counterexample_note
#print axioms Glif.glif_roundtrip_counterexample_written
#print axioms Glif.gates_drop_only_defaults
#print axioms Glif.encode_no_objectlibs_leak
#print axioms Glif.encode_then_parse_no_objectlibs_key
