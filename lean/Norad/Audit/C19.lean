import Norad.Props.C19
#print axioms Par.intern_returns_equal_name
#print axioms Par.interning_never_mixes
#print axioms Par.write_keeps_set_wellformed
#print axioms Par.par_set_wellformed
#print axioms Par.par_load_items
#print axioms Par.seq_load_closed
#print axioms Par.par_load_eq_seq
#print axioms Par.par_load_eq_seq_sorted
#print axioms Par.par_load_eq_seq_btree
#print axioms Par.par_load_fails_iff_seq_fails
#print axioms Par.par_font_eq_seq
#print axioms Par.par_save_eq_seq
#print axioms Par.par_save_eq_seq_counterexample
