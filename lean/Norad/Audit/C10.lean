import Norad.Props.C10
#print axioms Kern.upconvert_order_dependent_counterexample
#print axioms Kern.features_order_dependent_counterexample
#print axioms Kern.glyphset_membership_only
#print axioms Kern.validator_sets_membership_only
#print axioms Kern.rename_tables_lookup_only
#print axioms Kern.upconvert_order_independent
#print axioms Kern.upconvert_perm_independent
#print axioms Kern.features_order_independent
#print axioms Kern.features_with_order_list
#print axioms PlistM.written_plists_sorted
#print axioms PlistM.arrays_not_visited
#print axioms PlistM.written_lib_function_of_map
#print axioms PlistM.written_lib_equal_fonts_counterexample
#print axioms PlistM.store_save_order_independent
#print axioms PlistM.store_save_order_dependent_counterexample
