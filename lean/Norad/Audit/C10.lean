import Norad.Props.C10
#print axioms Kern.upconvert_order_dependent_counterexample
#print axioms Kern.features_order_dependent_counterexample
#print axioms Kern.glyphset_membership_only
#print axioms Kern.validator_sets_membership_only
#print axioms Kern.rename_tables_lookup_only
#print axioms Kern.upconvert_order_independent
#print axioms Kern.upconvert_perm_independent
#print axioms Kern.features_order_independent
#print axioms Kern.features_with_order_list
