import Norad.Props.C12
#print axioms Glif.advance_dup
#print axioms Glif.advance_sets
#print axioms Glif.outline_dup
#print axioms Glif.lib_dup
#print axioms Glif.image_dup
#print axioms Glif.note_dup
#print axioms Glif.v1_elements_rejected
#print axioms Glif.ident_refused
#print axioms Glif.unknown_attr_refused
#print axioms Glif.bad_number_refused
#print axioms Glif.bad_angle_refused
#print axioms Glif.returned_lib_has_no_objectlibs_key
