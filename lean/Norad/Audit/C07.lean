import Norad.Props.C07
#print axioms C07.fileName_accepted
#print axioms C07.fileName_accepted_stateless
#print axioms C07.fileName_first_accepted
#print axioms C07.fileName_eq_some_iff
#print axioms C07.fileName_none_iff_100_rejections
#print axioms C07.fileName_single_component
#print axioms C07.fileName_no_leading_period
#print axioms C07.fileName_no_trailing_period_or_space
#print axioms C07.fileName_suffix
#print axioms C07.fileName_affixes_partial
#print axioms C07.fileName_layer_glyphs
#print axioms C07.fileName_affixes_layer_counterexample
#print axioms C07.fileName_not_reserved
#print axioms C07.backoff_steps_le_3
#print axioms C07.truncate_after_backoff
#print axioms C07.fileName_len_255_partial
#print axioms C07.fileName_len_255_counterexample
