import Norad.Props.C06
import Norad.Props.C06Source
import Norad.Props.Small
import Norad.Props.C06Histories
#print axioms Layers.inv_init
#print axioms Layers.inv_loaded
#print axioms Layers.inv_step
#print axioms Layers.inv_reachable
#print axioms Layers.layer_names_unique
#print axioms Layers.glyph_names_unique
#print axioms Layers.exactly_one_default_first
#print axioms Layers.only_default_may_be_public_default
#print axioms Layers.error_leaves_state
#print axioms Layers.no_undocumented_panic
#print axioms Layers.sync_step_partial
#print axioms Layers.sync_reachable_partial
#print axioms Layers.paths_nodup
#print axioms Layers.save_load_reloaded
#print axioms Layers.reloaded_glyphs_perm
#print axioms Layers.save_load_reports
#print axioms Layers.save_load_reports_reachable
#print axioms Layers.entry_or_insert_dropped_counterexample
#print axioms Layers.entry_remove_save_panics_counterexample
#print axioms Layers.sinv_of_defaultFirst
#print axioms Layers.inv_loaded_filtered
#print axioms Layers.loadTreeF_all
#print axioms Layers.model_newLayer_guards
#print axioms Layers.model_renameLayer_guards
#print axioms Layers.model_renameGlyph_guards
#print axioms Layers.source_layer_consts_match_model
#print axioms Layers.source_guard_atoms_match_model
#print axioms Layers.source_newLayer_refuses_iff
#print axioms Layers.source_renameLayer_refuses_iff
#print axioms Layers.source_renameGlyph_refuses_iff
#print axioms Layers.source_index_updates_match_model
#print axioms Layers.model_frame_rules
#print axioms Layers.source_insertGlyph_eq_model
#print axioms Layers.insertGlyphBy_glyphs_differs
#print axioms Layers.source_load_pathset_eq_model
#print axioms Small.name_predicates_agree
#print axioms Layers.insert_repairs_index
#print axioms Layers.sync_insert_of_syncBut
#print axioms Layers.insert_after_entry_resyncs
#print axioms Layers.insert_after_entry_remove_resyncs
#print axioms Layers.resynced_glyph_is_saved
#print axioms Layers.loaded_pathSet_covers_listed
#print axioms Layers.new_layer_after_load_avoids_listed
