import Norad.Props.C06
#print axioms Layers.inv_init
#print axioms Layers.inv_step
#print axioms Layers.inv_reachable
#print axioms Layers.layer_names_unique
#print axioms Layers.glyph_names_unique
#print axioms Layers.exactly_one_default_first
#print axioms Layers.only_default_may_be_public_default
#print axioms Layers.error_leaves_state
#print axioms Layers.no_undocumented_panic
#print axioms Layers.sync_step_partial
