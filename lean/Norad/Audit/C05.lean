import Norad.Props.C05
#print axioms C05.fontinfo_keys_are_spec_keys
#print axioms C05.fontinfo_keys_cover_spec
#print axioms C05.record_keys_are_spec_keys
#print axioms C05.file_names_are_spec_names
#print axioms C05.file_names_in_spec_table
#print axioms C05.layerinfo_keys_are_spec_keys
#print axioms C05.glif_attributes_are_spec_attributes
#print axioms C05.parser_knows_all_spec_attributes
#print axioms C05.transform_attributes_match_spec
#print axioms C05.point_vocabulary_is_spec
#print axioms C05.affine_defaults_identity
#print axioms C05.affine_basis
#print axioms C05.spec_reader_finds_values
#print axioms C05.spec_reader_rejects_foreign_names
