import Norad.Props.C15
#print axioms Kern.validate_iff
#print axioms Kern.validGroupsB_iff
#print axioms Kern.groups_kept
#print axioms Kern.nothing_else_altered
#print axioms Kern.new_names_fresh
#print axioms Kern.new_groups_exact
#print axioms Kern.sources_first
#print axioms Kern.sources_second
#print axioms Kern.upconvertWith_total
#print axioms Kern.upconvert_no_panic
#print axioms Kern.upconvert_no_panic_decimal
#print axioms Kern.glyph_named_like_group_not_renamed
#print axioms Kern.kerning_values_preserved_partial
#print axioms Kern.kerning_nothing_invented
#print axioms Kern.kerning_values_preserved_counterexample
