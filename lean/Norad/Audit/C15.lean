import Norad.Props.C15
#print axioms Kern.placeholder_c15
