import Norad.Props.C09
#print axioms C09.save_effects_depend_only_on_font
#print axioms C09.optional_part_planned_iff_nonempty
#print axioms C09.fontinfo_planned_iff_nonempty
#print axioms C09.images_planned_iff_nonempty
#print axioms C09.save_frame_counterexample_store_key
#print axioms C09.save_frame_counterexample_contents_value
#print axioms C09.guard_separates
#print axioms C09.api_built_fonts_safe
#print axioms C09.save_frame
#print axioms C09.save_tree_depends_only_on_font
#print axioms C09.exactly_the_determined_files
#print axioms C09.loaded_layer_dirs_single_component
#print axioms C09.loaded_store_keys_safe
#print axioms C09.loaded_font_safePaths
#print axioms C09.save_frame_loaded
#print axioms C09.plan_runs_to_completion
#print axioms C09.saved_tree_determined_by_font
