import Norad.Props.C14
#print axioms C14.v2_table_eq_spec
