import Norad.Props.C14
#print axioms C14.v2_table_eq_spec
#print axioms C14.v1_table_eq_spec
#print axioms C14.tables_injective
#print axioms C14.enum_tables_eq_spec
#print axioms C14.enum_unknown_is_error
#print axioms C14.convertAll_error_of_mem
#print axioms C14.unknown_font_style_refuses_load
#print axioms C14.weight_minus_one_dropped
#print axioms C14.conv_abs_nonneg
#print axioms C14.roundMag_bounds
#print axioms C14.conv_round_within_half
#print axioms C14.validated_ok
#print axioms C14.fromFile_ok
#print axioms C14.upconverted_reports_v3_validates_and_saves
#print axioms C14.robofab_removed_from_lib
#print axioms C14.feature_text_with_order
#print axioms C14.feature_text_without_features
