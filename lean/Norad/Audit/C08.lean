import Norad.Props.C08
#print axioms C08.refusal_has_no_effects
#print axioms C08.effects_only_after_validation
#print axioms C08.refused_save_leaves_fs_version
#print axioms C08.refused_save_leaves_fs_objectLibs
#print axioms C08.refused_save_leaves_fs_groups
#print axioms C08.refused_save_leaves_fs_fontinfo_partial
#print axioms C08.refused_save_leaves_fs_fontinfo_counterexample
#print axioms C08.refused_save_leaves_fs_store
#print axioms C08.store_error_detected_before_wipe
