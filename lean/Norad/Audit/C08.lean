import Norad.Props.C08C13
import Norad.Props.C08
import Norad.Props.C08Fault
#print axioms C08.refusal_has_no_effects
#print axioms C08.effects_only_after_validation
#print axioms C08.refused_save_leaves_fs_version
#print axioms C08.refused_save_leaves_fs_objectLibs
#print axioms C08.refused_save_leaves_fs_groups
#print axioms C08.refused_save_leaves_fs_fontinfo_partial
#print axioms C08.refused_save_leaves_fs_fontinfo_counterexample
#print axioms C08.refused_save_leaves_fs_store
#print axioms C08.store_error_detected_before_wipe
#print axioms C08.inplace_save_keeps_store_files
#print axioms C08.inplace_save_without_step5_counterexample
#print axioms C08.refused_save_leaves_fs_fontinfo
#print axioms C08.valid_info_is_serialisable
#print axioms C08.refused_save_leaves_fs_groups_spec
#print axioms C08.source_validators_precede_wipe
#print axioms C08.source_save_order_matches_plan
#print axioms C08.source_plan_refusal_has_no_effect
#print axioms C08.source_refuses_whenever_model_does
#print axioms C08.source_save_table_eq_model
#print axioms C08.source_table_refusals_precede_wipe
#print axioms C08.source_save_table_parses
#print axioms C08.failed_save_stays_inside_target
#print axioms C08.failed_save_leaves_partial_target
#print axioms C08.fault_beyond_plan_is_save
