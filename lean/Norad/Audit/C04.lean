import Norad.Props.C04
import Norad.Props.C01Bridge
import Norad.Props.C01Stores
#print axioms RT.rtFont_valid
#print axioms RT.rtFont_numbers
#print axioms RT.norad_output_is_fixed_point
#print axioms RT.output_is_v3
#print axioms RT.loaded_is_v3
#print axioms RT.objectlibs_key_without_fontinfo_counterexample
#print axioms RT.layers_default_moved_to_front
#print axioms RT.features_roundtrip
#print axioms RT.font_roundtrip
#print axioms RT.loaded_is_representable
#print axioms RT.load_save_load_fixed_point
#print axioms RT.source_absent_reads_match_model
#print axioms RT.model_absent_files_read_as_empty
#print axioms RT.source_absent_files_read_as_empty
#print axioms RT.source_gates_match_defaults
#print axioms RT.Bridge.noradNorm
#print axioms RT.Bridge.norad_output_is_fixed_point_glif
#print axioms RT.Bridge.data_files_roundtrip
#print axioms RT.Bridge.image_files_roundtrip
