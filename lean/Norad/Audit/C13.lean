import Norad.Props.C13
#print axioms C13.andThen_ok_iff
