import Norad.Props.C13
#print axioms C13.validate_iff_rules
#print axioms C13.validate_never_panics
#print axioms C13.violated_nil_iff
#print axioms C13.saveInfo_ok_iff
#print axioms C13.save_never_fails_late
#print axioms C13.saveInfo_never_panics
#print axioms C13.loaded_validates
#print axioms C13.loadInfo_never_panics
#print axioms C13.entry_points_agree
#print axioms C13.loaded_info_satisfies_rules
#print axioms C13.saved_info_satisfies_rules
#print axioms C13.validate_error_means_violation
#print axioms C13.validate_error_kind
#print axioms C13.validateDate_spec
