import Norad.Props.C03
import Norad.Props.C03Sites
#print axioms Layers.layer_ops_no_panic
#print axioms Layers.save_no_panic_partial
#print axioms Layers.save_no_panic_counterexample
#print axioms C11.end_path_unreachable_arm
#print axioms C07.fileName_none_iff_100_rejections
#print axioms C07.backoff_steps_le_3
#print axioms C13.validate_never_panics
#print axioms C13.saveInfo_never_panics
#print axioms C13.loadInfo_never_panics
#print axioms Kern.upconvert_no_panic_decimal
#print axioms Kern.upconvertWith_total
#print axioms C18.glue_never_panics
#print axioms C18.glue_never_panics_value
#print axioms C18.glue_never_panics_counterexample
#print axioms C20.toKurbo_succeeds
#print axioms Norad.C03Sites.source_panic_sites_all_classified
#print axioms Norad.C03Sites.source_panic_sites_none_unclassified
#print axioms Norad.C03Sites.table_keys_nodup
#print axioms Norad.C03Sites.table_refs_present
