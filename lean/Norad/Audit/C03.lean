import Norad.Props.C03
#print axioms Layers.layer_ops_no_panic
#print axioms Layers.save_no_panic_partial
#print axioms Layers.save_no_panic_counterexample
#print axioms C11.end_path_unreachable_arm
