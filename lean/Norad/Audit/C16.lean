import Norad.Props.C16
#print axioms C16.store_inv_step
#print axioms C16.store_inv_reachable
#print axioms C16.store_inv_from_empty
#print axioms C16.inv_in_words
#print axioms C16.rejected_insert_unchanged
#print axioms C16.insert_refuses_both_directions
#print axioms C16.lazy_get_is_disk_at_first_access
#print axioms C16.no_access_ignores_disk
#print axioms C16.get_settled_ignores_disk
#print axioms C16.get_stable_afterwards
#print axioms C16.error_entry_blocks_save_before_effects
#print axioms C16.save_writes_verbatim
#print axioms C16.save_writes_never_collide
#print axioms C16.normal_keys_partial
#print axioms C16.store_accepts_dot_components_counterexample
#print axioms C16.store_accepts_trailing_separator_counterexample
