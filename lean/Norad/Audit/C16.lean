import Norad.Props.C16
#print axioms C16.rejected_insert_unchanged
