import Norad.Props.C18
#print axioms C18.ds_roundtrip
#print axioms C18.ds_roundtrip_processing_last
#print axioms C18.ds_roundtrip_counterexample_empty_map
#print axioms C18.ds_spec_reader_finds_values
#print axioms C18.ds_spec_reader_no_trim
#print axioms C18.ds_spec_reader_counterexample_attr
#print axioms C18.ds_spec_reader_counterexample_cr
#print axioms C18.ds_spec_reader_counterexample_forbidden
#print axioms C18.plist_glue_roundtrip
#print axioms C18.plist_glue_roundtrip_dict
#print axioms C18.plist_glue_roundtrip_counterexample
#print axioms C18.plist_glue_key_collision_counterexample
#print axioms C18.plist_glue_uid_is_error
#print axioms C18.glue_never_panics
#print axioms C18.glue_never_panics_value
#print axioms C18.glue_never_panics_counterexample
