import Norad.Props.C20
#print axioms C20.toKurbo_succeeds
#print axioms C20.toKurbo_eq_spec
#print axioms C20.legal_specSegments
#print axioms C20.starts_at_move_or_oncurve
#print axioms C20.one_segment_per_oncurve
#print axioms C20.segment_kinds
#print axioms C20.oncurves_in_order
#print axioms C20.closed_returns_to_start
#print axioms C20.no_point_lost
#print axioms C20.oracle_accepts_outline
#print axioms C20.transform_formula
#print axioms C20.transform_eq_kurbo
#print axioms C20.affine_roundtrip
#print axioms C20.toK_coeffs
