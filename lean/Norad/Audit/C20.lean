import Norad.Props.C20
