import Norad.Props.C01
import Norad.Props.C01Bridge
#print axioms RT.int_or_float_within_1e9
#print axioms RT.int_or_float_within_1e9_counterexample
#print axioms RT.kerning_truncation_pinned_counterexample
#print axioms RT.saturation_pinned_counterexample
#print axioms RT.num_roundtrip
#print axioms RT.kerning_value_roundtrip
#print axioms RT.fontinfo_value_roundtrip
#print axioms RT.lib_roundtrip
#print axioms RT.features_roundtrip
#print axioms RT.crlfToLf_not_idempotent_counterexample
#print axioms RT.layers_roundtrip_order
#print axioms RT.layers_default_moved_to_front
#print axioms RT.metainfo_roundtrip
#print axioms RT.layerinfo_roundtrip
#print axioms RT.kerning_roundtrip
#print axioms RT.guides_roundtrip
#print axioms RT.save_load_eq
#print axioms RT.font_roundtrip
#print axioms RT.Bridge.noradLaws
#print axioms RT.Bridge.font_roundtrip_norad
#print axioms RT.Bridge.restValid_iff_rules
#print axioms RT.Bridge.container_fields
