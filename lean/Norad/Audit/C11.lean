import Norad.Props.C11
import Norad.Props.Small
#print axioms C11.accepts_iff_legal
#print axioms C11.legalB_iff_legal
#print axioms C11.accepts_eq_legalB
#print axioms C11.parseContours_isSome_iff
#print axioms C11.accepted_points_unchanged
#print axioms C11.all_offcurve_closed_legal
#print axioms C11.parseOutline_isSome_iff
#print axioms C11.v2_contours_unchanged
#print axioms C11.v1_single_named_move_becomes_anchor
#print axioms C11.source_addPoint_eq_model
#print axioms C11.source_wrap_eq_model
#print axioms C11.source_endPath_eq_model
#print axioms C11.source_accepts_iff_legal
#print axioms Small.name_predicates_agree
#print axioms Small.dedup_mem
#print axioms Small.dedup_nodup
#print axioms Small.dedup_head
#print axioms Small.dedup_of_nodup
