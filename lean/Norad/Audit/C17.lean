import Norad.Props.C17
#print axioms C17.partial_layers_eq_restricted_full
#print axioms C17.default_layer_always_present_and_first
#print axioms C17.default_layer_empty_when_filtered_out
#print axioms C17.partial_eq_restricted_full
#print axioms C17.partial_succeeds_if_full_does
#print axioms C17.unrequested_files_not_read
#print axioms C17.source_switches_match_model
#print axioms C17.all_none_reset
#print axioms C17.later_call_wins
#print axioms C17.filter_then_default_keeps_predicate
#print axioms C17.layers_after_filter
#print axioms C17.call_idempotent
#print axioms C17.part_call_touches_only_its_switch
#print axioms C17.source_request_builders_eq_model
#print axioms C17.source_layer_filter_eq_model
#print axioms C17.source_partial_eq_restricted_full
