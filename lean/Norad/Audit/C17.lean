import Norad.Props.C17
#print axioms C17.partial_layers_eq_restricted_full
#print axioms C17.default_layer_always_present_and_first
#print axioms C17.default_layer_empty_when_filtered_out
#print axioms C17.partial_eq_restricted_full
#print axioms C17.partial_succeeds_if_full_does
#print axioms C17.unrequested_files_not_read
#print axioms C17.source_switches_match_model
