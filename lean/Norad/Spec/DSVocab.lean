/-!
# The vocabulary of the designspace document format, stated independently of norad

Typed in from the designSpaceDocument specification (fontTools `designspaceLib`, format 4 / 5) — element names, their
attributes and the child elements norad models.  Core Lean only; shares no definition with `Norad/Model`.
The specification knows more child elements (`labels`, `variable-fonts`, `info`, `kerning`, `glyph`, …); only
attributes are listed exhaustively here, children as far as norad implements them.
-/
namespace DSVocab

structure Element where
  name : String
  attrs : List String
  children : List String
  deriving DecidableEq, Repr

def elements : List Element := [
  ⟨"designspace", ["format"], ["axes", "rules", "sources", "instances", "lib"]⟩,
  ⟨"axes", [], ["axis"]⟩,
  ⟨"axis", ["name", "tag", "minimum", "maximum", "default", "hidden", "values"], ["map"]⟩,
  ⟨"map", ["input", "output"], []⟩,
  ⟨"rules", ["processing"], ["rule"]⟩,
  ⟨"rule", ["name"], ["conditionset", "sub"]⟩,
  ⟨"conditionset", [], ["condition"]⟩,
  ⟨"condition", ["name", "minimum", "maximum"], []⟩,
  ⟨"sub", ["name", "with"], []⟩,
  ⟨"sources", [], ["source"]⟩,
  ⟨"source", ["filename", "name", "familyname", "stylename", "layer"], ["location"]⟩,
  ⟨"instances", [], ["instance"]⟩,
  ⟨"instance", ["name", "familyname", "stylename", "filename", "postscriptfontname", "stylemapfamilyname",
                "stylemapstylename"], ["location", "lib"]⟩,
  ⟨"location", [], ["dimension"]⟩,
  ⟨"dimension", ["name", "xvalue", "yvalue", "uservalue"], []⟩]

def find (n : String) : Option Element := elements.find? (·.name == n)
def attrsOf (n : String) : List String := ((find n).map (·.attrs)).getD []
def childrenOf (n : String) : List String := ((find n).map (·.children)).getD []

/-- values of `rules/@processing` -/
def processingValues : List String := ["first", "last"]

end DSVocab
