import Norad.Model.GlifWrite
/-!
# C02 specification: parse(encode(g)) equals g

Independent of the writer/parser models: a comparison of two glyphs field by field with the tolerances of
DESIGN.md section 8 (numbers: `|a-b| <= 1e-9 * max(|a|,|b|)` on the exact values of the doubles; colours:
`|a-b| <= 0.0005`, three decimals), evaluated by the driver on the implementation's own output.
-/
namespace Glif.Spec02
open Glif

/-- a finite double as `m * 2^e` (m signed); none for NaN and infinities -/
def decode (b : Nat) : Option (Int × Int) :=
  let e := f64Exp b
  let m := f64Man b
  let neg := b / 9223372036854775808 % 2 == 1
  if e == 2047 then none else
  let (mm, ee) : Nat × Int := if e == 0 then (m, -1074) else (m + 4503599627370496, (e : Int) - 1075)
  some (if neg then -(mm : Int) else (mm : Int), ee)

/-- bring two decoded values to a common exponent -/
def align (a b : Int × Int) : Int × Int × Int :=
  let e0 := min a.2 b.2
  (a.1 * (2 : Int) ^ (a.2 - e0).toNat, b.1 * (2 : Int) ^ (b.2 - e0).toNat, e0)

def closeNum (a b : Nat) : Bool :=
  if a == b then true else
  match decode a, decode b with
  | some x, some y =>
    let (p, q, _) := align x y
    decide ((p - q).natAbs * 1000000000 ≤ max p.natAbs q.natAbs)
  | _, _ => false

/-- `|a-b| <= 0.0005` (three decimals) -/
def closeCol (a b : Nat) : Bool :=
  if a == b then true else
  match decode a, decode b with
  | some x, some y =>
    let (p, q, e0) := align x y
    -- half a unit of the third decimal, with a relative slack of 1e-6 for the representation error of the input
    if e0 ≥ 0 then decide ((p - q).natAbs * 2000000000 * 2 ^ e0.toNat ≤ 1000001)
    else decide ((p - q).natAbs * 2000000000 ≤ 1000001 * 2 ^ (-e0).toNat)
  | _, _ => false

def closeColor : Option Color → Option Color → Bool
  | none, none => true
  | some a, some b => closeCol a.r b.r && closeCol a.g b.g && closeCol a.b b.b && closeCol a.a b.a
  | _, _ => false

def closeTr (a b : Transform) : Bool :=
  closeNum a.xScale b.xScale && closeNum a.xyScale b.xyScale && closeNum a.yxScale b.yxScale &&
  closeNum a.yScale b.yScale && closeNum a.xOffset b.xOffset && closeNum a.yOffset b.yOffset

def all2 {α} (p : α → α → Bool) : List α → List α → Bool
  | [], [] => true
  | a :: r, b :: s => p a b && all2 p r s
  | _, _ => false

/-- the aspects in which two glyphs differ; `eqLib` compares property lists (up to key order) -/
def diff (eqLib : Dict → Dict → Bool) (g h : Glyph) : List String :=
  let eqOL : Option Dict → Option Dict → Bool := fun a b => match a, b with
    | none, none => true | some x, some y => eqLib x y | _, _ => false
  (if g.name = h.name then [] else ["name"]) ++
  (if closeNum g.width h.width && closeNum g.height h.height then [] else ["advance"]) ++
  (if g.codepoints = h.codepoints then [] else ["codepoints"]) ++
  (if g.note = h.note then [] else ["note"]) ++
  (match g.image, h.image with
   | none, none => []
   | some a, some b => if a.fileName = b.fileName && closeColor a.color b.color && closeTr a.transform b.transform then [] else ["image"]
   | _, _ => ["image"]) ++
  (if all2 (fun (a b : Anchor) => closeNum a.x b.x && closeNum a.y b.y && a.name = b.name && closeColor a.color b.color && a.ident = b.ident)
      g.anchors h.anchors then [] else ["anchor"]) ++
  (if all2 (fun (a b : Guideline) => (match a.line, b.line with
        | .vertical x, .vertical y => closeNum x y
        | .horizontal x, .horizontal y => closeNum x y
        | .angle x y d, .angle x' y' d' => closeNum x x' && closeNum y y' && closeNum d d'
        | _, _ => false) && a.name = b.name && closeColor a.color b.color && a.ident = b.ident)
      g.guidelines h.guidelines then [] else ["guideline"]) ++
  (if all2 (fun (a b : Contour) => a.ident = b.ident && all2 (fun (p q : Point) =>
        closeNum p.x q.x && closeNum p.y q.y && p.typ = q.typ && p.smooth = q.smooth && p.name = q.name && p.ident = q.ident)
        a.points b.points) g.contours h.contours then [] else ["contour"]) ++
  (if all2 (fun (a b : Component) => a.base = b.base && closeTr a.transform b.transform && a.ident = b.ident)
      g.components h.components then [] else ["component"]) ++
  (if eqLib g.lib h.lib then [] else ["lib"]) ++
  (if all2 (fun (a b : Anchor) => eqOL a.lib b.lib) g.anchors h.anchors &&
      all2 (fun (a b : Guideline) => eqOL a.lib b.lib) g.guidelines h.guidelines &&
      all2 (fun (a b : Contour) => eqOL a.lib b.lib && all2 (fun (p q : Point) => eqOL p.lib q.lib) a.points b.points) g.contours h.contours &&
      all2 (fun (a b : Component) => eqOL a.lib b.lib) g.components h.components then [] else ["objlib"])

mutual
  def pvHasNewline : PV → Bool
    | .str s => s.contains '\n'
    | .atom _ => false
    | .arr xs => listHasNewline xs
    | .dict kvs => dictHasNewline kvs
  def listHasNewline : List PV → Bool
    | [] => false
    | x :: r => pvHasNewline x || listHasNewline r
  def dictHasNewline : List (Str × PV) → Bool
    | [] => false
    | (k, v) :: r => k.contains '\n' || pvHasNewline v || dictHasNewline r
end

mutual
  def pvHasBlankOnly : PV → Bool
    | .str s => !s.isEmpty && s.all isBlank
    | .atom _ => false
    | .arr xs => listHasBlankOnly xs
    | .dict kvs => dictHasBlankOnly kvs
  def listHasBlankOnly : List PV → Bool
    | [] => false
    | x :: r => pvHasBlankOnly x || listHasBlankOnly r
  def dictHasBlankOnly : List (Str × PV) → Bool
    | [] => false
    | (k, v) :: r => (!k.isEmpty && k.all isBlank) || pvHasBlankOnly v || dictHasBlankOnly r
end

def optDict (d : Option Dict) : Dict := d.getD []

def allLibs (g : Glyph) : List Dict :=
  g.lib :: (g.anchors.map (optDict ·.lib) ++ g.guidelines.map (optDict ·.lib) ++
    g.contours.flatMap (fun c => optDict c.lib :: c.points.map (optDict ·.lib)) ++ g.components.map (optDict ·.lib))

/-- the guards of `glif_roundtrip_partial`, as features of the input glyph -/
def guardFeatures (g : Glyph) : List String :=
  (if (allLibs g).any dictHasNewline then ["lib-newline"] else []) ++
  (if (allLibs g).any dictHasBlankOnly then ["lib-blank-string"] else []) ++
  (match g.note with | some n => if trimText n ≠ n ∨ n.isEmpty then ["note-trim"] else [] | none => []) ++
  (if (!isNormal g.width && nonZero g.width && !isNormal g.height) || (!isNormal g.height && nonZero g.height && !isNormal g.width)
   then ["advance-subnormal"] else []) ++
  (if g.contours.any (fun c => c.points.isEmpty) then ["empty-contour"] else [])

/-- what the recorded findings say comes back instead of `g` (and nothing else): the note as `trim_text(true)` leaves
    it, the advance through the `is_normal` gate, contours without points gone (the others in order, untouched), every
    lib re-indented after newlines for the indent string `ind`.  A known finding matches ONLY a result equal to this. -/
def recorded (ind : Str) (g : Glyph) : Glyph :=
  let ri : Option Dict → Option Dict := fun o => o.map (reindentDict ind)
  { g with
    note := (match g.note with
      | some n => if (trimText n).isEmpty then none else some (trimText n)
      | none => none)
    width := (if isNormal g.width || isNormal g.height then (if nonZero g.width then g.width else 0) else 0)
    height := (if isNormal g.width || isNormal g.height then (if nonZero g.height then g.height else 0) else 0)
    lib := reindentDict ind g.lib
    anchors := g.anchors.map (fun a => { a with lib := ri a.lib })
    guidelines := g.guidelines.map (fun a => { a with lib := ri a.lib })
    components := g.components.map (fun a => { a with lib := ri a.lib })
    contours := (g.contours.filter (fun c => !c.points.isEmpty)).map (fun c =>
      { c with lib := ri c.lib, points := c.points.map (fun p => { p with lib := ri p.lib }) }) }

/-- which recorded losses actually change `g` (the features a known finding is matched by) -/
def recordedFeatures (eqLib : Dict → Dict → Bool) (ind : Str) (g : Glyph) : List String :=
  let r := recorded ind g
  (if r.note = g.note then [] else ["note-trim"]) ++
  (if closeNum r.width g.width && closeNum r.height g.height then [] else ["advance-subnormal"]) ++
  (if g.contours.any (fun c => c.points.isEmpty) then ["empty-contour"] else []) ++
  (if (allLibs g).all (fun l => eqLib (reindentDict ind l) l) then [] else ["lib-newline"])

/-- the verdict on `h = parse(encode(g))`: no failure, the recorded findings (exactly), or the aspects in which `h`
    differs even from what the findings allow; with empty contours in `g` a contour difference is named
    `contours-after-empty` -/
def verdict (eqLib : Dict → Dict → Bool) (ind : Str) (g h : Glyph) : List String :=
  if (diff eqLib g h).isEmpty then []
  else
    let d2 := diff eqLib (recorded ind g) h
    if d2.isEmpty then recordedFeatures eqLib ind g
    else d2.map (fun a => if (a = "contour" ∨ a = "objlib") ∧ g.contours.any (fun c => c.points.isEmpty) then "contours-after-empty" else a)

/-- the verdict on two results of the same glyph under different options -/
def optionsVerdict (eqLib : Dict → Dict → Bool) (ind0 ind : Str) (g h0 h : Glyph) : List String :=
  let d := diff eqLib h0 h
  if d.isEmpty then []
  else if (diff eqLib (recorded ind0 g) h0).isEmpty && (diff eqLib (recorded ind g) h).isEmpty then ["lib-newline"]
  else d

end Glif.Spec02
