import Norad.Model.Glif
import Norad.Spec.C11
/-!
# C12 specification: the glif structure rules, stated on shaped documents

Independent of the parser model (`Model/Glif.lean`): a document is a *shape* (`Doc`: prolog, glyph
attributes, body items, outline items, contour items — every element with arbitrary name and
arbitrary attributes, in either spelling `<a/>` / `<a></a>`, comments anywhere) and the rules are
decidable predicates on shapes, one per clause of the property statement.  `flatten` renders a
shape to the event list the tokeniser would deliver.  Shared with the model: only the vocabulary
(`Ev`, `Attr`, `LibV`, `Glyph`) and the contour rule `C11.legalB`.

Three-valued: `violations d` lists the rules broken, `unspecified d` is true where the glif
specification's wording is not available offline (DESIGN.md section 8) and nothing is asserted.
-/
namespace Glif.Spec
open Glif

structure Elem where
  name : Str
  attrs : Option (List Attr)
  selfClosed : Bool := true

inductive CItem where
  | elem (e : Elem) | comment

inductive OItem where
  | contour (attrs : Option (List Attr)) (selfClosed : Bool) (kids : List CItem)
  | elem (e : Elem)
  | comment

inductive NItem where
  | text (s : Option Str) | comment | cdata

inductive Item where
  | elem (e : Elem)
  | outline (attrs : Option (List Attr)) (selfClosed : Bool) (kids : List OItem)
  | lib (attrs : Option (List Attr)) (v : LibV) (inner : List Ev)
  | note (attrs : Option (List Attr)) (kids : List NItem)
  | comment

structure Doc where
  /-- declaration and comments before the root -/
  prolog : List Ev
  gattrs : Option (List Attr)
  gSelfClosed : Bool := false
  items : List Item
  /-- events after `</glyph>` (never read by the parser) -/
  trailer : List Ev := []

/-! ### rendering to events -/

def Elem.evs (e : Elem) : List Ev :=
  if e.selfClosed then [.empty e.name e.attrs] else [.start e.name e.attrs, .close e.name]

def CItem.evs : CItem → List Ev
  | .elem e => e.evs
  | .comment => [.comment]

def OItem.evs : OItem → List Ev
  | .contour a true _ => [.empty sContour a]
  | .contour a false kids => .start sContour a :: (kids.flatMap CItem.evs ++ [.close sContour])
  | .elem e => e.evs
  | .comment => [.comment]

def NItem.evs : NItem → List Ev
  | .text s => [.text s]
  | .comment => [.comment]
  | .cdata => [.cdata]

def Item.evs : Item → List Ev
  | .elem e => e.evs
  | .outline a true _ => [.empty sOutline a]
  | .outline a false kids => .start sOutline a :: (kids.flatMap OItem.evs ++ [.close sOutline])
  | .lib a v inner => .startLib a v :: (inner ++ [.close sLib])
  | .note a kids => .start sNote a :: (kids.flatMap NItem.evs ++ [.close sNote])
  | .comment => [.comment]

def flatten (d : Doc) : List Ev :=
  d.prolog ++
  (if d.gSelfClosed then [.empty sGlyph d.gattrs]
   else .start sGlyph d.gattrs :: (d.items.flatMap Item.evs ++ [.close sGlyph])) ++ d.trailer

/-! ### value grammars -/

def isDigit (c : Char) : Bool := '0' ≤ c && c ≤ '9'

def takeDigits : Str → Str × Str
  | [] => ([], [])
  | c :: r => if isDigit c then let (d, t) := takeDigits r; (c :: d, t) else ([], c :: r)

/-- `-?digits(.digits)?([eE][+-]?digits)?` -/
def numeral (s : Str) : Bool :=
  let s := match s with | '-' :: r => r | _ => s
  let (i, r) := takeDigits s
  if i.isEmpty then false else
  let r := match r with
    | '.' :: r' => let (f, t) := takeDigits r'; if f.isEmpty then ['!'] else t
    | _ => r
  match r with
  | [] => true
  | c :: r' =>
    if c = 'e' ∨ c = 'E' then
      let r' := match r' with | '+' :: t => t | '-' :: t => t | _ => r'
      let (e, t) := takeDigits r'
      !e.isEmpty && t.isEmpty
    else false

inductive Cls | legal | odd | bad
  deriving DecidableEq, Repr

def isHexDigit (c : Char) : Bool := isDigit c || ('a' ≤ c && c ≤ 'f') || ('A' ≤ c && c ≤ 'F')

def trimBlanks (s : Str) : Str :=
  let f := fun (l : Str) => l.dropWhile (fun c => c = ' ' ∨ c = '\t' ∨ c = '\n' ∨ c = '\r')
  (f (f s).reverse).reverse

section
variable (rd : Str → Option Nat)

/-- numbers: the plain decimal grammar is legal; what Rust's float parser additionally accepts
    (`inf`, `nan`, `+1`, `.5`, `5.`) is not asserted either way -/
def numCls (s : Str) : Cls :=
  if numeral s then .legal else match rd s with | some _ => .odd | none => .bad

def colCls (s : Str) : Cls :=
  let ps := splitOn ',' s
  let okp (l : List Str) : Bool :=
    decide (l.length = 4) && l.all (fun t => match rd t with | some b => unitOk b | none => false)
  -- four plain numerals in range: legal as they stand; the same after trimming blanks: not asserted
  if ps.all numeral && okp ps then .legal
  else if okp (ps.map trimBlanks) then .odd
  else .bad

/-- code points: hex digits only, a Unicode scalar value -/
def hexCls (s : Str) : Cls :=
  if !s.isEmpty && s.all isHexDigit then
    match parseHex s with | some _ => .legal | none => .bad
  else .bad

def identOk (s : Str) : Bool :=
  !s.isEmpty && decide (s.length ≤ 100) && s.all (fun c => 32 ≤ c.toNat && c.toNat ≤ 126)

def nameOk (s : Str) : Bool :=
  !s.isEmpty && s.all (fun c => !(c.toNat < 32 || c.toNat == 127 || (128 ≤ c.toNat && c.toNat ≤ 159)))

/-- image file name: a plain file name is legal, something with a directory part or absolute is
    not; trailing separators and dot components are not asserted -/
def imageCls (s : Str) : Cls :=
  if s.isEmpty then .bad
  else if !s.contains '/' then (if s = ['.', '.'] ∨ s = ['.'] then .odd else .legal)
  else if s.head? = some '/' then .bad
  else if ((splitOn '/' s).filter (fun p => !p.isEmpty && p ≠ ['.'])).length ≥ 2 then .bad
  else .odd

def get (as : List Attr) (k : String) : Option Str :=
  match as.find? (fun a => a.1 = k.toList) with
  | some a => some a.2
  | none => none

def has (as : List Attr) (k : String) : Bool := (get as k).isSome

inductive AK | num | angle | name | color | ident | hex | ptype | smooth | file
  deriving DecidableEq, Repr

/-- the attribute table of the format: element ↦ (attribute, kind, only in format 2) -/
def attrTable (el : Str) : Option (List (String × AK)) :=
  let tr := [("xScale", AK.num), ("xyScale", .num), ("yxScale", .num), ("yScale", .num), ("xOffset", .num), ("yOffset", .num)]
  if el = sAdvance then some [("width", .num), ("height", .num)]
  else if el = sUnicode then some [("hex", .hex)]
  else if el = sAnchor then some [("x", .num), ("y", .num), ("name", .name), ("color", .color), ("identifier", .ident)]
  else if el = sGuideline then
    some [("x", .num), ("y", .num), ("angle", .angle), ("name", .name), ("color", .color), ("identifier", .ident)]
  else if el = sImage then some (("fileName", AK.file) :: ("color", .color) :: tr)
  else if el = sPoint then
    some [("x", .num), ("y", .num), ("type", .ptype), ("smooth", .smooth), ("name", .name), ("identifier", .ident)]
  else if el = sComponent then some (("base", AK.name) :: ("identifier", .ident) :: tr)
  else none

def required (el : Str) : List String :=
  if el = sAnchor then ["x", "y"]
  else if el = sPoint then ["x", "y"]
  else if el = sComponent then ["base"]
  else if el = sImage then ["fileName"]
  else []

/-- (violations, unspecified) of one attribute value -/
def valueCheck (k : AK) (v : Str) : List String × Bool :=
  let ofCls (c : Cls) (rule : String) : List String × Bool :=
    match c with | .legal => ([], false) | .odd => ([], true) | .bad => ([rule], false)
  match k with
  | .num => ofCls (numCls rd v) "number"
  | .angle =>
    match numCls rd v with
    | .bad => (["number"], false)
    | c => match rd v with
      | some b => if angleOk b then ([], c == .odd) else (["angle"], false)
      | none => (["number"], false)
  | .name => if nameOk v then ([], false) else (["name"], false)
  | .color => ofCls (colCls rd v) "color"
  | .ident => if identOk v then ([], false) else if v.isEmpty then (["ident-empty"], false) else (["ident-invalid"], false)
  | .hex =>
    match hexCls v with
    | .legal => ([], false)
    | _ => match v with
      | '+' :: r => if hexCls r == .legal then (["hex-plus"], false) else (["hex"], false)
      | _ => (["hex"], false)
  | .ptype => if (readPointType v).isSome then ([], false) else (["point-type"], false)
  | .smooth => if v = "yes".toList ∨ v = "no".toList then ([], false) else ([], true)
  | .file => ofCls (imageCls v) "image-name"

def merge (rs : List (List String × Bool)) : List String × Bool :=
  (rs.flatMap (·.1), rs.any (·.2))

/-- rules local to one content-free element of the format, in format version `ver` -/
def elemCheck (ver : Nat) (e : Elem) : List String × Bool :=
  match attrTable e.name with
  | none => (["unknown-element"], false)
  | some tbl =>
    match e.attrs with
    | none => (["attr-syntax"], false)
    | some as =>
      let perAttr := as.map fun a =>
        match tbl.find? (fun t => t.1.toList = a.1) with
        | none => (["unknown-attr"], false)
        | some (_, k) =>
          if k == .ident && ver == 1 then (["v1-attr"], false) else valueCheck rd k a.2
      let req := (required e.name).filter (fun k => !has as k)
      let shape :=
        if e.name = sGuideline then
          match has as "x", has as "y", has as "angle" with
          | true, false, false => []
          | false, true, false => []
          | true, true, true => []
          | _, _, _ => ["guideline-shape"]
        else []
      let v1 := if ver == 1 ∧ (e.name = sAnchor ∨ e.name = sGuideline ∨ e.name = sImage) then ["v1-element"] else []
      merge (perAttr ++ [(req.map (fun _ => "required"), false), (shape, false), (v1, false)])

def ptOfElem (e : Elem) : C11.Pt :=
  match e.attrs with
  | none => ⟨.off, false⟩
  | some as =>
    let t := match get as "type" with
      | some v => (readPointType v).getD .off
      | none => .off
    ⟨t, get as "smooth" == some "yes".toList⟩

/-- the elements inside a contour (comments dropped) -/
def contourElems (kids : List CItem) : List Elem :=
  kids.filterMap fun k => match k with | .elem e => some e | .comment => none

def contourCheck (ver : Nat) (attrs : Option (List Attr)) (kids : List CItem) : List String × Bool :=
  let own : List String × Bool :=
    match attrs with
    | none => (["attr-syntax"], false)
    | some as => merge (as.map fun a =>
        if a.1 = "identifier".toList then
          (if ver == 1 then (["v1-attr"], false) else valueCheck rd .ident a.2)
        else (["unknown-attr"], false))
  let pts := contourElems kids
  let perPoint := pts.map fun e => if e.name = sPoint then elemCheck rd ver e else (["unknown-element"], false)
  let seq := if pts.all (fun e => e.name = sPoint) ∧ !C11.legalB (pts.map ptOfElem) then ["contour"] else []
  merge (own :: (seq, false) :: perPoint)

def oitemCheck (ver : Nat) : OItem → List String × Bool
  | .contour a true _ =>
    -- `<contour …/>`: an empty contour; whatever is wrong with its attributes is the
    -- "attributes of a container are not examined" rule
    let r := contourCheck rd ver a []
    if r.1.isEmpty then r else (["container-attrs"], r.2)
  | .contour a false kids => contourCheck rd ver a kids
  | .elem e => if e.name = sComponent then elemCheck rd ver e else (["unknown-element"], false)
  | .comment => ([], false)

def containerAttrs (a : Option (List Attr)) : List String :=
  match a with
  | none => ["container-attrs"]
  | some [] => []
  | some _ => ["container-attrs"]

def bodyNames : List Str := [sAdvance, sUnicode, sAnchor, sGuideline, sImage]

def itemCheck (ver : Nat) : Item → List String × Bool
  | .elem e =>
    if bodyNames.contains e.name then elemCheck rd ver e
    else if e.name = sNote then
      -- an empty note in either spelling: legal XML for an empty text
      merge [(containerAttrs e.attrs, false), (if ver == 1 then ["v1-element"] else [], false)]
    else if e.name = sLib then (["lib"], false)
    else (["unknown-element"], false)
  | .outline a _ kids => merge ((containerAttrs a, false) :: kids.map (oitemCheck rd ver))
  | .lib a v _ =>
    merge [(containerAttrs a, false),
      (match v with | .bad => ["lib"] | .notDict => ["lib"] | .dict _ => [], false)]
  | .note a _ => merge [(containerAttrs a, false), (if ver == 1 then ["v1-element"] else [], false)]
  | .comment => ([], false)

/-! ### document-wide rules -/

def itemName : Item → Option Str
  | .elem e => some e.name
  | .outline .. => some sOutline
  | .lib .. => some sLib
  | .note .. => some sNote
  | .comment => none

def countName (d : Doc) (n : Str) : Nat := (d.items.filter (fun i => itemName i == some n)).length

def elemIdent (e : Elem) : List Str :=
  match e.attrs with
  | some as => match get as "identifier" with | some i => [i] | none => []
  | none => []

def citemIdents : CItem → List Str
  | .elem e => if e.name = sPoint then elemIdent e else []
  | .comment => []

def oitemIdents : OItem → List Str
  | .contour _ true _ => []          -- `<contour …/>` carries nothing
  | .contour a false kids =>
    (match a with | some as => (match get as "identifier" with | some i => [i] | none => []) | none => []) ++
    kids.flatMap citemIdents
  | .elem e => if e.name = sComponent then elemIdent e else []
  | .comment => []

def itemIdents : Item → List Str
  | .elem e => if e.name = sAnchor ∨ e.name = sGuideline then elemIdent e else []
  | .outline _ _ kids => kids.flatMap oitemIdents
  | _ => []

def docIdents (d : Doc) : List Str := d.items.flatMap itemIdents

def hasDup : List Str → Bool
  | [] => false
  | x :: r => r.contains x || hasDup r

/-- version per the glyph attributes: `format` 1 or 2, `formatMinor` absent or 0.  Spellings like `+2`, `02` (format) and
    `00`, `+0` (formatMinor) that Rust's integer parser reads as 1, 2 resp. 0 are not asserted either way (second component) -/
def docVersion (d : Doc) : Option Nat × Bool :=
  match d.gattrs with
  | none => (none, false)
  | some as =>
    let minorOk := match get as "formatMinor" with | none => true | some m => m = ['0']
    -- the minor version is spelled differently but reads as 0
    let minorOdd := match get as "formatMinor" with | none => false | some m => m ≠ ['0'] && parseU32 10 m == some 0
    match get as "format" with
    | some ['1'] => (if minorOk then some 1 else none, minorOdd)
    | some ['2'] => (if minorOk then some 2 else none, minorOdd)
    | some f =>
      -- spellings like "+2" or "02" that Rust's integer parser reads as 1 or 2: not asserted
      (none, (parseU32 10 f == some 1 || parseU32 10 f == some 2) && (minorOk || minorOdd))
    | none => (none, false)

def glyphAttrCheck (d : Doc) : List String :=
  match d.gattrs with
  | none => ["attr-syntax"]
  | some as =>
    (match get as "name" with | some n => if nameOk n then [] else ["glyph-name"] | none => ["glyph-name"]) ++
    (if as.all (fun a => a.1 = "name".toList ∨ a.1 = "format".toList ∨ a.1 = "formatMinor".toList) then []
     else ["unknown-attr"])

/-- object libs: `public.objectLibs`, when present, is a dictionary of dictionaries -/
def objectLibsCheck (d : Doc) : List String :=
  d.items.flatMap fun i =>
    match i with
    | .lib _ (.dict l) _ =>
      match dictGet objectLibsKey l with
      | none => []
      | some (.dict ol) => if ol.all (fun e => match e.2 with | .dict _ => true | _ => false) then [] else ["objlib-entry"]
      | some _ => ["objlibs"]
    | _ => []

def dedup : List String → List String
  | [] => []
  | x :: r => if r.contains x then dedup r else x :: dedup r

/-- the elements that may occur at most once in a glyph -/
def onceOnly : List String := ["advance", "outline", "lib", "note", "image"]

/-- all rules broken by the document, and whether something in it is not asserted either way -/
def judge (d : Doc) : List String × Bool :=
  let (ver?, verOdd) := docVersion d
  let g := glyphAttrCheck d
  match ver? with
  | none => (dedup (g ++ (if verOdd then [] else ["version"])), verOdd)
  | some ver =>
    let per := merge (d.items.map (itemCheck rd ver))
    let dups := onceOnly.filterMap fun n =>
      if countName d n.toList > 1 then some ("dup-" ++ n) else none
    let ids := if hasDup (docIdents d) then ["ident-dup"] else []
    (dedup (g ++ per.1 ++ dups ++ ids ++ objectLibsCheck d), per.2 || !d.trailer.isEmpty)

/-! ### legal XML spellings (no rule broken; the parser may still dislike them) -/

def elemSurface (e : Elem) : List String :=
  if e.selfClosed then (if e.name = sNote then ["note-selfclosed"] else [])
  else (if e.name = sNote then [] else ["explicit-close"])

def surface (d : Doc) : List String :=
  let citem : CItem → List String := fun k => match k with | .elem e => elemSurface e | .comment => ["comment-inside"]
  let oitem : OItem → List String := fun k => match k with
    | .contour _ _ kids => kids.flatMap citem
    | .elem e => elemSurface e
    | .comment => ["comment-inside"]
  let item : Item → List String := fun k => match k with
    | .elem e => elemSurface e
    | .outline _ _ kids => kids.flatMap oitem
    | .comment => ["comment-inside"]
    | _ => []
  dedup ((if d.gSelfClosed then ["glyph-selfclosed"] else []) ++ d.items.flatMap item)

end

/-! ### well-formedness of a returned glyph -/

def glyphIdents (g : Glyph) : List Str :=
  g.anchors.filterMap (·.ident) ++ g.guidelines.filterMap (·.ident) ++
  g.contours.flatMap (fun c => c.ident.toList ++ c.points.filterMap (·.ident)) ++
  g.components.filterMap (·.ident)

def optAll {α} (p : α → Bool) : Option α → Bool
  | some x => p x
  | none => true

def wellformed (g : Glyph) : List String :=
  let names := g.anchors.all (fun a => optAll nameOk a.name) && g.guidelines.all (fun a => optAll nameOk a.name) &&
    g.contours.all (fun c => c.points.all (fun p => optAll nameOk p.name)) &&
    g.components.all (fun k => nameOk k.base) && nameOk g.name
  (if hasDup (glyphIdents g) then ["wf-ident-dup"] else []) ++
  (if (glyphIdents g).all (fun s => decide (s.length ≤ 100) && s.all (fun c => 32 ≤ c.toNat && c.toNat ≤ 126)) then []
   else ["wf-ident-invalid"]) ++
  (if (dictGet objectLibsKey g.lib).isSome then ["wf-objectlibs-key"] else []) ++
  (if g.contours.all (fun c => C11.legalB (c.points.map toPt) && !c.points.isEmpty) then [] else ["wf-contour"]) ++
  (if g.guidelines.all (fun gl => match gl.line with | .angle _ _ d => angleOk d | _ => true) then [] else ["wf-angle"]) ++
  (if optAll (fun (i : Image) => !i.fileName.isEmpty && i.fileName.head? != some '/' &&
      decide (((splitOn '/' i.fileName).filter (fun p => !p.isEmpty && p ≠ ['.'])).length ≤ 1)) g.image then []
   else ["wf-image-name"]) ++
  (if names then [] else ["wf-name"])

end Glif.Spec
