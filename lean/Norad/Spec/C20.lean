import Norad.Model.C20
import Norad.Spec.C11
/-!
# C20 specification: the outline a legal contour describes

Written independently of the loop of `to_kurbo`: the contour is cut into *segments*
`(off-curves, on-curve point)`; a closed contour is first rotated so that it starts after its last
on-curve point; each segment is drawn according to the glif rules (`specEls`).  The five rules of
the property (start, one segment per on-curve point, order, return to start, no point lost) are
stated as executable checks on an arbitrary element list, so that the driver can evaluate them on
the implementation's own output.
-/
namespace C20
open C11 (PT)

variable {α : Type}

/-- TrueType-style chain of quadratics through implied on-curve points, ending in `e` -/
def quads (mid : α → α → α) : List α → α → List (El α)
  | [], e => [.lineTo e]
  | [a], e => [.quadTo a e]
  | a :: b :: r, e => .quadTo a (mid a b) :: quads mid (b :: r) e

/-- cut a point list into segments; the first argument are the off-curves already seen -/
def segments : List α → List (Pt α) → List (List α × Pt α)
  | _, [] => []
  | offs, p :: ps =>
    if p.typ = .off then segments (offs ++ [p.pos]) ps
    else (offs, p) :: segments [] ps

/-- what one segment draws -/
def specEls (mid : α → α → α) (s : List α × Pt α) : List (El α) :=
  match s.2.typ, s.1 with
  | .move, _ => [.moveTo s.2.pos]
  | .line, _ => [.lineTo s.2.pos]
  | .off, _ => []
  | .curve, [a] => [.quadTo a s.2.pos]
  | .curve, [a, b] => [.curveTo a b s.2.pos]
  | .curve, _ => [.lineTo s.2.pos]
  | .qcurve, o => quads mid o s.2.pos

/-- `pts = pre ++ s :: post` with `s` the last point that is not an off-curve -/
def splitLastOn : List (Pt α) → Option (List (Pt α) × Pt α × List (Pt α))
  | [] => none
  | p :: ps =>
    match splitLastOn ps with
    | some (pre, s, post) => some (p :: pre, s, post)
    | none => if p.typ = .off then none else some ([], p, ps)

/-- the order in which the outline visits the points: an open contour as written; a closed one
    from its last on-curve point round to that point again; off-curves only: as written -/
def visitOrder (pts : List (Pt α)) : List (Pt α) :=
  match pts with
  | [] => []
  | f :: _ =>
    if f.typ = .move then pts
    else match splitLastOn pts with
      | some (pre, s, post) => s :: (post ++ pre ++ [s])
      | none => pts

/-- the implied start of a closed contour of off-curves only -/
def impliedStart (mid : α → α → α) (pts : List (Pt α)) : Option α :=
  match pts.head?, pts.getLast? with
  | some f, some l => some (mid l.pos f.pos)
  | _, _ => none

/-- **the outline of a contour** -/
def specPath (mid : α → α → α) (pts : List (Pt α)) : List (El α) :=
  match pts with
  | [] => []
  | f :: rest =>
    if f.typ = .move then .moveTo f.pos :: (segments [] rest).flatMap (specEls mid)
    else match splitLastOn pts with
      | some (pre, s, post) =>
        .moveTo s.pos :: (segments [] (post ++ pre ++ [s])).flatMap (specEls mid)
      | none =>
        match impliedStart mid pts with
        | some e => .moveTo e :: quads mid (pts.map (·.pos)) e
        | none => []

/-- the segments the outline consists of (after the initial `moveTo`) -/
def specSegments (pts : List (Pt α)) : List (List α × Pt α) :=
  match pts with
  | [] => []
  | f :: rest =>
    if f.typ = .move then segments [] rest
    else match splitLastOn pts with
      | some (pre, s, post) => segments [] (post ++ pre ++ [s])
      | none => []

/-- the on-curve points that end a segment, in contour order: all of them for a closed contour
    (the path starts at the last one), all but the initial `move` for an open one -/
def drawnOnCurves (pts : List (Pt α)) : List (Pt α) :=
  match pts with
  | [] => []
  | f :: rest =>
    if f.typ = .move then rest.filter (fun p => p.typ != .off)
    else pts.filter (fun p => p.typ != .off)

/-! ## the rules of the property as checks on an arbitrary element list -/

def El.endPt : El α → Option α
  | .moveTo p => some p | .lineTo p => some p | .quadTo _ p => some p | .curveTo _ _ p => some p
  | .close => none

/-- control points and end point of an element, in drawing order -/
def El.points : El α → List α
  | .moveTo p => [p] | .lineTo p => [p] | .quadTo a p => [a, p] | .curveTo a b p => [a, b, p]
  | .close => []

def El.isMove : El α → Bool
  | .moveTo _ => true
  | _ => false

/-- number of elements a segment is drawn with -/
def segWidth (s : List α × Pt α) : Nat :=
  match s.2.typ with
  | .off => 0
  | .qcurve => max 1 s.1.length
  | _ => 1

def chunks {β : Type} : List Nat → List β → Option (List (List β))
  | [], [] => some []
  | [], _ :: _ => none
  | n :: ns, l =>
    if l.length < n then none
    else match chunks ns (l.drop n) with
      | some r => some (l.take n :: r)
      | none => none

def isSublist [DecidableEq α] : List α → List α → Bool
  | [], _ => true
  | _ :: _, [] => false
  | a :: as, b :: bs => if a = b then isSublist as bs else isSublist (a :: as) bs

/-- the point the outline has to start at -/
def expectedStart (mid : α → α → α) (pts : List (Pt α)) : Option α :=
  match pts with
  | [] => none
  | f :: _ =>
    if f.typ = .move then some f.pos
    else match splitLastOn pts with
      | some (_, s, _) => some s.pos
      | none => impliedStart mid pts

variable [DecidableEq α]

/-- rule `start`: the path begins with a `MoveTo` at the move point of an open contour / at an
    on-curve point of a closed one (the implied point for off-curves only), and has no other `MoveTo` -/
def startOK (mid : α → α → α) (pts : List (Pt α)) (els : List (El α)) : Bool :=
  match expectedStart mid pts, els with
  | none, [] => true
  | some st, .moveTo p :: rest => decide (p = st) && rest.all (fun e => !e.isMove)
  | _, _ => false

/-- rule `segcount`: one segment per on-curve point (counted in elements through `segWidth`) -/
def segCountOK (pts : List (Pt α)) (els : List (El α)) : Bool :=
  match splitLastOn pts with
  | none => true
  | some _ => (els.drop 1).length == ((specSegments pts).map segWidth).sum

/-- rule `order`: the segments end at the on-curve points, in contour order -/
def orderOK (pts : List (Pt α)) (els : List (El α)) : Bool :=
  match splitLastOn pts with
  | none => true
  | some _ =>
    match chunks ((specSegments pts).map segWidth) (els.drop 1) with
    | none => false
    | some cs => cs.map (fun c => c.getLast?.bind El.endPt) == (drawnOnCurves pts).map (fun p => some p.pos)

/-- rule `kind`: every segment is drawn as its off-curves call for -/
def kindOK (mid : α → α → α) (pts : List (Pt α)) (els : List (El α)) : Bool :=
  match splitLastOn pts with
  | none => true
  | some _ =>
    match chunks ((specSegments pts).map segWidth) (els.drop 1) with
    | none => false
    | some cs => cs == (specSegments pts).map (specEls mid)

/-- rule `closed`: a closed contour returns to its start -/
def closedOK (pts : List (Pt α)) (els : List (El α)) : Bool :=
  if isClosed pts && !pts.isEmpty then
    match els with
    | .moveTo st :: rest => rest.getLast?.bind El.endPt == some st
    | _ => false
  else true

/-- rule `lost`: every input point is a control point or an end point of the path, in visiting order -/
def noPointLostOK (pts : List (Pt α)) (els : List (El α)) : Bool :=
  isSublist ((visitOrder pts).map (·.pos)) (els.flatMap El.points)

end C20
