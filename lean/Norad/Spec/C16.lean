import Norad.Base.Path
/-!
# C16 specification: what the property demands of the *observed* behaviour of a store

Written independently of the model (`Model/C16.lean`); the driver evaluates these predicates on the
implementation's own observations: the key set after every step, the bytes returned by `get`/`iter`,
and — for `Font::save` — the entries of the store together with the tree found in the sandbox.
-/
namespace C16.Spec
open Path

abbrev Bytes := List UInt8
abbrev Key := List Char

/-- "keys are non-empty relative paths" — on the raw string -/
def nonEmptyRelative (k : Key) : Bool := !k.isEmpty && k.head? != some '/'

/-- `a` is a proper path prefix of `b` (component-wise) -/
def properPrefix (a b : Key) : Bool :=
  let p := parse a; let q := parse b
  q.startsWith p && p != q

/-- "no key is a proper path prefix of another" -/
def prefixFree (ks : List Key) : Bool := ks.all fun a => ks.all fun b => !properPrefix a b

/-- "image keys have no directory part": exactly one component -/
def flat (k : Key) : Bool := (parse k).comps.length == 1

def pngSig : Bytes := [137, 80, 78, 71, 13, 10, 26, 10]
def isPng (b : Bytes) : Bool := pngSig.isPrefixOf b

/-! ## load -/

/-- "on stores loaded lazily from arbitrary data/ and images/ trees … contents obtained lazily equal
    the bytes that were on disk": nothing that is on disk may be missing from a loaded store, nothing
    else may be in it.  `tree`: every node of the store directory (name path, `'f' | 'd' | 'l'`).
    A data tree is listable when it holds no symbolic link; an images tree when its top level holds
    plain files only.  Then the keys are exactly: every plain file (data), every top-level plain
    file (images), named by its `/`-joined relative path. -/
def loadFailures (isImage : Bool) (tree : List (List (List Char) × Char)) (ks : List Key) : List String :=
  let top := tree.filter fun n => n.1.length == 1
  let listable := if isImage then top.all (fun n => n.2 == 'f') else tree.all (fun n => n.2 != 'l')
  if !listable then ["unlistable-tree-loaded"] else
  let files := (if isImage then top else tree).filter fun n => n.2 == 'f'
  let expected : List Key := files.map fun n => ("/".intercalate (n.1.map String.ofList)).toList
  (if expected.all (fun k => ks.contains k) then [] else ["file-on-disk-missing-from-loaded-store"]) ++
  (if ks.all (fun k => expected.contains k) then [] else ["loaded-store-has-key-without-file"])

/-! ## save -/

abbrev Loc := List (List Char)

/-- where the operating system puts `base/<key>`: `.` stays, `..` goes up (lexically; the
    directories involved are real ones created by the save itself).  `none`: above the sandbox. -/
def resolveFrom : Loc → List Comp → Option Loc
  | l, [] => some l
  | l, .normal s :: r => resolveFrom (l ++ [s]) r
  | l, .cur :: r => resolveFrom l r
  | l, .parent :: r => if l.isEmpty then none else resolveFrom l.dropLast r

def resolve (base : Loc) (k : Key) : Option Loc := resolveFrom base (parse k).comps

/-- every location passed on the way (the directories the key needs), the final one included -/
def visitedFrom : Loc → List Comp → List Loc
  | _, [] => []
  | l, .normal s :: r => (l ++ [s]) :: visitedFrom (l ++ [s]) r
  | l, .cur :: r => visitedFrom l r
  | l, .parent :: r => if l.isEmpty then [] else visitedFrom l.dropLast r

def visited (base : Loc) (k : Key) : List Loc := visitedFrom base (parse k).comps

/-- shape features of a key, used to tell findings apart -/
def shape (k : Key) : List String :=
  (if (parse k).comps.contains .cur then ["cur"] else []) ++
  (if (parse k).comps.contains .parent then ["parent"] else []) ++
  (if dirish k then ["trailing"] else [])

def insertSorted (s : String) : List String → List String
  | [] => [s]
  | x :: r => if s = x then x :: r else if s < x then s :: x :: r else x :: insertSorted s r

def normFeatures (l : List String) : List String := l.foldr insertSorted []

def failure (rule : String) (feats : List String) : String :=
  let f := normFeatures feats
  if f.isEmpty then rule else rule ++ ":" ++ ",".intercalate f

/-- an entry as observed right after the save: key, and the bytes or `none` for an error entry -/
abbrev Entry := Key × Option Bytes

/-- a node of the observed sandbox: location, `'d' | 'f' | 'l'`, bytes -/
abbrev Node := Loc × Char × Bytes

def lookupNode (t : List Node) (l : Loc) : Option (Char × Bytes) :=
  match t.find? (fun n => n.1 == l) with
  | some n => some n.2
  | none => none

/-- the sentinels beside and above the target -/
def besideSentinels : List Node :=
  [(["side".toList], 'f', "S0".toUTF8.toList),
   (["up".toList], 'd', []),
   (["up".toList, "side".toList], 'f', "S1".toUTF8.toList)]

/-- … and the target directory itself (present after every successful save) -/
def outsideSentinels : List Node :=
  besideSentinels ++ [(["up".toList, "target.ufo".toList], 'd', [])]

/-- the sandbox before the save.  Variant `'S'`: the target holds sentinels; `'A'`: the target is
    absent; `'E'`: the target is an empty directory. -/
def sentinelTreeOf (variant : Char) : List Node :=
  if variant == 'A' then besideSentinels
  else if variant == 'E' then outsideSentinels
  else
    outsideSentinels ++
    [(["up".toList, "target.ufo".toList, "data".toList], 'd', []),
     (["up".toList, "target.ufo".toList, "data".toList, "stale".toList], 'f', "S3".toUTF8.toList),
     (["up".toList, "target.ufo".toList, "old".toList], 'd', []),
     (["up".toList, "target.ufo".toList, "old".toList, "s".toList], 'f', "S2".toUTF8.toList)]

def sentinelTree : List Node := sentinelTreeOf 'S'

def sameNodes (a b : List Node) : Bool :=
  a.all (fun n => b.contains n) && b.all (fun n => a.contains n)

/-- the key cannot name a plain file below the store directory … -/
def selfBad (base : Loc) (k : Key) : Bool :=
  dirish k || (match resolve base k with
    | none => true
    | some l => !(base.isPrefixOf l && l != base))

/-- … or collides with another key there -/
def culprits (base : Loc) (es : List Entry) : List (Key × List String) :=
  es.filterMap fun e =>
    let k := e.1
    if selfBad base k then some (k, shape k) else
    let partners := es.filter fun o => o.1 != k && !selfBad base o.1 &&
      (match resolve base k, resolve base o.1 with
       | some l, some m =>
         (visited base o.1).any (fun v => l.isPrefixOf v) || (visited base k).any (fun v => m.isPrefixOf v)
       | _, _ => false)
    if !partners.isEmpty then some (k, shape k ++ partners.flatMap fun o => shape o.1) else none

/-- the save clauses of the property, on one observed `Font::save`:
    `res` = `'k'` ok, `'e'` error, `'p'` panic. -/
def saveFailures (variant : Char) (dirName : List Char) (es : List Entry) (res : Char) (tree : List Node) : List String :=
  let base : Loc := ["up".toList, "target.ufo".toList, dirName]
  if es.any (fun e => e.2.isNone) then
    -- "an unreadable or invalid entry makes save fail before anything on disk is touched"
    (if res == 'e' then [] else [failure "error-entry-save-not-refused" []]) ++
    (if sameNodes tree (sentinelTreeOf variant) then [] else [failure "error-entry-save-touched-disk" []])
  else
    let cs := culprits base es
    if res != 'k' then
      -- every entry is valid, yet the save failed (after the wipe): one failure per key that cannot be written
      if cs.isEmpty then [failure "valid-store-save-fails" []]
      else cs.map fun c => failure "valid-store-save-fails" c.2
    else
      -- "a save writes every entry verbatim under data/ or images/"
      let perEntry := es.flatMap fun e =>
        match e.2 with
        | none => []
        | some b =>
          match resolve base e.1 with
          | none => [failure "entry-not-under-store-dir" (shape e.1)]
          | some l =>
            if !(base.isPrefixOf l && l != base) then [failure "entry-not-under-store-dir" (shape e.1)]
            else if lookupNode tree l == some ('f', b) then []
            else
              let fs := match cs.find? (fun c => c.1 == e.1) with
                | some c => c.2
                | none => []
              [failure "entry-not-written-verbatim" fs]
      -- nothing else appears: outside the target only the sentinels, inside the store directory only entries
      let expectedLocs := es.filterMap fun e => resolve base e.1
      let extra := tree.filter fun n =>
        if n.2.1 == 'd' then false
        else if outsideSentinels.contains n then false
        else !expectedLocs.contains n.1
      let sentinelsKept := outsideSentinels.all fun n => tree.contains n
      perEntry ++
      (if extra.isEmpty then [] else [failure "unexpected-file-after-save" (es.flatMap fun e => shape e.1)]) ++
      (if sentinelsKept then [] else [failure "outside-target-changed" (es.flatMap fun e => shape e.1)])

end C16.Spec
