import Norad.Model.Layers
/-!
# Guard chains and index updates of the container operations, as data

The vocabulary in which `tools/extract_layer_ops.py` describes `src/layer.rs`: the conditions of the `if … else if …`
chains in front of `new_layer`, `rename_layer`, `rename_glyph` (`Atom`), their meaning on the model's state (`evalL`,
`evalS`), the first-error evaluation of a chain (`firstErr`), and the model's own table of which redundant index each
operation updates (`modelTouches`).  Core Lean only.
-/
namespace Layers

/-- the conditions that occur in the guard chains of `layer.rs` -/
inductive Atom
  | nameIsDefault            -- `name == DEFAULT_LAYER_NAME`
  | nameExists               -- `self.layers.iter().any(|l| l.name == name)`
  | newExistsNoOverwrite     -- `!overwrite && self.get(new).is_some()`
  | oldMissing               -- `self.get(old).is_none()`
  | newIsDefaultHeadNotOld   -- `new == DEFAULT_LAYER_NAME && self.layers[0].name != old`
  | headIsNewNotOld          -- `self.layers[0].name == new && self.layers[0].name != old`
  | glyphNewExistsNoOverwrite -- `!overwrite && self.glyphs.contains_key(new)`
  | glyphOldMissing          -- `!self.glyphs.contains_key(old)`
  | invalidName              -- `Name::new(..)` fails
  deriving DecidableEq, Repr

/-- meaning of an atom for `new_layer name` (`old` unused) and `rename_layer old new overwrite` on a layer set -/
def evalS (valid : Str → Bool) (S : LayerSet) (old new : Str) (ow : Bool) : Atom → Bool
  | .nameIsDefault => new = defaultName
  | .nameExists => S.layers.any (·.name = new)
  | .newExistsNoOverwrite => !ow && (getLayer S new).isSome
  | .oldMissing => (getLayer S old).isNone
  | .newIsDefaultHeadNotOld => new = defaultName && headName S ≠ some old
  | .headIsNewNotOld => headName S = some new && headName S ≠ some old
  | .invalidName => !valid new
  | .glyphNewExistsNoOverwrite => false
  | .glyphOldMissing => false

/-- meaning of an atom for `rename_glyph old new overwrite` on a layer -/
def evalL (valid : Str → Bool) (L : Layer) (old new : Str) (ow : Bool) : Atom → Bool
  | .glyphNewExistsNoOverwrite => !ow && new ∈ L.glyphs
  | .glyphOldMissing => old ∉ L.glyphs
  | .invalidName => !valid new
  | _ => false

/-- the error of the first guard that fires -/
def firstErr (ev : Atom → Bool) : List (Atom × NErr) → Option NErr
  | [] => none
  | (a, e) :: r => if ev a then some e else firstErr ev r

/-- the guard chains as the model's definitions have them (`newLayer`, `renameLayer`, `renameGlyph` of
    `Model/Layers.lean`, read off their `if … else if …`) -/
def modelNewLayerGuards : List (Atom × NErr) :=
  [(.nameIsDefault, .reserved), (.nameExists, .duplicate), (.invalidName, .invalid)]
def modelRenameLayerGuards : List (Atom × NErr) :=
  [(.newExistsNoOverwrite, .duplicate), (.oldMissing, .missing), (.newIsDefaultHeadNotOld, .reserved),
   (.headIsNewNotOld, .duplicate), (.invalidName, .invalid)]
def modelRenameGlyphGuards : List (Atom × NErr) :=
  [(.glyphNewExistsNoOverwrite, .duplicate), (.glyphOldMissing, .missing), (.invalidName, .invalid)]

/-- two chains test the same conditions (order and error variant are not part of the container invariant) -/
def sameAtoms (a b : List (Atom × NErr)) : Bool :=
  a.all (fun g => b.any (fun h => h.1 = g.1)) && b.all (fun g => a.any (fun h => h.1 = g.1))

def Res.errOf : Res → Option NErr
  | .err e => some e
  | _ => none

/-- which redundant index each model operation updates, in the vocabulary of the Rust (`<field>.<mutator>`), as the
    definitions of `Model/Layers.lean` have it: `insertGlyph` conses onto `glyphs`, `contents`, `pathSet`; `removeGlyph`
    filters all three; `renameGlyph` = `removeGlyph` then `insertGlyph`; `clearLayer` empties all three; `retainGlyphs`
    filters the glyph map and prunes the other two; `entry*` touch `glyphs` only; `newLayer` appends a layer and conses
    onto the path set; `removeLayer` drops a layer and its path; `renameLayer` = optional `removeLayer`, then path
    out / path in; `retainLayers` filters `layers` and leaves the path set alone. -/
def modelTouches : List (String × List String) :=
  [("Layer.insert_glyph", ["contents.insert", "glyphs.insert", "path_set.insert"]),
   ("Layer.remove_glyph", ["contents.remove", "glyphs.remove", "path_set.remove"]),
   ("Layer.rename_glyph", ["contents.insert", "contents.remove", "glyphs.insert", "glyphs.remove", "path_set.insert",
                            "path_set.remove"]),
   ("Layer.clear", ["contents.clear", "glyphs.clear", "path_set.clear"]),
   ("Layer.retain", ["contents.retain", "glyphs.retain", "path_set.remove"]),
   ("Layer.entry", ["glyphs.entry"]),
   ("LayerContents.new_layer", ["layers.push", "path_set.insert"]),
   ("LayerContents.remove", ["layers.remove", "path_set.remove"]),
   ("LayerContents.rename_layer", ["layers.remove", "path_set.insert", "path_set.remove"]),
   ("LayerContents.retain", ["layers.retain"]),
   ("LayerContents.remove_empty_layers", ["layers.retain"])]

/-! ### two decisions of the source the operation histories depend on (section `decides` of the translator) -/

/-- the two maps of a `Layer` that `insert_glyph` could ask whether a name already has a file -/
inductive Index | glyphs | contents
  deriving DecidableEq, Repr

/-- how `LayerContents::load` builds the path set: `let path_set = <source>.iter().skip(<skip>).map(lower-cased
    path).collect()`, standing after (or before) `layers.insert(0, default_layer)` -/
structure LoadPathSet where
  source : String
  skip : Nat
  afterDefaultMove : Bool
  deriving DecidableEq, Repr

/-- does the index hold the name? -/
def Index.has (ix : Index) (L : Layer) (g : Str) : Bool :=
  match ix with
  | .contents => decide (g ∈ keys L.contents)
  | .glyphs => decide (g ∈ L.glyphs)

/-- `Layer::insert_glyph` with the index it asks as a parameter -/
def insertGlyphBy (lower : Str → Str) (assignG : Str → List Str → Option Str) (ix : Index) (L : Layer) (g : Str) :
    Layer × Res :=
  if ix.has L g then
    ({ L with glyphs := addGlyphName g L.glyphs }, .ok)
  else
    match assignG g L.pathSet with
    | none => (L, .panic "99 file-name clashes (documented)")
    | some p =>
      ({ L with glyphs := addGlyphName g L.glyphs,
                contents := (g, p) :: L.contents,
                pathSet := lower p :: L.pathSet }, .ok)

/-- the path set `LayerContents::load` builds, given the loaded layers in file order (`listed`) and after the default
    layer has been moved to the front (`moved`) -/
def loadPathSetOf (lower : Str → Str) (plan : LoadPathSet) (listed moved : List Layer) : List Str :=
  ((if plan.afterDefaultMove then moved else listed).drop plan.skip).map (fun l => lower l.path)

end Layers
