import Norad.Model.FIConv
/-!
# C14 specification: the UFO 1→2 and 2→3 font-info conversion, typed in independently

Attribute renames and value conversions as the UFO conversion documents and fontTools.ufoLib give them
(typed from the specification, not derived from norad's source).  Decisions (DESIGN.md section 8):
rounding is "an integer within ½" (tie-break left open); `fontStyle 0` and the width names `Normal`,
`All`, `medium`, `Medium` are norad's extensions and accepted; saturation beyond ±2³¹ is a guard.
-/
namespace C14.Spec
open FI C14

/-- what format 3 wants of the value -/
inductive SConv where
  | same            -- carried over unchanged
  | toInt           -- format 3 wants an integer: rounded
  | toNonNegInt     -- format 3 wants a non-negative integer: rounded, absolute value
  | nonNegNum       -- non-negative integer-or-float: absolute value
  | absInt          -- integer → non-negative integer: absolute value
  | absEach         -- list of integers → non-negative: absolute values
  | weight          -- weightValue: -1 means "not set", otherwise as absInt
  | width | charSet | fontStyle
  deriving DecidableEq, Repr

/-- UFO 1 → UFO 2/3 attribute renames (`fontInfoAttributesVersion1To2`) -/
def renamesV1 : List (String × String) := [
  ("menuName", "styleMapFamilyName"), ("designer", "openTypeNameDesigner"),
  ("designerURL", "openTypeNameDesignerURL"), ("createdBy", "openTypeNameManufacturer"),
  ("vendorURL", "openTypeNameManufacturerURL"), ("license", "openTypeNameLicense"),
  ("licenseURL", "openTypeNameLicenseURL"), ("ttVersion", "openTypeNameVersion"),
  ("ttUniqueID", "openTypeNameUniqueID"), ("notice", "openTypeNameDescription"),
  ("otFamilyName", "openTypeNamePreferredFamilyName"), ("otStyleName", "openTypeNamePreferredSubfamilyName"),
  ("otMacName", "openTypeNameCompatibleFullName"), ("weightName", "postscriptWeightName"),
  ("weightValue", "openTypeOS2WeightClass"), ("ttVendor", "openTypeOS2VendorID"),
  ("uniqueID", "postscriptUniqueID"), ("fontName", "postscriptFontName"),
  ("fondID", "macintoshFONDFamilyID"), ("fondName", "macintoshFONDName"),
  ("defaultWidth", "postscriptDefaultWidthX"), ("slantAngle", "postscriptSlantAngle"),
  ("fullName", "postscriptFullName"), ("fontStyle", "styleMapStyleName"),
  ("widthName", "openTypeOS2WidthClass"), ("msCharSet", "postscriptWindowsCharacterSet")]

/-- UFO 1 attributes that keep their name -/
def keptV1 : List String := [
  "familyName", "styleName", "versionMajor", "versionMinor", "year", "copyright", "trademark",
  "unitsPerEm", "descender", "xHeight", "capHeight", "ascender", "italicAngle", "note"]

/-- value conversions that are not `same`, by format-3 attribute -/
def valueConvs : List (String × SConv) := [
  ("openTypeOS2WeightClass", .weight), ("openTypeOS2WidthClass", .width),
  ("postscriptWindowsCharacterSet", .charSet), ("styleMapStyleName", .fontStyle),
  ("versionMinor", .absInt), ("unitsPerEm", .nonNegNum)]

/-- UFO 2 → 3: attributes that must become integers (`_ufo2To3FloatToInt`) -/
def floatToInt : List String := [
  "openTypeHeadLowestRecPPEM", "openTypeHheaAscender", "openTypeHheaDescender", "openTypeHheaLineGap",
  "openTypeHheaCaretOffset", "openTypeOS2TypoAscender", "openTypeOS2TypoDescender",
  "openTypeOS2TypoLineGap", "openTypeOS2WinAscent", "openTypeOS2WinDescent",
  "openTypeOS2SubscriptXSize", "openTypeOS2SubscriptYSize", "openTypeOS2SubscriptXOffset",
  "openTypeOS2SubscriptYOffset", "openTypeOS2SuperscriptXSize", "openTypeOS2SuperscriptYSize",
  "openTypeOS2SuperscriptXOffset", "openTypeOS2SuperscriptYOffset", "openTypeOS2StrikeoutSize",
  "openTypeOS2StrikeoutPosition", "openTypeVheaVertTypoAscender", "openTypeVheaVertTypoDescender",
  "openTypeVheaVertTypoLineGap", "openTypeVheaCaretOffset"]

/-- UFO 2 → 3: attributes that must become non-negative (`_ufo2To3NonNegativeInt`) -/
def nonNegativeInt : List String := [
  "versionMinor", "openTypeHeadLowestRecPPEM", "openTypeOS2WinAscent", "openTypeOS2WinDescent"]

/-- the UFO 2 attribute set (generic, OpenType head/hhea/name/OS2/vhea, PostScript) -/
def attrsV2 : List String := [
  "familyName", "styleName", "styleMapFamilyName", "styleMapStyleName", "versionMajor", "versionMinor",
  "year", "copyright", "trademark", "unitsPerEm", "descender", "xHeight", "capHeight", "ascender",
  "italicAngle", "note",
  "openTypeHeadCreated", "openTypeHeadLowestRecPPEM", "openTypeHeadFlags",
  "openTypeHheaAscender", "openTypeHheaDescender", "openTypeHheaLineGap", "openTypeHheaCaretSlopeRise",
  "openTypeHheaCaretSlopeRun", "openTypeHheaCaretOffset",
  "openTypeNameDesigner", "openTypeNameDesignerURL", "openTypeNameManufacturer",
  "openTypeNameManufacturerURL", "openTypeNameLicense", "openTypeNameLicenseURL", "openTypeNameVersion",
  "openTypeNameUniqueID", "openTypeNameDescription", "openTypeNamePreferredFamilyName",
  "openTypeNamePreferredSubfamilyName", "openTypeNameCompatibleFullName", "openTypeNameSampleText",
  "openTypeNameWWSFamilyName", "openTypeNameWWSSubfamilyName",
  "openTypeOS2WidthClass", "openTypeOS2WeightClass", "openTypeOS2Selection", "openTypeOS2VendorID",
  "openTypeOS2Panose", "openTypeOS2FamilyClass", "openTypeOS2UnicodeRanges", "openTypeOS2CodePageRanges",
  "openTypeOS2TypoAscender", "openTypeOS2TypoDescender", "openTypeOS2TypoLineGap", "openTypeOS2WinAscent",
  "openTypeOS2WinDescent", "openTypeOS2Type", "openTypeOS2SubscriptXSize", "openTypeOS2SubscriptYSize",
  "openTypeOS2SubscriptXOffset", "openTypeOS2SubscriptYOffset", "openTypeOS2SuperscriptXSize",
  "openTypeOS2SuperscriptYSize", "openTypeOS2SuperscriptXOffset", "openTypeOS2SuperscriptYOffset",
  "openTypeOS2StrikeoutSize", "openTypeOS2StrikeoutPosition",
  "openTypeVheaVertTypoAscender", "openTypeVheaVertTypoDescender", "openTypeVheaVertTypoLineGap",
  "openTypeVheaCaretSlopeRise", "openTypeVheaCaretSlopeRun", "openTypeVheaCaretOffset",
  "postscriptFontName", "postscriptFullName", "postscriptSlantAngle", "postscriptUniqueID",
  "postscriptUnderlineThickness", "postscriptUnderlinePosition", "postscriptIsFixedPitch",
  "postscriptBlueValues", "postscriptOtherBlues", "postscriptFamilyBlues", "postscriptFamilyOtherBlues",
  "postscriptStemSnapH", "postscriptStemSnapV", "postscriptBlueFuzz", "postscriptBlueShift",
  "postscriptBlueScale", "postscriptForceBold", "postscriptDefaultWidthX", "postscriptNominalWidthX",
  "postscriptWeightName", "postscriptDefaultCharacter", "postscriptWindowsCharacterSet",
  "macintoshFONDFamilyID", "macintoshFONDName"]

def convV2 (k : String) : SConv :=
  if k = "unitsPerEm" then .nonNegNum
  else if k = "openTypeOS2Panose" then .absEach
  else if floatToInt.contains k then (if nonNegativeInt.contains k then .toNonNegInt else .toInt)
  else if nonNegativeInt.contains k then .absInt
  else .same

/-- the specification's table for format 2: (legacy attribute, format-3 attribute, conversion) -/
def tableV2 : List (String × String × SConv) := attrsV2.map fun k => (k, k, convV2 k)

/-- the specification's table for format 1 -/
def tableV1 : List (String × String × SConv) :=
  (renamesV1 ++ keptV1.map fun k => (k, k)).map fun (k, k3) => (k, k3, (lookup valueConvs k3).getD .same)

/-! ### enumerations -/

def fontStyle : List (Int × String) := [(64, "regular"), (1, "italic"), (32, "bold"), (33, "bold italic")]
/-- accepted extension: 0 is read as regular -/
def fontStyleExt : List (Int × String) := [(0, "regular")]

def charSet : List (Int × Nat) := [
  (0, 1), (1, 2), (2, 3), (77, 4), (128, 5), (129, 6), (130, 7), (134, 8), (136, 9), (161, 10), (162, 11),
  (163, 12), (177, 13), (178, 14), (186, 15), (200, 16), (204, 17), (222, 18), (238, 19), (255, 20)]

def width : List (String × Nat) := [
  ("Ultra-condensed", 1), ("Extra-condensed", 2), ("Condensed", 3), ("Semi-condensed", 4),
  ("Medium (normal)", 5), ("Semi-expanded", 6), ("Expanded", 7), ("Extra-expanded", 8), ("Ultra-expanded", 9)]
/-- accepted extension: other spellings of the normal width -/
def widthExt : List (String × Nat) := [("Normal", 5), ("All", 5), ("medium", 5), ("Medium", 5)]

/-! ### the value relation -/

/-- `z` is an integer within ½ of the magnitude `n/d` with sign `neg` -/
def withinHalf (neg : Bool) (n d : Nat) (z : Int) : Bool :=
  let x2 : Int := if neg then -(2 * Int.ofNat n) else 2 * Int.ofNat n     -- 2·x·d
  decide ((2 * z * Int.ofNat d - x2).natAbs ≤ d)

/-- expected outcome of one attribute: `none` = the load must fail; `some none` = attribute absent;
    `some (some p)` = present with a value satisfying `p` -/
def expect (c : SConv) (v : Val) : Option (Option (Val → Bool)) :=
  match c, v with
  | .same, v => some (some (· == v))
  | .toInt, .num b =>
    match decode b with
    | .fin neg m up down =>
      if Dbl.num m up < 2147483647 * Dbl.den down then   -- guard: no saturation
        some (some fun o => match o with | .int z => withinHalf neg (Dbl.num m up) (Dbl.den down) z | _ => false)
      else some (some fun o => match o with | .int _ => true | _ => false)
    | _ => some (some fun o => match o with | .int _ => true | _ => false)
  | .toNonNegInt, .num b =>
    match decode b with
    | .fin _ m up down =>
      if Dbl.num m up < 4294967295 * Dbl.den down then
        some (some fun o => match o with
          | .int z => decide (0 ≤ z) && withinHalf false (Dbl.num m up) (Dbl.den down) z | _ => false)
      else some (some fun o => match o with | .int z => decide (0 ≤ z) | _ => false)
    | _ => some (some fun o => match o with | .int z => decide (0 ≤ z) | _ => false)
  | .nonNegNum, .num b => some (some (· == .num (b % 2 ^ 63)))
  | .absInt, .int z => some (some (· == .int (Int.ofNat z.natAbs)))
  | .absEach, .ints l => some (some (· == .ints (l.map fun z => Int.ofNat z.natAbs)))
  | .weight, .int z => if z = -1 then some none else some (some (· == .int (Int.ofNat z.natAbs)))
  | .width, .str s =>
    match lookup (width ++ widthExt) s with
    | some n => some (some (· == .int (Int.ofNat n)))
    | none => none
  | .charSet, .int z =>
    match lookup charSet z with
    | some n => some (some (· == .int (Int.ofNat n)))
    | none => none
  | .fontStyle, .int z =>
    match lookup (fontStyle ++ fontStyleExt) z with
    | some n => some (some (· == .str n))
    | none => none
  | _, _ => none

/-- the four robofab keys that must be gone from the lib of a converted format-1 font -/
def robofabKeys : List String := [
  "org.robofab.postScriptHintData", "org.robofab.opentype.classes",
  "org.robofab.opentype.featureorder", "org.robofab.opentype.features"]

/-- hint data entry → font-info attribute -/
def hintAttrs : List (String × String) := [
  ("blueFuzz", "postscriptBlueFuzz"), ("blueScale", "postscriptBlueScale"), ("blueShift", "postscriptBlueShift"),
  ("blueValues", "postscriptBlueValues"), ("otherBlues", "postscriptOtherBlues"),
  ("familyBlues", "postscriptFamilyBlues"), ("familyOtherBlues", "postscriptFamilyOtherBlues"),
  ("forceBold", "postscriptForceBold"), ("hStems", "postscriptStemSnapH"), ("vStems", "postscriptStemSnapV")]

/-- what the conversion of one hint entry is: the value is copied, or it is a list of zones (pairs) that becomes
    one flat list -/
inductive HintKind where
  | copied | zonesFlattened
  deriving DecidableEq, Repr

/-- the hint entries that are lists of zones -/
def hintZoneLists : List String := ["blueValues", "otherBlues", "familyBlues", "familyOtherBlues"]

def hintKindOf (entry : String) : HintKind := if hintZoneLists.contains entry then .zonesFlattened else .copied

/-- the value the target attribute must hold -/
def hintValue (k : HintKind) (v : Val) : Val :=
  match k, v with
  | .zonesFlattened, .numss l => .nums l.flatten
  | _, x => x

/-- type of every hint entry as the robofab data carries it -/
def hintEntryTypes : List (String × String) := [
  ("blueFuzz", "f64"), ("blueScale", "f64"), ("blueShift", "f64"), ("forceBold", "bool"),
  ("hStems", "Vec<f64>"), ("vStems", "Vec<f64>"),
  ("blueValues", "Vec<Vec<f64>>"), ("otherBlues", "Vec<Vec<f64>>"), ("familyBlues", "Vec<Vec<f64>>"),
  ("familyOtherBlues", "Vec<Vec<f64>>")]

/-- the role of the three feature keys: (lib key, role) with 0 = text put first, 1 = dictionary of blocks put after
    a newline, 2 = order of the blocks -/
def featureKeyRoles : List (String × Nat) := [
  ("org.robofab.opentype.classes", 0), ("org.robofab.opentype.features", 1),
  ("org.robofab.opentype.featureorder", 2)]

/-- block orders admitted when the lib has no order list (the statement fixes none) -/
def fallbackOrders : List String := ["sorted", "mapOrder"]

/-! ### feature text -/

def perms {α} : List α → List (List α)
  | [] => [[]]
  | x :: r => (perms r).flatMap fun p => (List.range (p.length + 1)).map fun i => p.take i ++ [x] ++ p.drop i

/-- the blocks named by `order`, in that order; a name without a block contributes nothing -/
def blocksInOrder (order : List String) (fs : List (String × String)) : String :=
  order.foldl (fun acc k => match fs.find? (fun p => p.1 == k) with | some p => acc ++ p.2 | none => acc) ""

/-- the texts the converted features may be: the classes, then (when a feature dictionary exists) a
    newline and the blocks in the order of the order list; without an order list every order of the
    blocks is admitted (the statement does not fix one) -/
def featureCandidates (cls : Option String) (order : Option (List String))
    (feats : Option (List (String × String))) : List String :=
  match feats with
  | none => [cls.getD ""]
  | some fs =>
    match order with
    | some o => [cls.getD "" ++ "\n" ++ blocksInOrder o fs]
    | none => (perms (fs.map fun p => p.1)).map fun o => cls.getD "" ++ "\n" ++ blocksInOrder o fs

end C14.Spec
