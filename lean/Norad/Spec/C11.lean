import Norad.Model.C11
/-!
# C11 specification: legal point sequences

Declarative statement of the glif rules for one contour, independent of the builder automaton,
plus an executable version `legalB` (used by the driver as the oracle on the implementation's
verdict) with its equivalence proof in `Lemmas/C11.lean`.
-/
namespace C11


def trailOffs (l : List Pt) : Nat := (l.reverse.takeWhile (·.typ = .off)).length

/-- rule for a point `p` with `pre` before it: the non-cyclic part -/
def pointOK (pre : List Pt) (p : Pt) : Prop :=
  (p.typ = .move → pre = []) ∧
  (p.typ = .line → trailOffs pre = 0) ∧
  (p.typ = .curve → trailOffs pre ≤ 2) ∧
  (p.typ = .off → p.smooth = false)

def LinearOK (l : List Pt) : Prop := ∀ a p b, l = a ++ p :: b → pointOK a p

/-- cyclic rule: the run of off-curves before `p` counted in `pts ++ pts` -/
def CyclicOK (pts : List Pt) : Prop :=
  ∀ a p b, pts = a ++ p :: b →
    (p.typ = .line → trailOffs (pts ++ a) = 0) ∧ (p.typ = .curve → trailOffs (pts ++ a) ≤ 2)

def Legal (pts : List Pt) : Prop :=
  LinearOK pts ∧ (if isClosed pts then CyclicOK pts else trailOffs pts = 0)

instance (pre p) : Decidable (pointOK pre p) := by unfold pointOK; infer_instance

/-- executable linear rule: every position satisfies `pointOK` w.r.t. its prefix -/
def linearB : List Pt → List Pt → Bool
  | _, [] => true
  | pre, p :: r => decide (pointOK pre p) && linearB (pre ++ [p]) r

/-- executable cyclic rule, position by position -/
def cyclicB (pts : List Pt) : List Pt → List Pt → Bool
  | _, [] => true
  | a, p :: r =>
    (p.typ != .line || trailOffs (pts ++ a) == 0) &&
    (p.typ != .curve || decide (trailOffs (pts ++ a) ≤ 2)) && cyclicB pts (a ++ [p]) r

def legalB (pts : List Pt) : Bool :=
  linearB [] pts && (if isClosed pts then cyclicB pts [] pts else trailOffs pts == 0)

end C11
