import Norad.Spec.Ufo3Vocab
/-!
# A specification-level reader and writer of glif documents (C05)

`specRead` interprets a *generic* XML tree (as an independent XML library delivers it: tag, attributes, children,
text) using only the names of `Ufo3Vocab`; `specWrite` is the matching specification-level writer.  Neither shares
a definition with `Norad/Model`.  Lexical conversion of numbers is a parameter (`Lex`): in the driver it is the
table the independent implementation (Python `float`, restricted to the decimal grammar) produced for the very
strings of the document; in the theorem it is any pair of functions with `lex (render ns) = some ns`.

Core Lean only.
-/
namespace Ufo3

/-- a number as transmitted: the bit pattern of the IEEE double -/
abbrev Num := Nat

inductive XNode where
  | elem (tag : String) (attrs : List (String × String)) (children : List XNode) (text : String)

def XNode.tag : XNode → String
  | .elem t _ _ _ => t

/-- lexical conversions, supplied from outside -/
structure Lex where
  /-- a comma-separated list of decimal numbers -/
  nums : String → Option (List Num)
  /-- a hexadecimal number -/
  hex : String → Option Nat

structure Render where
  nums : List Num → String
  hex : Nat → String

/-! ## abstract glyph data -/

structure ColorD where
  r : Num
  g : Num
  b : Num
  a : Num
  deriving DecidableEq, Repr

structure GuidelineD where
  x : Option Num
  y : Option Num
  angle : Option Num
  name : Option String
  color : Option ColorD
  identifier : Option String
  deriving DecidableEq, Repr

structure AnchorD where
  x : Num
  y : Num
  name : Option String
  color : Option ColorD
  identifier : Option String
  deriving DecidableEq, Repr

inductive PType
  | move | line | offcurve | curve | qcurve
  deriving DecidableEq, Repr

structure PointD where
  x : Num
  y : Num
  typ : PType
  smooth : Bool
  name : Option String
  identifier : Option String
  deriving DecidableEq, Repr

structure ContourD where
  identifier : Option String
  points : List PointD
  deriving DecidableEq, Repr

structure ComponentD where
  base : String
  t : Affine Num
  identifier : Option String
  deriving DecidableEq, Repr

structure ImageD where
  fileName : String
  t : Affine Num
  color : Option ColorD
  deriving DecidableEq, Repr

structure GlyphD where
  name : String
  width : Num
  height : Num
  unicodes : List Nat
  note : Option String
  image : Option ImageD
  guidelines : List GuidelineD
  anchors : List AnchorD
  contours : List ContourD
  components : List ComponentD
  /-- the glyph lib as a canonical token string (the property list itself is compared elsewhere) -/
  lib : Option String
  deriving DecidableEq, Repr

/-! ## reading -/

/-- the element carries only attributes the specification defines for it -/
def allowed (el : String) (as : List (String × String)) : Bool :=
  as.all fun a => (attrNames el).contains a.1

def num1 (lx : Lex) (s : String) : Option Num :=
  match lx.nums s with
  | some [n] => some n
  | _ => none

/-- a required numeric attribute -/
def numReq (lx : Lex) (as : List (String × String)) (k : String) : Option Num :=
  match as.lookup k with
  | none => none
  | some s => num1 lx s

/-- an optional numeric attribute -/
def numOpt (lx : Lex) (as : List (String × String)) (k : String) : Option (Option Num) :=
  match as.lookup k with
  | none => some none
  | some s => match num1 lx s with
    | none => none
    | some n => some (some n)

/-- a numeric attribute with a default -/
def numDflt (lx : Lex) (as : List (String × String)) (k : String) (d : Num) : Option Num :=
  match as.lookup k with
  | none => some d
  | some s => num1 lx s

def colorOpt (lx : Lex) (as : List (String × String)) : Option (Option ColorD) :=
  match as.lookup "color" with
  | none => some none
  | some s => match lx.nums s with
    | some [r, g, b, a] => some (some ⟨r, g, b, a⟩)
    | _ => none

/-- bit patterns of 0.0 and 1.0 -/
def zeroBits : Num := 0
def oneBits : Num := 0x3FF0000000000000

def readTransform (lx : Lex) (as : List (String × String)) : Option (Affine Num) :=
  match numDflt lx as "xScale" oneBits, numDflt lx as "xyScale" zeroBits, numDflt lx as "yxScale" zeroBits,
        numDflt lx as "yScale" oneBits, numDflt lx as "xOffset" zeroBits, numDflt lx as "yOffset" zeroBits with
  | some a, some b, some c, some d, some e, some f => some ⟨a, b, c, d, e, f⟩
  | _, _, _, _, _, _ => none

def readPType (as : List (String × String)) : Option PType :=
  match as.lookup "type" with
  | none => some .offcurve
  | some s =>
    if s = "move" then some .move else if s = "line" then some .line else if s = "offcurve" then some .offcurve
    else if s = "curve" then some .curve else if s = "qcurve" then some .qcurve else none

def readSmooth (as : List (String × String)) : Option Bool :=
  match as.lookup "smooth" with
  | none => some false
  | some s => if s = "yes" then some true else if s = "no" then some false else none

def readPoint (lx : Lex) : XNode → Option PointD
  | .elem tag as kids _ =>
    if tag = "point" ∧ kids.isEmpty ∧ allowed "point" as then
      match numReq lx as "x", numReq lx as "y", readPType as, readSmooth as with
      | some x, some y, some t, some s => some ⟨x, y, t, s, as.lookup "name", as.lookup "identifier"⟩
      | _, _, _, _ => none
    else none

def readContour (lx : Lex) : XNode → Option ContourD
  | .elem tag as kids _ =>
    if tag = "contour" ∧ allowed "contour" as then
      match kids.mapM (readPoint lx) with
      | some ps => some ⟨as.lookup "identifier", ps⟩
      | none => none
    else none

def readComponent (lx : Lex) : XNode → Option ComponentD
  | .elem tag as kids _ =>
    if tag = "component" ∧ kids.isEmpty ∧ allowed "component" as then
      match as.lookup "base", readTransform lx as with
      | some b, some t => some ⟨b, t, as.lookup "identifier"⟩
      | _, _ => none
    else none

def readAnchor (lx : Lex) : XNode → Option AnchorD
  | .elem tag as kids _ =>
    if tag = "anchor" ∧ kids.isEmpty ∧ allowed "anchor" as then
      match numReq lx as "x", numReq lx as "y", colorOpt lx as with
      | some x, some y, some c => some ⟨x, y, as.lookup "name", c, as.lookup "identifier"⟩
      | _, _, _ => none
    else none

def readGuideline (lx : Lex) : XNode → Option GuidelineD
  | .elem tag as kids _ =>
    if tag = "guideline" ∧ kids.isEmpty ∧ allowed "guideline" as then
      match numOpt lx as "x", numOpt lx as "y", numOpt lx as "angle", colorOpt lx as with
      | some x, some y, some a, some c => some ⟨x, y, a, as.lookup "name", c, as.lookup "identifier"⟩
      | _, _, _, _ => none
    else none

def readImage (lx : Lex) : XNode → Option ImageD
  | .elem tag as kids _ =>
    if tag = "image" ∧ kids.isEmpty ∧ allowed "image" as then
      match as.lookup "fileName", readTransform lx as, colorOpt lx as with
      | some f, some t, some c => some ⟨f, t, c⟩
      | _, _, _ => none
    else none

def readUnicode (lx : Lex) : XNode → Option Nat
  | .elem tag as kids _ =>
    if tag = "unicode" ∧ kids.isEmpty ∧ allowed "unicode" as then
      match as.lookup "hex" with
      | some h => lx.hex h
      | none => none
    else none

def readAdvance (lx : Lex) : XNode → Option (Num × Num)
  | .elem tag as kids _ =>
    if tag = "advance" ∧ kids.isEmpty ∧ allowed "advance" as then
      match numDflt lx as "width" zeroBits, numDflt lx as "height" zeroBits with
      | some w, some h => some (w, h)
      | _, _ => none
    else none

def hasTag (t : String) (n : XNode) : Bool := n.tag == t

/-- the children of `outline`: contours and components, each kind in document order -/
def readOutline (lx : Lex) : XNode → Option (List ContourD × List ComponentD)
  | .elem tag as kids _ =>
    if tag = "outline" ∧ as.isEmpty ∧ kids.all (fun k => ["contour", "component"].contains k.tag) then
      match (kids.filter (hasTag "contour")).mapM (readContour lx),
            (kids.filter (hasTag "component")).mapM (readComponent lx) with
      | some cs, some ks => some (cs, ks)
      | _, _ => none
    else none

/-- at most one element: `some none` when absent -/
def atMostOne {α : Type} (f : XNode → Option α) : List XNode → Option (Option α)
  | [] => some none
  | [n] => match f n with
    | some v => some (some v)
    | none => none
  | _ => none

def readNote : XNode → Option String
  | .elem tag as kids text => if tag = "note" ∧ as.isEmpty ∧ kids.isEmpty then some text else none

def readLib : XNode → Option String
  | .elem tag as kids text => if tag = "lib" ∧ as.isEmpty ∧ kids.isEmpty then some text else none

def glyphChildTags : List String := ["advance", "unicode", "note", "image", "guideline", "anchor", "outline", "lib"]

/-- **the specification-level reader** of one glif document (format 2) -/
def specRead (lx : Lex) : XNode → Option GlyphD
  | .elem tag as kids _ =>
    if tag = "glyph" ∧ allowed "glyph" as ∧ as.lookup "format" = some "2" ∧
       (as.lookup "formatMinor" = none ∨ as.lookup "formatMinor" = some "0") ∧
       kids.all (fun k => glyphChildTags.contains k.tag) then
      match as.lookup "name",
            atMostOne (readAdvance lx) (kids.filter (hasTag "advance")),
            (kids.filter (hasTag "unicode")).mapM (readUnicode lx),
            atMostOne readNote (kids.filter (hasTag "note")),
            atMostOne (readImage lx) (kids.filter (hasTag "image")),
            (kids.filter (hasTag "guideline")).mapM (readGuideline lx),
            (kids.filter (hasTag "anchor")).mapM (readAnchor lx),
            atMostOne (readOutline lx) (kids.filter (hasTag "outline")),
            atMostOne readLib (kids.filter (hasTag "lib")) with
      | some name, some adv, some us, some note, some img, some gs, some ans, some ol, some lib =>
        let (w, h) := adv.getD (zeroBits, zeroBits)
        let (cs, ks) := ol.getD ([], [])
        some ⟨name, w, h, us, note, img, gs, ans, cs, ks, lib⟩
      | _, _, _, _, _, _, _, _, _ => none
    else none

/-! ## writing (every attribute explicit; optional ones only when present) -/

def optA (k : String) : Option String → List (String × String)
  | none => []
  | some v => [(k, v)]

def optN (rd : Render) (k : String) : Option Num → List (String × String)
  | none => []
  | some v => [(k, rd.nums [v])]

def colorA (rd : Render) : Option ColorD → List (String × String)
  | none => []
  | some c => [("color", rd.nums [c.r, c.g, c.b, c.a])]

def transformA (rd : Render) (t : Affine Num) : List (String × String) :=
  [("xScale", rd.nums [t.xScale]), ("xyScale", rd.nums [t.xyScale]), ("yxScale", rd.nums [t.yxScale]),
   ("yScale", rd.nums [t.yScale]), ("xOffset", rd.nums [t.xOffset]), ("yOffset", rd.nums [t.yOffset])]

def PType.str : PType → String
  | .move => "move" | .line => "line" | .offcurve => "offcurve" | .curve => "curve" | .qcurve => "qcurve"

def writePoint (rd : Render) (p : PointD) : XNode :=
  .elem "point" ([("x", rd.nums [p.x]), ("y", rd.nums [p.y]), ("type", p.typ.str),
                  ("smooth", if p.smooth then "yes" else "no")] ++ optA "name" p.name ++ optA "identifier" p.identifier) [] ""

def writeContour (rd : Render) (c : ContourD) : XNode :=
  .elem "contour" (optA "identifier" c.identifier) (c.points.map (writePoint rd)) ""

def writeComponent (rd : Render) (c : ComponentD) : XNode :=
  .elem "component" ([("base", c.base)] ++ transformA rd c.t ++ optA "identifier" c.identifier) [] ""

def writeAnchor (rd : Render) (a : AnchorD) : XNode :=
  .elem "anchor" ([("x", rd.nums [a.x]), ("y", rd.nums [a.y])] ++ optA "name" a.name ++ colorA rd a.color ++
                  optA "identifier" a.identifier) [] ""

def writeGuideline (rd : Render) (g : GuidelineD) : XNode :=
  .elem "guideline" (optN rd "x" g.x ++ optN rd "y" g.y ++ optN rd "angle" g.angle ++ optA "name" g.name ++
                     colorA rd g.color ++ optA "identifier" g.identifier) [] ""

def writeImage (rd : Render) (i : ImageD) : XNode :=
  .elem "image" ([("fileName", i.fileName)] ++ transformA rd i.t ++ colorA rd i.color) [] ""

def writeUnicode (rd : Render) (u : Nat) : XNode := .elem "unicode" [("hex", rd.hex u)] [] ""

def optNode {α : Type} (f : α → XNode) : Option α → List XNode
  | none => []
  | some v => [f v]

/-- **the specification-level writer** -/
def specWrite (rd : Render) (g : GlyphD) : XNode :=
  .elem "glyph" [("name", g.name), ("format", "2")]
    ([.elem "advance" [("width", rd.nums [g.width]), ("height", rd.nums [g.height])] [] ""] ++
     g.unicodes.map (writeUnicode rd) ++
     optNode (fun n => .elem "note" [] [] n) g.note ++
     optNode (writeImage rd) g.image ++
     g.guidelines.map (writeGuideline rd) ++
     g.anchors.map (writeAnchor rd) ++
     [.elem "outline" [] (g.contours.map (writeContour rd) ++ g.components.map (writeComponent rd)) ""] ++
     optNode (fun l => .elem "lib" [] [] l) g.lib) ""

end Ufo3
