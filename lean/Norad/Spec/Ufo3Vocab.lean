/-!
# The UFO 3 vocabulary, stated independently of norad (C05)

Typed in from the UFO 3 specification (unifiedfontobject.org/versions/ufo3) and fontTools.ufoLib's
`fontInfoAttributesVersion3` — NOT derived from norad's source and sharing no definition with `Norad/Model`.
Core Lean only (the driver evaluates these tables on the implementation's output).

When the specification's wording was uncertain for an entry it was left out of the *asserted* tables and
listed in `docs/notes/C05.md` instead.
-/
namespace Ufo3

/-! ## file and directory names -/

def metainfoFile := "metainfo.plist"
def fontinfoFile := "fontinfo.plist"
def groupsFile := "groups.plist"
def kerningFile := "kerning.plist"
def libFile := "lib.plist"
def featuresFile := "features.fea"
def layercontentsFile := "layercontents.plist"
def contentsFile := "contents.plist"
def layerinfoFile := "layerinfo.plist"
def dataDir := "data"
def imagesDir := "images"
def defaultGlyphsDir := "glyphs"
def defaultLayerName := "public.default"
def objectLibsKey := "public.objectLibs"
def glifSuffix := ".glif"

/-- every file or directory name the specification gives a meaning to at the top level of a UFO or of a glyph directory -/
def fileNames : List String :=
  [metainfoFile, fontinfoFile, groupsFile, kerningFile, libFile, featuresFile, layercontentsFile,
   contentsFile, layerinfoFile, dataDir, imagesDir, defaultGlyphsDir]

/-- names fixed by the specification that are not file names -/
def reservedNames : List String := [defaultLayerName, objectLibsKey]

/-! ## property-list value types -/

inductive Ty
  | str      -- string
  | int      -- integer
  | num      -- integer or float
  | bool
  | intList  -- list of integers
  | numList  -- list of integers or floats
  | dictList -- list of dictionaries
  | dict
  deriving DecidableEq, Repr

/-- metainfo.plist -/
def metainfoKeys : List (String × Ty) :=
  [("creator", .str), ("formatVersion", .int), ("formatVersionMinor", .int)]

/-- layerinfo.plist -/
def layerinfoKeys : List (String × Ty) := [("color", .str), ("lib", .dict)]

/-- fontinfo.plist, UFO 3 -/
def fontinfoKeys : List (String × Ty) := [
  -- generic identification
  ("familyName", .str), ("styleName", .str), ("styleMapFamilyName", .str), ("styleMapStyleName", .str),
  ("versionMajor", .int), ("versionMinor", .int), ("year", .int),
  -- generic legal
  ("copyright", .str), ("trademark", .str),
  -- generic dimension
  ("unitsPerEm", .num), ("descender", .num), ("xHeight", .num), ("capHeight", .num), ("ascender", .num),
  ("italicAngle", .num),
  -- generic miscellaneous
  ("note", .str),
  -- OpenType gasp
  ("openTypeGaspRangeRecords", .dictList),
  -- OpenType head
  ("openTypeHeadCreated", .str), ("openTypeHeadLowestRecPPEM", .int), ("openTypeHeadFlags", .intList),
  -- OpenType hhea
  ("openTypeHheaAscender", .int), ("openTypeHheaDescender", .int), ("openTypeHheaLineGap", .int),
  ("openTypeHheaCaretSlopeRise", .int), ("openTypeHheaCaretSlopeRun", .int), ("openTypeHheaCaretOffset", .int),
  -- OpenType name
  ("openTypeNameDesigner", .str), ("openTypeNameDesignerURL", .str), ("openTypeNameManufacturer", .str),
  ("openTypeNameManufacturerURL", .str), ("openTypeNameLicense", .str), ("openTypeNameLicenseURL", .str),
  ("openTypeNameVersion", .str), ("openTypeNameUniqueID", .str), ("openTypeNameDescription", .str),
  ("openTypeNamePreferredFamilyName", .str), ("openTypeNamePreferredSubfamilyName", .str),
  ("openTypeNameCompatibleFullName", .str), ("openTypeNameSampleText", .str),
  ("openTypeNameWWSFamilyName", .str), ("openTypeNameWWSSubfamilyName", .str),
  ("openTypeNameRecords", .dictList),
  -- OpenType OS/2
  ("openTypeOS2WidthClass", .int), ("openTypeOS2WeightClass", .int), ("openTypeOS2Selection", .intList),
  ("openTypeOS2VendorID", .str), ("openTypeOS2Panose", .intList), ("openTypeOS2FamilyClass", .intList),
  ("openTypeOS2UnicodeRanges", .intList), ("openTypeOS2CodePageRanges", .intList),
  ("openTypeOS2TypoAscender", .int), ("openTypeOS2TypoDescender", .int), ("openTypeOS2TypoLineGap", .int),
  ("openTypeOS2WinAscent", .int), ("openTypeOS2WinDescent", .int), ("openTypeOS2Type", .intList),
  ("openTypeOS2SubscriptXSize", .int), ("openTypeOS2SubscriptYSize", .int),
  ("openTypeOS2SubscriptXOffset", .int), ("openTypeOS2SubscriptYOffset", .int),
  ("openTypeOS2SuperscriptXSize", .int), ("openTypeOS2SuperscriptYSize", .int),
  ("openTypeOS2SuperscriptXOffset", .int), ("openTypeOS2SuperscriptYOffset", .int),
  ("openTypeOS2StrikeoutSize", .int), ("openTypeOS2StrikeoutPosition", .int),
  -- OpenType vhea
  ("openTypeVheaVertTypoAscender", .int), ("openTypeVheaVertTypoDescender", .int),
  ("openTypeVheaVertTypoLineGap", .int), ("openTypeVheaCaretSlopeRise", .int),
  ("openTypeVheaCaretSlopeRun", .int), ("openTypeVheaCaretOffset", .int),
  -- PostScript
  ("postscriptFontName", .str), ("postscriptFullName", .str), ("postscriptSlantAngle", .num),
  ("postscriptUniqueID", .int), ("postscriptUnderlineThickness", .num), ("postscriptUnderlinePosition", .num),
  ("postscriptIsFixedPitch", .bool), ("postscriptBlueValues", .numList), ("postscriptOtherBlues", .numList),
  ("postscriptFamilyBlues", .numList), ("postscriptFamilyOtherBlues", .numList),
  ("postscriptStemSnapH", .numList), ("postscriptStemSnapV", .numList), ("postscriptBlueFuzz", .num),
  ("postscriptBlueShift", .num), ("postscriptBlueScale", .num), ("postscriptForceBold", .bool),
  ("postscriptDefaultWidthX", .num), ("postscriptNominalWidthX", .num), ("postscriptWeightName", .str),
  ("postscriptDefaultCharacter", .str), ("postscriptWindowsCharacterSet", .int),
  -- Macintosh FOND
  ("macintoshFONDFamilyID", .int), ("macintoshFONDName", .str),
  -- WOFF
  ("woffMajorVersion", .int), ("woffMinorVersion", .int), ("woffMetadataUniqueID", .dict),
  ("woffMetadataVendor", .dict), ("woffMetadataCredits", .dict), ("woffMetadataDescription", .dict),
  ("woffMetadataLicense", .dict), ("woffMetadataCopyright", .dict), ("woffMetadataTrademark", .dict),
  ("woffMetadataLicensee", .dict), ("woffMetadataExtensions", .dictList),
  -- guidelines
  ("guidelines", .dictList)]

/-- keys of the records nested in fontinfo.plist -/
def recordKeys : List (String × List String) := [
  ("gaspRangeRecord", ["rangeMaxPPEM", "rangeGaspBehavior"]),
  ("nameRecord", ["nameID", "platformID", "encodingID", "languageID", "string"]),
  ("guideline", ["x", "y", "angle", "name", "color", "identifier"]),
  ("woffMetadataUniqueID", ["id"]),
  ("woffMetadataVendor", ["name", "url", "dir", "class"]),
  ("woffMetadataCredits", ["credits"]),
  ("woffMetadataCredit", ["name", "url", "role", "dir", "class"]),
  ("woffMetadataDescription", ["url", "text"]),
  ("woffMetadataLicense", ["url", "id", "text"]),
  ("woffMetadataCopyright", ["text"]),
  ("woffMetadataTrademark", ["text"]),
  ("woffMetadataLicensee", ["name", "dir", "class"]),
  ("woffMetadataText", ["text", "language", "dir", "class"]),
  ("woffMetadataExtension", ["id", "names", "items"]),
  ("woffMetadataExtensionItem", ["id", "names", "values"])]

def styleMapStyleNames : List String := ["regular", "italic", "bold", "bold italic"]
def woffDirections : List String := ["ltr", "rtl"]

/-! ## glif (format 2) -/

structure AttrSpec where
  name : String
  required : Bool
  deriving DecidableEq, Repr

def req (n : String) : AttrSpec := ⟨n, true⟩
def opt (n : String) : AttrSpec := ⟨n, false⟩

def transformAttrs : List String := ["xScale", "xyScale", "yxScale", "yScale", "xOffset", "yOffset"]

/-- elements of a glif document and their attributes -/
def elements : List (String × List AttrSpec) := [
  ("glyph", [req "name", req "format", opt "formatMinor"]),
  ("advance", [opt "width", opt "height"]),
  ("unicode", [req "hex"]),
  ("note", []),
  ("image", [req "fileName"] ++ transformAttrs.map opt ++ [opt "color"]),
  ("guideline", [opt "x", opt "y", opt "angle", opt "name", opt "color", opt "identifier"]),
  ("anchor", [req "x", req "y", opt "name", opt "color", opt "identifier"]),
  ("outline", []),
  ("contour", [opt "identifier"]),
  ("point", [req "x", req "y", opt "type", opt "smooth", opt "name", opt "identifier"]),
  ("component", [req "base"] ++ transformAttrs.map opt ++ [opt "identifier"]),
  ("lib", [])]

def attrSpecs (el : String) : List AttrSpec := (elements.lookup el).getD []
def attrNames (el : String) : List String := (attrSpecs el).map (·.name)
def requiredAttrs (el : String) : List String := ((attrSpecs el).filter (·.required)).map (·.name)
def elementNames : List String := elements.map (·.1)

/-- which elements may occur directly inside which -/
def childrenOf : List (String × List String) := [
  ("glyph", ["advance", "unicode", "note", "image", "guideline", "anchor", "outline", "lib"]),
  ("outline", ["contour", "component"]),
  ("contour", ["point"])]

def pointTypes : List String := ["move", "line", "offcurve", "curve", "qcurve"]
def smoothValues : List (String × Bool) := [("yes", true), ("no", false)]

/-! ## meaning of the six transformation attributes

`(x, y) ↦ (xScale·x + yxScale·y + xOffset, xyScale·x + yScale·y + yOffset)`; defaults are the identity. -/

structure Affine (α : Type) where
  xScale : α
  xyScale : α
  yxScale : α
  yScale : α
  xOffset : α
  yOffset : α
  deriving DecidableEq, Repr

def Affine.apply {α : Type} [Mul α] [Add α] (t : Affine α) (x y : α) : α × α :=
  (t.xScale * x + t.yxScale * y + t.xOffset, t.xyScale * x + t.yScale * y + t.yOffset)

/-- default value of each transformation attribute -/
def transformDefaults : List (String × Int) :=
  [("xScale", 1), ("xyScale", 0), ("yxScale", 0), ("yScale", 1), ("xOffset", 0), ("yOffset", 0)]

end Ufo3
