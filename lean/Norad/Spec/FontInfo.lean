import Norad.Model.FontInfo
/-!
# C13 specification: the cross-field rules of font info, one predicate per rule

Written from the property statement, independently of the order and the mechanics of
`FontInfo::validate` (no byte lengths, no slicing, no loops with state).  Every predicate is
decidable; the driver evaluates `Rules` on the value the implementation accepted or refused.
Only the data types (`Info`, `Guide`, `Dbl`) are shared with the model.
-/
namespace C13
open FI

/-! ### creation date: `YYYY/MM/DD HH:MM:SS` with in-range fields -/

def isDig (c : Char) : Bool := 48 ≤ c.toNat && c.toNat ≤ 57
def dig (c : Char) : Nat := c.toNat - 48
/-- the two-digit number at positions `p`, `p+1` -/
def num2 (v : List Char) (p : Nat) : Nat := dig (v.getD p '0') * 10 + dig (v.getD (p + 1) '0')

def digitPositions : List Nat := [0, 1, 2, 3, 5, 6, 8, 9, 11, 12, 14, 15, 17, 18]

/-- nineteen characters; digits where the pattern has letters, the pattern's separators elsewhere;
    month 1–12, day 1–31, hour 0–23, minute and second 0–59.  (The statement does not ask for the
    day to exist in the month.) -/
def DateOK (v : List Char) : Prop :=
  v.length = 19 ∧ (∀ p ∈ digitPositions, isDig (v.getD p ' ') = true) ∧
  v.getD 4 ' ' = '/' ∧ v.getD 7 ' ' = '/' ∧ v.getD 10 '/' = ' ' ∧ v.getD 13 ' ' = ':' ∧
  v.getD 16 ' ' = ':' ∧
  (1 ≤ num2 v 5 ∧ num2 v 5 ≤ 12) ∧ (1 ≤ num2 v 8 ∧ num2 v 8 ≤ 31) ∧
  num2 v 11 ≤ 23 ∧ num2 v 14 ≤ 59 ∧ num2 v 17 ≤ 59

instance (v : List Char) : Decidable (DateOK v) := by unfold DateOK; infer_instance

/-! ### the other rules -/

/-- gasp records sorted by ppem (ascending, equal values allowed) -/
def GaspSorted (v : List Nat) : Prop := v.Pairwise (· ≤ ·)

/-- guideline identifiers unique -/
def IdsUnique (gs : List Guide) : Prop := (gs.filterMap (·.ident)).Nodup

/-- guideline angles within [0, 360] (only an angled line has an angle) -/
def lineAngleOK : Line → Bool
  | .angle d => d.in0to360
  | _ => true
def AnglesOK (gs : List Guide) : Prop := ∀ g ∈ gs, lineAngleOK g.line = true

/-- selection bits without 0, 5 and 6 -/
def SelectionOK (v : List Nat) : Prop := 0 ∉ v ∧ 5 ∉ v ∧ 6 ∉ v

/-- family class within 0–14 / 0–15 -/
def ClassOK (p : Nat × Nat) : Prop := p.1 ≤ 14 ∧ p.2 ≤ 15

/-- a blue-value list: even length within its maximum -/
def BlueOK (max n : Nat) : Prop := n ≤ max ∧ n % 2 = 0

/-- a stem list: at most 12 -/
def StemOK (n : Nat) : Prop := n ≤ 12

/-- extension records: at least one record, every record has items, every item has names and values -/
def ExtensionsOK (v : List (List ExtItem)) : Prop :=
  v ≠ [] ∧ ∀ items ∈ v, items ≠ [] ∧ ∀ it ∈ items, 0 < it.names ∧ 0 < it.values

def NonEmpty (n : Nat) : Prop := 0 < n

/-- a rule speaks about an attribute only when the attribute is present -/
def whenSome {α : Type} (p : α → Prop) : Option α → Prop
  | none => True
  | some a => p a

instance {α : Type} (p : α → Prop) [DecidablePred p] (o : Option α) : Decidable (whenSome p o) := by
  cases o <;> simp only [whenSome] <;> infer_instance

instance (gs : List Guide) : Decidable (AnglesOK gs) := by unfold AnglesOK; infer_instance
instance (v : List Nat) : Decidable (GaspSorted v) := by unfold GaspSorted; infer_instance
instance (gs : List Guide) : Decidable (IdsUnique gs) := by unfold IdsUnique; infer_instance
instance (v : List Nat) : Decidable (SelectionOK v) := by unfold SelectionOK; infer_instance
instance (p : Nat × Nat) : Decidable (ClassOK p) := by unfold ClassOK; infer_instance
instance (m n : Nat) : Decidable (BlueOK m n) := by unfold BlueOK; infer_instance
instance (n : Nat) : Decidable (StemOK n) := by unfold StemOK; infer_instance
instance (v : List (List ExtItem)) : Decidable (ExtensionsOK v) := by unfold ExtensionsOK; infer_instance
instance (n : Nat) : Decidable (NonEmpty n) := by unfold NonEmpty; infer_instance

/-- **the rules of the property statement** -/
structure Rules (i : Info) : Prop where
  date : whenSome DateOK i.created
  gasp : whenSome GaspSorted i.gasp
  ids : whenSome IdsUnique i.guidelines
  angles : whenSome AnglesOK i.guidelines
  selection : whenSome SelectionOK i.selection
  familyClass : whenSome ClassOK i.familyClass
  blueValues : whenSome (BlueOK 14) i.blueValues
  otherBlues : whenSome (BlueOK 10) i.otherBlues
  familyBlues : whenSome (BlueOK 14) i.familyBlues
  familyOtherBlues : whenSome (BlueOK 10) i.familyOtherBlues
  stemSnapH : whenSome StemOK i.stemSnapH
  stemSnapV : whenSome StemOK i.stemSnapV
  extensions : whenSome ExtensionsOK i.woffExtensions
  credits : whenSome NonEmpty i.woffCredits
  copyright : whenSome NonEmpty i.woffCopyright
  description : whenSome NonEmpty i.woffDescription
  trademark : whenSome NonEmpty i.woffTrademark

/-- names of the violated rules (sorted as listed), for the oracle's feature string -/
def violated (i : Info) : List String :=
  (if whenSome DateOK i.created then [] else ["date"]) ++
  (if whenSome GaspSorted i.gasp then [] else ["gasp"]) ++
  (if whenSome IdsUnique i.guidelines then [] else ["ids"]) ++
  (if whenSome AnglesOK i.guidelines then [] else ["angle"]) ++
  (if whenSome SelectionOK i.selection then [] else ["selection"]) ++
  (if whenSome ClassOK i.familyClass then [] else ["class"]) ++
  (if whenSome (BlueOK 14) i.blueValues then [] else ["blueValues"]) ++
  (if whenSome (BlueOK 10) i.otherBlues then [] else ["otherBlues"]) ++
  (if whenSome (BlueOK 14) i.familyBlues then [] else ["familyBlues"]) ++
  (if whenSome (BlueOK 10) i.familyOtherBlues then [] else ["familyOtherBlues"]) ++
  (if whenSome StemOK i.stemSnapH then [] else ["stemH"]) ++
  (if whenSome StemOK i.stemSnapV then [] else ["stemV"]) ++
  (if whenSome ExtensionsOK i.woffExtensions then [] else ["woffExt"]) ++
  (if whenSome NonEmpty i.woffCredits then [] else ["woffCredits"]) ++
  (if whenSome NonEmpty i.woffCopyright then [] else ["woffCopyright"]) ++
  (if whenSome NonEmpty i.woffDescription then [] else ["woffDescription"]) ++
  (if whenSome NonEmpty i.woffTrademark then [] else ["woffTrademark"])

/-- values of the in-memory types: `u32` ppems, `u8` bit numbers, `u8` class and sub-class -/
structure WellTyped (i : Info) : Prop where
  gasp : ∀ l, i.gasp = some l → ∀ n ∈ l, n ≤ u32Max
  selection : ∀ l, i.selection = some l → ∀ n ∈ l, n ≤ 255
  familyClass : ∀ p, i.familyClass = some p → p.1 ≤ 255 ∧ p.2 ≤ 255

/-! ### what the kind of a refusal means (for `validate_error_kind`) -/
def lenWithin (max : Nat) : Option Nat → Prop
  | none => True
  | some n => n ≤ max

def lenEven : Option Nat → Prop
  | none => True
  | some n => n % 2 = 0

/-- what a refusal that names the rule `k` says about the value -/
def KindViolated (k : Kind) (i : Info) : Prop :=
  match k with
  | .date => ¬ whenSome DateOK i.created
  | .gasp => ¬ whenSome GaspSorted i.gasp
  | .dupId => ¬ whenSome IdsUnique i.guidelines
  | .angle => ¬ whenSome AnglesOK i.guidelines
  | .selBits => ¬ whenSome SelectionOK i.selection
  | .familyClass => ¬ whenSome ClassOK i.familyClass
  | .listLen => ¬ (lenWithin 14 i.blueValues ∧ lenWithin 10 i.otherBlues ∧ lenWithin 14 i.familyBlues ∧
      lenWithin 10 i.familyOtherBlues ∧ lenWithin 12 i.stemSnapH ∧ lenWithin 12 i.stemSnapV)
  | .listPairs => ¬ (lenEven i.blueValues ∧ lenEven i.otherBlues ∧ lenEven i.familyBlues ∧
      lenEven i.familyOtherBlues)
  | .emptyWoff => ¬ (whenSome ExtensionsOK i.woffExtensions ∧ whenSome NonEmpty i.woffCredits ∧
      whenSome NonEmpty i.woffCopyright ∧ whenSome NonEmpty i.woffDescription ∧
      whenSome NonEmpty i.woffTrademark)

/-! ### the rule constants of the statement as one table (for the source-level tie `source_*`)

Typed from the property statement, independently of the code: blue-value lists at most 14 / 10 and of even
length, stem lists at most 12; the date pattern `YYYY/MM/DD HH:MM:SS`; selection bits 0, 5, 6; family class
0–14 / 0–15; guideline angles 0–360; the WOFF records that must have content. -/
namespace RuleTable

def listLimits : List (String × Nat) :=
  [("postscript_blue_values", 14), ("postscript_other_blues", 10), ("postscript_family_blues", 14),
   ("postscript_family_other_blues", 10), ("postscript_stem_snap_h", 12), ("postscript_stem_snap_v", 12)]
def pairLists : List String :=
  ["postscript_blue_values", "postscript_other_blues", "postscript_family_blues", "postscript_family_other_blues"]
def dateLength : Nat := 19
/-- (position, character) -/
def dateSeparators : List (Nat × Char) := [(4, '/'), (7, '/'), (10, ' '), (13, ':'), (16, ':')]
/-- (position of the two digits, least, greatest) -/
def dateFields : List (Nat × Nat × Nat) := [(5, 1, 12), (8, 1, 31), (11, 0, 23), (14, 0, 59), (17, 0, 59)]
def dateYear : Nat × Nat := (0, 4)
def selectionForbidden : List Nat := [0, 5, 6]
def classMax : Nat := 14
def subclassMax : Nat := 15
def angleRange : Nat × Nat := (0, 360)
def woffNonEmpty : List String :=
  ["woff_metadata_extensions", "woff_metadata_credits", "woff_metadata_copyright",
   "woff_metadata_description", "woff_metadata_trademark"]

def limitOf (t : List (String × Nat)) (f : String) : Nat :=
  match t.find? (fun p => p.1 == f) with
  | some p => p.2
  | none => 0

end RuleTable

/-! ### what the file format itself demands of single values (for the tie `source_deser_*`)

Typed from the UFO 3 `fontinfo.plist` chapter and the conventions chapter (identifiers, colours, guidelines),
independently of norad's types: which texts / numbers / shapes a reader has to accept.  Member names are the
snake-case forms of the attribute names, as in `RuleTable`. -/
namespace DeserRuleTable

def styleNames : List String := ["regular", "italic", "bold", "bold italic"]
def woffDirections : List String := ["ltr", "rtl"]
/-- the WOFF records that carry a `dir` attribute -/
def woffDirRecords : List String :=
  ["WoffMetadataVendor", "WoffMetadataCredit", "WoffMetadataTextRecord", "WoffMetadataLicensee",
   "WoffMetadataExtensionNameRecord", "WoffMetadataExtensionValueRecord"]
/-- inclusive ranges of the enumerated integers -/
def widthClass : Nat × Nat := (1, 9)
def windowsCharacterSet : Nat × Nat := (1, 20)
def gaspBehaviorBits : Nat × Nat := (0, 3)
def familyClassLength : Nat := 2
def panoseLength : Nat := 10
/-- attributes that are "bit number lists" -/
def bitLists : List String :=
  ["open_type_head_flags", "open_type_os2_selection", "open_type_os2_type", "open_type_os2_unicode_ranges",
   "open_type_os2_code_page_ranges"]
/-- attributes that are non-negative integers -/
def nonNegativeIntegers : List String :=
  ["open_type_head_lowest_rec_ppem", "open_type_os2_weight_class", "open_type_os2_win_ascent",
   "open_type_os2_win_descent", "version_minor", "woff_major_version", "woff_minor_version"]
/-- attributes that are non-negative numbers (integer or float) -/
def nonNegativeNumbers : List String := ["units_per_em"]
/-- admissible tests for "non-negative": both accept every x > 0 and refuse every x < 0; they differ on -0.0 and
    NaN only, about which the statement is silent.  (A test refusing 0 is not admissible.) -/
def nonNegativeTests : List String := ["sign_positive", "ge_zero"]
def nameRecordKeys : List String := ["nameID", "platformID", "encodingID", "languageID", "string"]
def gaspRecordKeys : List String := ["rangeMaxPPEM", "rangeGaspBehavior"]
/-- identifiers: at most 100 characters, each in U+0020..U+007E -/
def identMaxLen : Nat := 100
def identRange : Nat × Nat := (0x20, 0x7E)
/-- colours: four numbers separated by commas, each in 0..1 -/
def colorSeparator : Char := ','
def colorChannels : Nat := 4
def colorRange : Nat × Nat := (0, 1)
def guidelineKeys : List String := ["x", "y", "angle", "name", "color", "identifier"]
def angleRange : Nat × Nat := (0, 360)
/-- x alone: vertical; y alone: horizontal; x, y and angle: angled; nothing else is a guideline -/
def guidelineKind (x y angle : Bool) : Nat :=
  if x && !y && !angle then 0 else if !x && y && !angle then 1 else if x && y && angle then 2 else 3

def rangeList (p : Nat × Nat) : List Nat := List.range' p.1 (p.2 + 1 - p.1)

end DeserRuleTable

end C13
