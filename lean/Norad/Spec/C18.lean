import Norad.Model.DSTypes
/-!
# C18 — specification side (core Lean only, independent of `Model/C18.lean`)

* `specRead` — a reader that knows only the designspace specification (fontTools designspaceLib XML
  description: element and attribute names typed in here from the specification, not copied from norad's
  serde attributes) and Apple's property-list DTD.  It walks paths (`designspace/axes/axis`, …), does not
  trim text, refuses a document whose root is not `designspace`, and refuses a `<dict>` with a repeated key.
* the well-formedness predicates of the property statement (`StatedWF`) and the two technical guards
  under which the full statement is provable on the tree as it is (`LibTextClean`, `DatesPrintable`).
* `XmlFeatures` — which parts of a document a conforming XML processor cannot get back from what
  quick-xml writes (unescaped tab / line break in attributes, CR in text, characters XML forbids).
-/
namespace C18.Spec
open C18

/-! ## the independent reader -/

def kids (tag : String) : List Tree → List (List (String × String) × List Tree)
  | [] => []
  | .elem n a k :: r => if n = tag then (a, k) :: kids tag r else kids tag r
  | .txt _ :: r => kids tag r

def get (a : List (String × String)) (k : String) : Option String :=
  match a with
  | [] => none
  | (k', v) :: r => if k' = k then some v else get r k

def number (c : Codec) (a : List (String × String)) (k : String) : Option (Option F32) :=
  match get a k with
  | none => some none
  | some s => match c.readF32 s with
    | some x => some (some x)
    | none => none

def required (c : Codec) (a : List (String × String)) (k : String) : Option F32 :=
  match get a k with
  | none => none
  | some s => c.readF32 s

/-- text of a leaf element, verbatim -/
def leafText : List Tree → Option String
  | [] => some ""
  | [.txt s] => some s
  | _ => none

def words : List Char → List Char → List (List Char)
  | [], w => if w = [] then [] else [w.reverse]
  | ch :: r, w => if ch = ' ' then (if w = [] then words r [] else w.reverse :: words r []) else words r (ch :: w)

def optionAll {α β : Type} (f : α → Option β) : List α → Option (List β)
  | [] => some []
  | x :: r => match f x, optionAll f r with
    | some y, some ys => some (y :: ys)
    | _, _ => none

mutual
/-- Apple property list DTD: `plist-object := array | data | date | dict | real | integer | string | true | false` -/
def plistObject (c : Codec) : Tree → Option PV
  | .txt _ => none
  | .elem n _ k =>
    if n = "string" then (leafText k).map PV.str
    else if n = "integer" then
      match leafText k with
      | none => none
      | some s => match c.parseI64 s with
        | some i => some (.int i)
        | none => (c.parseU64 s).map PV.int
    else if n = "real" then (leafText k).bind fun s => (c.readF64 s).map PV.real
    else if n = "true" then (if k.isEmpty then some (.bool true) else none)
    else if n = "false" then (if k.isEmpty then some (.bool false) else none)
    else if n = "data" then (leafText k).bind fun s => (c.decData s).map PV.data
    else if n = "date" then (leafText k).bind fun s => (c.readDate s).map PV.date
    else if n = "array" then (plistArray c k).map PV.arr
    else if n = "dict" then (plistDict c k).map PV.dict
    else none
def plistArray (c : Codec) : List Tree → Option PVs
  | [] => some .nil
  | t :: r => match plistObject c t, plistArray c r with
    | some v, some vs => some (.cons v vs)
    | _, _ => none
/-- `dict := (key, plist-object)*`; a repeated key is refused -/
def plistDict (c : Codec) : List Tree → Option KVs
  | [] => some .nil
  | [_] => none
  | .elem kn _ kk :: v :: r =>
    if kn = "key" then
      match leafText kk, plistObject c v, plistDict c r with
      | some key, some val, some rest => if rest.keys.contains key then none else some (.cons key val rest)
      | _, _, _ => none
    else none
  | .txt _ :: _ :: _ => none
end

/-- `lib` element: one `dict`; no `lib` element = empty -/
def libOf (c : Codec) (k : List Tree) : Option KVs :=
  match kids "lib" k with
  | [] => some .nil
  | [(_, lk)] => match kids "dict" lk with
    | [(_, d)] => plistDict c d
    | _ => none
  | _ => none

def dimension (c : Codec) (x : List (String × String) × List Tree) : Option Dimension :=
  match get x.1 "name", number c x.1 "uservalue", number c x.1 "xvalue", number c x.1 "yvalue" with
  | some n, some u, some xv, some yv => some ⟨n, u, xv, yv⟩
  | _, _, _, _ => none

/-- `location/dimension` -/
def location (c : Codec) (k : List Tree) : Option (List Dimension) :=
  match kids "location" k with
  | [(_, lk)] => optionAll (dimension c) (kids "dimension" lk)
  | _ => none

def mapping (c : Codec) (x : List (String × String) × List Tree) : Option AxisMapping :=
  match required c x.1 "input", required c x.1 "output" with
  | some i, some o => some ⟨i, o⟩
  | _, _ => none

def flag (a : List (String × String)) (k : String) : Option Bool :=
  match get a k with
  | none => some false
  | some s => if s = "1" ∨ s = "true" then some true else if s = "0" ∨ s = "false" then some false else none

def valuesList (c : Codec) (a : List (String × String)) : Option (Option (List F32)) :=
  match get a "values" with
  | none => some none
  | some s => (optionAll (fun w => c.readF32 (String.ofList w)) (words s.toList [])).map some

/-- `axes/axis`: `name`, `tag`, `default`, `hidden`, `minimum`, `maximum` (continuous) or `values`
    (discrete), `map` children with `input`/`output` -/
def axis (c : Codec) (x : List (String × String) × List Tree) : Option Axis :=
  match get x.1 "name", get x.1 "tag", required c x.1 "default", flag x.1 "hidden", number c x.1 "minimum",
        number c x.1 "maximum", valuesList c x.1, optionAll (mapping c) (kids "map" x.2) with
  | some n, some t, some d, some h, some mn, some mx, some vs, some ms =>
    some ⟨n, t, d, h, mn, mx, vs, if ms.isEmpty then none else some ms⟩
  | _, _, _, _, _, _, _, _ => none

def condition (c : Codec) (x : List (String × String) × List Tree) : Option Condition :=
  match get x.1 "name", number c x.1 "minimum", number c x.1 "maximum" with
  | some n, some mn, some mx => some ⟨n, mn, mx⟩
  | _, _, _ => none

def conditionSet (c : Codec) (x : List (String × String) × List Tree) : Option ConditionSet :=
  (optionAll (condition c) (kids "condition" x.2)).map ConditionSet.mk

def substitution (x : List (String × String) × List Tree) : Option Substitution :=
  match get x.1 "name", get x.1 "with" with
  | some n, some w => some ⟨n, w⟩
  | _, _ => none

/-- `rules/rule`: optional `name`, `conditionset/condition`, `sub name= with=` -/
def rule (c : Codec) (x : List (String × String) × List Tree) : Option Rule :=
  match optionAll (conditionSet c) (kids "conditionset" x.2), optionAll substitution (kids "sub" x.2) with
  | some cs, some ss => some ⟨get x.1 "name", cs, ss⟩
  | _, _ => none

/-- `rules processing="first|last"`; no `rules` element = no rules, processing first -/
def rules (c : Codec) (k : List Tree) : Option Rules :=
  match kids "rules" k with
  | [] => some ⟨.first, []⟩
  | [(a, rk)] =>
    let p : Option RuleProcessing := match get a "processing" with
      | none => some .first
      | some s => if s = "last" then some .last else if s = "first" then some .first else none
    match p, optionAll (rule c) (kids "rule" rk) with
    | some p, some rs => some ⟨p, rs⟩
    | _, _ => none
  | _ => none

/-- `sources/source`: `familyname`, `stylename`, `name`, `filename`, `layer`, `location` -/
def source (c : Codec) (x : List (String × String) × List Tree) : Option Source :=
  match get x.1 "filename", location c x.2 with
  | some f, some l => some ⟨get x.1 "familyname", get x.1 "stylename", get x.1 "name", f, get x.1 "layer", l⟩
  | _, _ => none

/-- `instances/instance`: `familyname`, `stylename`, `name`, `filename`, `postscriptfontname`,
    `stylemapfamilyname`, `stylemapstylename`, `location`, `lib` -/
def inst (c : Codec) (x : List (String × String) × List Tree) : Option Instance :=
  match location c x.2, libOf c x.2 with
  | some l, some lib => some ⟨get x.1 "familyname", get x.1 "stylename", get x.1 "name", get x.1 "filename",
      get x.1 "postscriptfontname", get x.1 "stylemapfamilyname", get x.1 "stylemapstylename", l, lib⟩
  | _, _ => none

/-- all `item` elements below the (at most one) `wrapper` element -/
def below (wrapper item : String) (k : List Tree) : Option (List (List (String × String) × List Tree)) :=
  match kids wrapper k with
  | [] => some []
  | [(_, wk)] => some (kids item wk)
  | _ => none

/-- the independent reader: the values a designspace consumer finds in the tree -/
def specRead (c : Codec) : Tree → Option Doc
  | .txt _ => none
  | .elem root a k =>
    if root = "designspace" then
      match required c a "format", (below "axes" "axis" k).bind (optionAll (axis c)), rules c k,
            (below "sources" "source" k).bind (optionAll (source c)),
            (below "instances" "instance" k).bind (optionAll (inst c)), libOf c k with
      | some f, some ax, some ru, some so, some ins, some lib => some ⟨f, ax, ru, so, ins, lib⟩
      | _, _, _, _, _, _ => none
    else none

/-! ## well-formedness of the property statement -/

def optOk (x : Option F32) : Bool :=
  match x with
  | none => true
  | some v => v.notNaN

mutual
/-- a lib value inside the statement: no NaN real, integers in `i64 ∪ u64`, no `Uid`, dictionary keys
    pairwise different (the type invariant of `plist::Dictionary`) -/
def pvStated : PV → Bool
  | .str _ => true
  | .int i => decide (i64Min ≤ i) && decide (i ≤ u64Max)
  | .real r => r.notNaN
  | .bool _ => true
  | .data _ => true
  | .date _ => true
  | .arr xs => pvsStated xs
  | .dict kvs => kvsStated kvs
  | .uid _ => false
def pvsStated : PVs → Bool
  | .nil => true
  | .cons v r => pvStated v && pvsStated r
def kvsStated : KVs → Bool
  | .nil => true
  | .cons k v r => !r.keys.contains k && pvStated v && kvsStated r
end

mutual
/-- guard for finding `lib-edge-blank`: no lib string or key starts or ends with an XML blank -/
def pvClean : PV → Bool
  | .str s => edgeClean s
  | .arr xs => pvsClean xs
  | .dict kvs => kvsClean kvs
  | _ => true
def pvsClean : PVs → Bool
  | .nil => true
  | .cons v r => pvClean v && pvsClean r
def kvsClean : KVs → Bool
  | .nil => true
  | .cons k v r => edgeClean k && pvClean v && kvsClean r
end

mutual
/-- guard for finding `date-range`: `Date::to_xml_format` can print every date -/
def pvDates (c : Codec) : PV → Bool
  | .date d => (c.showDate d).isSome
  | .arr xs => pvsDates c xs
  | .dict kvs => kvsDates c kvs
  | _ => true
def pvsDates (c : Codec) : PVs → Bool
  | .nil => true
  | .cons v r => pvDates c v && pvsDates c r
def kvsDates (c : Codec) : KVs → Bool
  | .nil => true
  | .cons _ v r => pvDates c v && kvsDates c r
end

def dimOk (d : Dimension) : Bool := optOk d.uservalue && optOk d.xvalue && optOk d.yvalue

def locOk (l : List Dimension) : Bool := !l.isEmpty && l.all dimOk

def axisOk (a : Axis) : Bool :=
  a.default.notNaN && optOk a.minimum && optOk a.maximum &&
  (match a.values with
   | none => true
   | some vs => vs.all F32.notNaN) &&
  (match a.map with
   | none => true
   | some ms => !ms.isEmpty && ms.all fun m => m.input.notNaN && m.output.notNaN)

/-- `Name::is_valid`, typed from the UFO specification's wording for glyph names -/
def glyphNameOk (s : String) : Bool :=
  s.toList ≠ [] && s.toList.all fun ch => !(ch.toNat < 0x20 || ch.toNat == 0x7f || (0x80 ≤ ch.toNat && ch.toNat < 0xa0))

def ruleOk (r : Rule) : Bool :=
  !r.conditionSets.isEmpty && !r.substitutions.isEmpty &&
  r.conditionSets.all (fun s => s.conditions.all fun x => optOk x.minimum && optOk x.maximum) &&
  r.substitutions.all fun s => glyphNameOk s.name && glyphNameOk s.withName

/-- the property's "well-formed designspace document": at least one axis and one source, non-empty
    locations, rules that have condition sets and substitutions, a `map` list non-empty when present
    (`Some([])` and `None` share one representation), no NaN (a document holding one is not even equal to
    itself), lib values inside the property-list model -/
def StatedWF (d : Doc) : Bool :=
  d.format.notNaN && !d.axes.isEmpty && d.axes.all axisOk && d.rules.rules.all ruleOk &&
  !d.sources.isEmpty && d.sources.all (fun s => locOk s.location) &&
  d.instances.all (fun i => locOk i.location && kvsStated i.lib) && kvsStated d.lib

def LibTextClean (d : Doc) : Bool := d.instances.all (fun i => kvsClean i.lib) && kvsClean d.lib

def DatesPrintable (c : Codec) (d : Doc) : Bool :=
  d.instances.all (fun i => kvsDates c i.lib) && kvsDates c d.lib

/-- the guard of `ds_roundtrip` -/
def WellFormed (c : Codec) (d : Doc) : Bool := StatedWF d && DatesPrintable c d && LibTextClean d

/-! ## what a conforming XML processor cannot get back (the file level, outside `toTree`) -/

def xmlForbidden (ch : Char) : Bool :=
  (ch.toNat < 0x20 && !(ch == '\t' || ch == '\n' || ch == '\r')) || ch.toNat == 0xfffe || ch.toNat == 0xffff

def hasForbidden (s : String) : Bool := s.toList.any xmlForbidden
def hasAttrWs (s : String) : Bool := s.toList.any fun ch => ch == '\t' || ch == '\n' || ch == '\r'
def hasCR (s : String) : Bool := s.toList.any (· == '\r')

def attrPlain (s : String) : Bool := !hasForbidden s && !hasAttrWs s
def textPlain (s : String) : Bool := !hasForbidden s && !hasCR s

/-- XML 1.0 §2.11 line-end handling: CR LF and a lone CR become LF (flag: the previous character was CR) -/
def normEol : Bool → List Char → List Char
  | _, [] => []
  | prevCR, ch :: r =>
    if ch = '\r' then '\n' :: normEol true r
    else if ch = '\n' ∧ prevCR = true then normEol false r
    else ch :: normEol false r

/-- §3.3.3 attribute-value normalisation of what is left: tab and LF become a blank -/
def normAttr (s : String) : String :=
  String.ofList ((normEol false s.toList).map fun ch => if ch = '\t' ∨ ch = '\n' then ' ' else ch)

def normText (s : String) : String := String.ofList (normEol false s.toList)

def normAttrs : List (String × String) → Option (List (String × String))
  | [] => some []
  | (k, v) :: r =>
    if hasForbidden v then none else
    match normAttrs r with
    | some r' => some ((k, normAttr v) :: r')
    | none => none

mutual
/-- what a conforming XML 1.0 processor reads from quick-xml's output, where tab, CR, LF and forbidden
    characters are written as they are: `none` = not well-formed -/
def conformView : Tree → Option Tree
  | .txt s => if hasForbidden s then none else some (.txt (normText s))
  | .elem n a k =>
    match normAttrs a, conformViews k with
    | some a', some k' => some (.elem n a' k')
    | _, _ => none
def conformViews : List Tree → Option (List Tree)
  | [] => some []
  | t :: r =>
    match conformView t, conformViews r with
    | some t', some r' => some (t' :: r')
    | _, _ => none
end

/-! ## guard of the three `indep-reader` findings, structurally -/

def optPlain (s : Option String) : Bool :=
  match s with
  | none => true
  | some v => attrPlain v

mutual
def pvXml : PV → Bool
  | .str s => textPlain s
  | .arr xs => pvsXml xs
  | .dict kvs => kvsXml kvs
  | _ => true
def pvsXml : PVs → Bool
  | .nil => true
  | .cons v r => pvXml v && pvsXml r
def kvsXml : KVs → Bool
  | .nil => true
  | .cons k v r => textPlain k && pvXml v && kvsXml r
end

def locXml (l : List Dimension) : Bool := l.all fun d => attrPlain d.name

def ruleXml (r : Rule) : Bool :=
  optPlain r.name && r.conditionSets.all (fun s => s.conditions.all fun x => attrPlain x.name) &&
  r.substitutions.all fun s => attrPlain s.name && attrPlain s.withName

def sourceXml (s : Source) : Bool :=
  optPlain s.familyname && optPlain s.stylename && optPlain s.name && attrPlain s.filename && optPlain s.layer &&
  locXml s.location

def instanceXml (i : Instance) : Bool :=
  optPlain i.familyname && optPlain i.stylename && optPlain i.name && optPlain i.filename &&
  optPlain i.postscriptfontname && optPlain i.stylemapfamilyname && optPlain i.stylemapstylename &&
  locXml i.location && kvsXml i.lib

/-- no attribute string holds tab/CR/LF, no lib string or key holds CR, no string holds a character XML
    forbids: the complement of the findings `attr-ws`, `text-cr`, `forbidden-char` -/
def XmlSafe (d : Doc) : Bool :=
  d.axes.all (fun a => attrPlain a.name && attrPlain a.tag) && d.rules.rules.all ruleXml &&
  d.sources.all sourceXml && d.instances.all instanceXml && kvsXml d.lib

end C18.Spec
