/-!
# C07 specification: what a file name assigned by norad must look like

Decidable predicates on the returned string, written independently of the model (own copies of the
character tables; nothing from `Model/C07.lean` is used).  The driver evaluates them on the string
the implementation returned.
-/
namespace C07.Spec

/-- byte length of the UTF-8 encoding -/
def utf8Len (s : List Char) : Nat := (s.map Char.utf8Size).sum

/-- C0 controls, DEL, C1 controls: what `Name` refuses (`name.rs:47`) -/
def isControl (c : Char) : Bool :=
  c.toNat < 0x20 || c.toNat == 0x7f || (0x80 ≤ c.toNat && c.toNat ≤ 0x9f)

/-- a valid glyph / layer name: non-empty, no control characters -/
def ValidName (name : List Char) : Prop := name ≠ [] ∧ ∀ c ∈ name, isControl c = false

/-- characters the UFO convention bans from file names (both path separators included) -/
def illegalChars : List Char :=
  ['"', '*', '+', '/', ':', '<', '>', '?', '[', '\\', ']', '|', '(', ')']

/-- portable character: neither banned nor a control character -/
def goodChar (c : Char) : Bool := !illegalChars.contains c && !isControl c

/-- one path component: non-empty, not `.`/`..`, only portable characters (so no `/`, no `\`) -/
def SingleComponent (r : List Char) : Prop :=
  r ≠ [] ∧ r ≠ ['.'] ∧ r ≠ ['.', '.'] ∧ ∀ c ∈ r, goodChar c = true

def NoLeadingPeriod (r : List Char) : Prop := r.head? ≠ some '.'

def NoTrailingPeriodOrSpace (r : List Char) : Prop :=
  r.getLast? ≠ some '.' ∧ r.getLast? ≠ some ' '

def HasAffixes (pre suf r : List Char) : Prop := pre <+: r ∧ suf <:+ r

def asciiLower (c : Char) : Char :=
  if 'A'.toNat ≤ c.toNat ∧ c.toNat ≤ 'Z'.toNat then Char.ofNat (c.toNat + 32) else c

/-- the 22 DOS device names -/
def deviceNames : List (List Char) :=
  ["con", "prn", "aux", "nul",
   "com1", "com2", "com3", "com4", "com5", "com6", "com7", "com8", "com9",
   "lpt1", "lpt2", "lpt3", "lpt4", "lpt5", "lpt6", "lpt7", "lpt8", "lpt9"].map String.toList

/-- the part before the first period, compared without regard to ASCII case -/
def NotReserved (r : List Char) : Prop :=
  (r.takeWhile (· ≠ '.')).map asciiLower ∉ deviceNames

def Len255 (r : List Char) : Prop := utf8Len r ≤ 255

instance (r) : Decidable (SingleComponent r) := by unfold SingleComponent; infer_instance
instance (r) : Decidable (NoLeadingPeriod r) := by unfold NoLeadingPeriod; infer_instance
instance (r) : Decidable (NoTrailingPeriodOrSpace r) := by
  unfold NoTrailingPeriodOrSpace; infer_instance
instance (p s r) : Decidable (HasAffixes p s r) := by unfold HasAffixes; infer_instance
instance (r) : Decidable (NotReserved r) := by unfold NotReserved; infer_instance
instance (r) : Decidable (Len255 r) := by unfold Len255; infer_instance
instance (n) : Decidable (ValidName n) := by unfold ValidName; infer_instance

end C07.Spec
