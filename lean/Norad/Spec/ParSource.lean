import Norad.Generated.ParSites
/-!
# C19 — what the source-level tie compares the extracted rayon sites with (core Lean only)

`Generated.ParSites` holds, for the tree under check, every pair of items under `cfg(feature = "rayon")` /
`cfg(not(feature = "rayon"))` with the UN-normalised token lists of both variants.  This file holds

* `norm`: the known, harmless differences between a rayon variant and its sequential twin, erased;
* the model's side: the list of parallel steps `Model/Par.lean` has (`modelIterSites`), the representation
  pairs of the name table, the one-sided items, the rayon API words and where they may occur, the shared state the
  model gives a task (`Shared.set` = the `&NameList` parameter; the collector `Shared.out` is rayon's), the two-step shape of `get`.
-/
namespace ParSource
open Generated.ParSites

abbrev Tok := String

def dropPrefix? : List Tok → List Tok → Option (List Tok)
  | [], l => some l
  | _ :: _, [] => none
  | p :: ps, t :: ts => if p = t then dropPrefix? ps ts else none

/-- multi-token differences: lock acquisition vs `RefCell` borrow, the import path, `let mut` (a sequential
    `Iterator::try_for_each` needs `&mut self`), `.par_bridge()` -/
def rewrites : List (List Tok × List Tok) :=
  [([".", "read", "(", ")", ".", "unwrap", "(", ")"], [".", "borrow", "(", ")"]),
   ([".", "write", "(", ")", ".", "unwrap", "(", ")"], [".", "borrow_mut", "(", ")"]),
   (["std", ":", ":", "sync", ":", ":", "RwLock"], ["std", ":", ":", "cell", ":", ":", "Cell"]),
   (["std", ":", ":", "cell", ":", ":", "RefCell"], ["std", ":", ":", "cell", ":", ":", "Cell"]),
   ([".", "par_bridge", "(", ")"], []),
   (["let", "mut"], ["let"])]

/-- single-token differences: the parallel iterator adaptors and the two representations of the table -/
def normTok (t : Tok) : Tok :=
  if t = "par_iter" then "iter" else if t = "into_par_iter" then "into_iter"
  else if t = "par_iter_mut" then "iter_mut"
  else if t = "ParNameList" || t = "SeqNameList" then "NameListImpl"
  else if t = "RwLock" || t = "RefCell" then "Cell" else t

def firstRewrite (l : List Tok) : List (List Tok × List Tok) → Option (List Tok × List Tok)
  | [] => none
  | (p, q) :: r => match dropPrefix? p l with
    | some rest => some (q, rest)
    | none => firstRewrite l r

def normGo : Nat → List Tok → List Tok
  | 0, l => l
  | _, [] => []
  | n + 1, t :: r =>
    match firstRewrite (t :: r) rewrites with
    | some (q, rest) => q ++ normGo n rest
    | none => normTok t :: normGo n r

/-- a token list with the known differences erased -/
def norm (l : List Tok) : List Tok := normGo l.length l

/-- all pairs the extractor found -/
def allSites : List Site := layerLoad ++ layerSave ++ nameTable ++ otherSites

/-- the pairs that introduce a parallel iteration -/
def iterSites : List Site := (layerLoad ++ layerSave ++ otherSites).filter (fun s => s.iterated ≠ "")

/-! ## the model's side -/

/-- the parallel steps of `Model/Par.lean`: (file, function, what is iterated, the theorem that makes the order
    of the steps irrelevant).  `contents` is the glyph-name ↦ file map of a layer: one task per entry on load
    (`Worker.step`, any schedule: `par_load_eq_seq`), one file write per entry on save (`saveIn`, any permutation:
    `par_save_eq_seq`). -/
def modelParSteps : List (String × String × String × String) :=
  [("layer.rs", "load_impl", "contents", "par_load_eq_seq"),
   ("layer.rs", "save_with_options", "self . contents", "par_save_eq_seq")]

/-- the representation pairs of the shared name table (`Model/Par.lean`: `NameSet`, `lookup`, `insertIfAbsent`,
    `getSplit` / `getAtomic`): (file, scope, kind, name of the rayon variant) -/
def modelTablePairs : List (String × String × String × String) :=
  [("names.rs", "", "use", "RwLock"), ("names.rs", "NameList", "field", "inner"),
   ("names.rs", "", "struct", "ParNameList"), ("names.rs", "", "impl", "impl ParNameList")]

/-- items that exist in the rayon build only: the prelude import, and the constructor of the table — a NEW, EMPTY
    set per `NameList` (`St.init`: the name list of a font load starts from what the caller passes, nothing is
    process-wide) -/
def modelOneSided : List (String × String × String × List Tok) :=
  [("layer.rs", "", "par", ["use", "rayon", ":", ":", "prelude", ":", ":", "*", ";"]),
   ("names.rs", "", "par",
    ["impl", "Default", "for", "ParNameList", "{", "fn", "default", "(", ")", "-", ">", "Self", "{",
     "ParNameList", "(", "RwLock", ":", ":", "new", "(", "HashSet", ":", ":", "new", "(", ")", ")", ")", "}", "}"])]

/-- where a rayon API word may occur: the import and the two parallel steps -/
def modelApiWords : List (String × String × String) :=
  [("layer.rs", "", "rayon"), ("layer.rs", "load_impl", "par_iter"), ("layer.rs", "save_with_options", "par_iter")]

/-- shared state a task of the model touches: on load the name list (`Shared.set`, through the two-step `get`) and
    nothing else — the collector is rayon's `collect` (`Shared.out`); on save its own file and, read-only, the glyph map -/
def modelTouches : List (String × List String) :=
  [("load_impl", ["NameList"]), ("save_with_options", ["self.glyphs"])]

/-- how a failing task ends the whole step: the first error in order (sequential) or some error (rayon); the model
    only says *fails iff some task fails* (`par_load_fails_iff_seq_fails`), which error is outside the statement -/
def modelErrorForms : List String := ["collect_result", "try_for_each"]

/-- collections whose content and iteration order do not depend on the order of insertion -/
def orderedCollections : List String := ["BTreeMap", "BTreeSet", "none"]

/-- results keep a schedule-independent order: gathered into an ordered map / set, or nothing is gathered, or
    into a `Vec` from an order-preserving adaptor (not `par_bridge`), or sorted afterwards -/
def orderRestored (s : Site) : Bool :=
  orderedCollections.contains s.gathered || s.sortedAfter ||
  (s.gathered = "Vec" && !s.par.contains "par_bridge")

/-- the words of a body that say what it does to the table (local names, punctuation and types left out) -/
def tableWords : List Tok :=
  ["borrow", "borrow_mut", "get", "contains", "cloned", "clone", "match", "Some", "None", "insert", "replace",
   "get_or_insert_with", "get_or_insert", "entry", "or_insert", "or_insert_with", "remove", "take", "retain", "clear",
   "iter", "next", "find", "first", "last", "static", "OnceLock", "hash", "Hasher", "unwrap_or", "if", "else", "return"]

def shape (l : List Tok) : List Tok := l.filter tableWords.contains

/-- the two atomic steps of `get` as the model has them (`getSplit`: `lookup` under the read lock, clone; on a miss
    `writeStep false` = `insertIfAbsent` under the write lock, return a clone of the requested name), then `contains`
    (`lookup` under the read lock): the table words of the `impl`, after `norm`, in order -/
def modelTableShape : List Tok :=
  ["get", "borrow", "get", "cloned", "match", "Some", "None", "borrow_mut", "insert", "clone", "clone",
   "contains", "borrow", "contains"]

/-- the second known form of `get`: after the miss, take the write lock, look the name up AGAIN and hand out a clone of
    the stored element if it is there now, otherwise insert and hand out a clone of the requested name
    (`writeStepRecheck` = `writeStep true` of the model; stored and requested name are equal texts either way) -/
def modelTableShapeRecheck : List Tok :=
  ["get", "borrow", "get", "cloned", "match", "Some", "None", "borrow_mut", "match", "get", "Some", "clone", "None",
   "insert", "clone", "clone", "contains", "borrow", "contains"]

/-- (table words of the rayon `impl`, the `retStored` variant of the model it is) -/
def knownTableShapes : List (List Tok × Bool) := [(modelTableShape, false), (modelTableShapeRecheck, true)]

def isTableImpl (s : Site) : Bool := s.file = "names.rs" && s.kind = "impl"

def isInfix (p l : List Tok) : Bool :=
  match l with
  | [] => p.isEmpty
  | _ :: r => (dropPrefix? p l).isSome || isInfix p r

end ParSource
