import Norad.Base.StrMap
/-!
# C15 specification: which groups are valid, what a faithful upconversion is

Written from the property statement, independently of the model (it shares only the vocabulary of
`Base/StrMap`).  Everything is a decidable predicate; the driver evaluates it on what the
implementation returned.
-/
namespace KernSpec
open StrMap

abbrev Groups := List (Str × List Str)
abbrev Seconds := List (Str × UInt64)
abbrev Kerning := List (Str × Seconds)
abbrev Table := List (Str × Str)

def p1 : Str := "public.kern1.".toList
def p2 : Str := "public.kern2.".toList
def legacyL : Str := "@MMK_L_".toList
def legacyR : Str := "@MMK_R_".toList

/-! ## valid groups -/

/-- all member occurrences of the groups on one side, in map order -/
def sideMembers (pfx : Str) (g : Groups) : List Str :=
  (g.filter (fun e => pfx.isPrefixOf e.1)).flatMap (·.2)

/-- a groups map is valid: no name is empty or just a kerning prefix, and no glyph occurs twice among
    the first-side groups, nor among the second-side groups -/
def ValidGroups (g : Groups) : Prop :=
  (∀ e ∈ g, e.1 ≠ [] ∧ e.1 ≠ p1 ∧ e.1 ≠ p2) ∧ (sideMembers p1 g).Nodup ∧ (sideMembers p2 g).Nodup

def nodupB : List Str → Bool
  | [] => true
  | x :: xs => !xs.contains x && nodupB xs

def validGroupsB (g : Groups) : Bool :=
  g.all (fun e => !e.1.isEmpty && e.1 != p1 && e.1 != p2) && nodupB (sideMembers p1 g) &&
    nodupB (sideMembers p2 g)

/-! ## the groups that must be duplicated -/

/-- a group is a first-side source: it carries the legacy prefix, or it is the first member of a
    kerning pair, not a glyph, and not already a `public.kern1.` group -/
def isSource1 (g : Groups) (k : Kerning) (glyphs : List Str) (n : Str) : Bool :=
  hasKey n g && (legacyL.isPrefixOf n ||
    (hasKey n k && !glyphs.contains n && !p1.isPrefixOf n))

def isSource2 (g : Groups) (k : Kerning) (glyphs : List Str) (n : Str) : Bool :=
  hasKey n g && (legacyR.isPrefixOf n ||
    (k.any (fun e => hasKey n e.2) && !glyphs.contains n && !p2.isPrefixOf n))

def sources1 (g : Groups) (k : Kerning) (glyphs : List Str) : List Str :=
  (keys g).filter (isSource1 g k glyphs)

def sources2 (g : Groups) (k : Kerning) (glyphs : List Str) : List Str :=
  (keys g).filter (isSource2 g k glyphs)

/-- `n` is an admissible new name for source `src`: prefix, the source name without the legacy
    marker, then nothing or a decimal counter -/
def explains (pfx legacy src n : Str) : Bool :=
  let base := pfx ++ removeAll legacy src
  base.isPrefixOf n && (n.drop base.length).all Char.isDigit

/-- `table.getD` -/
def rnm (t : Table) (n : Str) : Str := (lookup n t).getD n

/-- all pairs of a kerning map -/
def triples (k : Kerning) : List (Str × Str × UInt64) :=
  k.flatMap (fun e => e.2.map (fun s => (e.1, s.1, s.2)))

def pairValue (k : Kerning) (f s : Str) : Option UInt64 :=
  match lookup f k with
  | none => none
  | some secs => lookup s secs

/-- the group part of the statement, for given rename tables `t1`, `t2` (old ↦ new):
    originals kept, every source duplicated under an admissible fresh name with identical members,
    the new names pairwise distinct, and no other key in the result -/
def groupsOK (g : Groups) (src1 src2 : List Str) (g' : Groups) (t1 t2 : Table) : Bool :=
  g.all (fun e => lookup e.1 g' == some e.2) &&
  keys t1 == src1 && keys t2 == src2 &&
  t1.all (fun e => explains p1 legacyL e.1 e.2 && !hasKey e.2 g && lookup e.2 g' == lookup e.1 g) &&
  t2.all (fun e => explains p2 legacyR e.1 e.2 && !hasKey e.2 g && lookup e.2 g' == lookup e.1 g) &&
  nodupB (t1.map (·.2) ++ t2.map (·.2)) &&
  (keys g').all (fun n => hasKey n g || (t1.map (·.2)).contains n || (t2.map (·.2)).contains n) &&
  nodupB (keys g')

/-- every pair keeps its value under the renamed keys -/
def pairsKept (k k' : Kerning) (t1 t2 : Table) : Bool :=
  (triples k).all (fun t => pairValue k' (rnm t1 t.1) (rnm t2 t.2.1) == some t.2.2)

/-- no pair (and no first key) of the result comes from nowhere -/
def pairsOnly (k k' : Kerning) (t1 t2 : Table) : Bool :=
  (triples k').all (fun t' => (triples k).any (fun t =>
    rnm t1 t.1 == t'.1 && rnm t2 t.2.1 == t'.2.1 && t.2.2 == t'.2.2)) &&
  (keys k').all (fun f' => (keys k).any (fun f => rnm t1 f == f')) &&
  (keys k).all (fun f => hasKey (rnm t1 f) k') &&
  nodupB (keys k') && k'.all (fun e => nodupB (keys e.2))

/-- search for the rename tables: each source takes one of the remaining new keys that explains it -/
def assign (pfx legacy : Str) (g g' : Groups) : List Str → List Str → Table →
    (List Str → Table → Bool) → Bool
  | [], rem, acc, cont => cont rem acc.reverse
  | s :: ss, rem, acc, cont =>
    rem.any (fun n => explains pfx legacy s n && lookup n g' == lookup s g &&
      assign pfx legacy g g' ss (rem.erase n) ((s, n) :: acc) cont)

/-- a pair is lost only because a kerning key that is no group equals a generated name
    (the recorded defect): which keys those are -/
def nongroupKeyClash (g : Groups) (k : Kerning) (t1 t2 : Table) : Bool :=
  (keys k).any (fun f => !hasKey f g && (t1.map (·.2)).contains f) ||
  k.any (fun e => (keys e.2).any (fun s => !hasKey s g && (t2.map (·.2)).contains s))

/-- the verdict on an upconversion result; `[]` = faithful -/
def judgeUpconversion (g : Groups) (k : Kerning) (glyphs : List Str) (g' : Groups) (k' : Kerning) :
    List String :=
  let src1 := sources1 g k glyphs
  let src2 := sources2 g k glyphs
  let newKeys := (keys g').filter (fun n => !hasKey n g)
  let kept := g.all (fun e => lookup e.1 g' == some e.2)
  if !kept then ["groups-kept"] else
  -- full statement with some tables
  let full := assign p1 legacyL g g' src1 newKeys [] (fun rem t1 =>
    assign p2 legacyR g g' src2 rem [] (fun rem2 t2 =>
      rem2.isEmpty && groupsOK g src1 src2 g' t1 t2 && pairsKept k k' t1 t2 && pairsOnly k k' t1 t2))
  if full then [] else
  -- which part fails: groups alone?
  let grp := assign p1 legacyL g g' src1 newKeys [] (fun rem t1 =>
    assign p2 legacyR g g' src2 rem [] (fun rem2 t2 =>
      rem2.isEmpty && groupsOK g src1 src2 g' t1 t2))
  if !grp then ["new-groups-exact"] else
  let only := assign p1 legacyL g g' src1 newKeys [] (fun rem t1 =>
    assign p2 legacyR g g' src2 rem [] (fun rem2 t2 =>
      rem2.isEmpty && groupsOK g src1 src2 g' t1 t2 && pairsOnly k k' t1 t2))
  if !only then ["kerning-rewritten"] else
  let clash := assign p1 legacyL g g' src1 newKeys [] (fun rem t1 =>
    assign p2 legacyR g g' src2 rem [] (fun rem2 t2 =>
      rem2.isEmpty && groupsOK g src1 src2 g' t1 t2 && pairsOnly k k' t1 t2 &&
        nongroupKeyClash g k t1 t2))
  if clash then ["kerning-values:nongroup-key-equals-new-name"] else ["kerning-values"]

/-! ## when a legacy load must succeed -/

/-- the groups a faithful conversion returns are valid iff this holds of the input: counted on the
    sources, independent of the names chosen -/
def convertedValidB (g : Groups) (k : Kerning) (glyphs : List Str) : Bool :=
  let src1 := sources1 g k glyphs
  let src2 := sources2 g k glyphs
  validGroupsB g &&
  nodupB (sideMembers p1 g ++ src1.flatMap (fun n => (lookup n g).getD [])) &&
  nodupB (sideMembers p2 g ++ src2.flatMap (fun n => (lookup n g).getD [])) &&
  src1.all (fun n => !(removeAll legacyL n).isEmpty) &&
  src2.all (fun n => !(removeAll legacyR n).isEmpty)

end KernSpec
