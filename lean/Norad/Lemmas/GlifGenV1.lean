import Norad.Lemmas.GlifGen
/-!
# Format 1 in the generative grammar

A format-1 document has no identifiers and none of `anchor`, `guideline`, `image`, `note` (the format-1 refusals of
`parse.rs`, extracted as `Generated.GlifParser.v1RefusedStart/Empty`).  Same items and rendering as `GlifGen.lean`; at
`</outline>` the contours that are one named `move` point become anchors.  Core Lean only.
-/
namespace Glif
section
variable {f : Fmt} {rd : Str → Option Nat} {nc : Color → Color} {ok : Nat → Prop}

def CIt.V1 : CIt → Prop
  | .point p => p.ident = none
  | .comment => True

def OIt.V1 : OIt → Prop
  | .contour cid its => cid = none ∧ ∀ it, it ∈ its → it.V1
  | .component k => k.ident = none
  | _ => True

def BIt.V1 : BIt → Prop
  | .advance .. => True
  | .unicode _ => True
  | .lib _ => True
  | .comment => True
  | .emptyOutline _ => True
  | .outline its => ∀ it, it ∈ its → it.V1
  | _ => False

theorem point_roundtrip_v1 (hc : Codec f rd nc ok) (seen : List Str) {p : Point} (hv : PointOK ok p) (hno : p.ident = none) :
    parsePoint rd 1 seen (pointAttrs f p) = some (pPoint p) := by
  obtain ⟨x, y, typ, smooth, name, ident, lib⟩ := p
  obtain ⟨hx, hy, hn, _⟩ := hv
  simp only at hx hy hn hno
  subst hno
  have nx := hc.num _ hx
  have ny := hc.num _ hy
  unfold parsePoint pointAttrs pPoint
  cases name <;> cases typ <;> cases smooth <;>
    simp [optAttr, pointTypeAttr, foldAttrs, pStep, pApply, nx, ny, pFinish, hn]

theorem transform_fold_component_v1 (hc : Codec f rd nc ok) (seen : List Str) {t : Transform} (ht : OkT ok t)
    (b : Option Str) (i : Option Str) :
    foldAttrs (cStep rd 1 seen) { base := b, ident := i, transform := {} } (transformAttrs f t) =
      some { base := b, ident := i, transform := normT t } := by
  obtain ⟨h1, h2, h3, h4, h5, h6⟩ := ht
  have n1 := hc.num _ h1; have n2 := hc.num _ h2; have n3 := hc.num _ h3
  have n4 := hc.num _ h4; have n5 := hc.num _ h5; have n6 := hc.num _ h6
  unfold transformAttrs normT
  by_cases g1 : farFromOne t.xScale = true <;> by_cases g2 : nonZero t.xyScale = true <;>
  by_cases g3 : nonZero t.yxScale = true <;> by_cases g4 : farFromOne t.yScale = true <;>
  by_cases g5 : nonZero t.xOffset = true <;> by_cases g6 : nonZero t.yOffset = true <;>
    simp [g1, g2, g3, g4, g5, g6, foldAttrs, cStep, cApply, tSet, n1, n2, n3, n4, n5, n6]

theorem component_roundtrip_v1 (hc : Codec f rd nc ok) (seen : List Str) {k : Component} (hv : ComponentOK ok k)
    (hno : k.ident = none) : parseComponent rd 1 seen (componentAttrs f k) = some (pComponent k) := by
  obtain ⟨base, transform, ident, lib⟩ := k
  obtain ⟨hb, ht, _⟩ := hv
  simp only at hb ht hno
  subst hno
  unfold parseComponent componentAttrs pComponent
  rw [foldAttrs_append, foldAttrs_append]
  have e1 : foldAttrs (cStep rd 1 seen) {} [("base".toList, base)] =
      some { base := some base, ident := none, transform := {} } := by
    simp [foldAttrs, cStep, cApply, hb]
  rw [e1]
  simp only [Option.bind_some, transform_fold_component_v1 hc seen ht]
  simp [optAttr, foldAttrs, cFinish]

theorem reach_cits_v1 (hc : Codec f rd nc ok) : ∀ (its : List CIt) (s : PS) (ob : OB) (cid : Option Str) (pts : List Point),
    s.mode = .contour ob cid pts → s.ver = 1 → (∀ it, it ∈ its → it.OK ok) → (∀ it, it ∈ its → it.V1) →
    Reach rd s (its.flatMap (CIt.evs f)) { s with mode := .contour ob cid (pts ++ its.flatMap CIt.pts) } := by
  intro its
  induction its with
  | nil =>
    intro s ob cid pts hm _ _ _
    exact (Reach.nil s).cast (by cases s with | mk g _ _ _ _ _ _ => cases g; simp_all)
  | cons it r ih =>
    intro s ob cid pts hm hv hok h1
    cases it with
    | comment =>
      have hs : step rd s .comment = .ok (.inl s) := by simp [step, hm, stepContour, cont]
      have h2 := ih s ob cid pts hm hv (fun b hb => hok b (List.mem_cons_of_mem _ hb)) (fun b hb => h1 b (List.mem_cons_of_mem _ hb))
      exact (Reach.cons hs h2).cast (by simp [CIt.pts, List.flatMap_cons])
    | point p =>
      have hp := point_roundtrip_v1 hc s.seen (hok _ List.mem_cons_self : PointOK ok p) (h1 _ List.mem_cons_self : p.ident = none)
      have hs : step rd s (pointEv f p) = .ok (.inl { s with mode := .contour ob cid (pts ++ [pPoint p]) }) := by
        have : (pPoint p).ident = none := (h1 _ List.mem_cons_self : p.ident = none)
        simp +decide [step, hm, stepContour, pointEv, hv, hp, cont, addSeen, this]
      have h2 := ih { s with mode := .contour ob cid (pts ++ [pPoint p]) } ob cid (pts ++ [pPoint p]) rfl hv
        (fun b hb => hok b (List.mem_cons_of_mem _ hb)) (fun b hb => h1 b (List.mem_cons_of_mem _ hb))
      exact (Reach.cons hs h2).cast (by simp [CIt.pts, List.flatMap_cons, List.append_assoc])

theorem reach_oit_v1 (hc : Codec f rd nc ok) {s : PS} {ob : OB} (hm : s.mode = .outline ob) (hv : s.ver = 1)
    (it : OIt) (hok : it.OK ok) (h1 : it.V1) :
    Reach rd s (it.evs f) { s with mode := .outline (applyO ob it) } := by
  cases it with
  | comment =>
    have hs : step rd s .comment = .ok (.inl s) := by simp [step, hm, stepOutline, cont]
    exact (Reach.one hs).cast (by cases s with | mk g _ _ _ _ _ _ => cases g; simp_all [applyO])
  | emptyContour a =>
    have hs : step rd s (.empty sContour a) = .ok (.inl s) := by simp [step, hm, stepOutline, cont]
    exact (Reach.one hs).cast (by cases s with | mk g _ _ _ _ _ _ => cases g; simp_all [applyO])
  | component k =>
    have hp := component_roundtrip_v1 hc s.seen (hok : ComponentOK ok k) (h1 : k.ident = none)
    have hs : step rd s (componentEv f k) = .ok (.inl
        { s with mode := .outline { ob with components := ob.components ++ [pComponent k] } }) := by
      have : (pComponent k).ident = none := (h1 : k.ident = none)
      simp +decide [step, hm, stepOutline, componentEv, hv, hp, cont, addSeen, this]
    exact (Reach.one hs).cast (by simp [applyO])
  | contour cid its =>
    obtain ⟨hk1, hk2, _⟩ := (hok : (∀ it, it ∈ its → it.OK ok) ∧ _ ∧ _)
    obtain ⟨hcid, hv1⟩ := (h1 : cid = none ∧ ∀ it, it ∈ its → it.V1)
    subst hcid
    have hs1 : step rd s (.start sContour (some (optAttr "identifier" none))) = .ok (.inl { s with mode := .contour ob none [] }) := by
      simp +decide [step, hm, stepOutline, optAttr, parseContourAttrs, foldAttrs, cont, addSeen]
    have h2 := reach_cits_v1 hc its { s with mode := .contour ob none [] } ob none [] rfl hv hk1 hv1
    have h3 : step rd { s with mode := .contour ob none ([] ++ its.flatMap CIt.pts) } (.close sContour) = .ok (.inl
        { s with mode := .outline (applyO ob (.contour none its)) }) := by
      simp [step, stepContour, hk2, cont, applyO]
    simp only [OIt.evs]
    exact Reach.cons hs1 (Reach.append h2 (Reach.one h3))

theorem reach_oits_v1 (hc : Codec f rd nc ok) : ∀ (its : List OIt) (s : PS) (ob : OB), s.mode = .outline ob → s.ver = 1 →
    (∀ it, it ∈ its → it.OK ok) → (∀ it, it ∈ its → it.V1) →
    Reach rd s (its.flatMap (OIt.evs f)) { s with mode := .outline (its.foldl applyO ob) } := by
  intro its
  induction its with
  | nil =>
    intro s ob hm _ _ _
    exact (Reach.nil s).cast (by cases s with | mk g _ _ _ _ _ _ => cases g; simp_all)
  | cons it r ih =>
    intro s ob hm hv hok h1
    have r1 := reach_oit_v1 hc hm hv it (hok it List.mem_cons_self) (h1 it List.mem_cons_self)
    have r2 := ih { s with mode := .outline (applyO ob it) } (applyO ob it) rfl hv
      (fun b hb => hok b (List.mem_cons_of_mem _ hb)) (fun b hb => h1 b (List.mem_cons_of_mem _ hb))
    rw [List.flatMap_cons]
    exact (Reach.append r1 r2).cast (by simp [List.foldl_cons])

/-- the glyph after a body item of a format-1 document: at `</outline>` single named `move` points become anchors -/
def applyG1 (g : Glyph) : BIt → Glyph
  | .advance w h => { g with width := (if nonZero w then w else 0), height := (if nonZero h then h else 0) }
  | .unicode c => { g with codepoints := cpInsert g.codepoints c }
  | .outline its =>
    let ob := its.foldl applyO {}
    { g with anchors := g.anchors ++ (upgradeV1 ob.contours).1, contours := g.contours ++ (upgradeV1 ob.contours).2,
             components := g.components ++ ob.components }
  | .lib d => { g with lib := d }
  | _ => g

def applyB1 (s : PS) (it : BIt) : PS :=
  { s with
    seenAdvance := s.seenAdvance || it.isAdvance
    seenOutline := s.seenOutline || it.isOutline
    seenLib := s.seenLib || it.isLib
    g := applyG1 s.g it }

theorem reach_bit_v1 (hc : Codec f rd nc ok) {s : PS} (hm : s.mode = .body) (hv : s.ver = 1) (it : BIt) (hok : it.OK ok)
    (h1 : it.V1) (hadv : it.isAdvance = true → s.seenAdvance = false) (hout : it.isOutline = true → s.seenOutline = false)
    (hlib : it.isLib = true → s.seenLib = false) :
    Reach rd s (it.evs f) (applyB1 s it) := by
  cases it with
  | advance w h =>
    have hs := step_advance hc hm (hadv rfl) (hok : ok w ∧ ok h).1 (hok : ok w ∧ ok h).2
    exact (Reach.one hs).cast (by
      cases s with | mk g _ _ _ _ _ _ => cases g; simp_all [applyB1, applyG1, BIt.isAdvance, BIt.isOutline, BIt.isLib])
  | unicode c =>
    have hp := unicode_roundtrip (cps := s.g.codepoints) (hok : ValidCodepoint c)
    have hs : step rd s (.empty sUnicode (some [(sHex, showCodepoint c)])) =
        .ok (.inl { s with g := { s.g with codepoints := cpInsert s.g.codepoints c } }) := by
      simp +decide [step, hm, stepBody, bodyEmpty, hp, cont]
    exact (Reach.one hs).cast (by
      cases s with | mk g _ _ _ _ _ _ => cases g; simp_all [applyB1, applyG1, BIt.isAdvance, BIt.isOutline, BIt.isLib])
  | lib d =>
    exact (reach_lib hm (hlib rfl) d).cast (by
      cases s with | mk g _ _ _ _ _ _ => cases g; simp_all [applyB1, applyG1, BIt.isAdvance, BIt.isOutline, BIt.isLib])
  | comment =>
    have hs : step rd s .comment = .ok (.inl s) := by simp [step, hm, stepBody, cont]
    exact (Reach.one hs).cast (by
      cases s with | mk g _ _ _ _ _ _ => cases g; simp_all [applyB1, applyG1, BIt.isAdvance, BIt.isOutline, BIt.isLib])
  | emptyOutline a =>
    have hs : step rd s (.empty sOutline a) = .ok (.inl { s with seenOutline := true }) := by
      simp [step, hm, stepBody, bodyEmpty, hout rfl, cont]
    exact (Reach.one hs).cast (by
      cases s with | mk g _ _ _ _ _ _ => cases g; simp_all [applyB1, applyG1, BIt.isAdvance, BIt.isOutline, BIt.isLib])
  | outline its =>
    have hs1 : step rd s (.start sOutline (some [])) = .ok (.inl { s with seenOutline := true, mode := .outline {} }) := by
      simp [step, hm, stepBody, bodyStart, hout rfl, cont]
    have h2 := reach_oits_v1 hc its { s with seenOutline := true, mode := .outline {} } {} rfl hv
      (hok : ∀ it, it ∈ its → it.OK ok) (h1 : ∀ it, it ∈ its → it.V1)
    have h3 : step rd { s with seenOutline := true, mode := .outline (its.foldl applyO {}) } (.close sOutline) =
        .ok (.inl (applyB1 s (.outline its))) := by
      simp only [step, stepOutline, if_true, cont, finishOutline, hv]
      cases hu : upgradeV1 (its.foldl applyO {}).contours
      cases s with | mk g _ _ _ _ _ _ => cases g; simp_all [applyB1, applyG1, BIt.isAdvance, BIt.isOutline, BIt.isLib]
    simp only [BIt.evs]
    exact Reach.cons hs1 (Reach.append h2 (Reach.one h3))
  | image i => exact absurd h1 (by simp [BIt.V1])
  | anchor a => exact absurd h1 (by simp [BIt.V1])
  | guideline g => exact absurd h1 (by simp [BIt.V1])
  | note t => exact absurd h1 (by simp [BIt.V1])

structure LegalItemsV1 (ok : Nat → Prop) (items : List BIt) : Prop where
  valid : ∀ it, it ∈ items → it.OK ok
  v1 : ∀ it, it ∈ items → it.V1
  advance : items.countP BIt.isAdvance ≤ 1
  outline : items.countP BIt.isOutline ≤ 1
  lib : items.countP BIt.isLib ≤ 1

theorem applyB1_mode (s : PS) (it : BIt) : (applyB1 s it).mode = s.mode := rfl

theorem reach_bits_v1 (hc : Codec f rd nc ok) : ∀ (items : List BIt) (s : PS), s.mode = .body → s.ver = 1 →
    LegalItemsV1 ok items →
    (s.seenAdvance = true → ∀ b, b ∈ items → b.isAdvance = false) →
    (s.seenOutline = true → ∀ b, b ∈ items → b.isOutline = false) →
    (s.seenLib = true → ∀ b, b ∈ items → b.isLib = false) →
    Reach rd s (items.flatMap (BIt.evs f)) (items.foldl applyB1 s) := by
  intro items
  induction items with
  | nil => intro s _ _ _ _ _ _; exact Reach.nil s
  | cons it r ih =>
    intro s hm hv hL ha ho hl
    obtain ⟨ca, ca'⟩ := count_tail hL.advance
    obtain ⟨co, co'⟩ := count_tail hL.outline
    obtain ⟨cl, cl'⟩ := count_tail hL.lib
    have bfalse : ∀ {b : Bool}, (b = true → False) → b = false := by intro b h; cases b <;> simp_all
    have r1 := reach_bit_v1 hc hm hv it (hL.valid it List.mem_cons_self) (hL.v1 it List.mem_cons_self)
      (fun h => bfalse (fun hs => by have := ha hs it List.mem_cons_self; simp [h] at this))
      (fun h => bfalse (fun hs => by have := ho hs it List.mem_cons_self; simp [h] at this))
      (fun h => bfalse (fun hs => by have := hl hs it List.mem_cons_self; simp [h] at this))
    have r2 := ih (applyB1 s it) hm hv
      ⟨fun b hb => hL.valid b (List.mem_cons_of_mem _ hb), fun b hb => hL.v1 b (List.mem_cons_of_mem _ hb), ca, co, cl⟩
      (fun hs b hb => by
        simp only [applyB1, Bool.or_eq_true] at hs
        rcases hs with hs | hs
        · exact ha hs b (List.mem_cons_of_mem _ hb)
        · exact ca' hs b hb)
      (fun hs b hb => by
        simp only [applyB1, Bool.or_eq_true] at hs
        rcases hs with hs | hs
        · exact ho hs b (List.mem_cons_of_mem _ hb)
        · exact co' hs b hb)
      (fun hs b hb => by
        simp only [applyB1, Bool.or_eq_true] at hs
        rcases hs with hs | hs
        · exact hl hs b (List.mem_cons_of_mem _ hb)
        · exact cl' hs b hb)
    rw [List.flatMap_cons, List.foldl_cons]
    exact Reach.append r1 r2

def glyphStartAttrsV1 (d : GDoc) : List Attr :=
  [("name".toList, d.name), ("format".toList, ['1'])] ++ (if d.minor then [("formatMinor".toList, ['0'])] else [])

def renderV1 (f : Fmt) (d : GDoc) : List Ev :=
  d.prolog ++ (.start sGlyph (some (glyphStartAttrsV1 d)) :: (d.items.flatMap (BIt.evs f) ++ (.close sGlyph :: d.trailer)))

def interpV1 (d : GDoc) : Glyph := (d.items.foldl applyB1 { g := { name := d.name }, ver := 1 }).g

theorem foldl_applyB1_mode : ∀ (items : List BIt) (s : PS), (items.foldl applyB1 s).mode = s.mode := by
  intro items
  induction items with
  | nil => intro s; rfl
  | cons it r ih => intro s; rw [List.foldl_cons, ih]; rfl

theorem glyphStartV1_ok (d : GDoc) (hn : validName d.name = true) :
    parseGlyphAttrs (some (glyphStartAttrsV1 d)) = .ok (d.name, 1) := by
  have h1 : parseU32 10 ['1'] = some 1 := by decide
  have h0 : parseU32 10 ['0'] = some 0 := by decide
  cases hm : d.minor <;> simp [glyphStartAttrsV1, hm, parseGlyphAttrs, foldAttrs, gStep, gApply, hn, h1, h0, gFinish]

/-- **legal_accepted, format 1** (generative grammar): a format-1 document — advance, unicode, outline with contours
    (comments between points) and components, `<outline/>`, `<contour/>`, lib, comments, in any order, no identifiers —
    is accepted; what the parser has built at `</glyph>` is `interpV1 d`, in which the contours that are a single named
    `move` point have become anchors. -/
theorem legal_accepted_gdoc_v1 (hc : Codec f rd nc ok) (d : GDoc) (hp : ∀ e, e ∈ d.prolog → isProlog e = true)
    (hn : validName d.name = true) (hL : LegalItemsV1 ok d.items) :
    parseGlif rd (renderV1 f d) = loadObjectLibs (interpV1 d) := by
  unfold parseGlif renderV1
  rw [scanStart_prolog _ _ hp]
  simp only [scanStart, if_true, glyphStartV1_ok d hn]
  have hr := reach_bits_v1 hc d.items { g := { name := d.name }, ver := 1 } rfl rfl hL
    (by intro h; cases h) (by intro h; cases h) (by intro h; cases h)
  rw [run_of_reach rd hr]
  have hm := foldl_applyB1_mode d.items { g := { name := d.name }, ver := 1 }
  cases hl : loadObjectLibs (interpV1 d) with
  | error k => simp [run, step, hm, stepBody, interpV1] at hl ⊢; simp [hl]
  | ok g' => simp [run, step, hm, stepBody, interpV1] at hl ⊢; simp [hl]
end
end Glif
