import Norad.Lemmas.StrMap
/-!
# The sorted duplicate-free list of a set is canonical

`strLt` (Rust's `str` order) is a strict total order, `sortDedup l` is strictly sorted, and two strictly
sorted lists with the same elements are equal.  Hence `sortDedup` depends only on the *set* of
elements of its argument — the iteration order of a `BTreeSet` does not depend on the order in which
(or how often) elements were inserted.
-/
namespace StrMap

theorem strLt_irrefl : ∀ a : Str, strLt a a = false
  | [] => rfl
  | x :: xs => by simp [strLt, strLt_irrefl xs]

theorem strLt_trans : ∀ {a b c : Str}, strLt a b = true → strLt b c = true → strLt a c = true
  | [], [], _, h, _ => by simp [strLt] at h
  | [], _ :: _, [], _, h => by simp [strLt] at h
  | [], _ :: _, _ :: _, _, _ => by simp [strLt]
  | _ :: _, [], _, h, _ => by simp [strLt] at h
  | _ :: _, _ :: _, [], _, h => by simp [strLt] at h
  | x :: xs, y :: ys, z :: zs, h1, h2 => by
    simp only [strLt] at h1 h2 ⊢
    by_cases hxy : x.toNat < y.toNat
    · by_cases hyz : y.toNat < z.toNat
      · have : x.toNat < z.toNat := by omega
        simp [this]
      · by_cases hyz' : y.toNat = z.toNat
        · have : x.toNat < z.toNat := by omega
          simp [this]
        · rw [if_neg hyz, if_neg hyz'] at h2; cases h2
    · by_cases hxy' : x.toNat = y.toNat
      · rw [if_neg hxy, if_pos hxy'] at h1
        by_cases hyz : y.toNat < z.toNat
        · have : x.toNat < z.toNat := by omega
          simp [this]
        · by_cases hyz' : y.toNat = z.toNat
          · rw [if_neg hyz, if_pos hyz'] at h2
            have hxz : ¬ x.toNat < z.toNat := by omega
            have hxz' : x.toNat = z.toNat := by omega
            rw [if_neg hxz, if_pos hxz']
            exact strLt_trans h1 h2
          · rw [if_neg hyz, if_neg hyz'] at h2; cases h2
      · rw [if_neg hxy, if_neg hxy'] at h1; cases h1

theorem strLt_total : ∀ {a b : Str}, a ≠ b → strLt a b = true ∨ strLt b a = true
  | [], [], h => absurd rfl h
  | [], _ :: _, _ => Or.inl (by simp [strLt])
  | _ :: _, [], _ => Or.inr (by simp [strLt])
  | x :: xs, y :: ys, h => by
    simp only [strLt]
    by_cases h1 : x.toNat < y.toNat
    · left; simp [h1]
    · by_cases h2 : y.toNat < x.toNat
      · right; simp [h2]
      · have he : x.toNat = y.toNat := by omega
        have hxy : x = y := Char.toNat_inj.mp he
        subst hxy
        have hne : xs ≠ ys := fun e => h (by rw [e])
        rcases strLt_total hne with h' | h'
        · left; simp [h']
        · right; simp [h']

theorem strLt_asymm {a b : Str} (h : strLt a b = true) : strLt b a = false := by
  cases h' : strLt b a with
  | false => rfl
  | true => have := strLt_trans h h'; rw [strLt_irrefl] at this; cases this

theorem strLt_ne {a b : Str} (h : strLt a b = true) : a ≠ b := by
  intro e; subst e; rw [strLt_irrefl] at h; cases h

/-- strictly ascending -/
def Sorted (l : List Str) : Prop := l.Pairwise (fun a b => strLt a b = true)

theorem sorted_insertPos {x : Str} {l : List Str} (hs : Sorted l) (hx : x ∉ l) :
    Sorted (insertPos x l) := by
  induction l with
  | nil => simp [insertPos, Sorted]
  | cons y ys ih =>
    have hs' : (∀ b ∈ ys, strLt y b = true) ∧ Sorted ys := List.pairwise_cons.mp hs
    have hxy : x ≠ y := fun e => hx (by simp [e])
    have hxys : x ∉ ys := fun e => hx (List.mem_cons_of_mem _ e)
    simp only [insertPos]
    by_cases hlt : strLt y x = true
    · rw [if_pos hlt]
      apply List.pairwise_cons.mpr
      refine ⟨?_, ih hs'.2 hxys⟩
      intro b hb
      rcases mem_insertPos.mp hb with rfl | hb'
      · exact hlt
      · exact hs'.1 b hb'
    · rw [if_neg hlt]
      have hxlt : strLt x y = true := by
        rcases strLt_total hxy with h | h
        · exact h
        · exact absurd h hlt
      apply List.pairwise_cons.mpr
      refine ⟨?_, hs⟩
      intro b hb
      rcases List.mem_cons.mp hb with rfl | hb'
      · exact hxlt
      · exact strLt_trans hxlt (hs'.1 b hb')

theorem sorted_setInsert {x : Str} {l : List Str} (hs : Sorted l) : Sorted (setInsert x l) := by
  unfold setInsert
  split
  · exact hs
  · rename_i hx
    exact sorted_insertPos hs (by simpa using hx)

theorem sorted_sortDedup (l : List Str) : Sorted (sortDedup l) := by
  induction l with
  | nil => simp [sortDedup, Sorted]
  | cons x xs ih =>
    have : sortDedup (x :: xs) = setInsert x (sortDedup xs) := rfl
    rw [this]; exact sorted_setInsert ih

/-- a strictly sorted list is determined by its elements -/
theorem sorted_ext : ∀ {l₁ l₂ : List Str}, Sorted l₁ → Sorted l₂ → (∀ a, a ∈ l₁ ↔ a ∈ l₂) → l₁ = l₂
  | [], [], _, _, _ => rfl
  | [], y :: ys, _, _, h => by have := (h y).2 (by simp); simp at this
  | x :: xs, [], _, _, h => by have := (h x).1 (by simp); simp at this
  | x :: xs, y :: ys, h1, h2, h => by
    have s1 : (∀ b ∈ xs, strLt x b = true) ∧ Sorted xs := List.pairwise_cons.mp h1
    have s2 : (∀ b ∈ ys, strLt y b = true) ∧ Sorted ys := List.pairwise_cons.mp h2
    have hxy : x = y := by
      rcases List.mem_cons.mp ((h x).1 (by simp)) with e | hx
      · exact e
      · rcases List.mem_cons.mp ((h y).2 (by simp)) with e | hy
        · exact e.symm
        · have a := s2.1 x hx
          have b := s1.1 y hy
          rw [strLt_asymm a] at b; cases b
    subst hxy
    have hx1 : x ∉ xs := fun e => strLt_ne (s1.1 x e) rfl
    have hx2 : x ∉ ys := fun e => strLt_ne (s2.1 x e) rfl
    have htl : ∀ a, a ∈ xs ↔ a ∈ ys := by
      intro a
      constructor
      · intro ha
        rcases List.mem_cons.mp ((h a).1 (List.mem_cons_of_mem _ ha)) with e | h'
        · subst e; exact absurd ha hx1
        · exact h'
      · intro ha
        rcases List.mem_cons.mp ((h a).2 (List.mem_cons_of_mem _ ha)) with e | h'
        · subst e; exact absurd ha hx2
        · exact h'
    rw [sorted_ext s1.2 s2.2 htl]

/-- `sortDedup` is a function of the set of elements -/
theorem sortDedup_congr {l₁ l₂ : List Str} (h : ∀ a, a ∈ l₁ ↔ a ∈ l₂) : sortDedup l₁ = sortDedup l₂ :=
  sorted_ext (sorted_sortDedup l₁) (sorted_sortDedup l₂)
    (fun a => by rw [mem_sortDedup, mem_sortDedup]; exact h a)

theorem sortDedup_perm {l₁ l₂ : List Str} (h : l₁.Perm l₂) : sortDedup l₁ = sortDedup l₂ :=
  sortDedup_congr (fun _ => h.mem_iff)

end StrMap
