import Norad.Lemmas.Kinds
import Norad.Lemmas.AbsFSOk
/-!
Success of a list of normal-form effects, decided on the KIND relation alone (which paths exist, as what): the
precondition of every effect is stated on the kinds known so far (`PreK`), and the kinds after an effect are the
kinds before plus `EffPath` (`Kinds.runEff_kinds`).  Used for `plan_runs_to_completion` (C08 / C09).
Cites `Lemmas/AbsFSOk.lean` (c16 builder) for the success direction of the primitives.
-/
namespace FontSave
open AbsFS
open Path (Comp)

variable {β : Type}

/-- which paths exist, as a directory (`false`) or a plain file (`true`) -/
abbrev KRel := APath → Bool → Prop

def kOf (g : FS β) : KRel := fun q k => kindAt g q = some k

/-- the kinds after the effects `es` ran successfully -/
def addAll (K : KRel) (es : List (NEff β)) : KRel := fun q k => K q k ∨ ∃ e ∈ es, EffPath e q k

/-- what an effect needs of the kinds in order to succeed -/
def PreK (e : NEff β) (K : KRel) : Prop :=
  match e with
  | .mkdir l => l ≠ [] ∧ (∀ m, m <+: l.dropLast → m ≠ [] → K m false) ∧ ∀ k, ¬ K l k
  | .write l _ => l ≠ [] ∧ (∀ m, m <+: l.dropLast → m ≠ [] → K m false) ∧ ¬ K l false
  | .mkdirAll l => ∀ m, m <+: l → m ≠ [] → ¬ K m true
  | .fail _ => False

/-- every effect finds its precondition in the kinds the earlier ones leave -/
def Runs (K : KRel) (es : List (NEff β)) : Prop :=
  ∀ pre e post, es = pre ++ e :: post → PreK e (addAll K pre)

theorem PreK_congr {e : NEff β} {K K' : KRel} (h : ∀ q k, K q k ↔ K' q k) (hp : PreK e K) : PreK e K' := by
  cases e with
  | mkdir l => exact ⟨hp.1, fun m a b => (h m false).mp (hp.2.1 m a b), fun k hk => hp.2.2 k ((h l k).mpr hk)⟩
  | write l b => exact ⟨hp.1, fun m a c => (h m false).mp (hp.2.1 m a c), fun hk => hp.2.2 ((h l false).mpr hk)⟩
  | mkdirAll l => exact fun m a b hk => hp m a b ((h m true).mpr hk)
  | fail x => exact hp

theorem addAll_append (K : KRel) (a b : List (NEff β)) (q : APath) (k : Bool) :
    addAll K (a ++ b) q k ↔ addAll (addAll K a) b q k := by
  unfold addAll
  simp only [List.mem_append]
  constructor
  · rintro (h | ⟨e, he | he, hp⟩)
    · exact Or.inl (Or.inl h)
    · exact Or.inl (Or.inr ⟨e, he, hp⟩)
    · exact Or.inr ⟨e, he, hp⟩
  · rintro ((h | ⟨e, he, hp⟩) | ⟨e, he, hp⟩)
    · exact Or.inl h
    · exact Or.inr ⟨e, Or.inl he, hp⟩
    · exact Or.inr ⟨e, Or.inr he, hp⟩

theorem runs_append {K : KRel} {a b : List (NEff β)} (ha : Runs K a) (hb : Runs (addAll K a) b) :
    Runs K (a ++ b) := by
  intro pre e post hsplit
  rcases List.append_eq_append_iff.mp hsplit with ⟨a', h1, h2⟩ | ⟨c', h1, h2⟩
  · -- the split point lies in `b` (or at its start): pre = a ++ a'
    subst h1
    have := hb a' e post h2
    exact PreK_congr (fun q k => (addAll_append K a a' q k).symm) this
  · -- the split point lies in `a`
    cases c' with
    | nil =>
      simp only [List.append_nil] at h1
      subst h1
      simp only [List.nil_append] at h2
      have := hb [] e post h2.symm
      refine PreK_congr (fun q k => ?_) this
      simp [addAll]
    | cons x c'' =>
      simp only [List.cons_append, List.cons.injEq] at h2
      obtain ⟨rfl, h3⟩ := h2
      exact ha pre e c'' h1

theorem runs_nil (K : KRel) : Runs K ([] : List (NEff β)) := by
  intro pre e post h
  cases pre <;> cases h

theorem runs_cons {K : KRel} {e : NEff β} {r : List (NEff β)} (h : Runs K (e :: r)) :
    PreK e K ∧ Runs (addAll K [e]) r := by
  constructor
  · have := h [] e r rfl
    exact PreK_congr (fun q k => by simp [addAll]) this
  · intro pre x post hs
    have := h (e :: pre) x post (by rw [hs]; rfl)
    refine PreK_congr (fun q k => ?_) this
    have := addAll_append K [e] pre q k
    simpa using this

/-! ### soundness: `Runs` on the kinds of a file system means the effects do run -/

theorem kindAt_false_isDir {g : FS β} {q : APath} (h : kindAt g q = some false) : isDir g q = true := by
  unfold kindAt at h
  rw [isDir_iff]
  cases hn : node g q with
  | none => simp [hn] at h
  | some n => cases n with
    | dir => rfl
    | file b => simp [hn, kindOf] at h

theorem runEff_ok (e : NEff β) (g : FS β) (h : PreK e (kOf g)) : ∃ g1, runEff e.toEff g = (none, g1) := by
  cases e with
  | mkdir l =>
    obtain ⟨hne, hd, hnone⟩ := h
    rcases List.eq_nil_or_concat l with rfl | ⟨l', s, rfl⟩ <;> try simp only [List.concat_eq_append] at *
    · exact absurd rfl hne
    · rw [List.dropLast_concat] at hd
      have hn : node g (l' ++ [s]) = none := by
        cases hx : node g (l' ++ [s]) with
        | none => rfl
        | some n => exact absurd (by simp [kOf, kindAt, hx]) (hnone (kindOf n))
      have := mkdir_normal_ok (fs := g) (l := l') (s := s) (fun m a b => kindAt_false_isDir (hd m a b)) hn
      refine ⟨AbsFS.set g (l' ++ [s]) .dir, ?_⟩
      simp only [NEff.toEff, runEff, tC]
      rw [this]
  | write l b =>
    obtain ⟨hne, hd, hnd⟩ := h
    rcases List.eq_nil_or_concat l with rfl | ⟨l', s, rfl⟩ <;> try simp only [List.concat_eq_append] at *
    · exact absurd rfl hne
    · rw [List.dropLast_concat] at hd
      have hn : isDir g (l' ++ [s]) = false := by
        cases hx : isDir g (l' ++ [s]) with
        | false => rfl
        | true => exact absurd (kindAt_dir hx) hnd
      have := writeFile_normal_ok (fs := g) (l := l') (s := s) b (fun m a c => kindAt_false_isDir (hd m a c)) hn
      refine ⟨AbsFS.set g (l' ++ [s]) (.file b), ?_⟩
      simp only [NEff.toEff, runEff, tC]
      rw [this]
  | mkdirAll l =>
    have hok : (mkdirAll g (tC l)).2 = none := by
      have e : (tC l).reverse = l.reverse.map Comp.normal := by simp [tC, List.map_reverse]
      unfold mkdirAll
      rw [e]
      apply mkdirAllRev_ok l.reverse g
      intro m hm hne b hb
      exact h m (by simpa using hm) hne (by simp [kOf, kindAt, hb, kindOf])
    refine ⟨(mkdirAll g (tC l)).1, ?_⟩
    simp only [NEff.toEff, runEff]
    generalize mkdirAll g (tC l) = r at hok
    obtain ⟨a, o⟩ := r
    simp only at hok
    subst hok
    rfl
  | fail x => exact absurd h (by simp [PreK])

theorem runs_sound : ∀ (es : List (NEff β)) (g : FS β) (K : KRel),
    (∀ q k, K q k ↔ kindAt g q = some k) → Runs K es → ∃ g', runN es g = (none, g') := by
  intro es
  induction es with
  | nil => intro g K _ _; exact ⟨g, by simp [runN, runEffs]⟩
  | cons e r ih =>
    intro g K hK hruns
    obtain ⟨hpre, hrest⟩ := runs_cons hruns
    obtain ⟨g1, hg1⟩ := runEff_ok e g (PreK_congr hK hpre)
    have hK1 : ∀ q k, addAll K [e] q k ↔ kindAt g1 q = some k := by
      intro q k
      rw [runEff_kinds e hg1 q k, ← hK q k]
      simp [addAll]
    obtain ⟨g', hg'⟩ := ih g1 (addAll K [e]) hK1 hrest
    refine ⟨g', ?_⟩
    simp only [runN, List.map, runEffs, hg1]
    exact hg'

end FontSave

namespace FontSave
open AbsFS
open Path (Comp)

variable {β : Type}

/-! ### segments of the plan -/

theorem addAll_mono {K : KRel} {es : List (NEff β)} {q : APath} {k : Bool} (h : K q k) : addAll K es q k := Or.inl h

theorem app_cons_prefix {α : Type} {t x y : List α} {a b : α} (h : t ++ a :: x <+: t ++ b :: y) : a = b ∧ x <+: y := by
  have := (List.prefix_append_right_inj t).mp h
  exact List.cons_prefix_cons.mp this

theorem app_cons_eq {α : Type} {t x y : List α} {a b : α} (h : t ++ a :: x = t ++ b :: y) : a = b ∧ x = y := by
  have := List.append_cancel_left h
  simpa using this

/-- plain files directly below `t` -/
theorem runs_top (t : APath) (K : KRel) (es : List (NEff β))
    (hshape : ∀ e ∈ es, ∃ c b, e = NEff.write (t ++ [c]) b)
    (H1 : ∀ m, m <+: t → m ≠ [] → K m false) (hnd : ∀ c, ¬ K (t ++ [c]) false) : Runs K es := by
  intro pre e post hs
  obtain ⟨c, b, rfl⟩ := hshape e (by rw [hs]; simp)
  refine ⟨by simp, ?_, ?_⟩
  · intro m hm hne
    rw [List.dropLast_concat] at hm
    exact addAll_mono (H1 m hm hne)
  · rintro (h | ⟨x, hx, hp⟩)
    · exact hnd c h
    · obtain ⟨c', b', rfl⟩ := hshape x (by rw [hs]; simp [hx])
      exact absurd hp.2 (by simp)

/-- one directory directly below `t` and plain files in it (a layer; the images store) -/
theorem runs_dir (t : APath) (K : KRel) (n : Name) (ws : List (NEff β))
    (hws : ∀ e ∈ ws, ∃ x b, e = NEff.write (t ++ [n, x]) b)
    (H1 : ∀ m, m <+: t → m ≠ [] → K m false) (hfree : ∀ k, ¬ K (t ++ [n]) k)
    (hnd : ∀ x, ¬ K (t ++ [n, x]) false) : Runs K (NEff.mkdir (t ++ [n]) :: ws) := by
  intro pre e post hs
  cases pre with
  | nil =>
    simp only [List.nil_append, List.cons.injEq] at hs
    obtain ⟨rfl, _⟩ := hs
    refine ⟨by simp, ?_, ?_⟩
    · intro m hm hne
      rw [List.dropLast_concat] at hm
      exact addAll_mono (H1 m hm hne)
    · rintro k (h | ⟨x, hx, _⟩)
      · exact hfree k h
      · cases hx
  | cons p pre' =>
    simp only [List.cons_append, List.cons.injEq] at hs
    obtain ⟨rfl, hws'⟩ := hs
    obtain ⟨x, b, rfl⟩ := hws e (by rw [hws']; simp)
    have hdl : (t ++ [n, x]).dropLast = t ++ [n] := by
      have : t ++ [n, x] = (t ++ [n]) ++ [x] := by simp
      rw [this, List.dropLast_concat]
    refine ⟨by simp, ?_, ?_⟩
    · intro m hm hne
      rw [hdl] at hm
      rcases List.prefix_concat_iff.mp hm with h | h
      · exact Or.inr ⟨_, List.mem_cons_self .., by rw [h]; exact ⟨rfl, rfl⟩⟩
      · exact addAll_mono (H1 m h hne)
    · rintro (h | ⟨y, hy, hp⟩)
      · exact hnd x h
      · rcases List.mem_cons.mp hy with rfl | hy'
        · have := congrArg List.length hp.1
          simp at this
        · obtain ⟨x', b', rfl⟩ := hws y (by rw [hws']; simp [hy'])
          exact absurd hp.2 (by simp)

/-- several such directories with pairwise different names -/
theorem runs_dirs (t : APath) : ∀ (Ls : List (Name × List (NEff β))) (K : KRel),
    (∀ p ∈ Ls, ∀ e ∈ p.2, ∃ x b, e = NEff.write (t ++ [p.1, x]) b) →
    Ls.Pairwise (fun a b => a.1 ≠ b.1) →
    (∀ m, m <+: t → m ≠ [] → K m false) →
    (∀ p ∈ Ls, ∀ k, ¬ K (t ++ [p.1]) k) → (∀ p ∈ Ls, ∀ x, ¬ K (t ++ [p.1, x]) false) →
    Runs K (Ls.flatMap fun p => NEff.mkdir (t ++ [p.1]) :: p.2) := by
  intro Ls
  induction Ls with
  | nil => intro K _ _ _ _ _; exact runs_nil K
  | cons p rest ih =>
    intro K hshape hpw H1 hfree hnd
    have hp := List.pairwise_cons.mp hpw
    simp only [List.flatMap_cons]
    apply runs_append
    · exact runs_dir t K p.1 p.2 (hshape p (List.mem_cons_self ..)) H1 (hfree p (List.mem_cons_self ..))
        (hnd p (List.mem_cons_self ..))
    · apply ih _ (fun q hq => hshape q (List.mem_cons_of_mem _ hq)) hp.2
        (fun m a b => addAll_mono (H1 m a b))
      · rintro q hq k (h | ⟨y, hy, hpth⟩)
        · exact hfree q (List.mem_cons_of_mem _ hq) k h
        · rcases List.mem_cons.mp hy with rfl | hy'
          · have := (app_cons_eq (x := []) (y := []) hpth.1).1
            exact hp.1 q hq this.symm
          · obtain ⟨x', b', rfl⟩ := hshape p (List.mem_cons_self ..) y hy'
            have := congrArg List.length hpth.1
            simp at this
      · rintro q hq x (h | ⟨y, hy, hpth⟩)
        · exact hnd q (List.mem_cons_of_mem _ hq) x h
        · rcases List.mem_cons.mp hy with rfl | hy'
          · have := congrArg List.length hpth.1
            simp at this
          · obtain ⟨x', b', rfl⟩ := hshape p (List.mem_cons_self ..) y hy'
            exact absurd hpth.2 (by simp)

/-- neither name list is a prefix of the other -/
def NonNestedNames (a b : List Name) : Prop := ¬ a <+: b ∧ ¬ b <+: a

def dataEffs (t : APath) (c : Name) (w : List Name × β) : List (NEff β) :=
  [.mkdirAll (t ++ c :: w.1.dropLast), .write (t ++ c :: w.1) w.2]

/-- what a store entry needs of the kinds -/
def ReadyD (t : APath) (c : Name) (K : KRel) (w : List Name × β) : Prop :=
  (∀ m, m <+: t ++ c :: w.1.dropLast → m ≠ [] → ¬ K m true) ∧ ¬ K (t ++ c :: w.1) false

theorem dropLast_app_cons (t : APath) (c : Name) (ks : List Name) (h : ks ≠ []) :
    (t ++ c :: ks).dropLast = t ++ c :: ks.dropLast := by
  have : t ++ c :: ks = (t ++ [c]) ++ ks := by simp
  rw [this, List.dropLast_append_of_ne_nil h]; simp

theorem runs_data_item (t : APath) (c : Name) (K : KRel) (w : List Name × β) (hne : w.1 ≠ [])
    (hr : ReadyD t c K w) : Runs K (dataEffs t c w) := by
  intro pre e post hs
  unfold dataEffs at hs
  cases pre with
  | nil =>
    simp only [List.nil_append, List.cons.injEq] at hs
    obtain ⟨rfl, _⟩ := hs
    intro m hm hne' hk
    rcases hk with h | ⟨x, hx, _⟩
    · exact hr.1 m hm hne' h
    · cases hx
  | cons p pre' =>
    simp only [List.cons_append, List.cons.injEq] at hs
    obtain ⟨rfl, hrest⟩ := hs
    cases pre' with
    | nil =>
      simp only [List.nil_append, List.cons.injEq] at hrest
      obtain ⟨rfl, _⟩ := hrest
      refine ⟨by simp, ?_, ?_⟩
      · intro m hm hne'
        rw [dropLast_app_cons t c w.1 hne] at hm
        exact Or.inr ⟨_, List.mem_cons_self .., hm, rfl⟩
      · rintro (h | ⟨x, hx, hp⟩)
        · exact hr.2 h
        · simp only [List.mem_singleton] at hx
          subst hx
          have := hp.1.length_le
          have h2 : 0 < w.1.length := List.length_pos_iff.mpr hne
          simp only [List.length_append, List.length_cons, List.length_dropLast] at this
          omega
    | cons p2 pre'' =>
      simp only [List.cons_append, List.cons.injEq] at hrest
      obtain ⟨_, h3⟩ := hrest
      cases pre'' <;> cases h3

theorem runs_data (t : APath) (c : Name) : ∀ (ds : List (List Name × β)) (K : KRel),
    ds.Pairwise (fun a b => NonNestedNames a.1 b.1) → (∀ w ∈ ds, w.1 ≠ []) → (∀ w ∈ ds, ReadyD t c K w) →
    Runs K (ds.flatMap (dataEffs t c)) := by
  intro ds
  induction ds with
  | nil => intro K _ _ _; exact runs_nil K
  | cons v rest ih =>
    intro K hpw hne hr
    have hp := List.pairwise_cons.mp hpw
    simp only [List.flatMap_cons]
    apply runs_append (runs_data_item t c K v (hne v (List.mem_cons_self ..)) (hr v (List.mem_cons_self ..)))
    apply ih _ hp.2 (fun w hw => hne w (List.mem_cons_of_mem _ hw))
    intro w hw
    have hnn := hp.1 w hw
    have hrw := hr w (List.mem_cons_of_mem _ hw)
    have hvne := hne v (List.mem_cons_self ..)
    have hwne := hne w (List.mem_cons_of_mem _ hw)
    constructor
    · rintro m hm hmne (h | ⟨x, hx, hpth⟩)
      · exact hrw.1 m hm hmne h
      · unfold dataEffs at hx
        simp only [List.mem_cons, List.not_mem_nil, or_false] at hx
        rcases hx with rfl | rfl
        · exact absurd hpth.2 (by simp)
        · -- the file of `v` on the way to `w`
          obtain ⟨rfl, _⟩ := hpth
          have := (app_cons_prefix hm).2
          exact hnn.1 (this.trans (List.dropLast_prefix _))
    · rintro (h | ⟨x, hx, hpth⟩)
      · exact hrw.2 h
      · unfold dataEffs at hx
        simp only [List.mem_cons, List.not_mem_nil, or_false] at hx
        rcases hx with rfl | rfl
        · -- `w`'s destination among the directories made for `v`
          have := (app_cons_prefix hpth.1).2
          exact hnn.2 (this.trans (List.dropLast_prefix _))
        · exact absurd hpth.2 (by simp)

end FontSave

namespace FontSave
open AbsFS
open Path (Comp)

variable {β : Type}

/-! ### the whole plan -/

def topNames : List Name :=
  ["metainfo.plist", "fontinfo.plist", "lib.plist", "groups.plist", "kerning.plist", "features.fea",
   "layercontents.plist"].map String.toList

def dataN : Name := "data".toList
def imagesN' : Name := "images".toList

/-- names a layer directory must not have: the top-level files and the two store directories -/
def reservedNames : List Name := topNames ++ [dataN, imagesN']

def lname (l : ALayer) : Name := (namesOf (Path.parse l.dir)).headD []
def gname (e : AEntry) : Name := (namesOf (Path.parse e.file)).headD []

/-- A font whose plan cannot fail for reasons of its own: every part serialises, every relative path is ONE normal
    component (layer directories, glif files, image keys), layer directories are pairwise different and none is
    called like a top-level file or store directory, no data key lies on the way to another one. -/
structure WellPlanned (f : AFont β) : Prop where
  infoOk : f.info.isEmpty = true ∨ f.info.serialisable = true
  objLibs : (dumpObjectLibs f.info.guides).isSome = true
  layerDir : ∀ l ∈ f.layers, namesOf (Path.parse l.dir) = [lname l] ∧ lname l ∉ reservedNames
  layersDistinct : f.layers.Pairwise fun a b => lname a ≠ lname b
  glyphs : ∀ l ∈ f.layers, ∀ e ∈ l.entries,
    namesOf (Path.parse e.file) = [gname e] ∧ ∃ g, e.glyph = some g ∧ g.encodable = true
  dataKeys : ((f.data.items.map (·.1)).map namesOf).Pairwise NonNestedNames ∧
    ∀ k ∈ f.data.items.map (·.1), namesOf k ≠ []
  imageKeys : ∀ k ∈ f.images.items.map (·.1), ∃ g, namesOf k = [g]

def headN (cfg : Cfg β) (f : AFont β) (t : APath) : List (NEff β) :=
  [topN t "metainfo.plist" (cfg.render (.metainfo f.metaTok))] ++
  planFontinfoN cfg t f.info ++
  planLibN cfg t f ++
  planOptN t "groups.plist" f.groups (cfg.render (.groups f.groups)) ++
  planOptN t "kerning.plist" f.kerning (cfg.render (.kerning f.kerning)) ++
  planOptN t "features.fea" f.features (cfg.render (.features f.features)) ++
  [topN t "layercontents.plist" (cfg.render (.layercontents (f.layers.map fun l => (l.name, l.dir))))]

theorem planRestN_split (cfg : Cfg β) (f : AFont β) (d i : List (Path.P × β)) (t : APath) :
    planRestN cfg f d i t = headN cfg f t ++ f.layers.flatMap (planLayerN cfg t) ++ d.flatMap (planDataItemN t) ++
      planImagesN t i := rfl

theorem headN_shape (cfg : Cfg β) (f : AFont β) (t : APath) (hw : WellPlanned f) :
    ∀ e ∈ headN cfg f t, ∃ c b, e = NEff.write (t ++ [c]) b ∧ c ∈ topNames := by
  have top : ∀ (name : String) (b : β), name.toList ∈ topNames →
      ∃ c b', topN t name b = NEff.write (t ++ [c]) b' ∧ c ∈ topNames :=
    fun name b h => ⟨name.toList, b, rfl, h⟩
  intro e he
  unfold headN at he
  simp only [List.mem_append, List.mem_singleton] at he
  rcases he with (((((he | he) | he) | he) | he) | he) | he
  · subst he; exact top _ _ (by decide)
  · unfold planFontinfoN at he
    rcases hw.infoOk with h | h
    · simp [h] at he
    · by_cases h0 : f.info.isEmpty = true
      · simp [h0] at he
      · simp only [h0, h, if_true, Bool.false_eq_true, if_false, List.mem_singleton] at he
        subst he; exact top _ _ (by decide)
  · unfold planLibN at he
    cases hd : dumpObjectLibs f.info.guides with
    | none => have := hw.objLibs; simp [hd] at this
    | some ol =>
      simp only [hd] at he
      split at he
      · cases he
      · simp only [List.mem_singleton] at he; subst he; exact top _ _ (by decide)
  · unfold planOptN at he; split at he
    · cases he
    · simp only [List.mem_singleton] at he; subst he; exact top _ _ (by decide)
  · unfold planOptN at he; split at he
    · cases he
    · simp only [List.mem_singleton] at he; subst he; exact top _ _ (by decide)
  · unfold planOptN at he; split at he
    · cases he
    · simp only [List.mem_singleton] at he; subst he; exact top _ _ (by decide)
  · subst he; exact top _ _ (by decide)

/-- a layer of a well-planned font: its directory, then plain files in it -/
theorem planLayerN_shape (cfg : Cfg β) (t : APath) (l : ALayer)
    (hd : namesOf (Path.parse l.dir) = [lname l])
    (hg : ∀ e ∈ l.entries, namesOf (Path.parse e.file) = [gname e] ∧ ∃ g, e.glyph = some g ∧ g.encodable = true) :
    ∃ ws, planLayerN cfg t l = NEff.mkdir (t ++ [lname l]) :: ws ∧
      ∀ e ∈ ws, ∃ x b, e = NEff.write (t ++ [lname l, x]) b := by
  unfold planLayerN
  simp only [hd]
  refine ⟨[NEff.write (t ++ [lname l] ++ [contentsFile.toList]) (cfg.render (.contents (l.entries.map fun e => (e.name, e.file))))] ++
      (if l.info = 0 then [] else [NEff.write (t ++ [lname l] ++ [layerinfoFile.toList]) (cfg.render (.layerinfo l.info))]) ++
      l.entries.flatMap (planGlyphN cfg (t ++ [lname l])), by simp, ?_⟩
  intro e he
  rcases List.mem_append.mp he with he | he
  · rcases List.mem_append.mp he with he | he
    · simp only [List.mem_singleton] at he
      subst he; exact ⟨contentsFile.toList, cfg.render (.contents (l.entries.map fun e => (e.name, e.file))), by simp⟩
    · by_cases hi : l.info = 0
      · simp [hi] at he
      · simp only [hi, if_false, List.mem_singleton] at he
        subst he; exact ⟨layerinfoFile.toList, cfg.render (.layerinfo l.info), by simp⟩
  · obtain ⟨en, hen, he⟩ := List.mem_flatMap.mp he
    obtain ⟨hn, g, hgl, henc⟩ := hg en hen
    unfold planGlyphN at he
    simp only [hgl, henc, if_true, List.mem_singleton, hn] at he
    subst he; exact ⟨gname en, cfg.render (.glif g.tok), by simp⟩

theorem layers_as_dirs (cfg : Cfg β) (t : APath) : ∀ (ls : List ALayer),
    (∀ l ∈ ls, namesOf (Path.parse l.dir) = [lname l]) →
    (∀ l ∈ ls, ∀ e ∈ l.entries, namesOf (Path.parse e.file) = [gname e] ∧ ∃ g, e.glyph = some g ∧ g.encodable = true) →
    ∃ Ls : List (Name × List (NEff β)), Ls.map (·.1) = ls.map lname ∧
      ls.flatMap (planLayerN cfg t) = Ls.flatMap (fun p => NEff.mkdir (t ++ [p.1]) :: p.2) ∧
      ∀ p ∈ Ls, ∀ e ∈ p.2, ∃ x b, e = NEff.write (t ++ [p.1, x]) b := by
  intro ls
  induction ls with
  | nil => intro _ _; exact ⟨[], rfl, rfl, by intro p hp; cases hp⟩
  | cons l rest ih =>
    intro hd hg
    obtain ⟨Ls, h1, h2, h3⟩ := ih (fun x hx => hd x (List.mem_cons_of_mem _ hx)) (fun x hx => hg x (List.mem_cons_of_mem _ hx))
    obtain ⟨ws, hw1, hw2⟩ := planLayerN_shape cfg t l (hd l (List.mem_cons_self ..)) (hg l (List.mem_cons_self ..))
    refine ⟨(lname l, ws) :: Ls, by simp [h1], by simp [List.flatMap_cons, hw1, h2], ?_⟩
    intro p hp
    rcases List.mem_cons.mp hp with rfl | hp'
    · exact hw2
    · exact h3 p hp'

theorem data_as_effs (t : APath) : ∀ (d : List (Path.P × β)), (∀ kb ∈ d, namesOf kb.1 ≠ []) →
    d.flatMap (planDataItemN t) = (d.map fun kb => (namesOf kb.1, kb.2)).flatMap (dataEffs t dataN) := by
  intro d
  induction d with
  | nil => intro _; rfl
  | cons kb rest ih =>
    intro h
    simp only [List.flatMap_cons, List.map_cons]
    rw [ih (fun x hx => h x (List.mem_cons_of_mem _ hx))]
    congr 1
    unfold planDataItemN dataEffs dataN
    have e : t ++ ["data".toList] ++ namesOf kb.1 = t ++ "data".toList :: namesOf kb.1 := by simp
    rw [e, dropLast_app_cons t _ _ (h kb (List.mem_cons_self ..))]

theorem images_as_dir (t : APath) (i : List (Path.P × β)) (h : ∀ kb ∈ i, ∃ g, namesOf kb.1 = [g]) (hne : i ≠ []) :
    ∃ ws, planImagesN t i = NEff.mkdir (t ++ [imagesN']) :: ws ∧
      ∀ e ∈ ws, ∃ x b, e = NEff.write (t ++ [imagesN', x]) b := by
  unfold planImagesN
  have : i.isEmpty = false := by cases i <;> simp_all
  simp only [this, Bool.false_eq_true, if_false]
  refine ⟨_, rfl, ?_⟩
  intro e he
  simp only [List.mem_map] at he
  obtain ⟨kb, hkb, rfl⟩ := he
  obtain ⟨g, hg⟩ := h kb hkb
  exact ⟨g, kb.2, by simp [hg, imagesN']⟩

end FontSave

namespace FontSave
open AbsFS
open Path (Comp)

variable {β : Type}

theorem len_ne_of_app {t : APath} {x : List Name} (h : t ++ x = t) : x = [] := by
  have := congrArg List.length h
  simp only [List.length_append] at this
  exact List.length_eq_zero_iff.mp (by omega)

/-- **the plan of a well-planned font finds every precondition**, from kinds in which the target exists as an empty
    directory and every proper ancestor is a directory -/
theorem planRestN_runs (cfg : Cfg β) (f : AFont β) (d i : List (Path.P × β)) (t : APath) (hw : WellPlanned f)
    (hd : d.map (·.1) = f.data.items.map (·.1)) (hi : i.map (·.1) = f.images.items.map (·.1))
    (K0 : KRel) (H1 : ∀ m, m <+: t → m ≠ [] → K0 m false) (H2 : ∀ q k, K0 q k → t <+: q → q = t)
    (H3 : ∀ m, m <+: t → ¬ K0 m true) : Runs K0 (planRestN cfg f d i t) := by
  have hdata_ne : dataN ∉ topNames := by decide
  have himg_ne : imagesN' ∉ topNames := by decide
  have himg_data : imagesN' ≠ dataN := by decide
  have hres_top : ∀ c, c ∈ topNames → c ∈ reservedNames := fun c h => List.mem_append_left _ h
  have hres_data : dataN ∈ reservedNames := by decide
  have hres_img : imagesN' ∈ reservedNames := by decide
  -- shapes
  have SA := headN_shape cfg f t hw
  obtain ⟨Ls, hLn, hLeq, hLshape⟩ := layers_as_dirs cfg t f.layers (fun l hl => (hw.layerDir l hl).1) hw.glyphs
  have hdne : ∀ kb ∈ d, namesOf kb.1 ≠ [] := by
    intro kb hkb
    apply hw.dataKeys.2
    rw [← hd]; exact List.mem_map.mpr ⟨kb, hkb, rfl⟩
  have hDeq := data_as_effs t d hdne
  -- names of the layer directories
  have hLres : ∀ p ∈ Ls, p.1 ∉ reservedNames := by
    intro p hp
    have : p.1 ∈ Ls.map (·.1) := List.mem_map.mpr ⟨p, hp, rfl⟩
    rw [hLn] at this
    obtain ⟨l, hl, hl2⟩ := List.mem_map.mp this
    rw [← hl2]; exact (hw.layerDir l hl).2
  have hLpw : Ls.Pairwise (fun a b => a.1 ≠ b.1) := by
    have h1 : (Ls.map (·.1)).Pairwise (· ≠ ·) := by
      rw [hLn]; exact (List.pairwise_map).mpr hw.layersDistinct
    exact (List.pairwise_map).mp h1
  -- what the kinds look like after each segment
  have KA : ∀ q k, addAll K0 (headN cfg f t) q k → K0 q k ∨ (k = true ∧ ∃ c ∈ topNames, q = t ++ [c]) := by
    rintro q k (h | ⟨e, he, hp⟩)
    · exact Or.inl h
    · obtain ⟨c, b, rfl, hc⟩ := SA e he
      exact Or.inr ⟨hp.2, c, hc, hp.1⟩
  have KL : ∀ (K : KRel) q k, addAll K (Ls.flatMap fun p => NEff.mkdir (t ++ [p.1]) :: p.2) q k →
      K q k ∨ ∃ p ∈ Ls, (q = t ++ [p.1] ∧ k = false) ∨ (∃ x, q = t ++ [p.1, x] ∧ k = true) := by
    rintro K q k (h | ⟨e, he, hp⟩)
    · exact Or.inl h
    · obtain ⟨p, hpm, hep⟩ := List.mem_flatMap.mp he
      rcases List.mem_cons.mp hep with rfl | hep'
      · exact Or.inr ⟨p, hpm, Or.inl ⟨hp.1, hp.2⟩⟩
      · obtain ⟨x, b, rfl⟩ := hLshape p hpm e hep'
        exact Or.inr ⟨p, hpm, Or.inr ⟨x, hp.1, hp.2⟩⟩
  have KD : ∀ (K : KRel) q k, addAll K ((d.map fun kb => (namesOf kb.1, kb.2)).flatMap (dataEffs t dataN)) q k →
      K q k ∨ ∃ ks : List Name, (q <+: t ++ dataN :: ks.dropLast ∧ k = false) ∨ (q = t ++ dataN :: ks ∧ k = true) := by
    rintro K q k (h | ⟨e, he, hp⟩)
    · exact Or.inl h
    · obtain ⟨w, _, hew⟩ := List.mem_flatMap.mp he
      unfold dataEffs at hew
      simp only [List.mem_cons, List.not_mem_nil, or_false] at hew
      rcases hew with rfl | rfl
      · exact Or.inr ⟨w.1, Or.inl ⟨hp.1, hp.2⟩⟩
      · exact Or.inr ⟨w.1, Or.inr ⟨hp.1, hp.2⟩⟩
  -- K0 has nothing below t
  have K0below : ∀ x k, x ≠ [] → ¬ K0 (t ++ x) k := by
    intro x k hx h
    exact hx (len_ne_of_app (H2 _ k h (List.prefix_append _ _)))
  rw [planRestN_split, hLeq, hDeq]
  apply runs_append
  apply runs_append
  apply runs_append
  · -- top-level files
    exact runs_top t K0 _ (fun e he => by obtain ⟨c, b, h, _⟩ := SA e he; exact ⟨c, b, h⟩) H1
      (fun c h => K0below [c] false (by simp) h)
  · -- layers
    apply runs_dirs t Ls _ hLshape hLpw (fun m a b => addAll_mono (H1 m a b))
    · intro p hp k h
      rcases KA _ _ h with h | ⟨_, c, hc, hq⟩
      · exact K0below [p.1] k (by simp) h
      · have := (app_cons_eq (x := []) (y := []) hq).1
        exact hLres p hp (this ▸ hres_top c hc)
    · intro p hp x h
      rcases KA _ _ h with h | ⟨hk, _⟩
      · exact K0below [p.1, x] false (by simp) h
      · cases hk
  · -- data
    apply runs_data t dataN
    · have := hw.dataKeys.1
      rw [← hd] at this
      have e : (d.map fun kb => (namesOf kb.1, kb.2)).map (·.1) = (d.map (·.1)).map namesOf := by simp
      exact (List.pairwise_map).mp (by rw [e]; exact this)
    · intro w hw'
      obtain ⟨kb, hkb, rfl⟩ := List.mem_map.mp hw'
      exact hdne kb hkb
    · intro w _
      constructor
      · intro m hm hmne h
        have h := (addAll_append _ _ _ _ _).mp h
        rcases KL _ _ _ h with h | ⟨p, hp, ⟨_, hk⟩ | ⟨x, hq, _⟩⟩
        · rcases KA _ _ h with h | ⟨_, c, hc, hq⟩
          · rcases List.prefix_or_prefix_of_prefix hm (List.prefix_append t _) with h4 | h4
            · exact H3 m h4 h
            · have := H2 m true h h4
              exact H3 m (this ▸ List.prefix_refl _) h
          · rw [hq] at hm
            have := (app_cons_prefix hm).1
            exact hdata_ne (by rw [← this]; exact hc)
        · cases hk
        · rw [hq] at hm
          have := (app_cons_prefix hm).1
          exact hLres p hp (this ▸ hres_data)
      · intro h
        have h := (addAll_append _ _ _ _ _).mp h
        rcases KL _ _ _ h with h | ⟨p, hp, ⟨hq, _⟩ | ⟨x, _, hk⟩⟩
        · rcases KA _ _ h with h | ⟨hk, _⟩
          · exact K0below (dataN :: w.1) false (by simp) h
          · cases hk
        · have := (app_cons_eq hq).1
          exact hLres p hp (this ▸ hres_data)
        · cases hk
  · -- images
    by_cases hine : i = []
    · subst hine; exact runs_nil _
    · obtain ⟨ws, hIeq, hIshape⟩ := images_as_dir t i (by
        intro kb hkb
        apply hw.imageKeys
        rw [← hi]; exact List.mem_map.mpr ⟨kb, hkb, rfl⟩) hine
      rw [hIeq]
      apply runs_dir t _ imagesN' ws hIshape (fun m a b => addAll_mono (H1 m a b))
      · intro k h
        have h := (addAll_append _ _ _ _ _).mp h
        rcases KD _ _ _ h with h | ⟨ks, ⟨hq, _⟩ | ⟨hq, _⟩⟩
        · have h := (addAll_append _ _ _ _ _).mp h
          rcases KL _ _ _ h with h | ⟨p, hp, ⟨hq, _⟩ | ⟨x, hq, _⟩⟩
          · rcases KA _ _ h with h | ⟨_, c, hc, hq⟩
            · exact K0below [imagesN'] k (by simp) h
            · have := (app_cons_eq (x := []) (y := []) hq).1
              exact himg_ne (by rw [this]; exact hc)
          · have := (app_cons_eq (x := []) (y := []) hq).1
            exact hLres p hp (this ▸ hres_img)
          · have := congrArg List.length hq
            simp at this
        · exact himg_data (app_cons_prefix hq).1
        · exact himg_data (app_cons_eq hq).1
      · intro x h
        have h := (addAll_append _ _ _ _ _).mp h
        rcases KD _ _ _ h with h | ⟨ks, ⟨hq, _⟩ | ⟨_, hk⟩⟩
        · have h := (addAll_append _ _ _ _ _).mp h
          rcases KL _ _ _ h with h | ⟨p, hp, ⟨hq, _⟩ | ⟨y, _, hk⟩⟩
          · rcases KA _ _ h with h | ⟨hk, _⟩
            · exact K0below [imagesN', x] false (by simp) h
            · cases hk
          · have := congrArg List.length hq
            simp at this
          · cases hk
        · exact himg_data (app_cons_prefix hq).1
        · cases hk

end FontSave
