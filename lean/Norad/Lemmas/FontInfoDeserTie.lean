import Norad.Lemmas.FontInfoTie
/-! Source-level tie of the typed deserialisers (C13): the tables `tools/extract_fontinfo_deser.py` regenerates
    from the Rust are INTERPRETED here as an acceptor of file-level font info (`acceptUsed`), and the acceptor over
    the mirrored literals of the model is proved to be `(deser r).isSome` for every `r`.  Nothing here mentions the
    generated file; `Props/C13.lean` instantiates it. -/
namespace C13
open FI

/-- the tables of `Generated.FontInfoDeser` the model's `deser` has a counterpart for -/
structure DeserTables where
  aliases : List (String × String)
  typedFields : List (String × String)
  styleNamesRead : List (String × String)
  reprEnums : List (String × String × List Nat)
  fixedLen : List (String × String × Nat × List Nat)
  records : List (String × Bool × List (String × String))
  guidelineTable : List (Nat × Nat × Nat × Nat)
  guidelineAngleRange : Nat × Nat

/-- largest value of a Rust unsigned integer type (serde refuses a plist integer outside the type) -/
def primMax : String → Option Nat
  | "u8" => some 255
  | "u16" => some 65535
  | "u32" => some u32Max
  | _ => none

/-- element bound of a `Vec` of unsigned integers -/
def vecElemMax : String → Option Nat
  | "Vec<u8>" => some 255
  | "Vec<u16>" => some 65535
  | "Vec<u32>" => some u32Max
  | _ => none

def lookupS {β} (t : List (String × β)) (k : String) : Option β :=
  match t.find? (fun p => p.1 == k) with
  | some p => some p.2
  | none => none

/-- what the acceptor needs, looked up the way serde resolves it: member -> type -> impl / derive -/
structure Used where
  gaspPpemMax : Nat
  selectionMax : Nat
  /-- (required length, element bound, indices read) -/
  familyClass : Nat × Nat × List Nat
  panose : Nat × Nat × List Nat
  /-- (bound of the repr type, discriminants) -/
  widthClass : Nat × List Nat
  charSet : Nat × List Nat
  styleNames : List String
  guideTable : List (Nat × Nat × Nat × Nat)
  angleRange : Nat × Nat
  deriving DecidableEq, Repr

def resolveTy (t : DeserTables) (s : String) : String :=
  match lookupS t.aliases s with
  | some r => r
  | none => s

def fixedOf (t : DeserTables) (member ty : String) : Option (Nat × Nat × List Nat) :=
  match lookupS t.typedFields member with
  | some ty' =>
    if ty' == ty then
      match lookupS t.fixedLen ty with
      | some (e, n, idx) =>
        (match primMax (resolveTy t e) with
         | some m => some (n, m, idx)
         | none => none)
      | none => none
    else none
  | none => none

def enumOf (t : DeserTables) (member ty : String) : Option (Nat × List Nat) :=
  match lookupS t.typedFields member with
  | some ty' =>
    if ty' == ty then
      match lookupS t.reprEnums ty with
      | some (rt, ds) =>
        (match primMax rt with
         | some m => some (m, ds)
         | none => none)
      | none => none
    else none
  | none => none

/-- `open_type_gasp_range_records: Vec<GaspRangeRecord>`, the record's `rangeMaxPPEM` -/
def gaspOf (t : DeserTables) : Option Nat :=
  match lookupS t.typedFields "open_type_gasp_range_records" with
  | some "Vec<GaspRangeRecord>" =>
    (match lookupS t.records "GaspRangeRecord" with
     | some (_, members) =>
       (match lookupS members "rangeMaxPPEM" with
        | some ty => primMax ty
        | none => none)
     | none => none)
  | _ => none

def usedBy (t : DeserTables) : Option Used :=
  match gaspOf t, (lookupS t.typedFields "open_type_os2_selection").bind vecElemMax,
        fixedOf t "open_type_os2_family_class" "Os2FamilyClass", fixedOf t "open_type_os2_panose" "Os2Panose",
        enumOf t "open_type_os2_width_class" "Os2WidthClass",
        enumOf t "postscript_windows_character_set" "PostscriptWindowsCharacterSet",
        lookupS t.typedFields "style_map_style_name", lookupS t.typedFields "guidelines" with
  | some g, some s, some fc, some pa, some wc, some cs, some "StyleMapStyle", some "Vec<Guideline>" =>
    some { gaspPpemMax := g, selectionMax := s, familyClass := fc, panose := pa, widthClass := wc, charSet := cs,
           styleNames := t.styleNamesRead.map (·.1), guideTable := t.guidelineTable,
           angleRange := t.guidelineAngleRange }
  | _, _, _, _, _, _, _, _ => none

/-! ### the acceptor the tables denote -/

def inU (m : Nat) (z : Int) : Bool := decide (0 ≤ z ∧ z ≤ Int.ofNat m)

def optAll {α} (f : α → Bool) : Option α → Bool
  | none => true
  | some a => f a

/-- `(lo..=hi).contains(&d)` for natural bounds -/
def dblInRange (lo hi : Nat) : Dbl → Bool
  | .nan => false
  | .inf _ => false
  | .fin neg m up down =>
    if neg then m == 0 && lo == 0
    else decide (lo * Dbl.den down ≤ Dbl.num m up) && decide (Dbl.num m up ≤ hi * Dbl.den down)

def b2n (b : Bool) : Nat := if b then 1 else 0

def guideOutcome (tab : List (Nat × Nat × Nat × Nat)) (x y a : Bool) : Nat :=
  match tab.find? (fun r => r.1 == b2n x && r.2.1 == b2n y && r.2.2.1 == b2n a) with
  | some r => r.2.2.2
  | none => 3

def guideOKWith (u : Used) (g : RawGuide) : Bool :=
  match guideOutcome u.guideTable g.x g.y g.angle.isSome, g.angle with
  | 0, _ => true
  | 1, _ => true
  | 2, some d => dblInRange u.angleRange.1 u.angleRange.2 d
  | _, _ => false

def fixedOK (spec : Nat × Nat × List Nat) (v : List Int) : Bool :=
  v.all (inU spec.2.1) && v.length == spec.1

def enumOK (spec : Nat × List Nat) (z : Int) : Bool :=
  inU spec.1 z && spec.2.contains z.toNat

/-- does the typed layer accept the file-level value? -/
def acceptUsed (u : Used) (r : RawInfo) : Bool :=
  optAll (·.all (inU u.gaspPpemMax)) r.gasp &&
  optAll (·.all (guideOKWith u)) r.guidelines &&
  optAll (·.all (inU u.selectionMax)) r.selection &&
  optAll (fixedOK u.familyClass) r.familyClass &&
  optAll (fixedOK u.panose) r.panose &&
  optAll (enumOK u.widthClass) r.widthClass &&
  optAll (enumOK u.charSet) r.winCharSet &&
  optAll (fun s => u.styleNames.any (fun n => n.toList == s)) r.styleMap

/-- the literals of `Model/FontInfo.lean` (`deserWith`), mirrored -/
def ModelUsed : Used :=
  { gaspPpemMax := u32Max, selectionMax := 255,
    familyClass := (2, 255, [0, 1]),
    panose := (10, u32Max, [0, 1, 2, 3, 4, 5, 6, 7, 8, 9]),
    widthClass := (255, [1, 2, 3, 4, 5, 6, 7, 8, 9]),
    charSet := (255, [1, 2, 3, 4, 5, 6, 7, 8, 9, 10, 11, 12, 13, 14, 15, 16, 17, 18, 19, 20]),
    styleNames := ["bold", "bold italic", "italic", "regular"],
    guideTable := [(0, 0, 0, 3), (0, 0, 1, 3), (0, 1, 0, 1), (0, 1, 1, 3), (1, 0, 0, 0), (1, 0, 1, 3),
                   (1, 1, 0, 3), (1, 1, 1, 2)],
    angleRange := (0, 360) }

/-! ### the acceptor over the mirrored literals is the model's `deser` -/

theorem narrow_isSome (m : Nat) (z : Int) : (narrow m z).isSome = inU m z := by
  unfold narrow inU
  by_cases h : 0 ≤ z ∧ z ≤ Int.ofNat m
  · rw [if_pos h, decide_eq_true h]; rfl
  · rw [if_neg h, decide_eq_false h]; rfl

theorem narrowAll_isSome (m : Nat) (l : List Int) : (narrowAll m l).isSome = l.all (inU m) := by
  induction l with
  | nil => rfl
  | cons z r ih =>
    have hz := narrow_isSome m z
    unfold narrowAll
    cases h1 : narrow m z <;> cases h2 : narrowAll m r <;> simp_all

theorem narrowAll_length {m : Nat} {l : List Int} {t : List Nat} (h : narrowAll m l = some t) :
    t.length = l.length := by
  induction l generalizing t with
  | nil => simp [narrowAll] at h; subst h; rfl
  | cons z r ih =>
    unfold narrowAll at h
    cases h1 : narrow m z with
    | none => simp [h1] at h
    | some n =>
      cases h2 : narrowAll m r with
      | none => simp [h1, h2] at h
      | some t' => simp [h1, h2] at h; subst h; simp [ih h2]

theorem mapAll_isSome {α β} (f : α → Option β) (l : List α) :
    (mapAll f l).isSome = l.all (fun a => (f a).isSome) := by
  induction l with
  | nil => rfl
  | cons a r ih =>
    unfold mapAll
    cases h1 : f a <;> cases h2 : mapAll f r <;> simp_all

theorem optMap_isSome {α β} (f : α → Option β) (o : Option α) :
    (optMap f o).isSome = optAll (fun a => (f a).isSome) o := by
  cases o with
  | none => rfl
  | some a => simp [optMap, optAll]

theorem dblInRange_0_360 (d : Dbl) : dblInRange 0 360 d = d.in0to360 := by
  cases d with
  | nan => rfl
  | inf n => rfl
  | fin neg m up down => cases neg <;> simp [dblInRange, Dbl.in0to360]

theorem guideOK_model (g : RawGuide) : guideOKWith ModelUsed g = (deserGuide g).isSome := by
  obtain ⟨x, y, a, id⟩ := g
  cases x <;> cases y <;> cases a <;> try rfl
  rename_i d
  show dblInRange 0 360 d = _
  rw [dblInRange_0_360]
  simp only [deserGuide, shapeGuide, angleBad]
  by_cases h : d.in0to360 = true <;> simp [h]

theorem familyClass_model (v : List Int) :
    fixedOK ModelUsed.familyClass v = (deserFamilyClass v).isSome := by
  unfold fixedOK deserFamilyClass
  have h := narrowAll_isSome 255 v
  show (v.all (inU 255) && v.length == 2) = _
  cases hn : narrowAll 255 v with
  | none => rw [hn] at h; simp only [Option.isSome_none] at h; rw [← h]; rfl
  | some t =>
    rw [hn] at h
    have hl := narrowAll_length hn
    rw [← h, ← hl]
    match t with
    | [] => rfl
    | [_] => rfl
    | [_, _] => rfl
    | _ :: _ :: _ :: _ => simp

theorem panose_model (v : List Int) : fixedOK ModelUsed.panose v = deserPanoseOk v := by
  unfold fixedOK deserPanoseOk
  have h := narrowAll_isSome u32Max v
  show (v.all (inU u32Max) && v.length == 10) = _
  cases hn : narrowAll u32Max v with
  | none => rw [hn] at h; simp only [Option.isSome_none] at h; rw [← h]; rfl
  | some t =>
    rw [hn] at h
    have hl := narrowAll_length hn
    rw [← h, ← hl]; simp

theorem inU_iff (m : Nat) (z : Int) : inU m z = true ↔ 0 ≤ z ∧ z ≤ (m : Int) := by
  unfold inU; exact decide_eq_true_iff

theorem widthClass_model (w : Int) : enumOK ModelUsed.widthClass w = decide (1 ≤ w ∧ w ≤ 9) := by
  rw [Bool.eq_iff_iff]
  show (inU 255 w && [1, 2, 3, 4, 5, 6, 7, 8, 9].contains w.toNat) = true ↔ _
  rw [Bool.and_eq_true, inU_iff, decide_eq_true_iff]
  simp only [List.contains_iff_mem, List.mem_cons, List.not_mem_nil, or_false]
  omega

theorem charSet_model (w : Int) : enumOK ModelUsed.charSet w = decide (1 ≤ w ∧ w ≤ 20) := by
  rw [Bool.eq_iff_iff]
  show (inU 255 w && [1, 2, 3, 4, 5, 6, 7, 8, 9, 10, 11, 12, 13, 14, 15, 16, 17, 18, 19, 20].contains w.toNat) = true ↔ _
  rw [Bool.and_eq_true, inU_iff, decide_eq_true_iff]
  simp only [List.contains_iff_mem, List.mem_cons, List.not_mem_nil, or_false]
  omega

theorem styleMap_model (s : List Char) :
    ModelUsed.styleNames.any (fun n => n.toList == s) = styleNames.contains s := by
  rw [Bool.eq_iff_iff]
  simp only [ModelUsed, styleNames, List.any_cons, List.any_nil, List.contains_cons, List.contains_nil,
    Bool.or_false, Bool.or_eq_true, beq_iff_eq]
  constructor <;> (intro h; rcases h with h | h | h | h <;> subst h <;> decide)

theorem ite_isSome {α} (c : Bool) (x : α) : (if c = true then some x else none).isSome = c := by
  cases c <;> rfl

/-- the conjunction `deserWith` tests, as one Boolean -/
theorem deser_isSome (r : RawInfo) : (deser r).isSome =
    ((optMap (narrowAll u32Max) r.gasp).isSome && (optMap (deserGuides true) r.guidelines).isSome &&
     (optMap (narrowAll 255) r.selection).isSome && (optMap deserFamilyClass r.familyClass).isSome &&
     optAll deserPanoseOk r.panose && optAll (fun w => decide (1 ≤ w ∧ w ≤ 9)) r.widthClass &&
     optAll (fun w => decide (1 ≤ w ∧ w ≤ 20)) r.winCharSet && optAll styleNames.contains r.styleMap) := by
  unfold deser deserWith
  cases h1 : optMap (narrowAll u32Max) r.gasp <;> cases h2 : optMap (deserGuides true) r.guidelines <;>
    cases h3 : optMap (narrowAll 255) r.selection <;> cases h4 : optMap deserFamilyClass r.familyClass <;>
    simp only [ite_isSome, Option.isSome_some, Option.isSome_none, Bool.true_and, Bool.false_and, Bool.and_false]
  cases r.panose <;> cases r.widthClass <;> cases r.winCharSet <;> cases r.styleMap <;> rfl

/-- the acceptor denoted by the mirrored tables IS the model's typed layer, for every file-level value -/
theorem acceptUsed_model (r : RawInfo) : acceptUsed ModelUsed r = (deser r).isSome := by
  rw [deser_isSome]
  unfold acceptUsed
  simp only [optMap_isSome]
  have e1 : (fun l : List Int => l.all (inU ModelUsed.gaspPpemMax)) = fun l => (narrowAll u32Max l).isSome := by
    funext l; exact (narrowAll_isSome _ l).symm
  have e2 : (fun l : List RawGuide => l.all (guideOKWith ModelUsed)) = fun l => (deserGuides true l).isSome := by
    funext l
    show _ = (mapAll deserGuide l).isSome
    rw [mapAll_isSome]
    congr 1; funext g; exact guideOK_model g
  have e3 : (fun l : List Int => l.all (inU ModelUsed.selectionMax)) = fun l => (narrowAll 255 l).isSome := by
    funext l; exact (narrowAll_isSome _ l).symm
  have e4 : fixedOK ModelUsed.familyClass = fun v => (deserFamilyClass v).isSome := by
    funext v; exact familyClass_model v
  have e5 : fixedOK ModelUsed.panose = deserPanoseOk := by funext v; exact panose_model v
  have e6 : enumOK ModelUsed.widthClass = fun w => decide (1 ≤ w ∧ w ≤ 9) := by
    funext w; exact widthClass_model w
  have e7 : enumOK ModelUsed.charSet = fun w => decide (1 ≤ w ∧ w ≤ 20) := by
    funext w; exact charSet_model w
  have e8 : (fun s : List Char => ModelUsed.styleNames.any (fun n => n.toList == s)) = styleNames.contains := by
    funext s; exact styleMap_model s
  rw [e1, e2, e3, e4, e5, e6, e7, e8]

end C13
