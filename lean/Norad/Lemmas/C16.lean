import Norad.Model.C16
import Norad.Lemmas.Path
/-! Helper lemmas for C16: the invariant and its preservation by each store operation. -/
namespace C16
open Path

/-- the key clauses of the invariant, as a predicate on the list of raw keys -/
structure KeysOK (kind : Kind) (ks : List Key) : Prop where
  nonEmpty : ∀ k ∈ ks, k ≠ []
  relative : ∀ k ∈ ks, (parse k).abs = false
  /-- the association list is a map: no two keys with the same components -/
  distinct : (ks.map parse).Nodup
  /-- no key is a proper path prefix of another -/
  prefixFree : ∀ a ∈ ks, ∀ b ∈ ks, (parse b).startsWith (parse a) = true → parse a = parse b
  /-- image keys have no directory part -/
  imageFlat : kind = .image → ∀ k ∈ ks, (parse k).comps.length = 1

/-- the invariant of a store -/
structure Inv (s : Store) : Prop where
  keysOK : KeysOK s.kind (keys s)
  /-- loaded image contents start with the PNG signature -/
  imagePng : s.kind = .image → ∀ e ∈ s.items, ∀ b, e.2 = .loaded b → pngSig <+: b

theorem hasKey_iff {items : Items} {p : P} : hasKey items p = true ↔ ∃ e ∈ items, parse e.1 = p := by
  simp [hasKey]

theorem hasKey_false_iff {items : Items} {p : P} : hasKey items p = false ↔ ∀ e ∈ items, parse e.1 ≠ p := by
  rw [← Bool.not_eq_true, hasKey_iff]; simp

theorem keys_setCell_of_hasKey {items : Items} {k : Key} {c : Cell} (h : hasKey items (parse k) = true) :
    (setCell items k c).map (·.1) = items.map (·.1) := by
  unfold setCell
  simp only [h, ↓reduceIte, List.map_map]
  apply List.map_congr_left
  intro e _
  simp only [Function.comp]
  split <;> rfl

theorem keys_setCell_of_not {items : Items} {k : Key} {c : Cell} (h : hasKey items (parse k) = false) :
    (setCell items k c).map (·.1) = items.map (·.1) ++ [k] := by
  unfold setCell
  simp [h]

theorem mem_setCell {items : Items} {k : Key} {c : Cell} {e : Key × Cell} (h : e ∈ setCell items k c) :
    e ∈ items ∨ e.2 = c := by
  unfold setCell at h
  split at h
  · simp only [List.mem_map] at h
    obtain ⟨x, hx, rfl⟩ := h
    split
    · right; rfl
    · left; exact hx
  · simp only [List.mem_append, List.mem_singleton] at h
    rcases h with h | rfl
    · left; exact h
    · right; rfl

theorem KeysOK.nil (kind : Kind) : KeysOK kind [] := by
  constructor <;> simp

theorem KeysOK.sublist {kind : Kind} {l l' : List Key} (hs : l'.Sublist l) (h : KeysOK kind l) :
    KeysOK kind l' := by
  have sub := hs.subset
  constructor
  · exact fun k hk => h.nonEmpty k (sub hk)
  · exact fun k hk => h.relative k (sub hk)
  · exact h.distinct.sublist (hs.map _)
  · exact fun a ha b hb => h.prefixFree a (sub ha) b (sub hb)
  · exact fun hk k hkm => h.imageFlat hk k (sub hkm)

theorem startsWith_self (p : P) : p.startsWith p = true := by
  unfold P.startsWith
  exact List.isPrefixOf_iff_prefix.2 (List.prefix_refl _)

theorem KeysOK.append_new {kind : Kind} {ks : List Key} {k : Key} (h : KeysOK kind ks)
    (h1 : k ≠ []) (h2 : (parse k).abs = false) (h3 : parse k ∉ ks.map parse)
    (h4 : ∀ a ∈ ks, (parse k).startsWith (parse a) = true → parse a = parse k)
    (h5 : ∀ b ∈ ks, (parse b).startsWith (parse k) = true → parse k = parse b)
    (h6 : kind = .image → (parse k).comps.length = 1) : KeysOK kind (ks ++ [k]) := by
  constructor
  · intro x hx
    rcases List.mem_append.1 hx with hx | hx
    · exact h.nonEmpty x hx
    · simp at hx; subst hx; exact h1
  · intro x hx
    rcases List.mem_append.1 hx with hx | hx
    · exact h.relative x hx
    · simp at hx; subst hx; exact h2
  · rw [List.map_append, List.nodup_append]
    refine ⟨h.distinct, by simp, ?_⟩
    intro a ha b hb
    simp at hb
    subst hb
    intro hab
    exact h3 (hab ▸ ha)
  · intro a ha b hb hsw
    rcases List.mem_append.1 ha with ha' | ha' <;> rcases List.mem_append.1 hb with hb' | hb'
    · exact h.prefixFree a ha' b hb' hsw
    · simp at hb'; subst hb'; exact h4 a ha' hsw
    · simp at ha'; subst ha'; exact h5 b hb' hsw
    · simp at ha' hb'; subst ha'; subst hb'; rfl
  · intro hk x hx
    rcases List.mem_append.1 hx with hx | hx
    · exact h.imageFlat hk x hx
    · simp at hx; subst hx; exact h6 hk

/-! ### what a passed validation guarantees -/

theorem validateData_ok {k : Key} {items : Items} (h : validateData k items = .ok ()) :
    k ≠ [] ∧ (parse k).abs = false ∧ ancestorInStore items (parse k) = false ∧
      descendantInStore items (parse k) = false := by
  unfold validateData at h
  split at h; · simp at h
  split at h; · simp at h
  split at h; · simp at h
  split at h; · simp at h
  rename_i a b c d
  refine ⟨?_, by simpa using b, by simpa using c, by simpa using d⟩
  intro hk; subst hk; simp at a

theorem validateImagePath_ok {k : Key} (h : validateImagePath k = .ok ()) :
    k ≠ [] ∧ (parse k).abs = false ∧ hasDirPart (parse k) = false := by
  unfold validateImagePath at h
  split at h; · simp at h
  split at h; · simp at h
  split at h; · simp at h
  rename_i a b c
  refine ⟨?_, by simpa using b, by simpa using c⟩
  intro hk; subst hk; simp at a

theorem validateImage_ok {k : Key} {b : Bytes} (h : validateImage k b = .ok ()) :
    k ≠ [] ∧ (parse k).abs = false ∧ hasDirPart (parse k) = false ∧ pngSig <+: b := by
  unfold validateImage at h
  split at h
  · simp at h
  · rename_i hv
    split at h
    · rename_i hp
      have := validateImagePath_ok (k := k) (by rw [hv])
      exact ⟨this.1, this.2.1, this.2.2, List.isPrefixOf_iff_prefix.1 hp⟩
    · simp at h

/-- "no directory part" for a non-empty relative path: exactly one component -/
theorem flat_of_noDirPart {k : Key} (h1 : k ≠ []) (h2 : (parse k).abs = false)
    (h3 : hasDirPart (parse k) = false) : (parse k).comps.length = 1 := by
  have hne := parse_comps_ne_nil h1 h2
  unfold hasDirPart P.parent? at h3
  have : (parse k).comps.isEmpty = false := by simpa using hne
  simp only [this, Bool.false_eq_true, ↓reduceIte, P.isEmpty, h2, Bool.not_false, Bool.true_and,
    Bool.not_eq_eq_eq_not, Bool.not_false, List.isEmpty_iff] at h3
  have hl := congrArg List.length h3
  simp only [List.length_dropLast, List.length_nil] at hl
  have : (parse k).comps.length ≠ 0 := by simpa using hne
  omega

theorem eq_of_flat_prefix {p q : P} (hp : p.abs = false) (hq : q.abs = false)
    (lp : p.comps.length = 1) (lq : q.comps.length = 1) (h : q.startsWith p = true) : p = q := by
  have hpre := (startsWith_rel hp hq).1 h
  exact P.ext' (hp.trans hq.symm) (hpre.eq_of_length (lp.trans lq.symm))

/-- the data rules make a new key prefix-free against the stored ones, in both directions -/
theorem data_new_key_prefixFree {items : Items} {k : Key}
    (hne : ∀ e ∈ items, e.1 ≠ []) (hrel : ∀ e ∈ items, (parse e.1).abs = false)
    (h2 : (parse k).abs = false)
    (ha : ancestorInStore items (parse k) = false) (hd : descendantInStore items (parse k) = false) :
    (∀ e ∈ items, (parse k).startsWith (parse e.1) = true → parse e.1 = parse k) ∧
    (∀ e ∈ items, (parse e.1).startsWith (parse k) = true → parse k = parse e.1) := by
  constructor
  · intro e he hsw
    have hpre := (startsWith_rel (hrel e he) h2).1 hsw
    by_cases hc : (parse e.1).comps = (parse k).comps
    · exact P.ext' ((hrel e he).trans h2.symm) hc
    · exfalso
      have hmem : parse e.1 ∈ (parse k).properAncestors :=
        mem_properAncestors.2 ⟨(hrel e he).trans h2.symm, hpre, hc⟩
      have hnotEmpty : (parse e.1).isEmpty = false := by
        rw [← Bool.not_eq_true, parse_isEmpty_iff]; exact hne e he
      have : ancestorInStore items (parse k) = true := by
        unfold ancestorInStore
        rw [List.any_eq_true]
        exact ⟨parse e.1, hmem, by simp [hnotEmpty, hasKey_iff]; exact ⟨e.1, ⟨e.2, he⟩, rfl⟩⟩
      rw [ha] at this; exact absurd this (by simp)
  · intro e he hsw
    unfold descendantInStore at hd
    rw [List.any_eq_false] at hd
    have := hd e he
    simp only [hsw, Bool.true_and, bne_iff_ne, ne_eq, Decidable.not_not] at this
    exact this.symm

/-! ### preservation, operation by operation -/

theorem inv_empty (kind : Kind) : Inv ⟨kind, []⟩ :=
  ⟨KeysOK.nil kind, by intro _ e he; simp at he⟩

theorem inv_clear (s : Store) : Inv (clear s) := inv_empty s.kind

theorem inv_remove (s : Store) (k : Key) (h : Inv s) : Inv (remove s k) := by
  constructor
  · exact h.keysOK.sublist (List.filter_sublist.map _)
  · intro hk e he b hb
    exact h.imagePng hk e (List.mem_filter.1 he).1 b hb

theorem validate_ok_png {s : Store} {k : Key} {b : Bytes} (hk : s.kind = .image)
    (hv : validate s.kind k s.items b = .ok ()) : pngSig <+: b := by
  rw [hk] at hv
  exact (validateImage_ok hv).2.2.2

/-- the key clauses survive the insertion of a validated key -/
theorem keysOK_setCell {s : Store} {k : Key} {b : Bytes} {c : Cell} (h : Inv s)
    (hv : validate s.kind k s.items b = .ok ()) :
    KeysOK s.kind ((setCell s.items k c).map (·.1)) := by
  by_cases hk : hasKey s.items (parse k) = true
  · rw [keys_setCell_of_hasKey hk]; exact h.keysOK
  · have hk' : hasKey s.items (parse k) = false := by simpa using hk
    rw [keys_setCell_of_not hk']
    have hnotin : parse k ∉ (s.items.map (·.1)).map parse := by
      intro hm
      simp only [List.map_map, List.mem_map, Function.comp] at hm
      obtain ⟨e, he, heq⟩ := hm
      exact (hasKey_false_iff.1 hk') e he heq
    have hne : ∀ e ∈ s.items, e.1 ≠ [] := fun e he => h.keysOK.nonEmpty e.1 (List.mem_map.2 ⟨e, he, rfl⟩)
    have hrel : ∀ e ∈ s.items, (parse e.1).abs = false :=
      fun e he => h.keysOK.relative e.1 (List.mem_map.2 ⟨e, he, rfl⟩)
    cases hkind : s.kind with
    | data =>
      rw [hkind] at hv
      obtain ⟨h1, h2, h3, h4⟩ := validateData_ok hv
      obtain ⟨p1, p2⟩ := data_new_key_prefixFree hne hrel h2 h3 h4
      have hko := h.keysOK
      rw [hkind] at hko
      refine hko.append_new h1 h2 hnotin ?_ ?_ (by simp)
      · intro a ha; obtain ⟨e, he, rfl⟩ := List.mem_map.1 ha; exact p1 e he
      · intro a ha; obtain ⟨e, he, rfl⟩ := List.mem_map.1 ha; exact p2 e he
    | image =>
      rw [hkind] at hv
      obtain ⟨h1, h2, h3, _⟩ := validateImage_ok hv
      have hflat := flat_of_noDirPart h1 h2 h3
      have hko := h.keysOK
      rw [hkind] at hko
      refine hko.append_new h1 h2 hnotin ?_ ?_ (fun _ => hflat)
      · intro a ha hsw
        exact eq_of_flat_prefix (hko.relative a ha) h2 (hko.imageFlat rfl a ha) hflat hsw
      · intro a ha hsw
        exact eq_of_flat_prefix h2 (hko.relative a ha) hflat (hko.imageFlat rfl a ha) hsw

theorem inv_insert (s : Store) (k : Key) (b : Bytes) (h : Inv s) : Inv (insert s k b).1 := by
  unfold insert
  cases hv : validate s.kind k s.items b with
  | error e => exact h
  | ok u =>
    cases u
    show Inv { s with items := setCell s.items k (.loaded b) }
    constructor
    · exact keysOK_setCell h hv
    · intro hk e he b' hb
      rcases mem_setCell he with he | he
      · exact h.imagePng hk e he b' hb
      · rw [he] at hb; injection hb with hb; subst hb
        exact validate_ok_png (s := s) hk hv

theorem find?_hasKey {items : Items} {k : Key} {e : Key × Cell} (h : find? items k = some e) :
    hasKey items (parse k) = true := by
  unfold find? at h
  have hm := List.mem_of_find?_eq_some h
  have hp := List.find?_some h
  exact hasKey_iff.2 ⟨e, hm, by simpa using hp⟩

theorem loadItem_loaded {kind : Kind} {disk : Disk} {k : Key} {items : Items} {b : Bytes}
    (h : loadItem kind disk k items = .loaded b) :
    disk k = some b ∧ validate kind k items b = .ok () := by
  unfold loadItem at h
  split at h
  · simp at h
  · rename_i b' hd
    split at h
    · rename_i hv; injection h with h; subst h; exact ⟨hd, hv⟩
    · simp at h

theorem inv_get (s : Store) (disk : Disk) (k : Key) (h : Inv s) : Inv (get s disk k).1 := by
  unfold get
  split
  · exact h
  · rename_i k0 hf
    have hk := find?_hasKey hf
    constructor
    · show KeysOK s.kind ((setCell s.items k _).map (·.1))
      rw [keys_setCell_of_hasKey hk]; exact h.keysOK
    · intro hkind e he b hb
      rcases mem_setCell he with he | he
      · exact h.imagePng hkind e he b hb
      · rw [he] at hb
        have := (loadItem_loaded hb).2
        rw [hkind] at this
        exact (validateImage_ok this).2.2.2
  · exact h

theorem inv_iterFrom (s : Store) (disk : Disk) (ks : List Key) (h : Inv s) :
    Inv (iterFrom s disk ks).1 := by
  induction ks generalizing s with
  | nil => exact h
  | cons k r ih =>
    simp only [iterFrom]
    exact ih _ (inv_get s disk k h)

theorem inv_forceUntilError (s : Store) (disk : Disk) (ks : List Key) (h : Inv s) :
    Inv (forceUntilError s disk ks).1 := by
  induction ks generalizing s with
  | nil => exact h
  | cons k r ih =>
    simp only [forceUntilError]
    have := inv_get s disk k h
    split
    · rename_i s1 _ heq; rw [heq] at this; exact ih _ this
    · rename_i s1 _ _ heq; rw [heq] at this; exact this

end C16
