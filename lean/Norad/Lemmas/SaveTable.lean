import Norad.Model.FontSave
import Norad.Generated.SaveOrder
/-!
# The (guard, step) table of `Font::save_impl`, read against the model (C08 / C09 source-level tie)

`Generated.SaveOrder.saveTable` is regenerated from `src/font.rs` on every run: every top-level statement of
`save_impl` as rows (guard atoms, step).  Here: the vocabulary of atoms and steps the MODEL knows (`Atom`, `Step`, with
the spelling each has in the table), their meaning in the model's terms (`preAtom`, `postAtom`, `postStep`), the
interpreter `execRows`, and the proof that the interpreter run on `modelRows` IS `saveImpl` (and its plan part IS
`plan`).  `Props/C08.lean` / `Props/C09.lean` state that the regenerated table parses to `modelRows`.

What the model abstracts and the table shows: which `MetaInfo` is written (`creatorDefault`: both rows write the
model's one metainfo token), the line-ending normalisation of features.fea (`hasCR`), `recursive_sort_plist_keys`
(invisible to an uninterpreted `render`), the `contents` binding.  These are parameters / no-ops of the interpreter, so
the equality with `saveImpl` holds for every value of them.
-/
namespace C08.Source
open AbsFS FontSave

inductive Atom
  | versionNot3 | hasObjLibsKey | groupsErr | fontinfoErr | storeErr | pathExists
  | creatorDefault (pos : Bool) | infoNonEmpty | folNonEmpty | libNonEmpty | groupsNonEmpty | kerningNonEmpty
  | featuresNonEmpty | hasCR (pos : Bool) | dataNonEmpty | imagesNonEmpty
  deriving DecidableEq, Repr

inductive Step
  | refuse (k : Refusal) | removeDirAll | createTarget | writeMetainfo | writeFontinfo | bindLib | bindFol | insertFol
  | sortLib | writeLib | writeGroups | writeKerning | writeFeatures | bindContents | writeLayercontents | saveLayers
  | writeData | createImages | writeImages
  deriving DecidableEq, Repr

/-- the spelling of every guard atom in the regenerated table -/
def atomTable : List (String × Atom) := [
  ("self.meta.format_version!=FormatVersion::V3", .versionNot3),
  ("self.lib.contains_key(PUBLIC_OBJECT_LIBS_KEY)", .hasObjLibsKey),
  ("err:validate_groups(&self.groups)", .groupsErr),
  ("err:self.font_info.validate()", .fontinfoErr),
  ("any-err:self.data.iter().chain(self.images.iter())", .storeErr),
  ("path.exists()", .pathExists),
  ("self.meta.creator==Some(DEFAULT_METAINFO_CREATOR.into())", .creatorDefault true),
  ("!(self.meta.creator==Some(DEFAULT_METAINFO_CREATOR.into()))", .creatorDefault false),
  ("!self.font_info.is_empty()", .infoNonEmpty),
  ("!font_object_libs.is_empty()", .folNonEmpty),
  ("!lib.is_empty()", .libNonEmpty),
  ("!self.groups.is_empty()", .groupsNonEmpty),
  ("!self.kerning.is_empty()", .kerningNonEmpty),
  ("!self.features.is_empty()", .featuresNonEmpty),
  ("self.features.as_bytes().contains(&b'\\r')", .hasCR true),
  ("!(self.features.as_bytes().contains(&b'\\r'))", .hasCR false),
  ("!self.data.is_empty()", .dataNonEmpty),
  ("!self.images.is_empty()", .imagesNonEmpty)]

/-- the spelling of every step in the regenerated table -/
def stepTable : List (String × Step) := [
  ("refuse:Downgrade", .refuse .downgrade),
  ("refuse:PreexistingPublicObjectLibsKey", .refuse .objectLibsKey),
  ("refuse:InvalidGroups", .refuse .invalidGroups),
  ("refuse:InvalidFontInfo", .refuse .invalidFontInfo),
  ("refuse:InvalidStoreEntry", .refuse .invalidStoreEntry),
  ("remove_dir_all:path!Cleanup", .removeDirAll),
  ("create_dir:path!CreateUfoDir", .createTarget),
  ("write:path/metainfo.plist<-self.meta", .writeMetainfo),
  ("write:path/metainfo.plist<-MetaInfo::default()", .writeMetainfo),
  ("write:path/fontinfo.plist<-self.font_info", .writeFontinfo),
  ("bind:lib=self.lib.clone()", .bindLib),
  ("bind:font_object_libs=self.font_info.dump_object_libs()", .bindFol),
  ("insert:lib[public.objectLibs]=font_object_libs", .insertFol),
  ("sort-keys:lib", .sortLib),
  ("write:path/lib.plist<-lib", .writeLib),
  ("write:path/groups.plist<-self.groups", .writeGroups),
  ("write:path/kerning.plist<-crate::kerning::KerningSerializer{kerning:self.kerning}", .writeKerning),
  ("write:path/features.fea<-self.features.replace(\"\\r\\n\",\"\\n\")", .writeFeatures),
  ("write:path/features.fea<-self.features", .writeFeatures),
  ("bind:contents=self.layers.iter().map(|l|(l.name.as_ref(),l.path)).collect()", .bindContents),
  ("write:path/layercontents.plist<-contents", .writeLayercontents),
  ("each(self.layers.iter())[save_layer:path/<layer.path>]", .saveLayers),
  ("each(self.data.iter())[create_dir_all:parent(path/data/<data_path>)!CreateStoreDir;write:path/data/<data_path><-contents.expect()]", .writeData),
  ("create_dir:path/images!CreateStoreDir", .createImages),
  ("each(self.images.iter())[write:path/images/<image_path><-contents.expect()]", .writeImages)]

def lookupS {α : Type} (tbl : List (String × α)) (s : List Char) : Option α :=
  match tbl with
  | [] => none
  | (k, v) :: r => if k.toList = s then some v else lookupS r s

def allSome {α : Type} : List (Option α) → Option (List α)
  | [] => some []
  | none :: _ => none
  | some a :: r =>
    match allSome r with
    | some l => some (a :: l)
    | none => none

abbrev Row := List Atom × Step

def parseRow (r : List (List Char) × List Char) : Option Row :=
  match allSome (r.1.map (lookupS atomTable)), lookupS stepTable r.2 with
  | some g, some s => some (g, s)
  | _, _ => none

/-- `none`: the table has an atom or a step the model has no word for -/
def parseTable (t : List (List (List Char) × List Char)) : Option (List Row) := allSome (t.map parseRow)

/-- `save_impl` as the model has it, in the table's vocabulary -/
def modelRows : List Row := [
  ([.versionNot3], .refuse .downgrade),
  ([.hasObjLibsKey], .refuse .objectLibsKey),
  ([.groupsErr], .refuse .invalidGroups),
  ([.fontinfoErr], .refuse .invalidFontInfo),
  ([.storeErr], .refuse .invalidStoreEntry),
  ([.pathExists], .removeDirAll),
  ([], .createTarget),
  ([.creatorDefault true], .writeMetainfo),
  ([.creatorDefault false], .writeMetainfo),
  ([.infoNonEmpty], .writeFontinfo),
  ([], .bindLib),
  ([], .bindFol),
  ([.folNonEmpty], .insertFol),
  ([.libNonEmpty], .sortLib),
  ([.libNonEmpty], .writeLib),
  ([.groupsNonEmpty], .writeGroups),
  ([.kerningNonEmpty], .writeKerning),
  ([.featuresNonEmpty, .hasCR true], .writeFeatures),
  ([.featuresNonEmpty, .hasCR false], .writeFeatures),
  ([], .bindContents),
  ([], .writeLayercontents),
  ([], .saveLayers),
  ([.dataNonEmpty], .writeData),
  ([.imagesNonEmpty], .createImages),
  ([.imagesNonEmpty], .writeImages)]

/-- **the regenerated table, word for word, is the model's**: every guard atom and every step of `fn save_impl` as the
    source has it now is one the model has a meaning for, in the model's order (kernel-evaluated on the regenerated
    table: this is the statement that fails when a gate, a step or their order changes in the source) -/
theorem saveTable_parses : parseTable Generated.SaveOrder.saveTable = some modelRows := by decide +kernel

/-! ## meaning of atoms and steps in the model's terms -/

variable {β : Type}

/-- atoms of the rows in front of the wipe -/
def preAtom (cfg : Cfg β) (f : AFont β) (fs : FS β) : Atom → Bool
  | .versionNot3 => decide (f.version ≠ 3)
  | .hasObjLibsKey => hasObjectLibsKey f.lib
  | .groupsErr => !f.groupsValid
  | .fontinfoErr => !f.info.valid
  | .storeErr => !((forceStore cfg .data fs f.data).isSome && (forceStore cfg .images fs f.images).isSome)
  | _ => false

/-- the first refusing row among the rows in front of the wipe -/
def firstRefusal (cfg : Cfg β) (f : AFont β) (fs : FS β) : List Row → Option Refusal
  | [] => none
  | (g, .refuse k) :: r => if g.all (preAtom cfg f fs) then some k else firstRefusal cfg f fs r
  | _ :: r => firstRefusal cfg f fs r

/-- what the statements behind the wipe see: the font, the forced stores, the target, and two facts the model does not
    look at (is the creator the default one; does the feature text contain a carriage return) -/
structure Env (β : Type) where
  cfg : Cfg β
  f : AFont β
  d : List (Path.P × β)
  i : List (Path.P × β)
  t : APath
  creator : Bool
  cr : Bool

/-- the two local variables of `save_impl`: `lib` (the font lib and the object libs inserted into it) and
    `font_object_libs` (`none`: not bound - the dump panicked) -/
structure Loc where
  lib : Option (List (Str × LVal) × List (Str × Nat))
  fol : Option (List (Str × Nat))

def postAtom (e : Env β) (l : Loc) : Atom → Bool
  | .creatorDefault b => e.creator == b
  | .infoNonEmpty => !e.f.info.isEmpty
  | .folNonEmpty => match l.fol with
    | some ol => !ol.isEmpty
    | none => false
  | .libNonEmpty => match l.lib with
    | some (lb, ol) => !(lb.isEmpty && ol.isEmpty)
    | none => false
  | .groupsNonEmpty => decide (e.f.groups ≠ 0)
  | .kerningNonEmpty => decide (e.f.kerning ≠ 0)
  | .featuresNonEmpty => decide (e.f.features ≠ 0)
  | .hasCR b => e.cr == b
  | .dataNonEmpty => !e.d.isEmpty
  | .imagesNonEmpty => !e.i.isEmpty
  | _ => false

/-- one step behind the wipe: new locals, effects appended -/
def postStep (e : Env β) (l : Loc) : Step → Loc × List (Eff β)
  | .createTarget => (l, [.mkdir (tC e.t)])
  | .writeMetainfo => (l, [.write (sub e.t "metainfo.plist") (e.cfg.render (.metainfo e.f.metaTok))])
  | .writeFontinfo =>
    (l, if e.f.info.serialisable then [.write (sub e.t "fontinfo.plist") (e.cfg.render (.fontinfo e.f.info))]
        else [.write (sub e.t "fontinfo.plist") (e.cfg.render .truncated), .fail .serialise])
  | .bindLib => ({ l with lib := some (e.f.lib, []) }, [])
  | .bindFol =>
    match dumpObjectLibs e.f.info.guides with
    | none => ({ lib := none, fol := none }, [.fail .panic])       -- the `unwrap` in `dump_object_libs`
    | some ol => ({ l with fol := some ol }, [])
  | .insertFol => ({ l with lib := l.lib.map fun p => (p.1, l.fol.getD []) }, [])
  | .sortLib => (l, [])
  | .writeLib =>
    match l.lib with
    | some (lb, ol) => (l, [.write (sub e.t "lib.plist") (e.cfg.render (.lib lb ol))])
    | none => (l, [])
  | .writeGroups => (l, [.write (sub e.t "groups.plist") (e.cfg.render (.groups e.f.groups))])
  | .writeKerning => (l, [.write (sub e.t "kerning.plist") (e.cfg.render (.kerning e.f.kerning))])
  | .writeFeatures => (l, [.write (sub e.t "features.fea") (e.cfg.render (.features e.f.features))])
  | .bindContents => (l, [])
  | .writeLayercontents =>
    (l, [.write (sub e.t "layercontents.plist") (e.cfg.render (.layercontents (e.f.layers.map fun x => (x.name, x.dir))))])
  | .saveLayers => (l, e.f.layers.flatMap (planLayer e.cfg e.t))
  | .writeData => (l, e.d.flatMap (planDataItem e.t))
  | .createImages => (l, [.mkdir (sub e.t "images")])
  | .writeImages => (l, e.i.map fun kb => .write (joinRel (sub e.t "images") kb.1) kb.2)
  | _ => (l, [])

def rowHolds (e : Env β) (l : Loc) (r : Row) : Bool := r.1.all (postAtom e l)

/-- the locals after a row -/
def rowLoc (e : Env β) (l : Loc) (r : Row) : Loc := if rowHolds e l r then (postStep e l r.2).1 else l

/-- the effects of a row: those of its step when every guard atom holds -/
def rowEffs (e : Env β) (l : Loc) (r : Row) : List (Eff β) := if rowHolds e l r then (postStep e l r.2).2 else []

/-- the effects of the rows behind the wipe, in order -/
def planRows (e : Env β) : List Row → Loc → List (Eff β)
  | [], _ => []
  | r :: rs, l => rowEffs e l r ++ planRows e rs (rowLoc e l r)

def isWipe (r : Row) : Bool := r.2 == .removeDirAll

/-- the table run against the model's file system: the rows in front of the wipe refuse or pass; the stores are what
    the pass over the entries forced; the wipe row; the rest is a plan of effects -/
def execRows (rows : List Row) (cfg : Cfg β) (f : AFont β) (fs : FS β) (t : APath) (creator cr : Bool) :
    Option SaveErr × FS β :=
  match firstRefusal cfg f fs (rows.takeWhile (!isWipe ·)) with
  | some k => (some (.refused k), fs)
  | none =>
    match forceStore cfg .data fs f.data, forceStore cfg .images fs f.images with
    | some d, some i =>
      match rows.dropWhile (!isWipe ·) with
      | (g, _) :: post =>
        let wiped := if g.all (fun a => a == .pathExists && existsAt fs (tC t)) then removeDirAll fs (tC t) else .ok fs
        match wiped with
        | .error e => (some (.cleanup e), fs)
        | .ok fs1 => runEffs (planRows { cfg, f, d, i, t, creator, cr } post { lib := none, fol := none }) fs1
      | [] => (none, fs)
    | _, _ => (some .panic, fs)      -- `expect("internal error: should have been checked")`

/-! ## the model's rows ARE the model -/

def modelPost : List Row := modelRows.drop 6

theorem planRows_model (e : Env β) :
    planRows e modelPost { lib := none, fol := none } = plan e.cfg e.f e.d e.i e.t := by
  obtain ⟨cfg, f, d, i, t, creator, cr⟩ := e
  simp only [modelPost, modelRows, List.drop, planRows, rowEffs, rowLoc, rowHolds, List.all_cons, List.all_nil,
    Bool.and_true, postAtom, postStep, plan, planFontinfo, planLib, planOpt, planImages, ite_self]
  cases hol : dumpObjectLibs f.info.guides with
  | none =>
    cases creator <;> cases cr <;> cases d <;> cases i <;> cases hie : f.info.isEmpty <;> simp [hol]
  | some ol =>
    cases creator <;> cases cr <;> cases d <;> cases i <;> cases ol <;> cases hl : f.lib.isEmpty <;>
      cases hie : f.info.isEmpty <;> simp [hol, hl]

theorem firstRefusal_model (cfg : Cfg β) (f : AFont β) (fs : FS β) :
    firstRefusal cfg f fs (modelRows.takeWhile (!isWipe ·)) =
      match validatePhase cfg f fs with
      | .error k => some k
      | .ok _ => none := by
  have htw : modelRows.takeWhile (!isWipe ·) = modelRows.take 5 := by decide
  rw [htw]
  simp only [modelRows, List.take, firstRefusal, List.all_cons, List.all_nil, Bool.and_true, preAtom, validatePhase]
  by_cases h1 : f.version = 3
  · cases h2 : hasObjectLibsKey f.lib <;> cases h3 : f.groupsValid <;> cases h4 : f.info.valid <;>
      cases hd : forceStore cfg .data fs f.data <;> cases hi : forceStore cfg .images fs f.images <;> simp [h1]
  · simp [h1]

/-- **the interpreter on the model's rows is `saveImpl`**, for every value of the two facts the model does not look at -/
theorem execRows_model (cfg : Cfg β) (f : AFont β) (fs : FS β) (t : APath) (creator cr : Bool) :
    execRows modelRows cfg f fs t creator cr = saveImpl cfg f fs t := by
  unfold execRows saveImpl
  rw [firstRefusal_model]
  have hdw : modelRows.dropWhile (!isWipe ·) = ([.pathExists], .removeDirAll) :: modelPost := by decide
  rw [hdw]
  cases hv : validatePhase cfg f fs with
  | error k => rfl
  | ok di =>
    obtain ⟨d, i⟩ := di
    have hforce : forceStore cfg .data fs f.data = some d ∧ forceStore cfg .images fs f.images = some i := by
      unfold validatePhase at hv
      by_cases h1 : f.version = 3
      · cases h2 : hasObjectLibsKey f.lib <;> cases h3 : f.groupsValid <;> cases h4 : f.info.valid <;>
          cases hd : forceStore cfg .data fs f.data <;> cases hi : forceStore cfg .images fs f.images <;>
          simp [h1, h2, h3, h4, hd, hi] at hv ⊢
        exact hv
      · simp [h1] at hv
    simp only [hforce.1, hforce.2]
    have hp := planRows_model { cfg, f, d, i, t, creator, cr }
    simp only at hp
    rw [hp]
    simp only [List.all_cons, List.all_nil, Bool.and_true, beq_self_eq_true, Bool.true_and, wipe]
    cases existsAt fs (tC t) <;> simp
    all_goals (split <;> simp_all)

end C08.Source
