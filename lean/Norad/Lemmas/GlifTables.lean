import Norad.Model.Glif
/-!
# The tables of the glif parser model

The model (`Model/Glif.lean`) is code: `if`-chains over attribute and element names.  This file states the tables that
code implements — which attribute names each loop accepts, which element names each level dispatches — and proves,
for ALL strings, that each table characterises its function.  The `source_*` theorems of `Props/C12.lean` then compare
these tables with what `tools/extract_glif_parser.py` reads out of `src/glyph/parse.rs` on every run.  Core Lean only.
-/
namespace Glif

/-! ### attribute names per element -/

def gKeys : List Str := ["name".toList, "format".toList, "formatMinor".toList]
def advKeys : List Str := ["width".toList, "height".toList]
def uniKeys : List Str := [sHex]
def aKeys : List Str := ["x".toList, "y".toList, "name".toList, "color".toList, "identifier".toList]
def guKeys : List Str := ["x".toList, "y".toList, "angle".toList, "name".toList, "color".toList, "identifier".toList]
def tKeys : List Str :=
  ["xScale".toList, "xyScale".toList, "yxScale".toList, "yScale".toList, "xOffset".toList, "yOffset".toList]
def iKeys : List Str := tKeys ++ ["color".toList, "fileName".toList]
def cKeys : List Str := tKeys ++ ["base".toList, "identifier".toList]
def pKeys : List Str := ["x".toList, "y".toList, "name".toList, "type".toList, "smooth".toList, "identifier".toList]
def ctKeys : List Str := [sIdentifier]

theorem gKeyOf_isSome (s : Str) : (gKeyOf s).isSome = gKeys.contains s := by
  unfold gKeyOf gKeys
  repeat' split
  all_goals simp_all
theorem advKeyOf_isSome (s : Str) : (advKeyOf s).isSome = advKeys.contains s := by
  unfold advKeyOf advKeys
  repeat' split
  all_goals simp_all
theorem aKeyOf_isSome (s : Str) : (aKeyOf s).isSome = aKeys.contains s := by
  unfold aKeyOf aKeys
  repeat' split
  all_goals simp_all
theorem guKeyOf_isSome (s : Str) : (guKeyOf s).isSome = guKeys.contains s := by
  unfold guKeyOf guKeys
  repeat' split
  all_goals simp_all
theorem pKeyOf_isSome (s : Str) : (pKeyOf s).isSome = pKeys.contains s := by
  unfold pKeyOf pKeys
  repeat' split
  all_goals simp_all
theorem tKeyOf_isSome (s : Str) : (tKeyOf s).isSome = tKeys.contains s := by
  unfold tKeyOf tKeys
  repeat' split
  all_goals simp_all
theorem iKeyOf_isSome (s : Str) : (iKeyOf s).isSome = iKeys.contains s := by
  have ht := tKeyOf_isSome s
  unfold iKeyOf iKeys
  cases h : tKeyOf s with
  | some k =>
    have ht' : tKeys.contains s = true := by rw [← ht, h]; rfl
    simp only [Option.isSome_some, List.contains_append, ht', Bool.true_or]
  | none =>
    simp only [h, Option.isSome_none] at ht
    simp only [List.contains_append, ← ht, Bool.false_or]
    repeat' split
    all_goals simp_all
theorem cKeyOf_isSome (s : Str) : (cKeyOf s).isSome = cKeys.contains s := by
  have ht := tKeyOf_isSome s
  unfold cKeyOf cKeys
  cases h : tKeyOf s with
  | some k =>
    have ht' : tKeys.contains s = true := by rw [← ht, h]; rfl
    simp only [Option.isSome_some, List.contains_append, ht', Bool.true_or]
  | none =>
    simp only [h, Option.isSome_none] at ht
    simp only [List.contains_append, ← ht, Bool.false_or]
    repeat' split
    all_goals simp_all

theorem eq_none_of_isSome_false {α : Type} {o : Option α} (h : o.isSome = false) : o = none := by
  cases o <;> simp_all

/-- a name outside the table ends the attribute loop with a refusal, for every element -/
theorem step_refuses_unknown (rd : Str → Option Nat) (ver : Nat) (seen : List Str) (a : Attr) :
    (gKeys.contains a.1 = false → ∀ acc, gStep acc a = none) ∧
    (advKeys.contains a.1 = false → ∀ acc, advStep rd acc a = none) ∧
    (uniKeys.contains a.1 = false → ∀ acc, uniStep acc a = none) ∧
    (aKeys.contains a.1 = false → ∀ acc, aStep rd ver seen acc a = none) ∧
    (guKeys.contains a.1 = false → ∀ acc, guStep rd ver seen acc a = none) ∧
    (iKeys.contains a.1 = false → ∀ acc, iStep rd acc a = none) ∧
    (pKeys.contains a.1 = false → ∀ acc, pStep rd ver seen acc a = none) ∧
    (cKeys.contains a.1 = false → ∀ acc, cStep rd ver seen acc a = none) ∧
    (ctKeys.contains a.1 = false → ∀ acc, ctStep ver seen acc a = none) := by
  refine ⟨?_, ?_, ?_, ?_, ?_, ?_, ?_, ?_, ?_⟩
  · intro h acc; have := gKeyOf_isSome a.1; rw [h] at this; simp [gStep, eq_none_of_isSome_false this]
  · intro h acc; have := advKeyOf_isSome a.1; rw [h] at this; simp [advStep, eq_none_of_isSome_false this]
  · intro h acc; simp [uniKeys] at h; simp [uniStep, h]
  · intro h acc; have := aKeyOf_isSome a.1; rw [h] at this; simp [aStep, eq_none_of_isSome_false this]
  · intro h acc; have := guKeyOf_isSome a.1; rw [h] at this; simp [guStep, eq_none_of_isSome_false this]
  · intro h acc; have := iKeyOf_isSome a.1; rw [h] at this; simp [iStep, eq_none_of_isSome_false this]
  · intro h acc; have := pKeyOf_isSome a.1; rw [h] at this; simp [pStep, eq_none_of_isSome_false this]
  · intro h acc; have := cKeyOf_isSome a.1; rw [h] at this; simp [cStep, eq_none_of_isSome_false this]
  · intro h acc; simp [ctKeys] at h; by_cases hv : ver = 1 <;> simp [ctStep, h, hv]

/-! ### element names per level -/

/-- `Event::Start` at glyph level (`lib` arrives as `Ev.startLib`) -/
def bodyStartNames : List Str := [sOutline, sLib, sNote]
def bodyEmptyNames : List Str := [sOutline, sAdvance, sUnicode, sAnchor, sGuideline, sImage]
def outlineStartNames : List Str := [sContour]
def outlineEmptyNames : List Str := [sContour, sComponent]
def contourEmptyNames : List Str := [sPoint]
/-- refused in a format-1 glyph -/
def v1RefusedStart : List Str := [sNote]
def v1RefusedEmpty : List Str := [sAnchor, sGuideline, sImage]
/-- refused the second time by a flag of the parser state -/
def onceByFlag : List Str := [sOutline, sLib, sAdvance]
/-- refused the second time because the glyph field is already filled (an empty first `note` does not count) -/
def onceByContent : List Str := [sNote, sImage]

theorem bodyStart_unknown (s : PS) {n : Str} (h : [sOutline, sNote].contains n = false) :
    bodyStart s n = .error .unexpectedElement := by
  simp only [List.contains_cons, List.contains_nil, Bool.or_false, Bool.or_eq_false_iff, beq_eq_false_iff_ne, ne_eq] at h
  simp [bodyStart, h.1, h.2]

theorem bodyEmpty_unknown (rd : Str → Option Nat) (s : PS) {n : Str} (a : Option (List Attr))
    (h : bodyEmptyNames.contains n = false) : bodyEmpty rd s n a = .error .unexpectedElement := by
  simp only [bodyEmptyNames, List.contains_cons, List.contains_nil, Bool.or_false, Bool.or_eq_false_iff,
    beq_eq_false_iff_ne, ne_eq] at h
  obtain ⟨h1, h2, h3, h4, h5, h6⟩ := h
  simp [bodyEmpty, h1, h2, h3, h4, h5, h6]

theorem stepOutline_unknown (rd : Str → Option Nat) (s : PS) (ob : OB) {n : Str} (a : Option (List Attr)) :
    (outlineStartNames.contains n = false → stepOutline rd s ob (.start n a) = .error .unexpectedElement) ∧
    (outlineEmptyNames.contains n = false → stepOutline rd s ob (.empty n a) = .error .unexpectedElement) := by
  constructor
  · intro h
    simp only [outlineStartNames, List.contains_cons, List.contains_nil, Bool.or_false, beq_eq_false_iff_ne, ne_eq] at h
    simp [stepOutline, h]
  · intro h
    simp only [outlineEmptyNames, List.contains_cons, List.contains_nil, Bool.or_false, Bool.or_eq_false_iff,
      beq_eq_false_iff_ne, ne_eq] at h
    simp [stepOutline, h.1, h.2]

theorem stepContour_unknown (rd : Str → Option Nat) (s : PS) (ob : OB) (cid : Option Str) (pts : List Point) {n : Str}
    (a : Option (List Attr)) :
    (contourEmptyNames.contains n = false → stepContour rd s ob cid pts (.empty n a) = .error .unexpectedElement) ∧
    stepContour rd s ob cid pts (.start n a) = .error .unexpectedElement := by
  constructor
  · intro h
    simp only [contourEmptyNames, List.contains_cons, List.contains_nil, Bool.or_false, beq_eq_false_iff_ne, ne_eq] at h
    simp [stepContour, h]
  · rfl

/-- in a format-1 glyph the listed elements are refused as such, whatever the rest of the state -/
theorem v1_refusals (rd : Str → Option Nat) (s : PS) (hv : s.ver = 1) {n : Str} (a : Option (List Attr)) :
    (v1RefusedEmpty.contains n = true → ∃ m, bodyEmpty rd s n a = .error (.unexpectedV1Element m)) ∧
    (v1RefusedStart.contains n = true → ∃ m, bodyStart s n = .error (.unexpectedV1Element m)) := by
  constructor
  · intro h
    simp only [v1RefusedEmpty, List.contains_cons, List.contains_nil, Bool.or_false, Bool.or_eq_true, beq_iff_eq] at h
    rcases h with rfl | rfl | rfl
    · exact ⟨"anchor", by simp +decide [bodyEmpty, hv]⟩
    · exact ⟨"guideline", by simp +decide [bodyEmpty, hv]⟩
    · exact ⟨"image", by simp +decide [bodyEmpty, hv]⟩
  · intro h
    simp only [v1RefusedStart, List.contains_cons, List.contains_nil, Bool.or_false, beq_iff_eq] at h
    subst h
    exact ⟨"note", by simp +decide [bodyStart, hv]⟩

/-! ### versions, end of input, error names -/

def modelVersions : List (Nat × Nat) := [(1, 0), (2, 0)]

theorem gFinish_ok_iff (acc : GlyphAcc) :
    (∃ r, gFinish acc = .ok r) ↔ acc.name.isSome = true ∧ modelVersions.contains (acc.major, acc.minor) = true := by
  unfold gFinish modelVersions
  cases acc.name with
  | none => simp
  | some n =>
    by_cases h1 : acc.major = 1 ∧ acc.minor = 0
    · simp [h1.1, h1.2]
    · by_cases h2 : acc.major = 2 ∧ acc.minor = 0
      · simp [h2.1, h2.2]
      · simp only [h1, h2, if_false, Option.isSome_some, true_and]
        constructor
        · rintro ⟨r, hr⟩; cases hr
        · intro h
          simp only [List.contains_cons, List.contains_nil, Bool.or_false, Bool.or_eq_true, beq_iff_eq, Prod.mk.injEq] at h
          rcases h with h | h
          · exact absurd h h1
          · exact absurd h h2

/-- the Rust `ErrorKind` variant a model kind stands for (kinds inside one element are erased by the model) -/
def Kind.rustName : Kind → Str
  | .xml => "Xml".toList
  | .wrongFirstElement => "WrongFirstElement".toList
  | .unsupportedVersion => "UnsupportedGlifVersion".toList
  | .glyphAttrs => "(glyph attribute)".toList
  | .duplicateElement _ => "DuplicateElement".toList
  | .unexpectedV1Element _ => "UnexpectedV1Element".toList
  | .unexpectedElement => "UnexpectedElement".toList
  | .missingCloseTag => "MissingCloseTag".toList
  | .unexpectedEof => "UnexpectedEof".toList
  | .badElement _ => "(element)".toList
  | .contour => "(contour)".toList
  | .badLib => "BadLib".toList
  | .libMustBeDictionary => "LibMustBeDictionary".toList
  | .objectLibsMustBeDictionary => "PublicObjectLibsMustBeDictionary".toList
  | .objectLibMustBeDictionary => "ObjectLibMustBeDictionary".toList

def ptRustName : C11.PT → Str
  | .move => "Move".toList
  | .line => "Line".toList
  | .off => "OffCurve".toList
  | .curve => "Curve".toList
  | .qcurve => "QCurve".toList

/-- the error of a step, by its Rust name -/
def stepErrName : StepRes → Option Str
  | .error k => some k.rustName
  | .ok _ => none

/-! ### names that only resemble a known name -/

/-- every element name some level of the parser knows -/
def allElementNames : List Str :=
  sGlyph :: (bodyStartNames ++ bodyEmptyNames ++ outlineStartNames ++ outlineEmptyNames ++ contourEmptyNames)
/-- every attribute name some attribute loop knows -/
def allAttrNames : List Str := gKeys ++ advKeys ++ uniKeys ++ aKeys ++ guKeys ++ iKeys ++ cKeys ++ pKeys ++ ctKeys
def knownNames : List Str := allElementNames ++ allAttrNames

def lettersOnly (T : List Str) : Bool := T.all (fun n => n.all Char.isAlpha)

/-- a known name consists of ASCII letters and nothing else -/
theorem knownNames_letters : lettersOnly knownNames = true := by decide

/-- a name with a character that is not an ASCII letter (a colon, a blank of any kind, a control character, a dot, a digit)
    is in no table that consists of letters only -/
theorem not_in_of_nonletter {T : List Str} (hT : lettersOnly T = true) {n : Str} {c : Char} (hc : c ∈ n)
    (hl : c.isAlpha = false) : T.contains n = false := by
  cases h : T.contains n with
  | false => rfl
  | true =>
    have hm : n ∈ T := List.contains_iff_mem.1 h
    have h1 := (List.all_eq_true.1 hT) n hm
    have h2 := (List.all_eq_true.1 h1) c hc
    rw [hl] at h2; cases h2

def lowerStr (n : Str) : Str := n.map Char.toLower

/-- no two different known names differ by case only -/
theorem knownNames_case : knownNames.all (fun a => knownNames.all (fun b => a == b || lowerStr a != lowerStr b)) = true := by
  decide +kernel

/-- a name that differs from a known name by case only is not a known name -/
theorem case_variant_unknown {n n' : Str} (hn : n ∈ knownNames) (hne : n' ≠ n) (hl : lowerStr n' = lowerStr n) :
    knownNames.contains n' = false := by
  cases h : knownNames.contains n' with
  | false => rfl
  | true =>
    have hm : n' ∈ knownNames := List.contains_iff_mem.1 h
    have h1 := (List.all_eq_true.1 ((List.all_eq_true.1 knownNames_case) n' hm)) n hn
    simp only [Bool.or_eq_true, beq_iff_eq, bne_iff_ne, ne_eq] at h1
    rcases h1 with h1 | h1
    · exact absurd h1 hne
    · exact absurd hl h1

theorem contains_false_of_sub {T U : List Str} (hs : U.all (T.contains ·) = true) {n : Str} (h : T.contains n = false) :
    U.contains n = false := by
  cases hu : U.contains n with
  | false => rfl
  | true =>
    have := (List.all_eq_true.1 hs) n (List.contains_iff_mem.1 hu)
    rw [h] at this; cases this

end Glif
