import Norad.Spec.Ufo3Read
/-!
Lemmas for C05: the specification-level reader inverts the specification-level writer, element by element.
-/
namespace Ufo3

theorem tag_elem (t : String) (a : List (String × String)) (c : List XNode) (x : String) :
    (XNode.elem t a c x).tag = t := rfl

theorem mapM_map_some {α β : Type} (f : β → Option α) (w : α → β) (h : ∀ x, f (w x) = some x) (l : List α) :
    (l.map w).mapM f = some l := by
  induction l with
  | nil => simp
  | cons a t ih => simp [List.mapM_cons, h, ih]

theorem filter_map_same {α : Type} (w : α → XNode) (t : String) (h : ∀ x, (w x).tag = t) (l : List α) :
    (l.map w).filter (hasTag t) = l.map w := by
  induction l with
  | nil => rfl
  | cons a r ih => simp [hasTag, h, ih]

theorem filter_map_other {α : Type} (w : α → XNode) (t t' : String) (h : ∀ x, (w x).tag = t') (hne : t' ≠ t)
    (l : List α) : (l.map w).filter (hasTag t) = [] := by
  induction l with
  | nil => rfl
  | cons a r ih => simp [hasTag, h, hne, ih]

theorem filter_map_tag {α : Type} (w : α → XNode) (t t' : String) (h : ∀ x, (w x).tag = t') (l : List α) :
    (l.map w).filter (hasTag t) = if t' = t then l.map w else [] := by
  by_cases e : t' = t
  · subst e; simp [filter_map_same w t' h l]
  · simp [e, filter_map_other w t t' h e l]

theorem all_map_tag {α : Type} (w : α → XNode) (t : String) (ts : List String) (h : ∀ x, (w x).tag = t)
    (hin : ts.contains t = true) (l : List α) : (l.map w).all (fun k => ts.contains k.tag) = true := by
  induction l with
  | nil => rfl
  | cons a r ih => simp only [List.map_cons, List.all_cons, h, hin, ih, Bool.and_self]

theorem attrNames_glyph : attrNames "glyph" = ["name", "format", "formatMinor"] := by decide
theorem attrNames_advance : attrNames "advance" = ["width", "height"] := by decide
theorem attrNames_unicode : attrNames "unicode" = ["hex"] := by decide
theorem attrNames_image : attrNames "image" =
    ["fileName", "xScale", "xyScale", "yxScale", "yScale", "xOffset", "yOffset", "color"] := by decide
theorem attrNames_guideline : attrNames "guideline" = ["x", "y", "angle", "name", "color", "identifier"] := by decide
theorem attrNames_anchor : attrNames "anchor" = ["x", "y", "name", "color", "identifier"] := by decide
theorem attrNames_contour : attrNames "contour" = ["identifier"] := by decide
theorem attrNames_point : attrNames "point" = ["x", "y", "type", "smooth", "name", "identifier"] := by decide
theorem attrNames_component : attrNames "component" =
    ["base", "xScale", "xyScale", "yxScale", "yScale", "xOffset", "yOffset", "identifier"] := by decide

section
variable (lx : Lex) (rd : Render) (hn : ∀ ns, lx.nums (rd.nums ns) = some ns) (hh : ∀ n, lx.hex (rd.hex n) = some n)
include hn

theorem readPoint_write (p : PointD) : readPoint lx (writePoint rd p) = some p := by
  obtain ⟨x, y, t, s, name, ident⟩ := p
  cases t <;> cases s <;> cases name <;> cases ident <;>
    simp [readPoint, writePoint, allowed, attrNames_point, optA, numReq, num1, hn, readPType, readSmooth,
          PType.str, List.lookup]

theorem readContour_write (c : ContourD) : readContour lx (writeContour rd c) = some c := by
  obtain ⟨ident, pts⟩ := c
  have h := mapM_map_some (readPoint lx) (writePoint rd) (readPoint_write lx rd hn) pts
  cases ident <;> simp [readContour, writeContour, allowed, attrNames_contour, optA, h, List.lookup]

theorem readTransform_write (t : Affine Num) (pre post : List (String × String))
    (hpre : ∀ k ∈ transformAttrs, pre.lookup k = none) :
    readTransform lx (pre ++ transformA rd t ++ post) = some t := by
  obtain ⟨a, b, c, d, e, f⟩ := t
  have h1 := hpre "xScale" (by decide)
  have h2 := hpre "xyScale" (by decide)
  have h3 := hpre "yxScale" (by decide)
  have h4 := hpre "yScale" (by decide)
  have h5 := hpre "xOffset" (by decide)
  have h6 := hpre "yOffset" (by decide)
  simp [readTransform, numDflt, transformA, num1, hn, List.lookup_append, h1, h2, h3, h4, h5, h6, List.lookup]

theorem readComponent_write (c : ComponentD) : readComponent lx (writeComponent rd c) = some c := by
  obtain ⟨base, t, ident⟩ := c
  have ht := readTransform_write lx rd hn t [("base", base)] (optA "identifier" ident)
    (by intro k hk; simp [transformAttrs] at hk; rcases hk with h | h | h | h | h | h <;> subst h <;> simp [List.lookup])
  simp only [writeComponent] at *
  cases ident <;>
    simp [readComponent, allowed, attrNames_component, optA, transformA, List.lookup] at ht ⊢ <;> simp [ht]

theorem colorOpt_write (c : Option ColorD) (pre post : List (String × String)) (hpre : pre.lookup "color" = none)
    (hpost : c = none → post.lookup "color" = none) :
    colorOpt lx (pre ++ colorA rd c ++ post) = some c := by
  cases c with
  | none => simp [colorOpt, colorA, List.lookup_append, hpre, hpost]
  | some c => obtain ⟨r, g, b, a⟩ := c; simp [colorOpt, colorA, List.lookup_append, hpre, hn, List.lookup]

theorem readAnchor_write (a : AnchorD) : readAnchor lx (writeAnchor rd a) = some a := by
  obtain ⟨x, y, name, color, ident⟩ := a
  cases name <;> cases color <;> cases ident <;>
    simp [readAnchor, writeAnchor, allowed, attrNames_anchor, optA, colorA, colorOpt, numReq, num1, hn, List.lookup]

theorem readGuideline_write (g : GuidelineD) : readGuideline lx (writeGuideline rd g) = some g := by
  obtain ⟨x, y, angle, name, color, ident⟩ := g
  cases x <;> cases y <;> cases angle <;> cases name <;> cases color <;> cases ident <;>
    simp [readGuideline, writeGuideline, allowed, attrNames_guideline, optA, optN, colorA, colorOpt, numOpt, num1, hn,
          List.lookup]

theorem readImage_write (i : ImageD) : readImage lx (writeImage rd i) = some i := by
  obtain ⟨fn, t, color⟩ := i
  have ht := readTransform_write lx rd hn t [("fileName", fn)] (colorA rd color)
    (by intro k hk; simp [transformAttrs] at hk; rcases hk with h | h | h | h | h | h <;> subst h <;> simp [List.lookup])
  simp only [writeImage] at *
  cases color <;>
    simp [readImage, allowed, attrNames_image, colorA, colorOpt, transformA, hn, List.lookup] at ht ⊢ <;> simp [ht]

theorem readAdvance_write (w h : Num) :
    readAdvance lx (.elem "advance" [("width", rd.nums [w]), ("height", rd.nums [h])] [] "") = some (w, h) := by
  simp [readAdvance, allowed, attrNames_advance, numDflt, num1, hn, List.lookup]

theorem readOutline_write (cs : List ContourD) (ks : List ComponentD) :
    readOutline lx (.elem "outline" [] (cs.map (writeContour rd) ++ ks.map (writeComponent rd)) "") = some (cs, ks) := by
  have hc := mapM_map_some (readContour lx) (writeContour rd) (readContour_write lx rd hn) cs
  have hk := mapM_map_some (readComponent lx) (writeComponent rd) (readComponent_write lx rd hn) ks
  have tc : ∀ c, (writeContour rd c).tag = "contour" := fun _ => rfl
  have tk : ∀ c, (writeComponent rd c).tag = "component" := fun _ => rfl
  have f1 := filter_map_same (writeContour rd) "contour" tc cs
  have f2 := filter_map_other (writeComponent rd) "contour" "component" tk (by decide) ks
  have f3 := filter_map_other (writeContour rd) "component" "contour" tc (by decide) cs
  have f4 := filter_map_same (writeComponent rd) "component" tk ks
  simp [readOutline, List.all_append, List.filter_append, f1, f2, f3, f4, hc, hk, tc, tk]

end

theorem readUnicode_write (lx : Lex) (rd : Render) (hh : ∀ n, lx.hex (rd.hex n) = some n) (u : Nat) :
    readUnicode lx (writeUnicode rd u) = some u := by
  simp [readUnicode, writeUnicode, allowed, attrNames_unicode, hh, List.lookup]

/-- the specification-level reader inverts the specification-level writer -/
theorem specRead_specWrite (lx : Lex) (rd : Render) (hn : ∀ ns, lx.nums (rd.nums ns) = some ns)
    (hh : ∀ n, lx.hex (rd.hex n) = some n) (g : GlyphD) : specRead lx (specWrite rd g) = some g := by
  obtain ⟨name, w, h, us, note, img, gs, ans, cs, ks, lib⟩ := g
  have tU : ∀ u, (writeUnicode rd u).tag = "unicode" := fun _ => rfl
  have tG : ∀ x, (writeGuideline rd x).tag = "guideline" := fun _ => rfl
  have tA : ∀ x, (writeAnchor rd x).tag = "anchor" := fun _ => rfl
  have tI : ∀ x, (writeImage rd x).tag = "image" := fun _ => rfl
  have fU := fun t => filter_map_tag (writeUnicode rd) t "unicode" tU us
  have fG := fun t => filter_map_tag (writeGuideline rd) t "guideline" tG gs
  have fA := fun t => filter_map_tag (writeAnchor rd) t "anchor" tA ans
  have mU := mapM_map_some (readUnicode lx) (writeUnicode rd) (readUnicode_write lx rd hh) us
  have mG := mapM_map_some (readGuideline lx) (writeGuideline rd) (readGuideline_write lx rd hn) gs
  have mA := mapM_map_some (readAnchor lx) (writeAnchor rd) (readAnchor_write lx rd hn) ans
  have hAdv := readAdvance_write lx rd hn w h
  have hOut := readOutline_write lx rd hn cs ks
  have hImg := readImage_write lx rd hn
  cases note <;> cases img <;> cases lib <;>
    simp [specRead, specWrite, allowed, attrNames_glyph, List.lookup, List.filter_append, List.all_append, fU, fG, fA,
          hasTag, tag_elem, optNode, glyphChildTags, atMostOne, mU, mG, mA, hAdv, hOut, hImg, readNote, readLib,
          tU, tG, tA, tI, zeroBits]

end Ufo3
