import Norad.Lemmas.C16Order
import Norad.Lemmas.StorePlan
/-! Lemmas for `store_plan_runs`: `FontSave.planDataItem` on a normal-component key is the pair of effects
    `StorePlan.itemEffs` on the entry's destination `<target>/data/<names>`. -/
namespace C16
open Path StoreOrder StorePlan AbsFS FontSave

theorem namesOf_ne_nil {k : Key} (hne : k ≠ []) (hrel : (parse k).abs = false)
    (hn : (parse k).allNormal = true) : namesOf (parse k) ≠ [] := by
  intro h
  have := allNormal_comps hn
  unfold namesOf at h
  rw [h] at this
  exact parse_comps_ne_nil hne hrel (by simpa using this)

/-- `FontSave.planDataItem` for a key with normal components is the pair of effects on the entry's destination -/
theorem planDataItem_eq (t : APath) (k : Key) (b : StoreOrder.Bytes) (hrel : (parse k).abs = false)
    (hn : (parse k).allNormal = true) :
    planDataItem t (parse k, b) = itemEffs (destOf (t ++ [storeDirName .data]) k, b) := by
  have hc := allNormal_comps hn
  have hjr : ∀ (base : List Comp) (p : P) (names : List (List Char)), p.abs = false →
      p.comps = names.map Comp.normal → joinRel base p = base ++ names.map Comp.normal := by
    intro base p names ha hcp
    unfold joinRel
    rw [if_neg (by simp [ha]), hcp]
    cases names <;> rfl
  have hj : joinRel (sub t "data") (parse k) = tC (destOf (t ++ [storeDirName .data]) k) := by
    rw [hjr _ _ _ hrel hc]
    unfold destOf namesOf sub tC
    simp [storeDirName, List.map_append]
  unfold planDataItem itemEffs
  simp only [hj]
  unfold tC
  rw [List.map_dropLast]

theorem joinRel_sub (t : APath) (dir : String) (k : Key) (hrel : (parse k).abs = false)
    (hn : (parse k).allNormal = true) :
    joinRel (sub t dir) (parse k) = tC (destOf (t ++ [dir.toList]) k) := by
  have hc := allNormal_comps hn
  have hjr : ∀ (base : List Comp) (p : P) (names : List (List Char)), p.abs = false →
      p.comps = names.map Comp.normal → joinRel base p = base ++ names.map Comp.normal := by
    intro base p names ha hcp
    unfold joinRel
    rw [if_neg (by simp [ha]), hcp]
    cases names <;> rfl
  rw [hjr _ _ _ hrel hc]
  unfold destOf namesOf sub tC
  simp [List.map_append]

theorem images_name : "images".toList = storeDirName .image := by decide

end C16
