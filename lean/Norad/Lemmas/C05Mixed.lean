import Norad.Lemmas.C05Order
/-!
# Documents that mix spelt-out and omitted defaults (C05)

`specWriteWith ch rdr d`: like `Ufo3.specWrite`, but at every attribute SITE whose value is the specification's default —
`type` of an off-curve point, `smooth` of a point that is not smooth, each of the six coefficients of each component and of
the image, `width` / `height` of the advance — an independent choice `ch` says whether the attribute is written or left out
(a value that is not the default is always written).  `ch` all-true is `specWrite` (everything spelt out), all-false the
minimal spelling.  Sites are addressed by position: `point ci pi`, `comp ki`.
-/
namespace C05Bridge
open Ufo3 Glif

/-- spell out `type="offcurve"` / `smooth="no"` at this point? -/
structure PtCh where
  typ : Bool
  smooth : Bool

/-- spell out a coefficient that has its default value? -/
abbrev TrCh := TKey → Bool

/-- one choice per attribute site of a document -/
structure Choice where
  advW : Bool
  advH : Bool
  image : TrCh
  point : Nat → Nat → PtCh
  comp : Nat → TrCh

/-- an attribute with a default: written when chosen or when the value is not the default -/
def coefA (rdr : Render) (spell : Bool) (k : String) (dflt v : Nat) : List (String × String) :=
  if spell || v != dflt then [(k, rdr.nums [v])] else []

def transformAWith (ch : TrCh) (rdr : Render) (t : Affine Nat) : List (String × String) :=
  coefA rdr (ch .xScale) "xScale" oneBits t.xScale ++ coefA rdr (ch .xyScale) "xyScale" zeroBits t.xyScale ++
  coefA rdr (ch .yxScale) "yxScale" zeroBits t.yxScale ++ coefA rdr (ch .yScale) "yScale" oneBits t.yScale ++
  coefA rdr (ch .xOffset) "xOffset" zeroBits t.xOffset ++ coefA rdr (ch .yOffset) "yOffset" zeroBits t.yOffset

def writePointWith (c : PtCh) (rdr : Render) (p : PointD) : XNode :=
  .elem "point" ([("x", rdr.nums [p.x]), ("y", rdr.nums [p.y])] ++
    (if c.typ || p.typ != .offcurve then [("type", p.typ.str)] else []) ++
    (if c.smooth || p.smooth then [("smooth", if p.smooth then "yes" else "no")] else []) ++
    optA "name" p.name ++ optA "identifier" p.identifier) [] ""

def writeComponentWith (ch : TrCh) (rdr : Render) (k : ComponentD) : XNode :=
  .elem "component" ([("base", k.base)] ++ transformAWith ch rdr k.t ++ optA "identifier" k.identifier) [] ""

def writeImageWith (ch : TrCh) (rdr : Render) (i : ImageD) : XNode :=
  .elem "image" ([("fileName", i.fileName)] ++ transformAWith ch rdr i.t ++ colorA rdr i.color) [] ""

/-- the points of a contour, site `i` of the list gets choice `ch i` -/
def writePointsWith (rdr : Render) : (Nat → PtCh) → List PointD → List XNode
  | _, [] => []
  | ch, p :: r => writePointWith (ch 0) rdr p :: writePointsWith rdr (fun i => ch (i + 1)) r

def writeContoursWith (rdr : Render) : (Nat → Nat → PtCh) → List ContourD → List XNode
  | _, [] => []
  | ch, c :: r =>
    .elem "contour" (optA "identifier" c.identifier) (writePointsWith rdr (ch 0) c.points) "" ::
      writeContoursWith rdr (fun i => ch (i + 1)) r

def writeComponentsWith (rdr : Render) : (Nat → TrCh) → List ComponentD → List XNode
  | _, [] => []
  | ch, k :: r => writeComponentWith (ch 0) rdr k :: writeComponentsWith rdr (fun i => ch (i + 1)) r

/-- **the specification-level writer with a free choice at every default-valued attribute site** -/
def specWriteWith (ch : Choice) (rdr : Render) (g : GlyphD) : XNode :=
  .elem "glyph" [("name", g.name), ("format", "2")]
    ([.elem "advance" (coefA rdr ch.advW "width" zeroBits g.width ++ coefA rdr ch.advH "height" zeroBits g.height) [] ""] ++
     g.unicodes.map (writeUnicode rdr) ++
     optNode (fun n => .elem "note" [] [] n) g.note ++
     optNode (writeImageWith ch.image rdr) g.image ++
     g.guidelines.map (writeGuideline rdr) ++
     g.anchors.map (writeAnchor rdr) ++
     [.elem "outline" [] (writeContoursWith rdr ch.point g.contours ++ writeComponentsWith rdr ch.comp g.components) ""] ++
     optNode (fun l => .elem "lib" [] [] l) g.lib) ""

section
variable {F : Fmt} {rd : Str → Option Nat} {rdr : Render} {nc : Color → Color} {ok : Nat → Prop}

/-- **point**, any choice -/
theorem point_same_with (hF : Codec F rd nc ok) (hP : ParseCodec rd rdr ok) (c : PtCh) {p : PointD} (hx : ok p.x) (hy : ok p.y)
    (hn : ∀ n, p.name = some n → validName (L n) = true) (seen : List Str) :
    parsePoint rd 2 seen (pointAttrs F (pointG p)) = parsePoint rd 2 seen (nodeAttrs (writePointWith c rdr p)) := by
  obtain ⟨x, y, typ, smooth, name, ident⟩ := p
  obtain ⟨ct, cs⟩ := c
  simp only at hx hy hn
  have f1 := hF.num _ hx; have f2 := hF.num _ hy
  have p1 := hP.num _ hx; have p2 := hP.num _ hy
  cases ct <;> cases cs <;> cases typ <;> cases smooth <;> cases name <;> cases ident <;>
    simp [pointAttrs, pointG, ptG, pointTypeAttr, optAttr, nodeAttrs, writePointWith, attrsL, optA, PType.str, parsePoint,
          foldAttrs, pStep, pApply, pFinish, f1, f2, p1, p2, hn, L] <;>
    (first | done | (split <;> simp_all [L]))

/-- **advance**, any choice -/
theorem advance_same_with (hF : Codec F rd nc ok) (hP : ParseCodec rd rdr ok) (cw chh : Bool) {w h : Nat} (hw : ok w) (hh : ok h)
    (sw : offsetStd w) (sh : offsetStd h) :
    parseAdvance rd (advanceAttrs F w h) =
      parseAdvance rd (attrsL (coefA rdr cw "width" zeroBits w ++ coefA rdr chh "height" zeroBits h)) := by
  have f1 := hF.num _ hw; have f2 := hF.num _ hh
  have p1 := hP.num _ hw; have p2 := hP.num _ hh
  have z : nonZero 0 = false := by decide
  rcases sw with sw | sw <;> rcases sh with sh | sh <;> cases cw <;> cases chh <;>
    by_cases e1 : w = 0 <;> by_cases e2 : h = 0 <;>
    simp_all [advanceAttrs, attrsL, coefA, zeroBits, parseAdvance, foldAttrs, advStep, advApply]

/-- the coefficients, each written or (when default) left out, folded by the component loop -/
theorem mixed_fold_component (hP : ParseCodec rd rdr ok) (ch : TrCh) (seen : List Str) {t : Affine Nat} (ht : okAffine ok t)
    (b i : Option Str) :
    foldAttrs (cStep rd 2 seen) { base := b, ident := i, transform := {} } (attrsL (transformAWith ch rdr t)) =
      some { base := b, ident := i, transform := trG t } := by
  obtain ⟨a, b', c, d, e, f'⟩ := t
  obtain ⟨h1, h2, h3, h4, h5, h6⟩ := ht
  simp only at h1 h2 h3 h4 h5 h6
  have n1 := hP.num _ h1; have n2 := hP.num _ h2; have n3 := hP.num _ h3
  have n4 := hP.num _ h4; have n5 := hP.num _ h5; have n6 := hP.num _ h6
  unfold transformAWith coefA
  by_cases g1 : (ch .xScale || a != oneBits) = true <;> by_cases g2 : (ch .xyScale || b' != zeroBits) = true <;>
  by_cases g3 : (ch .yxScale || c != zeroBits) = true <;> by_cases g4 : (ch .yScale || d != oneBits) = true <;>
  by_cases g5 : (ch .xOffset || e != zeroBits) = true <;> by_cases g6 : (ch .yOffset || f' != zeroBits) = true <;>
    simp only [g1, g2, g3, g4, g5, g6, if_true, if_false, Bool.false_eq_true] <;>
    simp [attrsL, foldAttrs, cStep, cApply, tSet, n1, n2, n3, n4, n5, n6, trG] <;>
    simp_all [oneBits, zeroBits, f64One]

theorem mixed_fold_image (hP : ParseCodec rd rdr ok) (ch : TrCh) {t : Affine Nat} (ht : okAffine ok t)
    (fn : Option Str) (col : Option Color) :
    foldAttrs (iStep rd) { fileName := fn, color := col, transform := {} } (attrsL (transformAWith ch rdr t)) =
      some { fileName := fn, color := col, transform := trG t } := by
  obtain ⟨a, b', c, d, e, f'⟩ := t
  obtain ⟨h1, h2, h3, h4, h5, h6⟩ := ht
  simp only at h1 h2 h3 h4 h5 h6
  have n1 := hP.num _ h1; have n2 := hP.num _ h2; have n3 := hP.num _ h3
  have n4 := hP.num _ h4; have n5 := hP.num _ h5; have n6 := hP.num _ h6
  unfold transformAWith coefA
  by_cases g1 : (ch .xScale || a != oneBits) = true <;> by_cases g2 : (ch .xyScale || b' != zeroBits) = true <;>
  by_cases g3 : (ch .yxScale || c != zeroBits) = true <;> by_cases g4 : (ch .yScale || d != oneBits) = true <;>
  by_cases g5 : (ch .xOffset || e != zeroBits) = true <;> by_cases g6 : (ch .yOffset || f' != zeroBits) = true <;>
    simp only [g1, g2, g3, g4, g5, g6, if_true, if_false, Bool.false_eq_true] <;>
    simp [attrsL, foldAttrs, iStep, iApply, tSet, n1, n2, n3, n4, n5, n6, trG] <;>
    simp_all [oneBits, zeroBits, f64One]

/-- **component**, any choice per coefficient -/
theorem component_same_with (hF : Codec F rd nc ok) (hP : ParseCodec rd rdr ok) (ch : TrCh) {k : ComponentD}
    (hb : validName (L k.base) = true) (ht : okAffine ok k.t) (hs : affineStd k.t) (seen : List Str) :
    parseComponent rd 2 seen (componentAttrs F (componentG k)) =
      parseComponent rd 2 seen (nodeAttrs (writeComponentWith ch rdr k)) := by
  obtain ⟨base, t, ident⟩ := k
  simp only at hb ht hs
  have e1 : foldAttrs (cStep rd 2 seen) {} [("base".toList, L base)] =
      some { base := some (L base), ident := none, transform := {} } := by
    simp [foldAttrs, cStep, cApply, hb]
  have e1' : foldAttrs (cStep rd 2 seen) {} (attrsL [("base", base)]) =
      some { base := some (L base), ident := none, transform := {} } := by
    simp [attrsL, foldAttrs, cStep, cApply, L] at hb ⊢; simp [hb]
  have hA : attrsL (optA "identifier" ident) = optAttr "identifier" (ident.map L) := by
    cases ident <;> simp [attrsL, optA, optAttr, L]
  unfold parseComponent
  simp only [componentAttrs, componentG, nodeAttrs, writeComponentWith, attrsL_append, hA]
  rw [foldAttrs_append, foldAttrs_append, foldAttrs_append, foldAttrs_append, e1, e1']
  simp only [Option.bind_some, transform_fold_component hF seen (okT_of ht), mixed_fold_component hP ch seen ht,
    normT_std hs]

/-- **image**, any choice per coefficient -/
theorem image_same_with (hF : Codec F rd nc ok) (hP : ParseCodec rd rdr ok) (ch : TrCh) {i : ImageD}
    (ht : okAffine ok i.t) (hs : affineStd i.t) (hcol : okColor ok i.color) (hnc : ncFixed nc i.color) :
    parseImage rd (imageAttrs F (imageG i)) = parseImage rd (nodeAttrs (writeImageWith ch rdr i)) := by
  obtain ⟨fn, t, color⟩ := i
  simp only at ht hs hcol hnc
  have hcl : ∀ c, color = some c → readCol rd (rdr.nums [c.r, c.g, c.b, c.a]).toList = some (colG c) :=
    fun c h => hP.col c (hcol c h).1 (hcol c h).2.1 (hcol c h).2.2.1 (hcol c h).2.2.2
  have hcf : ∀ c, color = some c → readCol rd (showColor F (colG c)) = some (colG c) := fun c h => colF hF c (hnc c h)
  have e1 : foldAttrs (iStep rd) {} [("fileName".toList, L fn)] =
      some { fileName := some (L fn), color := none, transform := {} } := by
    simp [foldAttrs, iStep, iApply]
  have e1' : foldAttrs (iStep rd) {} (attrsL [("fileName", fn)]) =
      some { fileName := some (L fn), color := none, transform := {} } := by
    simp [attrsL, foldAttrs, iStep, iApply, L]
  unfold parseImage
  simp only [imageAttrs, imageG, nodeAttrs, writeImageWith, attrsL_append]
  rw [foldAttrs_append, foldAttrs_append, foldAttrs_append, foldAttrs_append, e1, e1']
  simp only [Option.bind_some, transform_fold_image hF (okT_of ht), mixed_fold_image hP ch ht, normT_std hs]
  cases color <;> simp [optAttr, colorA, attrsL, foldAttrs, iStep, iApply, hcl, hcf]

/-! ### the document -/

def pointEvsWith (rdr : Render) : (Nat → PtCh) → List PointD → List Ev
  | _, [] => []
  | ch, p :: r => Ev.empty sPoint (some (nodeAttrs (writePointWith (ch 0) rdr p))) :: pointEvsWith rdr (fun i => ch (i + 1)) r

def contourEvsWith (rdr : Render) : (Nat → Nat → PtCh) → List ContourD → List Ev
  | _, [] => []
  | ch, c :: r =>
    (.start sContour (some (optAttr "identifier" (c.identifier.map L))) ::
      (pointEvsWith rdr (ch 0) c.points ++ [.close sContour])) ++ contourEvsWith rdr (fun i => ch (i + 1)) r

def componentEvsWith (rdr : Render) : (Nat → TrCh) → List ComponentD → List Ev
  | _, [] => []
  | ch, k :: r =>
    Ev.empty sComponent (some (nodeAttrs (writeComponentWith (ch 0) rdr k))) :: componentEvsWith rdr (fun i => ch (i + 1)) r

theorem leafEv_pointsWith : ∀ (ch : Nat → PtCh) (ps : List PointD),
    (writePointsWith rdr ch ps).map leafEv = pointEvsWith rdr ch ps
  | _, [] => rfl
  | ch, p :: r => by
    simp only [writePointsWith, pointEvsWith, List.map_cons, leafEv_pointsWith]
    simp [leafEv, writePointWith, nodeAttrs, toList_point]

theorem outlineChild_contoursWith : ∀ (ch : Nat → Nat → PtCh) (cs : List ContourD),
    (writeContoursWith rdr ch cs).flatMap outlineChildEvs = contourEvsWith rdr ch cs
  | _, [] => rfl
  | ch, c :: r => by
    have hA : attrsL (optA "identifier" c.identifier) = optAttr "identifier" (c.identifier.map L) := by
      cases c.identifier <;> simp [attrsL, optA, optAttr, L]
    simp only [writeContoursWith, contourEvsWith, List.flatMap_cons, outlineChild_contoursWith]
    simp [outlineChildEvs, XNode.tag, contourEvsOf, toList_contour, hA, leafEv_pointsWith]

theorem outlineChild_componentsWith : ∀ (ch : Nat → TrCh) (ks : List ComponentD),
    (writeComponentsWith rdr ch ks).flatMap outlineChildEvs = componentEvsWith rdr ch ks
  | _, [] => rfl
  | ch, k :: r => by
    simp only [writeComponentsWith, componentEvsWith, List.flatMap_cons, outlineChild_componentsWith]
    simp [outlineChildEvs, writeComponentWith, XNode.tag, leafEv, nodeAttrs, toList_component]

/-- the body of the mixed document, event by event -/
def bodySWith (ch : Choice) (rl : String → LibV) (rdr : Render) (d : GlyphD) : List Ev :=
  [Ev.empty sAdvance (some (attrsL (coefA rdr ch.advW "width" zeroBits d.width ++ coefA rdr ch.advH "height" zeroBits d.height)))] ++
  d.unicodes.map (fun c => Ev.empty sUnicode (some (nodeAttrs (writeUnicode rdr c)))) ++
  (match d.note with
   | none => []
   | some n => .start sNote (some []) :: ((if n.isEmpty then [] else [.text (some n.toList)]) ++ [.close sNote])) ++
  (match d.image with | none => [] | some i => [Ev.empty sImage (some (nodeAttrs (writeImageWith ch.image rdr i)))]) ++
  d.guidelines.map (fun g => Ev.empty sGuideline (some (nodeAttrs (writeGuideline rdr g)))) ++
  d.anchors.map (fun a => Ev.empty sAnchor (some (nodeAttrs (writeAnchor rdr a)))) ++
  (.start sOutline (some []) ::
    (contourEvsWith rdr ch.point d.contours ++ componentEvsWith rdr ch.comp d.components ++ [.close sOutline])) ++
  (match d.lib with | none => [] | some t => [.startLib (some []) (rl t), .close sLib])

theorem events_of_specWriteWith (ch : Choice) (rl : String → LibV) (d : GlyphD) :
    eventsOf rl (specWriteWith ch rdr d) =
      .decl :: .start sGlyph (some [("name".toList, L d.name), ("format".toList, ['2'])]) ::
        (bodySWith ch rl rdr d ++ [.close sGlyph]) := by
  have hU := flatMap_single (fun c => glyphChildEvs rl (writeUnicode rdr c))
    (fun c => Ev.empty sUnicode (some (nodeAttrs (writeUnicode rdr c))))
    (fun c => by simp [glyphChildEvs, writeUnicode, nodeAttrs, toList_unicode]) d.unicodes
  have hG := flatMap_single (fun g => glyphChildEvs rl (writeGuideline rdr g))
    (fun g => Ev.empty sGuideline (some (nodeAttrs (writeGuideline rdr g))))
    (fun g => by simp [glyphChildEvs, writeGuideline, nodeAttrs, toList_guideline]) d.guidelines
  have hA := flatMap_single (fun a => glyphChildEvs rl (writeAnchor rdr a))
    (fun a => Ev.empty sAnchor (some (nodeAttrs (writeAnchor rdr a))))
    (fun a => by simp [glyphChildEvs, writeAnchor, nodeAttrs, toList_anchor]) d.anchors
  have hImg : ∀ i, glyphChildEvs rl (writeImageWith ch.image rdr i) =
      [Ev.empty sImage (some (nodeAttrs (writeImageWith ch.image rdr i)))] :=
    fun i => by simp [glyphChildEvs, writeImageWith, nodeAttrs, toList_image]
  have hAdv : ∀ as, glyphChildEvs rl (.elem "advance" as [] "") = [Ev.empty sAdvance (some (attrsL as))] :=
    fun as => by simp [glyphChildEvs, toList_advance]
  have hOut : ∀ kids, glyphChildEvs rl (.elem "outline" [] kids "") =
      .start sOutline (some []) :: (kids.flatMap outlineChildEvs ++ [.close sOutline]) :=
    fun kids => by simp [glyphChildEvs, toList_outline, attrsL]
  unfold specWriteWith eventsOf bodySWith
  simp only [List.flatMap_append, List.flatMap_map, hU, hG, hA]
  cases d.note <;> cases d.image <;> cases d.lib <;>
    simp [optNode, hAdv, hOut, childEvs_note, childEvs_lib, hImg, toList_glyph, attrsL, L,
          List.flatMap_append, outlineChild_contoursWith, outlineChild_componentsWith, List.append_assoc]

theorem points_same_with (hF : Codec F rd nc ok) (hP : ParseCodec rd rdr ok) : ∀ (ch : Nat → PtCh) (ps : List PointD),
    (∀ p, p ∈ ps → ok p.x ∧ ok p.y ∧ (∀ n, p.name = some n → validName (L n) = true)) →
    EvsSame rd (ps.map (fun p => pointEv F (pointG p))) (pointEvsWith rdr ch ps)
  | _, [], _ => .nil
  | ch, p :: r, h => by
    obtain ⟨h1, h2, h3⟩ := h p List.mem_cons_self
    exact .cons (stepSame_point rd (point_same_with hF hP (ch 0) h1 h2 h3))
      (points_same_with hF hP _ r (fun q hq => h q (List.mem_cons_of_mem _ hq)))

theorem contours_same_with (hF : Codec F rd nc ok) (hP : ParseCodec rd rdr ok) : ∀ (ch : Nat → Nat → PtCh) (cs : List ContourD),
    (∀ c, c ∈ cs → ∀ p, p ∈ c.points → ok p.x ∧ ok p.y ∧ (∀ n, p.name = some n → validName (L n) = true)) →
    EvsSame rd (cs.flatMap (contourEvsR F)) (contourEvsWith rdr ch cs)
  | _, [], _ => .nil
  | ch, c :: r, h => by
    simp only [List.flatMap_cons, contourEvsWith]
    refine EvsSame.append rd ?_ (contours_same_with hF hP _ r (fun x hx => h x (List.mem_cons_of_mem _ hx)))
    unfold contourEvsR
    exact .cons (StepSame.rfl' rd _)
      (EvsSame.append rd (points_same_with hF hP (ch 0) c.points (h c List.mem_cons_self)) (EvsSame.refl rd _))

theorem components_same_with (hF : Codec F rd nc ok) (hP : ParseCodec rd rdr ok) : ∀ (ch : Nat → TrCh) (ks : List ComponentD),
    (∀ k, k ∈ ks → validName (L k.base) = true ∧ okAffine ok k.t ∧ affineStd k.t) →
    EvsSame rd (ks.map (fun k => componentEv F (componentG k))) (componentEvsWith rdr ch ks)
  | _, [], _ => .nil
  | ch, k :: r, h => by
    obtain ⟨h1, h2, h3⟩ := h k List.mem_cons_self
    exact .cons (stepSame_component rd (component_same_with hF hP (ch 0) h1 h2 h3))
      (components_same_with hF hP _ r (fun q hq => h q (List.mem_cons_of_mem _ hq)))

theorem body_same_with (hF : Codec F rd nc ok) (hP : ParseCodec rd rdr ok) (ch : Choice) (rl : String → LibV) (libD : Dict)
    (d : GlyphD) (hv : DescOK ok nc d) (hl : ∀ t, d.lib = some t → rl t = .dict libD) :
    EvsSame rd (bodyR F libD d ++ [.close sGlyph]) (bodySWith ch rl rdr d ++ [.close sGlyph]) := by
  unfold bodyR bodySWith
  refine EvsSame.append rd (EvsSame.append rd (EvsSame.append rd (EvsSame.append rd (EvsSame.append rd (EvsSame.append rd
    (EvsSame.append rd (EvsSame.append rd ?adv ?uni) ?note) ?img) ?gl) ?an) ?out) ?lib) (EvsSame.refl rd _)
  case adv =>
    exact .cons (stepSame_advance rd (advance_same_with hF hP ch.advW ch.advH hv.width hv.height hv.wstd hv.hstd)) .nil
  case uni =>
    exact EvsSame.map rd _ _ _ (fun c hc => stepSame_unicode rd (unicode_same hP (hv.unicodes c hc)))
  case note => exact EvsSame.refl rd _
  case img =>
    cases hi : d.image with
    | none => exact .nil
    | some i =>
      obtain ⟨h1, h2, h3, h4⟩ := hv.image i hi
      exact .cons (stepSame_image rd (image_same_with hF hP ch.image h1 h2 h3 h4)) .nil
  case gl =>
    refine EvsSame.map rd _ _ _ (fun g hg => ?_)
    obtain ⟨⟨l, h0⟩, h1, h2, h3, h4, h5, h6⟩ := hv.guidelines g hg
    exact stepSame_guideline rd (guideline_same hF hP h0 h1 h2 h3 h4 h5 h6)
  case an =>
    refine EvsSame.map rd _ _ _ (fun a ha => ?_)
    obtain ⟨h1, h2, h3, h4, h5⟩ := hv.anchors a ha
    exact stepSame_anchor rd (anchor_same hF hP h1 h2 h3 h4 h5)
  case out =>
    exact .cons (StepSame.rfl' rd _) (EvsSame.append rd (EvsSame.append rd
      (contours_same_with hF hP ch.point d.contours hv.points) (components_same_with hF hP ch.comp d.components hv.components))
      (EvsSame.refl rd _))
  case lib =>
    cases hlib : d.lib with
    | none => exact .nil
    | some t => dsimp only; rw [hl t hlib]; exact EvsSame.refl rd _

/-- **norad's parser reads every mixed document**: whatever is chosen at each default-valued attribute site -/
theorem parse_specWriteWith (hF : Codec F rd nc ok) (hP : ParseCodec rd rdr ok) (ch : Choice) (rl : String → LibV) (libD : Dict)
    (d : GlyphD) (hd : DescLegal ok nc d) (hl : ∀ t, d.lib = some t → rl t = .dict libD) :
    parseGlif rd (eventsOf rl (specWriteWith ch rdr d)) = loadObjectLibs (glyphOf nc libD d) := by
  rw [← interp_gdocOf,
    ← legal_accepted_gdoc hF (gdocOf libD d) (by intro e he; simp [gdocOf] at he; subst he; rfl) hd.name
      (legalItems_of_descLegal libD hd)]
  rw [events_of_specWriteWith]
  have hr : render F (gdocOf libD d) =
      .decl :: .start sGlyph (some [("name".toList, L d.name), ("format".toList, ['2'])]) ::
        (bodyR F libD d ++ [.close sGlyph]) := by
    simp [render, gdocOf, glyphStartAttrs, render_items]
  rw [hr]
  have hg := glyphAttrs_roundtrip hd.name
  simp only [parseGlif, scanStart, if_true, hg]
  exact (run_evssame rd (body_same_with hF hP ch rl libD d hd.desc hl) _ rfl).symm

end
end C05Bridge
