import Norad.Lemmas.C05Doc
/-!
# Any element order, comments anywhere (C05)

`ItemsPerm items items'`: `items'` is `items` with top-level items of DIFFERENT families exchanged (any permutation that
keeps the relative order inside each list-valued family: code points, anchors, guidelines; there is at most one advance,
image, outline, lib, note), comments inserted between items, and — inside `outline` — contours and components
interleaved differently (`OItsPerm`), comments between them and between the points of a contour (`CItsPerm`).

The glyph a document describes (`Glif.interp`), the legality of its items (`Glif.LegalItems`) are invariant under
`ItemsPerm`; `Glif.legal_accepted` (items in any order, comments anywhere, attributes in any order) then gives the result
for every such re-ordering of the document of a legal description.  In particular `<lib>` may come BEFORE the objects
whose libs it carries: `load_object_libs` runs at `</glyph>`, on the same glyph.
-/
namespace C05Bridge
open Ufo3 Glif

/-! ### families -/

def famB : BIt → Nat
  | .advance .. => 0 | .unicode _ => 1 | .image _ => 2 | .outline _ => 3 | .emptyOutline _ => 4
  | .anchor _ => 5 | .guideline _ => 6 | .lib _ => 7 | .note _ => 8 | .comment => 9

def famO : OIt → Nat
  | .contour .. => 0 | .emptyContour _ => 1 | .component _ => 2 | .comment => 3

/-- comments inserted between the points of a contour -/
inductive CItsPerm : List CIt → List CIt → Prop
  | refl (l : List CIt) : CItsPerm l l
  | comment (l : List CIt) : CItsPerm l (.comment :: l)
  | cons (a : CIt) {l l' : List CIt} : CItsPerm l l' → CItsPerm (a :: l) (a :: l')
  | trans {a b c : List CIt} : CItsPerm a b → CItsPerm b c → CItsPerm a c

/-- contours and components interleaved differently, comments inserted, comments inside contours -/
inductive OItsPerm : List OIt → List OIt → Prop
  | refl (l : List OIt) : OItsPerm l l
  | swap (a b : OIt) (l : List OIt) : famO a ≠ famO b → OItsPerm (a :: b :: l) (b :: a :: l)
  | comment (l : List OIt) : OItsPerm l (.comment :: l)
  | contour (cid : Option Str) {its its' : List CIt} (l : List OIt) : CItsPerm its its' →
      OItsPerm (.contour cid its :: l) (.contour cid its' :: l)
  | cons (a : OIt) {l l' : List OIt} : OItsPerm l l' → OItsPerm (a :: l) (a :: l')
  | trans {a b c : List OIt} : OItsPerm a b → OItsPerm b c → OItsPerm a c

/-- **a different element order for the same data**: items of different families exchanged, comments inserted, the
    outline re-arranged inside -/
inductive ItemsPerm : List BIt → List BIt → Prop
  | refl (l : List BIt) : ItemsPerm l l
  | swap (a b : BIt) (l : List BIt) : famB a ≠ famB b → ItemsPerm (a :: b :: l) (b :: a :: l)
  | comment (l : List BIt) : ItemsPerm l (.comment :: l)
  | outline {its its' : List OIt} (l : List BIt) : OItsPerm its its' → ItemsPerm (.outline its :: l) (.outline its' :: l)
  | cons (a : BIt) {l l' : List BIt} : ItemsPerm l l' → ItemsPerm (a :: l) (a :: l')
  | trans {a b c : List BIt} : ItemsPerm a b → ItemsPerm b c → ItemsPerm a c

/-! ### inside a contour -/

theorem cits_pts {l l' : List CIt} (h : CItsPerm l l') : l'.flatMap CIt.pts = l.flatMap CIt.pts := by
  induction h with
  | refl => rfl
  | comment l => simp [List.flatMap_cons, CIt.pts]
  | cons a _ ih => simp [List.flatMap_cons, ih]
  | trans _ _ ih1 ih2 => rw [ih2, ih1]

theorem cits_ids {l l' : List CIt} (h : CItsPerm l l') : l'.flatMap CIt.ids = l.flatMap CIt.ids := by
  induction h with
  | refl => rfl
  | comment l => simp [List.flatMap_cons, CIt.ids]
  | cons a _ ih => simp [List.flatMap_cons, ih]
  | trans _ _ ih1 ih2 => rw [ih2, ih1]

theorem cits_ok {ok : Nat → Prop} {l l' : List CIt} (h : CItsPerm l l') (hl : ∀ it, it ∈ l → it.OK ok) :
    ∀ it, it ∈ l' → it.OK ok := by
  induction h with
  | refl => exact hl
  | comment l =>
    intro it hit
    rcases List.mem_cons.1 hit with rfl | hit
    · trivial
    · exact hl it hit
  | cons a _ ih =>
    intro it hit
    rcases List.mem_cons.1 hit with rfl | hit
    · exact hl _ List.mem_cons_self
    · exact ih (fun x hx => hl x (List.mem_cons_of_mem _ hx)) it hit
  | trans _ _ ih1 ih2 => exact ih2 (ih1 hl)

/-! ### inside the outline -/

theorem applyO_comm (ob : OB) (a b : OIt) (h : famO a ≠ famO b) : applyO (applyO ob a) b = applyO (applyO ob b) a := by
  cases a <;> cases b <;> simp [famO] at h <;> simp [applyO] <;> (try split) <;> simp

theorem oits_fold {l l' : List OIt} (h : OItsPerm l l') : ∀ ob, l'.foldl applyO ob = l.foldl applyO ob := by
  induction h with
  | refl => intro ob; rfl
  | swap a b l hab => intro ob; simp only [List.foldl_cons, applyO_comm ob a b hab]
  | comment l => intro ob; simp [List.foldl_cons, applyO]
  | contour cid l hc => intro ob; simp only [List.foldl_cons, applyO, cits_pts hc]
  | cons a _ ih => intro ob; simp only [List.foldl_cons, ih]
  | trans _ _ ih1 ih2 => intro ob; rw [ih2, ih1]

theorem oits_ids {l l' : List OIt} (h : OItsPerm l l') : (l.flatMap OIt.ids).Perm (l'.flatMap OIt.ids) := by
  induction h with
  | refl => exact List.Perm.refl _
  | swap a b l _ =>
    simp only [List.flatMap_cons, ← List.append_assoc]
    exact List.Perm.append_right _ List.perm_append_comm
  | comment l => simp [List.flatMap_cons, OIt.ids]
  | contour cid l hc => simp [List.flatMap_cons, OIt.ids, cits_ids hc]
  | cons a _ ih => simp only [List.flatMap_cons]; exact List.Perm.append_left _ ih
  | trans _ _ ih1 ih2 => exact ih1.trans ih2

theorem oits_ok {ok : Nat → Prop} {l l' : List OIt} (h : OItsPerm l l') (hl : ∀ it, it ∈ l → it.OK ok) :
    ∀ it, it ∈ l' → it.OK ok := by
  induction h with
  | refl => exact hl
  | swap a b l _ =>
    intro it hit
    apply hl
    simp only [List.mem_cons] at hit ⊢
    rcases hit with h | h | h
    · exact Or.inr (Or.inl h)
    · exact Or.inl h
    · exact Or.inr (Or.inr h)
  | comment l =>
    intro it hit
    rcases List.mem_cons.1 hit with rfl | hit
    · trivial
    · exact hl it hit
  | contour cid l hc =>
    intro it hit
    rcases List.mem_cons.1 hit with rfl | hit
    · obtain ⟨h1, h2, h3⟩ := (hl _ List.mem_cons_self : (OIt.contour cid _).OK ok)
      exact ⟨cits_ok hc h1, by rw [cits_pts hc]; exact h2, h3⟩
    · exact hl it (List.mem_cons_of_mem _ hit)
  | cons a _ ih =>
    intro it hit
    rcases List.mem_cons.1 hit with rfl | hit
    · exact hl _ List.mem_cons_self
    · exact ih (fun x hx => hl x (List.mem_cons_of_mem _ hx)) it hit
  | trans _ _ ih1 ih2 => exact ih2 (ih1 hl)

/-! ### the body -/

theorem applyG_comm (nc : Color → Color) (g : Glyph) (a b : BIt) (h : famB a ≠ famB b) :
    applyG nc (applyG nc g a) b = applyG nc (applyG nc g b) a := by
  cases a <;> cases b <;> simp [famB] at h <;>
    (first
      | rfl
      | (rename_i t; cases t <;> rfl)
      | (rename_i t _; cases t <;> rfl)
      | (rename_i t _ _; cases t <;> rfl)
      | (rename_i _ t; cases t <;> rfl)
      | (rename_i t1 t2; cases t1 <;> cases t2 <;> rfl))

theorem items_fold (nc : Color → Color) {l l' : List BIt} (h : ItemsPerm l l') :
    ∀ g, l'.foldl (applyG nc) g = l.foldl (applyG nc) g := by
  induction h with
  | refl => intro g; rfl
  | swap a b l hab => intro g; simp only [List.foldl_cons, applyG_comm nc g a b hab]
  | comment l => intro g; simp [List.foldl_cons, applyG]
  | outline l ho => intro g; simp only [List.foldl_cons, applyG, oits_fold ho]
  | cons a _ ih => intro g; simp only [List.foldl_cons, ih]
  | trans _ _ ih1 ih2 => intro g; rw [ih2, ih1]

theorem items_ids {l l' : List BIt} (h : ItemsPerm l l') : (l.flatMap BIt.ids).Perm (l'.flatMap BIt.ids) := by
  induction h with
  | refl => exact List.Perm.refl _
  | swap a b l _ =>
    simp only [List.flatMap_cons, ← List.append_assoc]
    exact List.Perm.append_right _ List.perm_append_comm
  | comment l => simp [List.flatMap_cons, BIt.ids]
  | outline l ho =>
    simp only [List.flatMap_cons, BIt.ids]
    exact List.Perm.append_right _ (oits_ids ho)
  | cons a _ ih => simp only [List.flatMap_cons]; exact List.Perm.append_left _ ih
  | trans _ _ ih1 ih2 => exact ih1.trans ih2

theorem items_ok {ok : Nat → Prop} {l l' : List BIt} (h : ItemsPerm l l') (hl : ∀ it, it ∈ l → it.OK ok) :
    ∀ it, it ∈ l' → it.OK ok := by
  induction h with
  | refl => exact hl
  | swap a b l _ =>
    intro it hit
    apply hl
    simp only [List.mem_cons] at hit ⊢
    rcases hit with h | h | h
    · exact Or.inr (Or.inl h)
    · exact Or.inl h
    · exact Or.inr (Or.inr h)
  | comment l =>
    intro it hit
    rcases List.mem_cons.1 hit with rfl | hit
    · trivial
    · exact hl it hit
  | outline l ho =>
    intro it hit
    rcases List.mem_cons.1 hit with rfl | hit
    · exact oits_ok ho (hl _ List.mem_cons_self : (BIt.outline _).OK ok)
    · exact hl it (List.mem_cons_of_mem _ hit)
  | cons a _ ih =>
    intro it hit
    rcases List.mem_cons.1 hit with rfl | hit
    · exact hl _ List.mem_cons_self
    · exact ih (fun x hx => hl x (List.mem_cons_of_mem _ hx)) it hit
  | trans _ _ ih1 ih2 => exact ih2 (ih1 hl)

/-- a counting predicate that does not see comments and does not look inside the outline -/
def Blind (p : BIt → Bool) : Prop := p .comment = false ∧ ∀ its its', p (.outline its) = p (.outline its')

theorem items_count {p : BIt → Bool} (hp : Blind p) {l l' : List BIt} (h : ItemsPerm l l') : l'.countP p = l.countP p := by
  induction h with
  | refl => rfl
  | swap a b l _ => simp only [List.countP_cons]; omega
  | comment l => simp [List.countP_cons, hp.1]
  | @outline its its' l _ => simp only [List.countP_cons, hp.2 its' its]
  | cons a _ ih => simp only [List.countP_cons, ih]
  | trans _ _ ih1 ih2 => rw [ih2, ih1]

/-- **legality is invariant** -/
theorem legalItems_perm {ok : Nat → Prop} {l l' : List BIt} (h : ItemsPerm l l') (hL : LegalItems ok l) : LegalItems ok l' :=
  { valid := items_ok h hL.valid
    ids := (items_ids h).nodup_iff.1 hL.ids
    advance := by rw [items_count ⟨rfl, fun _ _ => rfl⟩ h]; exact hL.advance
    outline := by rw [items_count ⟨rfl, fun _ _ => rfl⟩ h]; exact hL.outline
    lib := by rw [items_count ⟨rfl, fun _ _ => rfl⟩ h]; exact hL.lib
    note := by rw [items_count ⟨rfl, fun _ _ => rfl⟩ h]; exact hL.note
    image := by rw [items_count ⟨rfl, fun _ _ => rfl⟩ h]; exact hL.image }

/-- **the described glyph is invariant** -/
theorem interp_perm (nc : Color → Color) (libD : Dict) (d : GlyphD) {items : List BIt} (h : ItemsPerm (itemsOf libD d) items)
    (pro tr : List Ev) (minor : Bool) :
    interp nc { prolog := pro, name := L d.name, minor := minor, items := items, trailer := tr } = glyphOf nc libD d := by
  rw [← interp_gdocOf]
  unfold interp gdocOf
  rw [foldl_applyB_g, foldl_applyB_g]
  exact items_fold nc h _

section
variable {F : Fmt} {rd : Str → Option Nat} {nc : Color → Color} {ok : Nat → Prop}

/-- **any element order, comments anywhere, any attribute order, defaults omitted**: accepted, same glyph -/
theorem parse_any_order (hF : Codec F rd nc ok) (libD : Dict) (d : GlyphD) (hd : DescLegal ok nc d)
    {items : List BIt} (hi : ItemsPerm (itemsOf libD d) items)
    (pro tr : List Ev) (minor : Bool) (hp : ∀ e, e ∈ pro → isProlog e = true)
    (hol : ∀ v, dictGet objectLibsKey (glyphOf nc libD d).lib = some v → ∃ ol, v = PV.dict ol ∧ AllDicts ol)
    {evs : List Ev}
    (hperm : EvsPerm (render F { prolog := pro, name := L d.name, minor := minor, items := items, trailer := tr }) evs) :
    ∃ g, parseGlif rd evs = .ok g ∧ loadObjectLibs (glyphOf nc libD d) = .ok g := by
  have hI := interp_perm nc libD d hi pro tr minor
  have := legal_accepted hF { prolog := pro, name := L d.name, minor := minor, items := items, trailer := tr }
    hp hd.name (legalItems_perm hi (legalItems_of_descLegal libD hd)) (by rw [hI]; exact hol) hperm
  rwa [hI] at this

end
end C05Bridge
