import Norad.Base.StrMap
/-! Lemmas about the association-list vocabulary (`Base/StrMap.lean`). -/
namespace StrMap

variable {β : Type}

theorem lookup_cons_ne {k u : Str} {v : β} {m : List (Str × β)} (h : u ≠ k) :
    lookup k ((u, v) :: m) = lookup k m := by simp [lookup, h]

theorem lookup_cons_self {k : Str} {v : β} {m : List (Str × β)} :
    lookup k ((k, v) :: m) = some v := by simp [lookup]

theorem hasKey_iff_mem_keys {k : Str} {m : List (Str × β)} : hasKey k m = true ↔ k ∈ keys m := by
  induction m with
  | nil => simp [hasKey, lookup, keys]
  | cons e r ih =>
    obtain ⟨k', v⟩ := e
    by_cases h : k' = k
    · subst h; simp [hasKey, lookup, keys]
    · have : hasKey k ((k', v) :: r) = hasKey k r := by simp [hasKey, lookup, h]
      rw [this, ih]; simp [keys]; intro h'; exact absurd h'.symm h

theorem hasKey_false_iff {k : Str} {m : List (Str × β)} : hasKey k m = false ↔ k ∉ keys m := by
  rw [← hasKey_iff_mem_keys]; simp

theorem hasKey_cons {k u : Str} {v : β} {m : List (Str × β)} :
    hasKey k ((u, v) :: m) = (decide (u = k) || hasKey k m) := by
  by_cases h : u = k <;> simp [hasKey, lookup, h]

theorem lookup_isSome_of_hasKey {k : Str} {m : List (Str × β)} (h : hasKey k m = true) :
    ∃ v, lookup k m = some v := by
  simp only [hasKey] at h
  exact Option.isSome_iff_exists.mp h

theorem lookup_mem {k : Str} {v : β} {m : List (Str × β)} (h : lookup k m = some v) : (k, v) ∈ m := by
  induction m with
  | nil => simp [lookup] at h
  | cons e r ih =>
    obtain ⟨k', v'⟩ := e
    by_cases hk : k' = k
    · subst hk; simp [lookup] at h; subst h; simp
    · simp [lookup, hk] at h; exact List.mem_cons_of_mem _ (ih h)

theorem hasKey_false_ne {u k : Str} {m : List (Str × β)} (hu : hasKey u m = false)
    (hk : hasKey k m = true) : u ≠ k := by
  intro h; subst h; simp [hu] at hk

/-! ### erase / insert -/

theorem erase_cons_eq {k : Str} {v : β} {m : List (Str × β)} : erase k ((k, v) :: m) = erase k m := by
  simp [erase, List.filter_cons]

theorem erase_cons_ne {k k' : Str} {v : β} {m : List (Str × β)} (h : k' ≠ k) :
    erase k ((k', v) :: m) = (k', v) :: erase k m := by
  simp [erase, List.filter_cons, h]

theorem lookup_erase_self {k : Str} {m : List (Str × β)} : lookup k (erase k m) = none := by
  induction m with
  | nil => simp [erase, lookup]
  | cons e r ih =>
    obtain ⟨k', v⟩ := e
    by_cases h : k' = k
    · subst h; rw [erase_cons_eq]; exact ih
    · rw [erase_cons_ne h, lookup_cons_ne h]; exact ih

theorem lookup_erase_ne {k k' : Str} {m : List (Str × β)} (h : k' ≠ k) :
    lookup k (erase k' m) = lookup k m := by
  induction m with
  | nil => simp [erase, lookup]
  | cons e r ih =>
    obtain ⟨k'', v⟩ := e
    by_cases h2 : k'' = k'
    · subst h2; rw [erase_cons_eq, lookup_cons_ne h]; exact ih
    · rw [erase_cons_ne h2]
      by_cases h3 : k'' = k
      · subst h3; simp [lookup]
      · rw [lookup_cons_ne h3, lookup_cons_ne h3]; exact ih

theorem lookup_insert_self {k : Str} {v : β} {m : List (Str × β)} : lookup k (insert k v m) = some v := by
  simp [insert, lookup]

theorem lookup_insert_ne {k k' : Str} {v : β} {m : List (Str × β)} (h : k' ≠ k) :
    lookup k (insert k' v m) = lookup k m := by
  simp [insert, lookup, h, lookup_erase_ne h]

/-! ### the sorted set -/

theorem mem_insertPos {a x : Str} {l : List Str} : a ∈ insertPos x l ↔ a = x ∨ a ∈ l := by
  induction l with
  | nil => simp [insertPos]
  | cons y ys ih =>
    simp only [insertPos]
    split
    · simp only [List.mem_cons, ih]
      constructor
      · rintro (h | h | h)
        · exact Or.inr (Or.inl h)
        · exact Or.inl h
        · exact Or.inr (Or.inr h)
      · rintro (h | h | h)
        · exact Or.inr (Or.inl h)
        · exact Or.inl h
        · exact Or.inr (Or.inr h)
    · simp

theorem insertPos_perm (x : Str) (l : List Str) : (insertPos x l).Perm (x :: l) := by
  induction l with
  | nil => simp [insertPos]
  | cons y ys ih =>
    simp only [insertPos]
    split
    · exact (List.Perm.cons y ih).trans (List.Perm.swap x y ys)
    · exact List.Perm.refl _

theorem mem_setInsert {a x : Str} {l : List Str} : a ∈ setInsert x l ↔ a = x ∨ a ∈ l := by
  unfold setInsert
  split
  · rename_i h
    have hx : x ∈ l := by simpa using h
    constructor
    · intro h'; exact Or.inr h'
    · rintro (rfl | h') <;> assumption
  · exact mem_insertPos

theorem nodup_setInsert {x : Str} {l : List Str} (h : l.Nodup) : (setInsert x l).Nodup := by
  unfold setInsert
  split
  · exact h
  · rename_i hx
    have hx' : x ∉ l := by simpa using hx
    exact (insertPos_perm x l).nodup_iff.mpr (List.nodup_cons.mpr ⟨hx', h⟩)

theorem mem_sortDedup {a : Str} {l : List Str} : a ∈ sortDedup l ↔ a ∈ l := by
  induction l with
  | nil => simp [sortDedup]
  | cons x xs ih =>
    have : sortDedup (x :: xs) = setInsert x (sortDedup xs) := rfl
    rw [this, mem_setInsert, ih]; simp

theorem nodup_sortDedup (l : List Str) : (sortDedup l).Nodup := by
  induction l with
  | nil => simp [sortDedup]
  | cons x xs ih =>
    have : sortDedup (x :: xs) = setInsert x (sortDedup xs) := rfl
    rw [this]; exact nodup_setInsert ih

/-! ### `removeAll` only drops characters -/

theorem mem_removeAux {pat : Str} {c : Char} : ∀ (skip : Nat) (s : Str), c ∈ removeAux pat skip s → c ∈ s := by
  intro skip s
  induction s generalizing skip with
  | nil => simp [removeAux]
  | cons d ds ih =>
    cases skip with
    | succ k => simp only [removeAux]; intro h; exact List.mem_cons_of_mem _ (ih k h)
    | zero =>
      simp only [removeAux]
      split
      · intro h; exact List.mem_cons_of_mem _ (ih _ h)
      · intro h
        rcases List.mem_cons.mp h with rfl | h'
        · simp
        · exact List.mem_cons_of_mem _ (ih 0 h')

theorem mem_removeAll {pat s : Str} {c : Char} (h : c ∈ removeAll pat s) : c ∈ s :=
  mem_removeAux 0 s h

end StrMap
