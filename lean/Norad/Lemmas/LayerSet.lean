import Norad.Lemmas.Layers
/-! Layer-set invariant and its preservation, operation by operation. -/
namespace Layers

/-! ## splitting lemmas for `find?`, `removeFirst`, `renameAt` -/

theorem find_split {p : Layer → Bool} {ls : List Layer} {l : Layer} (h : ls.find? p = some l) :
    p l = true ∧ ∃ a b, ls = a ++ l :: b ∧ ∀ x ∈ a, p x = false := by
  induction ls with
  | nil => simp at h
  | cons c cs ih =>
    simp only [List.find?_cons] at h
    split at h
    · rename_i hc
      simp only [Option.some.injEq] at h; subst h
      exact ⟨hc, [], cs, rfl, by simp⟩
    · rename_i hc
      obtain ⟨hp, a, b, rfl, ha⟩ := ih h
      refine ⟨hp, c :: a, b, rfl, ?_⟩
      intro x hx
      simp only [List.mem_cons] at hx
      rcases hx with rfl | hx
      · simpa using hc
      · exact ha x hx

theorem find_none {p : Layer → Bool} {ls : List Layer} (h : ls.find? p = none) : ∀ x ∈ ls, p x = false := by
  intro x hx
  have := List.find?_eq_none.1 h x hx
  simpa using this

theorem removeFirst_split {p : Layer → Bool} (a b : List Layer) (l : Layer) (hl : p l = true)
    (ha : ∀ x ∈ a, p x = false) : removeFirst p (a ++ l :: b) = a ++ b := by
  induction a with
  | nil => simp [removeFirst, hl]
  | cons c cs ih =>
    have hc := ha c (by simp)
    simp only [List.cons_append, removeFirst, hc, Bool.false_eq_true, if_false]
    rw [ih (fun x hx => ha x (by simp [hx]))]

theorem renameAt_split (old new : Str) (np : Option Str) (a b : List Layer) (l : Layer)
    (hl : l.name = old) (ha : ∀ x ∈ a, x.name ≠ old) :
    renameAt old new np (a ++ l :: b) =
      a ++ { l with name := new, path := match np with | some p => p | none => l.path } :: b := by
  induction a with
  | nil => simp only [List.nil_append, renameAt, hl, if_true]; rfl
  | cons c cs ih =>
    have hc := ha c (by simp)
    simp only [List.cons_append, renameAt, hc, if_false]
    rw [ih (fun x hx => ha x (by simp [hx]))]

theorem map_set_same {α β} (g : α → β) (l : List α) (i : Nat) (x y : α) (hy : l[i]? = some y)
    (hg : g x = g y) : (l.set i x).map g = l.map g := by
  apply List.ext_getElem?; intro j
  by_cases hj : j = i
  · subst hj
    have hlt : j < l.length := by
      rcases Nat.lt_or_ge j l.length with h | h
      · exact h
      · rw [List.getElem?_eq_none h] at hy; cases hy
    have hyy : l[j] = y := by rw [List.getElem?_eq_getElem hlt] at hy; exact Option.some.inj hy
    simp [List.getElem?_set, hlt, hg, hyy]
  · simp [List.getElem?_set, Ne.symm hj]

/-! ## invariant -/

section
variable (lower : Str → Str) (assignG assignL : Str → List Str → Option Str) (valid : Str → Bool)

structure SInv (S : LayerSet) : Prop where
  /-- there is a first layer and it lives in `glyphs` -/
  headDefault : ∃ d rest, S.layers = d :: rest ∧ d.path = glyphsDir
  /-- no other layer lives in `glyphs` -/
  tailNotDefault : ∀ l ∈ S.layers.tail, l.path ≠ glyphsDir
  /-- only the first layer may be called `public.default` -/
  tailNotReserved : ∀ l ∈ S.layers.tail, l.name ≠ defaultName
  tailInSet : ∀ l ∈ S.layers.tail, lower l.path ∈ S.pathSet
  /-- directories of the non-default layers are pairwise distinct ignoring case -/
  tailDistinct : (S.layers.tail.map (fun l => lower l.path)).Nodup
  /-- layer names are unique -/
  namesNodup : (S.layers.map (·.name)).Nodup
  layersInv : ∀ l ∈ S.layers, LInvW lower l

/-- contract of the layer file-name function: not taken, and never the default directory
    (C07: the result starts with `glyphs.`) -/
def AssignLOK : Prop :=
  AssignOK lower assignL ∧ ∀ n ps p, valid n = true → assignL n ps = some p → p ≠ glyphsDir

theorem sinv_default : SInv lower LayerSet.default := by
  refine ⟨⟨Layer.default, [], rfl, rfl⟩, ?_, ?_, ?_, ?_, ?_, ?_⟩ <;>
    simp [LayerSet.default, Layer.default, linvw_new]

/-! ### layer-local operations -/

theorem sinv_onLayer (S : LayerSet) (li : Nat) (f : Layer → Layer × Res) (h : SInv lower S)
    (hname : ∀ L, (f L).1.name = L.name) (hpath : ∀ L, (f L).1.path = L.path)
    (hinv : ∀ L, LInvW lower L → LInvW lower (f L).1) :
    SInv lower (onLayer S li f).1 := by
  unfold onLayer
  cases hL : S.layers[li]? with
  | none => exact h
  | some L =>
    simp only
    have hlt : li < S.layers.length := by
      rcases Nat.lt_or_ge li S.layers.length with hlt | hge
      · exact hlt
      · rw [List.getElem?_eq_none hge] at hL; cases hL
    have hLeq : S.layers[li] = L := by
      rw [List.getElem?_eq_getElem hlt] at hL; exact Option.some.inj hL
    have hLmem : L ∈ S.layers := by rw [← hLeq]; exact List.getElem_mem hlt
    -- the updated list agrees with the old one on names and paths
    have hmapn : (S.layers.set li (f L).1).map (·.name) = S.layers.map (·.name) :=
      map_set_same _ _ _ _ _ hL (hname L)
    have hmapp : (S.layers.set li (f L).1).map (·.path) = S.layers.map (·.path) :=
      map_set_same _ _ _ _ _ hL (hpath L)
    -- membership in the updated list
    have hmem : ∀ x ∈ S.layers.set li (f L).1, x = (f L).1 ∨ x ∈ S.layers := by
      intro x hx
      rcases List.mem_or_eq_of_mem_set hx with h1 | h1
      · exact Or.inr h1
      · exact Or.inl h1
    obtain ⟨d, rest, hdr, hd⟩ := h.headDefault
    -- tails: the same statement about names/paths transported through the maps
    have htailp : (S.layers.set li (f L).1).tail.map (·.path) = S.layers.tail.map (·.path) := by
      rw [List.map_tail, List.map_tail, hmapp]
    have htailn : (S.layers.set li (f L).1).tail.map (·.name) = S.layers.tail.map (·.name) := by
      rw [List.map_tail, List.map_tail, hmapn]
    have tr : ∀ (P : Str → Prop), (∀ l ∈ S.layers.tail, P l.path) →
        ∀ l ∈ (S.layers.set li (f L).1).tail, P l.path := by
      intro P hP l hl
      have : l.path ∈ (S.layers.set li (f L).1).tail.map (·.path) := List.mem_map.2 ⟨l, hl, rfl⟩
      rw [htailp] at this
      obtain ⟨l', hl', he⟩ := List.mem_map.1 this
      rw [← he]; exact hP l' hl'
    refine ⟨?_, ?_, ?_, ?_, ?_, ?_, ?_⟩
    · cases li with
      | zero =>
        refine ⟨(f L).1, rest, by simp [hdr], ?_⟩
        rw [hpath]; rw [hdr] at hL; simp at hL; rw [← hL]; exact hd
      | succ k => exact ⟨d, rest.set k (f L).1, by simp [hdr], hd⟩
    · exact tr (fun p => p ≠ glyphsDir) h.tailNotDefault
    · intro l hl
      have : l.name ∈ (S.layers.set li (f L).1).tail.map (·.name) := List.mem_map.2 ⟨l, hl, rfl⟩
      rw [htailn] at this
      obtain ⟨l', hl', he⟩ := List.mem_map.1 this
      rw [← he]; exact h.tailNotReserved l' hl'
    · exact tr (fun p => lower p ∈ S.pathSet) h.tailInSet
    · have : (S.layers.set li (f L).1).tail.map (fun l => lower l.path) =
          S.layers.tail.map (fun l => lower l.path) := by
        have e1 : ∀ (ls : List Layer), ls.map (fun l => lower l.path) = (ls.map (·.path)).map lower := by
          intro ls; simp
        rw [e1, e1, htailp]
      rw [this]; exact h.tailDistinct
    · rw [hmapn]; exact h.namesNodup
    · intro x hx
      rcases hmem x hx with rfl | hx
      · exact hinv L (h.layersInv L hLmem)
      · exact h.layersInv x hx


/-! ### set-level operations -/

theorem sinv_newLayer (hA : AssignLOK lower assignL valid) (S : LayerSet) (n : Str) (h : SInv lower S) :
    SInv lower (newLayer lower assignL valid S n).1 := by
  unfold newLayer
  split; · exact h
  split; · exact h
  split; · exact h
  rename_i hres hdup hval
  have hvalid : valid n = true := by simpa using hval
  cases ha : assignL n S.pathSet with
  | none => exact h
  | some p =>
    simp only
    obtain ⟨d, rest, hdr, hd⟩ := h.headDefault
    have hp := hA.1 n S.pathSet p ha
    have hpd := hA.2 n S.pathSet p hvalid ha
    have htail : (S.layers ++ [Layer.new n p]).tail = S.layers.tail ++ [Layer.new n p] := by
      rw [hdr]; rfl
    refine ⟨⟨d, rest ++ [Layer.new n p], by simp [hdr], hd⟩, ?_, ?_, ?_, ?_, ?_, ?_⟩
    · rw [htail]; intro l hl
      simp only [List.mem_append, List.mem_singleton] at hl
      rcases hl with hl | rfl
      · exact h.tailNotDefault l hl
      · simpa [Layer.new] using hpd
    · rw [htail]; intro l hl
      simp only [List.mem_append, List.mem_singleton] at hl
      rcases hl with hl | rfl
      · exact h.tailNotReserved l hl
      · simpa [Layer.new] using hres
    · rw [htail]; intro l hl
      simp only [List.mem_append, List.mem_singleton] at hl
      rcases hl with hl | rfl
      · exact List.mem_cons_of_mem _ (h.tailInSet l hl)
      · simp [Layer.new]
    · rw [htail]
      simp only [List.map_append, List.map_cons, List.map_nil]
      refine List.nodup_append.2 ⟨h.tailDistinct, by simp, ?_⟩
      intro a ha' b hb
      simp only [List.mem_singleton] at hb; subst hb
      obtain ⟨l, hl, rfl⟩ := List.mem_map.1 ha'
      intro heq
      apply hp
      simp only [Layer.new] at heq
      rw [← heq]; exact h.tailInSet l hl
    · simp only [List.map_append, List.map_cons, List.map_nil]
      refine List.nodup_append.2 ⟨h.namesNodup, by simp, ?_⟩
      intro a ha' b hb
      simp only [List.mem_singleton] at hb; subst hb
      obtain ⟨l, hl, rfl⟩ := List.mem_map.1 ha'
      intro heq
      apply hdup
      simp only [List.any_eq_true, decide_eq_true_eq]
      exact ⟨l, hl, by simpa [Layer.new] using heq⟩
    · intro l hl
      simp only [List.mem_append, List.mem_singleton] at hl
      rcases hl with hl | rfl
      · exact h.layersInv l hl
      · exact linvw_new lower n p

theorem sinv_getOrCreate (hA : AssignLOK lower assignL valid) (S : LayerSet) (n : Str) (h : SInv lower S) :
    SInv lower (getOrCreateLayer lower assignL valid S n).1 := by
  unfold getOrCreateLayer
  split
  · exact h
  · exact sinv_newLayer lower assignL valid hA S n h

/-- shape of the state after `remove`: the removed layer is split out of the tail -/
theorem removeLayer_shape (S : LayerSet) (n : Str) (h : SInv lower S) :
    removeLayer lower S n = S ∨
    ∃ d a l b, S.layers = d :: (a ++ l :: b) ∧ l.name = n ∧ (∀ x ∈ a, x.name ≠ n) ∧
      removeLayer lower S n = { layers := d :: (a ++ b), pathSet := S.pathSet.filter (· ≠ lower l.path) } := by
  obtain ⟨d, rest, hdr, _⟩ := h.headDefault
  unfold removeLayer
  rw [hdr]
  simp only
  cases hf : rest.find? (·.name = n) with
  | none => left; simp [hdr]
  | some l =>
    right
    obtain ⟨hl, a, b, rfl, ha⟩ := find_split hf
    refine ⟨d, a, l, b, rfl, by simpa using hl, fun x hx => by simpa using ha x hx, ?_⟩
    simp only
    rw [removeFirst_split a b l hl ha]

theorem sinv_removeLayer (S : LayerSet) (n : Str) (h : SInv lower S) :
    SInv lower (removeLayer lower S n) := by
  rcases removeLayer_shape lower S n h with heq | ⟨d, a, l, b, hS, hl, ha, heq⟩
  · rw [heq]; exact h
  · rw [heq]
    obtain ⟨d', rest', hdr, hd'⟩ := h.headDefault
    have hd : d.path = glyphsDir := by
      have e : d = d' := by rw [hS] at hdr; simp at hdr; exact hdr.1
      rw [e]; exact hd'
    have htail : S.layers.tail = a ++ l :: b := by rw [hS]; rfl
    have hdist := h.tailDistinct
    rw [htail] at hdist
    simp only [List.map_append, List.map_cons] at hdist
    have hsub : ∀ x ∈ a ++ b, x ∈ S.layers.tail := by
      intro x hx; rw [htail]
      simp only [List.mem_append, List.mem_cons] at hx ⊢
      rcases hx with hx | hx
      · exact Or.inl hx
      · exact Or.inr (Or.inr hx)
    have hne : ∀ x ∈ a ++ b, lower x.path ≠ lower l.path := by
      intro x hx heq'
      rw [List.nodup_append] at hdist
      obtain ⟨_, hlb, hdisj⟩ := hdist
      simp only [List.mem_append] at hx
      rcases hx with hx | hx
      · exact hdisj (lower x.path) (List.mem_map.2 ⟨x, hx, rfl⟩) (lower l.path) (by simp) heq'
      · rw [List.nodup_cons] at hlb
        exact hlb.1 (by rw [← heq']; exact List.mem_map.2 ⟨x, hx, rfl⟩)
    refine ⟨⟨d, a ++ b, rfl, hd⟩, ?_, ?_, ?_, ?_, ?_, ?_⟩
    · intro x hx; exact h.tailNotDefault x (hsub x hx)
    · intro x hx; exact h.tailNotReserved x (hsub x hx)
    · intro x hx
      simp only [List.tail_cons] at hx
      simp only [List.mem_filter, decide_eq_true_eq, ne_eq]
      exact ⟨h.tailInSet x (hsub x hx), hne x hx⟩
    · simp only [List.tail_cons, List.map_append]
      rw [List.nodup_append] at hdist ⊢
      obtain ⟨h1, h2, h3⟩ := hdist
      exact ⟨h1, (List.nodup_cons.1 h2).2, fun x hx y hy => h3 x hx y (List.mem_cons_of_mem _ hy)⟩
    · have := h.namesNodup
      rw [hS] at this
      simp only [List.map_cons, List.map_append, List.nodup_cons, List.mem_append, List.mem_cons,
        List.mem_map, not_or] at this ⊢
      obtain ⟨hdn, hrest⟩ := this
      refine ⟨⟨hdn.1, hdn.2.2⟩, ?_⟩
      rw [List.nodup_append] at hrest ⊢
      obtain ⟨h1, h2, h3⟩ := hrest
      exact ⟨h1, (List.nodup_cons.1 h2).2, fun x hx y hy => h3 x hx y (List.mem_cons_of_mem _ hy)⟩
    · intro x hx
      apply h.layersInv x
      rw [hS]
      simp only [List.mem_cons, List.mem_append] at hx ⊢
      rcases hx with rfl | hx | hx
      · exact Or.inl rfl
      · exact Or.inr (Or.inl hx)
      · exact Or.inr (Or.inr (Or.inr hx))

/-- after `remove n` no layer behind the first one is called `n` -/
theorem removeLayer_no_name (S : LayerSet) (n : Str) (h : SInv lower S) :
    ∀ x ∈ (removeLayer lower S n).layers.tail, x.name ≠ n := by
  obtain ⟨d, rest, hdr, _⟩ := h.headDefault
  obtain ⟨layers, ps⟩ := S
  simp only at hdr; subst hdr
  cases hf : rest.find? (·.name = n) with
  | none =>
    simp only [removeLayer, hf, List.tail_cons]
    intro x hx; simpa using find_none hf x hx
  | some l =>
    obtain ⟨hl, a, b, rfl, ha⟩ := find_split hf
    simp only [removeLayer, hf, removeFirst_split a b l hl ha, List.tail_cons]
    intro x hx
    simp only [List.mem_append] at hx
    rcases hx with hx | hx
    · simpa using ha x hx
    · -- names are unique, so nothing after `l` carries its name
      have := h.namesNodup
      simp only [List.map_cons, List.map_append, List.nodup_cons] at this
      obtain ⟨_, hrest⟩ := this
      rw [List.nodup_append] at hrest
      obtain ⟨_, h2, _⟩ := hrest
      rw [List.nodup_cons] at h2
      intro hxn
      have hln : l.name = n := by simpa using hl
      exact h2.1 (by rw [hln, ← hxn]; exact List.mem_map.2 ⟨x, hx, rfl⟩)

theorem removeLayer_head (S : LayerSet) (n : Str) :
    (removeLayer lower S n).layers.head? = S.layers.head? := by
  obtain ⟨layers, ps⟩ := S
  cases layers with
  | nil => rfl
  | cons d rest =>
    simp only [removeLayer]
    cases rest.find? (·.name = n) <;> rfl

theorem sinv_retainLayers (S : LayerSet) (keep : Layer → Bool) (h : SInv lower S) :
    SInv lower (retainLayers S keep) := by
  obtain ⟨d, rest, hdr, hd⟩ := h.headDefault
  have hdd : d.isDefault = true := by simp [Layer.isDefault, hd]
  have hlayers : (retainLayers S keep).layers = d :: rest.filter (fun l => l.isDefault || keep l) := by
    simp [retainLayers, hdr, List.filter_cons, hdd]
  have htail : S.layers.tail = rest := by rw [hdr]; rfl
  have hsub : ∀ x ∈ rest.filter (fun l => l.isDefault || keep l), x ∈ S.layers.tail := by
    intro x hx; rw [htail]; exact (List.mem_filter.1 hx).1
  refine ⟨⟨d, _, hlayers, hd⟩, ?_, ?_, ?_, ?_, ?_, ?_⟩
  · rw [hlayers]; intro x hx; exact h.tailNotDefault x (hsub x hx)
  · rw [hlayers]; intro x hx; exact h.tailNotReserved x (hsub x hx)
  · rw [hlayers]; intro x hx; exact h.tailInSet x (hsub x hx)
  · rw [hlayers]
    have := h.tailDistinct
    rw [htail] at this
    exact this.sublist (List.Sublist.map _ List.filter_sublist)
  · rw [hlayers]
    have := h.namesNodup
    rw [hdr] at this
    exact this.sublist (List.Sublist.map _ (List.Sublist.cons₂ _ List.filter_sublist))
  · rw [hlayers]; intro x hx
    apply h.layersInv x
    rw [hdr]
    simp only [List.mem_cons] at hx ⊢
    rcases hx with rfl | hx
    · exact Or.inl rfl
    · exact Or.inr (List.mem_filter.1 hx).1

theorem sinv_removeEmpty (S : LayerSet) (h : SInv lower S) : SInv lower (removeEmptyLayers S) :=
  sinv_retainLayers lower S _ h


/-! ### rename_layer -/

theorem linvw_congr {L L' : Layer} (hg : L'.glyphs = L.glyphs) (hc : L'.contents = L.contents)
    (hp : L'.pathSet = L.pathSet) (h : LInvW lower L) : LInvW lower L' := by
  constructor
  · rw [hc]; exact h.keysNodup
  · rw [hg]; exact h.glyphsNodup
  · rw [hc, hp]; exact h.inSet
  · rw [hc]; exact h.distinct

theorem getLayer_none {S : LayerSet} {n : Str} (h : getLayer S n = none) : ∀ x ∈ S.layers, x.name ≠ n := by
  intro x hx
  have := List.find?_eq_none.1 h x hx
  simpa using this

theorem getLayer_some_mem {S : LayerSet} {n : Str} (h : ¬ (getLayer S n).isNone = true) :
    ∃ x ∈ S.layers, x.name = n := by
  cases hg : getLayer S n with
  | none => simp [hg] at h
  | some x =>
    have := List.find?_some hg
    exact ⟨x, List.mem_of_find?_eq_some hg, by simpa using this⟩

theorem sinv_renameLayer (hA : AssignLOK lower assignL valid) (S : LayerSet) (old new : Str) (ow : Bool)
    (h : SInv lower S) : SInv lower (renameLayer lower assignL valid S old new ow).1 := by
  unfold renameLayer
  split; · exact h
  rename_i g1
  split; · exact h
  rename_i g2
  split; · exact h
  rename_i g3
  split; · exact h
  rename_i g4
  split; · exact h
  rename_i g5
  have hvalid : valid new = true := by simpa using g5
  -- the state after the optional removal of the layer being overwritten
  have hS₁ : SInv lower (if (ow && decide (old ≠ new)) = true then removeLayer lower S new else S) := by
    split
    · exact sinv_removeLayer lower S new h
    · exact h
  have hhead : (if (ow && decide (old ≠ new)) = true then removeLayer lower S new else S).layers.head? =
      S.layers.head? := by
    split
    · exact removeLayer_head lower S new
    · rfl
  have keyA : old = new ∨
      ∀ x ∈ (if (ow && decide (old ≠ new)) = true then removeLayer lower S new else S).layers, x.name ≠ new := by
    by_cases hon : old = new
    · exact Or.inl hon
    · right
      cases ow with
      | false =>
        simp only [Bool.false_and, Bool.false_eq_true, if_false]
        have : getLayer S new = none := by
          cases hg : getLayer S new with
          | none => rfl
          | some x => simp [hg] at g1
        exact getLayer_none this
      | true =>
        simp only [Bool.true_and, decide_eq_true_eq, ne_eq, hon, not_false_eq_true, if_true]
        intro x hx
        obtain ⟨d, rest, hdr, _⟩ := (sinv_removeLayer lower S new h).headDefault
        rw [hdr] at hx
        simp only [List.mem_cons] at hx
        rcases hx with rfl | hx
        · -- the first layer: guard 4
          intro hxn
          have hh := removeLayer_head lower S new
          rw [hdr] at hh
          simp only [List.head?_cons] at hh
          have hn : headName S = some new := by
            unfold headName; rw [← hh]; simp [hxn]
          apply g4
          simp only [hn, Bool.and_eq_true, decide_eq_true_eq, true_and, ne_eq, Option.some.injEq]
          exact fun hc => hon hc.symm
        · have := removeLayer_no_name lower S new h x (by rw [hdr]; exact hx)
          exact this
  generalize hS₁def : (if (ow && decide (old ≠ new)) = true then removeLayer lower S new else S) = S₁
    at hS₁ hhead keyA
  simp only
  obtain ⟨d, rest, hdr, hd⟩ := hS₁.headDefault
  obtain ⟨layers₁, ps₁⟩ := S₁
  simp only at hdr; subst hdr
  have hheadName : headName S = some d.name := by
    unfold headName; rw [← hhead]; rfl
  simp only
  split
  · -- renaming the default layer: it keeps its directory
    rename_i hdold
    refine ⟨⟨_, rest, rfl, hd⟩, hS₁.tailNotDefault, hS₁.tailNotReserved, hS₁.tailInSet,
      hS₁.tailDistinct, ?_, ?_⟩
    · have hn := hS₁.namesNodup
      simp only [List.map_cons, List.nodup_cons] at hn ⊢
      refine ⟨?_, hn.2⟩
      rcases keyA with hon | hno
      · rw [← hon, ← hdold]; exact hn.1
      · intro hmem
        obtain ⟨x, hx, hxn⟩ := List.mem_map.1 hmem
        exact hno x (List.mem_cons_of_mem _ hx) hxn
    · intro x hx
      simp only [List.mem_cons] at hx
      rcases hx with rfl | hx
      · exact linvw_congr lower (L := d) rfl rfl rfl (hS₁.layersInv d (by simp))
      · exact hS₁.layersInv x (List.mem_cons_of_mem _ hx)
  · rename_i hdold
    cases hf : rest.find? (·.name = old) with
    | none => exact hS₁
    | some l =>
      simp only
      obtain ⟨hl, a, b, rfl, ha⟩ := find_split hf
      have hln : l.name = old := by simpa using hl
      have han : ∀ x ∈ a, x.name ≠ old := fun x hx => by simpa using ha x hx
      cases hassign : assignL new (ps₁.filter (· ≠ lower l.path)) with
      | none => exact hS₁
      | some p =>
        simp only
        rw [renameAt_split old new (some p) a b l hln han]
        simp only
        have hp := hA.1 new _ p hassign
        have hpd := hA.2 new _ p hvalid hassign
        have hdist := hS₁.tailDistinct
        simp only [List.tail_cons, List.map_append, List.map_cons] at hdist
        have hnotl : ∀ x, x ∈ a ∨ x ∈ b → lower x.path ≠ lower l.path := by
          intro x hx heq'
          rw [List.nodup_append] at hdist
          obtain ⟨_, hlb, hdisj⟩ := hdist
          rcases hx with hx | hx
          · exact hdisj (lower x.path) (List.mem_map.2 ⟨x, hx, rfl⟩) (lower l.path) (by simp) heq'
          · rw [List.nodup_cons] at hlb
            exact hlb.1 (by rw [← heq']; exact List.mem_map.2 ⟨x, hx, rfl⟩)
        have hinps : ∀ x, x ∈ a ∨ x ∈ b → lower x.path ∈ ps₁.filter (· ≠ lower l.path) := by
          intro x hx
          simp only [List.mem_filter, decide_eq_true_eq, ne_eq]
          refine ⟨hS₁.tailInSet x ?_, hnotl x hx⟩
          simp only [List.tail_cons, List.mem_append, List.mem_cons]
          rcases hx with hx | hx
          · exact Or.inl hx
          · exact Or.inr (Or.inr hx)
        refine ⟨⟨d, _, rfl, hd⟩, ?_, ?_, ?_, ?_, ?_, ?_⟩
        · intro x hx
          simp only [List.tail_cons, List.mem_append, List.mem_cons] at hx
          rcases hx with hx | rfl | hx
          · exact hS₁.tailNotDefault x (by simp [hx])
          · exact hpd
          · exact hS₁.tailNotDefault x (by simp [hx])
        · intro x hx
          simp only [List.tail_cons, List.mem_append, List.mem_cons] at hx
          rcases hx with hx | rfl | hx
          · exact hS₁.tailNotReserved x (by simp [hx])
          · -- guard 3: only the first layer may take the reserved name
            simp only
            intro hnd
            apply g3
            simp only [hnd, hheadName, decide_true, Bool.true_and, ne_eq, Option.some.injEq,
              decide_eq_true_eq]
            exact hdold
          · exact hS₁.tailNotReserved x (by simp [hx])
        · intro x hx
          simp only [List.tail_cons, List.mem_append, List.mem_cons] at hx
          rcases hx with hx | rfl | hx
          · exact List.mem_cons_of_mem _ (hinps x (Or.inl hx))
          · simp
          · exact List.mem_cons_of_mem _ (hinps x (Or.inr hx))
        · simp only [List.tail_cons, List.map_append, List.map_cons]
          rw [List.nodup_append] at hdist ⊢
          obtain ⟨h1, h2, h3⟩ := hdist
          rw [List.nodup_cons] at h2
          refine ⟨h1, List.nodup_cons.2 ⟨?_, h2.2⟩, ?_⟩
          · intro hmem
            obtain ⟨x, hx, hxe⟩ := List.mem_map.1 hmem
            exact hp (by rw [← hxe]; exact hinps x (Or.inr hx))
          · intro x hx y hy
            simp only [List.mem_cons] at hy
            rcases hy with rfl | hy
            · intro hxe
              obtain ⟨z, hz, hze⟩ := List.mem_map.1 hx
              exact hp (by rw [← hxe, ← hze]; exact hinps z (Or.inl hz))
            · exact h3 x hx y (List.mem_cons_of_mem _ hy)
        · have hn := hS₁.namesNodup
          simp only [List.map_cons, List.map_append] at hn ⊢
          rcases keyA with hon | hno
          · rw [← hon, ← hln]; exact hn
          · rw [List.nodup_cons] at hn ⊢
            obtain ⟨hdn, hrest⟩ := hn
            have hdnew : d.name ≠ new := hno d (by simp)
            refine ⟨?_, ?_⟩
            · simp only [List.mem_append, List.mem_cons, List.mem_map, not_or] at hdn ⊢
              exact ⟨hdn.1, fun hc => hdnew hc, hdn.2.2⟩
            · rw [List.nodup_append] at hrest ⊢
              obtain ⟨h1, h2, h3⟩ := hrest
              rw [List.nodup_cons] at h2
              refine ⟨h1, List.nodup_cons.2 ⟨?_, h2.2⟩, ?_⟩
              · intro hmem
                obtain ⟨x, hx, hxe⟩ := List.mem_map.1 hmem
                exact hno x (by simp [hx]) hxe
              · intro x hx y hy
                simp only [List.mem_cons] at hy
                rcases hy with rfl | hy
                · intro hxe
                  obtain ⟨z, hz, hze⟩ := List.mem_map.1 hx
                  exact hno z (by simp [hz]) (by rw [hze, hxe])
                · exact h3 x hx y (List.mem_cons_of_mem _ hy)
        · intro x hx
          simp only [List.mem_cons, List.mem_append] at hx
          rcases hx with rfl | hx | rfl | hx
          · exact hS₁.layersInv x (by simp)
          · exact hS₁.layersInv x (by simp [hx])
          · exact linvw_congr lower (L := l) rfl rfl rfl (hS₁.layersInv l (by simp))
          · exact hS₁.layersInv x (by simp [hx])


/-! ### errors and panics of the set-level operations -/

theorem newLayer_err (S : LayerSet) (n : Str) (e : NErr)
    (h : (newLayer lower assignL valid S n).2 = .err e) : (newLayer lower assignL valid S n).1 = S := by
  unfold newLayer at h ⊢
  split; · rfl
  split; · rfl
  split; · rfl
  rename_i h1 h2 h3
  rw [if_neg h1, if_neg h2, if_neg h3] at h
  split at h <;> simp at h

theorem newLayer_panic (S : LayerSet) (n : Str) (site : String)
    (h : (newLayer lower assignL valid S n).2 = .panic site) : site = "99 file-name clashes (documented)" := by
  unfold newLayer at h
  split at h; · simp at h
  split at h; · simp at h
  split at h; · simp at h
  split at h
  · simp at h; exact h.symm
  · simp at h

theorem getOrCreate_err (S : LayerSet) (n : Str) (e : NErr)
    (h : (getOrCreateLayer lower assignL valid S n).2 = .err e) :
    (getOrCreateLayer lower assignL valid S n).1 = S := by
  unfold getOrCreateLayer at h ⊢
  split
  · rfl
  · rename_i h0
    rw [if_neg h0] at h
    exact newLayer_err lower assignL valid S n e h

theorem getOrCreate_panic (S : LayerSet) (n : Str) (site : String)
    (h : (getOrCreateLayer lower assignL valid S n).2 = .panic site) :
    site = "99 file-name clashes (documented)" := by
  unfold getOrCreateLayer at h
  split at h
  · simp at h
  · exact newLayer_panic lower assignL valid S n site h

theorem renameLayer_err (S : LayerSet) (o n : Str) (ow : Bool) (e : NErr)
    (h : (renameLayer lower assignL valid S o n ow).2 = .err e) :
    (renameLayer lower assignL valid S o n ow).1 = S := by
  unfold renameLayer at h ⊢
  split; · rfl
  split; · rfl
  split; · rfl
  split; · rfl
  split; · rfl
  rename_i h1 h2 h3 h4 h5
  rw [if_neg h1, if_neg h2, if_neg h3, if_neg h4, if_neg h5] at h
  exfalso
  revert h
  simp only
  split; · simp
  split; · simp
  split; · simp
  split <;> simp


theorem allsync_newLayer (S : LayerSet) (n : Str) (h : ∀ l ∈ S.layers, Sync l) :
    ∀ l ∈ (newLayer lower assignL valid S n).1.layers, Sync l := by
  unfold newLayer
  split; · exact h
  split; · exact h
  split; · exact h
  split
  · exact h
  · intro x hx
    simp only [List.mem_append, List.mem_singleton] at hx
    rcases hx with hx | rfl
    · exact h x hx
    · exact sync_new _ _

end
end Layers
