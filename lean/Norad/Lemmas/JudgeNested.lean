import Norad.Lemmas.JudgeElem
import Norad.Lemmas.JudgeConverse
namespace Glif
open Spec
section
variable {rd : Str → Option Nat}

/-! ### the verdicts depend on the identifiers seen only through membership -/

theorem readIdent_congr {ver : Nat} {seen seen' : List Str} (h : ∀ i, i ∈ seen ↔ i ∈ seen') (v : Str) :
    readIdent ver seen v = readIdent ver seen' v := by
  unfold readIdent
  have : seen.contains v = seen'.contains v := by
    cases h1 : seen.contains v <;> cases h2 : seen'.contains v <;> try rfl
    · exact absurd ((h v).2 (List.contains_iff_mem.1 h2)) (by intro hm; rw [List.contains_iff_mem.2 hm] at h1; cases h1)
    · exact absurd ((h v).1 (List.contains_iff_mem.1 h1)) (by intro hm; rw [List.contains_iff_mem.2 hm] at h2; cases h2)
  rw [this]

theorem Refuses.congr {ver : Nat} {seen seen' : List Str} (h : ∀ i, i ∈ seen ↔ i ∈ seen') {k : AK} {v : Str}
    (hr : Refuses rd ver seen k v) : Refuses rd ver seen' k v := by
  cases k <;> first | exact hr | (simp only [Refuses] at hr ⊢; rw [← readIdent_congr h]; exact hr)

theorem AttrBad.congr {ver : Nat} {seen seen' : List Str} (h : ∀ i, i ∈ seen ↔ i ∈ seen') {n : Str} {a : Attr}
    (hb : AttrBad rd ver seen n a) : AttrBad rd ver seen' n a := by
  unfold AttrBad at hb ⊢
  split
  · simp_all
  · rename_i tbl ht
    simp only [ht] at hb
    split
    · trivial
    · rename_i nm k hf
      simp only [hf] at hb
      exact Refuses.congr h hb

theorem ElemBad.congr {ver : Nat} {seen seen' : List Str} (h : ∀ i, i ∈ seen ↔ i ∈ seen') {n : Str} {as : List Attr}
    (hb : ElemBad rd ver seen n as) : ElemBad rd ver seen' n as := by
  cases hb with
  | attr a ha hbad => exact .attr a ha (AttrBad.congr h hbad)
  | missing r hr hh => exact .missing r hr hh
  | shape hn hs => exact .shape hn hs
  | file f hn hnd hg hbad => exact .file f hn hnd hg hbad

/-! ### inside a contour -/

/-- a child of a contour the parser refuses: anything that is not a `point`, a `point` whose attributes do not parse as XML,
    a `point` with a hard error -/
inductive CBad (rd : Str → Option Nat) (ver : Nat) (seen : List Str) : CItem → Prop
  | unknown (e : Elem) : e.name ≠ sPoint → CBad rd ver seen (.elem e)
  | attrSyntax (e : Elem) : e.attrs = none → CBad rd ver seen (.elem e)
  | point (e : Elem) (as : List Attr) : e.name = sPoint → e.attrs = some as → ElemBad rd ver seen sPoint as →
      CBad rd ver seen (.elem e)

theorem cbad_rejected {s : PS} {ob : OB} {cid : Option Str} {pts : List Point} (hm : s.mode = .contour ob cid pts)
    {k : CItem} (h : CBad rd s.ver s.seen k) (rest : List Ev) : accepted (run rd s (CItem.evs k ++ rest)) = false := by
  cases h with
  | unknown e hn =>
    cases hsc : e.selfClosed <;> simp [CItem.evs, Elem.evs, hsc, run, step, hm, stepContour, hn, accepted]
  | attrSyntax e ha =>
    cases hsc : e.selfClosed
    · simp [CItem.evs, Elem.evs, hsc, run, step, hm, stepContour, accepted]
    · by_cases hn : e.name = sPoint
      · simp [CItem.evs, Elem.evs, hsc, run, step, hm, stepContour, hn, ha, accepted]
      · simp [CItem.evs, Elem.evs, hsc, run, step, hm, stepContour, hn, accepted]
  | point e as hn ha hbad =>
    cases hsc : e.selfClosed
    · simp [CItem.evs, Elem.evs, hsc, run, step, hm, stepContour, accepted]
    · have hp := (elemBad_fails hbad).2.2.2.2.2.1 rfl
      simp [CItem.evs, Elem.evs, hsc, run, step, hm, stepContour, hn, ha, hp, accepted]

theorem CBad.congr {ver : Nat} {seen seen' : List Str} (h : ∀ i, i ∈ seen ↔ i ∈ seen') {k : CItem}
    (hb : CBad rd ver seen k) : CBad rd ver seen' k := by
  cases hb with
  | unknown e hn => exact .unknown e hn
  | attrSyntax e ha => exact .attrSyntax e ha
  | point e as hn ha hbad => exact .point e as hn ha (ElemBad.congr h hbad)

/-- clean points and comments, then a child the parser refuses: the contour is refused -/
theorem contour_kids_bad (law : ReadsNumerals rd) (kpre : List CItem) (kbad : CItem) (kpost : List CItem)
    (s : PS) (ob : OB) (cid : Option Str) (pts : List Point) (hm : s.mode = .contour ob cid pts)
    (hsh : ∀ k, k ∈ kpre → CShaped k)
    (hel : ∀ e, CItem.elem e ∈ kpre → e.name = sPoint ∧ elemCheck rd s.ver e = ([], false))
    (hnd : (kpre.flatMap citemIdents).Nodup) (hfr : ∀ i, i ∈ kpre.flatMap citemIdents → i ∉ s.seen)
    (hbad : CBad rd s.ver (s.seen ++ kpre.flatMap citemIdents) kbad) (rest : List Ev) :
    accepted (run rd s ((kpre ++ kbad :: kpost).flatMap CItem.evs ++ rest)) = false := by
  obtain ⟨sn, np, hr, hup, _, hlo⟩ := contour_kids_reach law kpre s ob cid pts hm hsh hel hnd hfr
  have hev : (kpre ++ kbad :: kpost).flatMap CItem.evs ++ rest =
      kpre.flatMap CItem.evs ++ (CItem.evs kbad ++ (kpost.flatMap CItem.evs ++ rest)) := by
    simp [List.flatMap_append, List.flatMap_cons, List.append_assoc]
  rw [hev, run_of_reach rd hr]
  refine cbad_rejected (s := { s with seen := sn, mode := .contour ob cid (pts ++ np) }) rfl ?_ _
  refine CBad.congr ?_ hbad
  intro i
  rw [List.mem_append]
  exact ⟨fun h => hlo i h, fun h => hup i h⟩

/-- clean points and comments whose type sequence is not a legal contour: refused at `</contour>` -/
theorem contour_illegal_rejected (law : ReadsNumerals rd) (ks : List CItem)
    (s : PS) (ob : OB) (cid : Option Str) (hm : s.mode = .contour ob cid [])
    (hsh : ∀ k, k ∈ ks → CShaped k)
    (hel : ∀ e, CItem.elem e ∈ ks → e.name = sPoint ∧ elemCheck rd s.ver e = ([], false))
    (hnd : (ks.flatMap citemIdents).Nodup) (hfr : ∀ i, i ∈ ks.flatMap citemIdents → i ∉ s.seen)
    (hill : C11.legalB ((contourElems ks).map ptOfElem) = false) (rest : List Ev) :
    accepted (run rd s (ks.flatMap CItem.evs ++ .close sContour :: rest)) = false := by
  obtain ⟨sn, np, hr, _, hpts, _⟩ := contour_kids_reach law ks s ob cid [] hm hsh hel hnd hfr
  rw [run_of_reach rd hr]
  have hacc : C11.accepts (np.map toPt) = false := by
    rw [hpts, C11.accepts_eq_legalB]; exact hill
  simp [run, step, stepContour, hacc, accepted]

/-! ### inside an outline -/

/-- an attribute of a `contour` start tag the parser refuses: anything in format 1, a name other than `identifier`, an
    identifier that is invalid or already used -/
def CtAttrBad (ver : Nat) (seen : List Str) (a : Attr) : Prop :=
  ver = 1 ∨ a.1 ≠ sIdentifier ∨ readIdent ver seen a.2 = none

theorem ctAttrBad_fails {ver : Nat} {seen : List Str} {as : List Attr} {a : Attr} (ha : a ∈ as) (hb : CtAttrBad ver seen a) :
    parseContourAttrs ver seen as = none := by
  refine foldAttrs_none_of_mem _ a ?_ as _ ha
  intro acc
  unfold ctStep
  rcases hb with h | h | h
  · simp [h]
  · by_cases hv : ver = 1 <;> simp [hv, h]
  · by_cases hv : ver = 1
    · simp [hv]
    · by_cases hk : a.1 = sIdentifier <;> simp [hv, hk, h]

/-- the start tag of a contour is clean: only a fresh valid `identifier`, none in format 1 -/
structure CtStartClean (ver : Nat) (seen : List Str) (as : List Attr) : Prop where
  nodup : (as.map (·.1)).Nodup
  own : ∀ a, a ∈ as → a.1 = "identifier".toList ∧ ver ≠ 1 ∧ validIdent a.2 = true
  fresh : ∀ i, Spec.get as "identifier" = some i → i ∉ seen

/-- the children `ks` of a contour are clean points and comments with fresh, distinct identifiers -/
structure CKidsClean (rd : Str → Option Nat) (ver : Nat) (seen : List Str) (ks : List CItem) : Prop where
  shaped : ∀ k, k ∈ ks → CShaped k
  points : ∀ e, CItem.elem e ∈ ks → e.name = sPoint ∧ elemCheck rd ver e = ([], false)
  nodup : (ks.flatMap citemIdents).Nodup
  fresh : ∀ i, i ∈ ks.flatMap citemIdents → i ∉ seen

/-- an outline child the parser refuses -/
inductive OBad (rd : Str → Option Nat) (ver : Nat) (seen : List Str) : OItem → Prop
  | unknown (e : Elem) : e.name ≠ sComponent → e.name ≠ sContour → OBad rd ver seen (.elem e)
  | attrSyntax (e : Elem) : e.name ≠ sContour → e.attrs = none → OBad rd ver seen (.elem e)
  | component (e : Elem) (as : List Attr) : e.name = sComponent → e.attrs = some as → ElemBad rd ver seen sComponent as →
      OBad rd ver seen (.elem e)
  | contourAttrSyntax (kids : List CItem) : OBad rd ver seen (.contour none false kids)
  | contourStart (as : List Attr) (kids : List CItem) (a : Attr) : a ∈ as → CtAttrBad ver seen a →
      OBad rd ver seen (.contour (some as) false kids)
  | contourChild (as : List Attr) (kpre : List CItem) (kbad : CItem) (kpost : List CItem) :
      CtStartClean ver seen as → CKidsClean rd ver (seen ++ (Spec.get as "identifier").toList) kpre →
      CBad rd ver (seen ++ (Spec.get as "identifier").toList ++ kpre.flatMap citemIdents) kbad →
      OBad rd ver seen (.contour (some as) false (kpre ++ kbad :: kpost))
  | contourIllegal (as : List Attr) (kids : List CItem) :
      CtStartClean ver seen as → CKidsClean rd ver (seen ++ (Spec.get as "identifier").toList) kids →
      C11.legalB ((contourElems kids).map ptOfElem) = false →
      OBad rd ver seen (.contour (some as) false kids)

theorem mem_addSeen_iff {seen : List Str} {o : Option Str} {i : Str} : i ∈ addSeen seen o ↔ i ∈ seen ++ o.toList := by
  cases o <;> simp [addSeen, or_comm]

theorem obad_rejected (law : ReadsNumerals rd) {s : PS} {ob : OB} (hm : s.mode = .outline ob)
    {k : OItem} (h : OBad rd s.ver s.seen k) (rest : List Ev) : accepted (run rd s (OItem.evs k ++ rest)) = false := by
  cases h with
  | unknown e h1 h2 =>
    cases hsc : e.selfClosed <;> simp [OItem.evs, Elem.evs, hsc, run, step, hm, stepOutline, h1, h2, accepted]
  | attrSyntax e h2 ha =>
    have hne : sComponent ≠ sContour := by decide
    by_cases h1 : e.name = sComponent
    · cases hsc : e.selfClosed <;> simp [OItem.evs, Elem.evs, hsc, run, step, hm, stepOutline, h1, hne, ha, accepted]
    · cases hsc : e.selfClosed <;> simp [OItem.evs, Elem.evs, hsc, run, step, hm, stepOutline, h1, h2, accepted]
  | component e as hn ha hbad =>
    have hp := (elemBad_fails hbad).2.2.2.2.2.2 rfl
    have hne : sComponent ≠ sContour := by decide
    cases hsc : e.selfClosed <;> simp [OItem.evs, Elem.evs, hsc, run, step, hm, stepOutline, hn, hne, ha, hp, accepted]
  | contourAttrSyntax kids => simp [OItem.evs, run, step, hm, stepOutline, accepted]
  | contourStart as kids a ha hb =>
    simp [OItem.evs, run, step, hm, stepOutline, ctAttrBad_fails ha hb, accepted]
  | contourChild as kpre kbad kpost hst hk hbad =>
    have hstart := contour_start_clean (ver := s.ver) (seen := s.seen) hst.nodup hst.own hst.fresh
    have h1 : step rd s (.start sContour (some as)) = .ok (.inl
        { s with seen := addSeen s.seen (Spec.get as "identifier"), mode := .contour ob (Spec.get as "identifier") [] }) := by
      simp +decide [step, hm, stepOutline, hstart, cont]
    have hiff : ∀ i, i ∈ addSeen s.seen (Spec.get as "identifier") ↔ i ∈ s.seen ++ (Spec.get as "identifier").toList :=
      fun i => mem_addSeen_iff
    simp only [OItem.evs, List.cons_append, run, h1]
    rw [List.append_assoc]
    refine contour_kids_bad law kpre kbad kpost
      { s with seen := addSeen s.seen (Spec.get as "identifier"), mode := .contour ob (Spec.get as "identifier") [] }
      ob (Spec.get as "identifier") [] rfl hk.shaped hk.points hk.nodup
      (fun i hi hmem => hk.fresh i hi ((hiff i).1 hmem)) ?_ _
    refine CBad.congr ?_ hbad
    intro i
    simp only [List.mem_append]
    rw [hiff i, List.mem_append]
  | contourIllegal as kids hst hk hill =>
    have hstart := contour_start_clean (ver := s.ver) (seen := s.seen) hst.nodup hst.own hst.fresh
    have h1 : step rd s (.start sContour (some as)) = .ok (.inl
        { s with seen := addSeen s.seen (Spec.get as "identifier"), mode := .contour ob (Spec.get as "identifier") [] }) := by
      simp +decide [step, hm, stepOutline, hstart, cont]
    have hiff : ∀ i, i ∈ addSeen s.seen (Spec.get as "identifier") ↔ i ∈ s.seen ++ (Spec.get as "identifier").toList :=
      fun i => mem_addSeen_iff
    simp only [OItem.evs, List.cons_append, run, h1]
    rw [List.append_assoc]
    exact contour_illegal_rejected law kids
      { s with seen := addSeen s.seen (Spec.get as "identifier"), mode := .contour ob (Spec.get as "identifier") [] }
      ob (Spec.get as "identifier") rfl hk.shaped hk.points hk.nodup
      (fun i hi hmem => hk.fresh i hi ((hiff i).1 hmem)) hill _
end
end Glif
