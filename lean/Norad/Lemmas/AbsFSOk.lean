import Norad.Lemmas.AbsFS
/-!
Success direction for the abstract file system on all-normal paths: when `walk`, `writeFile`,
`mkdir` and `mkdirAll` succeed.  (`Lemmas/AbsFS.lean` describes what a *successful* call has done; the
store-writing plan of C16 additionally needs that the calls do succeed.)
-/
namespace AbsFS
open Path (Comp)

variable {β : Type}

theorem walk_normal_ok (fs : FS β) :
    ∀ (l : List Name) (st : APath), (∀ m, m <+: l → m ≠ [] → isDir fs (st ++ m) = true) →
      walk fs st (l.map Comp.normal) = .ok (st ++ l) := by
  intro l
  induction l with
  | nil => intro st _; simp [walk]
  | cons s r ih =>
    intro st h
    have h1 : node fs (st ++ [s]) = some .dir :=
      isDir_iff.1 (h [s] (by simp) (by simp))
    simp only [List.map, walk, h1]
    rw [ih (st ++ [s])]
    · simp
    · intro m hm hne
      have := h (s :: m) (List.cons_prefix_cons.2 ⟨rfl, hm⟩) (by simp)
      simpa using this

/-- a failing walk reports `notFound` or `notADirectory`, the latter only at a plain file -/
theorem walk_normal_err (fs : FS β) :
    ∀ (l : List Name) (st : APath) (e : IoErr), walk fs st (l.map Comp.normal) = .error e →
      e = .notFound ∨ (e = .notADirectory ∧ ∃ m, m <+: l ∧ m ≠ [] ∧ ∃ b, node fs (st ++ m) = some (.file b)) := by
  intro l
  induction l with
  | nil => intro st e h; simp [walk] at h
  | cons s r ih =>
    intro st e h
    simp only [List.map, walk] at h
    cases hn : node fs (st ++ [s]) with
    | none => simp [hn] at h; left; exact h.symm
    | some nd =>
      cases nd with
      | file b =>
        simp [hn] at h
        right
        exact ⟨h.symm, [s], by simp, by simp, b, hn⟩
      | dir =>
        simp only [hn] at h
        rcases ih (st ++ [s]) e h with h1 | ⟨h1, m, hm, hne, b, hb⟩
        · left; exact h1
        · right
          refine ⟨h1, s :: m, List.cons_prefix_cons.2 ⟨rfl, hm⟩, by simp, b, ?_⟩
          simpa using hb

theorem locate_normal_ok {fs : FS β} {l : List Name} {s : Name}
    (h : ∀ m, m <+: l → m ≠ [] → isDir fs m = true) :
    locate fs ((l ++ [s]).map Comp.normal) = .ok (l ++ [s], false) := by
  rw [locate_snoc, walk_normal_ok fs l [] (by simpa using h)]
  simp

theorem writeFile_normal_ok {fs : FS β} {l : List Name} {s : Name} (b : β)
    (h : ∀ m, m <+: l → m ≠ [] → isDir fs m = true) (hd : isDir fs (l ++ [s]) = false) :
    writeFile fs ((l ++ [s]).map Comp.normal) b = .ok (set fs (l ++ [s]) (.file b)) := by
  unfold writeFile
  rw [locate_normal_ok h]
  simp [hd]

theorem mkdir_normal_ok {fs : FS β} {l : List Name} {s : Name}
    (h : ∀ m, m <+: l → m ≠ [] → isDir fs m = true) (hn : node fs (l ++ [s]) = none) :
    mkdir fs ((l ++ [s]).map Comp.normal) = .ok (set fs (l ++ [s]) .dir) := by
  unfold mkdir
  rw [locate_normal_ok h]
  simp [hn]

theorem isDirAt_normal_ok {fs : FS β} {l : List Name} {s : Name}
    (h : ∀ m, m <+: l → m ≠ [] → isDir fs m = true) (hd : isDir fs (l ++ [s]) = true) :
    isDirAt fs ((l ++ [s]).map Comp.normal) = true := by
  unfold isDirAt
  rw [locate_normal_ok h]
  exact hd

/-- why a `mkdir` of an all-normal path fails -/
theorem mkdir_normal_error {fs : FS β} {l : List Name} {s : Name} {e : IoErr}
    (h : mkdir fs ((l ++ [s]).map Comp.normal) = .error e) :
    e = .notFound ∨
    (e = .notADirectory ∧ ∃ m, m <+: l ∧ m ≠ [] ∧ ∃ b, node fs m = some (.file b)) ∨
    (e = .alreadyExists ∧ (node fs (l ++ [s])).isSome = true ∧ ∀ m, m <+: l → m ≠ [] → isDir fs m = true) := by
  unfold mkdir at h
  rw [locate_snoc] at h
  cases hw : walk fs [] (l.map Comp.normal) with
  | error e' =>
    simp only [hw] at h
    injection h with h
    subst h
    rcases walk_normal_err fs l [] e' hw with h1 | ⟨h1, m, hm, hne, b, hb⟩
    · left; exact h1
    · right; left; exact ⟨h1, m, hm, hne, b, by simpa using hb⟩
  | ok d =>
    obtain ⟨hd, hdirs⟩ := walk_normal fs l [] d hw
    simp only [List.nil_append] at hd hdirs
    subst hd
    simp only [hw] at h
    cases hn : node fs (d ++ [s]) with
    | none => simp [hn] at h
    | some n =>
      simp [hn] at h
      right; right
      exact ⟨h.symm, by simp, hdirs⟩

/-- **`create_dir_all` succeeds** on an all-normal path none of whose non-empty prefixes is a plain file -/
theorem mkdirAllRev_ok (rl : List Name) :
    ∀ (fs : FS β), (∀ m, m <+: rl.reverse → m ≠ [] → ∀ b, node fs m ≠ some (.file b)) →
      (mkdirAllRev fs (rl.map Comp.normal)).2 = none := by
  induction rl with
  | nil => intro fs _; simp [mkdirAllRev]
  | cons s r ih =>
    intro fs hnf
    have hcs : (Comp.normal s :: r.map Comp.normal).reverse = (r.reverse ++ [s]).map Comp.normal := by
      simp [List.map_reverse]
    have hne : r.reverse ++ [s] ≠ [] := by simp
    have hself : r.reverse ++ [s] <+: (s :: r).reverse := by simp
    have hpre : ∀ m, m <+: r.reverse → m <+: (s :: r).reverse := by
      intro m hm; simp only [List.reverse_cons]; exact hm.trans (List.prefix_append _ _)
    -- the path already exists and is not a file: it is a directory
    have key : ∀ (g : FS β), (∀ b, node g (r.reverse ++ [s]) ≠ some (.file b)) →
        (node g (r.reverse ++ [s])).isSome = true → (∀ m, m <+: r.reverse → m ≠ [] → isDir g m = true) →
        isDirAt g ((r.reverse ++ [s]).map Comp.normal) = true := by
      intro g hnf' hsome hd
      apply isDirAt_normal_ok hd
      rw [isDir_iff]
      cases hn : node g (r.reverse ++ [s]) with
      | none => rw [hn] at hsome; simp at hsome
      | some n =>
        cases n with
        | dir => rfl
        | file b => exact absurd hn (hnf' b)
    simp only [List.map, mkdirAllRev, hcs]
    cases hm : mkdir fs ((r.reverse ++ [s]).map Comp.normal) with
    | ok fs' => rfl
    | error e =>
      by_cases he : e = IoErr.notFound
      · subst he
        simp only
        have ihr := ih fs (fun m hm' hne' => hnf m (hpre m hm') hne')
        have hdirs := mkdirAllRev_dirs r fs ihr
        have hch := mkdirAllRev_changes r fs
        generalize hrec : mkdirAllRev fs (r.map Comp.normal) = rec at ihr hdirs hch
        obtain ⟨fs1, e1⟩ := rec
        simp only at ihr hdirs hch
        subst ihr
        simp only
        cases hm2 : mkdir fs1 ((r.reverse ++ [s]).map Comp.normal) with
        | ok fs2 => rfl
        | error e2 =>
          simp only
          have hsame : lookup fs1 (r.reverse ++ [s]) = lookup fs (r.reverse ++ [s]) := by
            apply Classical.byContradiction
            intro hc
            obtain ⟨a, _, _, _⟩ := hch _ hc
            have := a.length_le
            simp only [List.length_append, List.length_reverse, List.length_singleton] at this
            omega
          have hnf1 : ∀ b, node fs1 (r.reverse ++ [s]) ≠ some (.file b) := by
            intro b
            rw [node_of_ne_nil _ hne, hsame, ← node_of_ne_nil _ hne]
            exact hnf _ hself hne b
          rcases mkdir_normal_error hm2 with h1 | ⟨_, m, hmp, hmne, b, hb⟩ | ⟨_, hsome, hd⟩
          · -- the parent chain is complete after the recursive call: `notFound` is impossible
            exfalso
            have hloc := locate_normal_ok (fs := fs1) (s := s) hdirs
            unfold mkdir at hm2
            rw [hloc] at hm2
            subst h1
            simp only at hm2
            split at hm2
            · injection hm2 with hm2; cases hm2
            · cases hm2
          · exfalso
            have := hdirs m hmp hmne
            rw [isDir_iff, hb] at this
            simp at this
          · rw [key fs1 hnf1 hsome hd]; rfl
      · simp only
        rcases mkdir_normal_error hm with h1 | ⟨_, m, hmp, hmne, b, hb⟩ | ⟨_, hsome, hd⟩
        · exact absurd h1 he
        · exact absurd hb (hnf m (hpre m hmp) hmne b)
        · have hk := key fs (fun b => hnf _ hself hne b) hsome hd
          have hform : (List.map Comp.normal r).reverse ++ [Comp.normal s] = List.map Comp.normal (r.reverse ++ [s]) := by
            simp [List.map_reverse]
          cases e <;> first | exact absurd rfl he | (simp only [hk]; rfl) | (simp only [hform, hk]; rfl)

end AbsFS
