import Norad.Lemmas.C05Bridge
import Norad.Lemmas.GlifGen
import Norad.Props.C11
import Norad.Props.C12
/-!
# norad's parser reads a whole document of the specification-level writer (C05, last phase)

`Ufo3.specWrite` spells every attribute out (also the defaults) in its own attribute order, so its event list is not
literally a `Glif.render` of the glif builder's generative grammar.  It is one *up to events that make the parser do
the same thing*: `StepSame rd e e'` (every format-2 parser state steps identically on `e` and `e'`), lifted to event
lists (`EvsSame`, `run_evssame`).  Each element of `specWrite` is `StepSame` to the grammar's rendering of the same
object with ANY norad-style spelling `F` that reads back (`Glif.Codec`), hence the whole document parses like
`render F (gdocOf d)` and `Glif.legal_accepted_gdoc` concludes.
-/
namespace C05Bridge
open Ufo3 Glif

section
variable (rd : Str → Option Nat)

/-- the two events make the parser do the same thing in every format-2 state -/
def StepSame (e e' : Ev) : Prop := ∀ s : PS, s.ver = 2 → step rd s e = step rd s e'

inductive EvsSame : List Ev → List Ev → Prop
  | nil : EvsSame [] []
  | cons {e e' : Ev} {l l' : List Ev} : StepSame rd e e' → EvsSame l l' → EvsSame (e :: l) (e' :: l')

theorem run_evssame {evs evs' : List Ev} (h : EvsSame rd evs evs') : ∀ s : PS, s.ver = 2 → run rd s evs = run rd s evs' := by
  induction h with
  | nil => intro s _; rfl
  | @cons e e' l l' he _ ih =>
    intro s hv
    simp only [run, he s hv]
    cases hs : step rd s e' with
    | error k => rfl
    | ok r => cases r with
      | inl s' => exact ih s' ((step_mono rd s s' e' hs).ver.trans hv)
      | inr g => rfl

theorem StepSame.rfl' (e : Ev) : StepSame rd e e := fun _ _ => rfl

theorem EvsSame.refl : ∀ l : List Ev, EvsSame rd l l
  | [] => .nil
  | e :: r => .cons (StepSame.rfl' rd e) (EvsSame.refl r)

theorem EvsSame.append {a a' b b' : List Ev} (h1 : EvsSame rd a a') (h2 : EvsSame rd b b') : EvsSame rd (a ++ b) (a' ++ b') := by
  induction h1 with
  | nil => exact h2
  | cons he _ ih => exact .cons he ih

theorem EvsSame.flatMap {α : Type} (w w' : α → List Ev) : ∀ l : List α, (∀ x, x ∈ l → EvsSame rd (w x) (w' x)) →
    EvsSame rd (l.flatMap w) (l.flatMap w')
  | [], _ => .nil
  | a :: r, h => by
    simp only [List.flatMap_cons]
    exact EvsSame.append rd (h a List.mem_cons_self) (EvsSame.flatMap w w' r (fun x hx => h x (List.mem_cons_of_mem _ hx)))

theorem EvsSame.map {α : Type} (w w' : α → Ev) (l : List α) (h : ∀ x, x ∈ l → StepSame rd (w x) (w' x)) :
    EvsSame rd (l.map w) (l.map w') := by
  induction l with
  | nil => exact .nil
  | cons a r ih => exact .cons (h a List.mem_cons_self) (ih (fun x hx => h x (List.mem_cons_of_mem _ hx)))

/-! ### from equal attribute parsers to `StepSame` -/

theorem stepSame_anchor {as as' : List Attr} (h : ∀ seen, parseAnchor rd 2 seen as = parseAnchor rd 2 seen as') :
    StepSame rd (.empty sAnchor (some as)) (.empty sAnchor (some as')) := by
  intro s hv
  unfold step
  cases s.mode <;> simp +decide [stepBody, bodyEmpty, stepOutline, stepContour, stepLib, stepNote, hv, h]

theorem stepSame_guideline {as as' : List Attr} (h : ∀ seen, parseGuideline rd 2 seen as = parseGuideline rd 2 seen as') :
    StepSame rd (.empty sGuideline (some as)) (.empty sGuideline (some as')) := by
  intro s hv
  unfold step
  cases s.mode <;> simp +decide [stepBody, bodyEmpty, stepOutline, stepContour, stepLib, stepNote, hv, h]

theorem stepSame_image {as as' : List Attr} (h : parseImage rd as = parseImage rd as') :
    StepSame rd (.empty sImage (some as)) (.empty sImage (some as')) := by
  intro s hv
  unfold step
  cases s.mode <;> simp +decide [stepBody, bodyEmpty, stepOutline, stepContour, stepLib, stepNote, hv, h]

theorem stepSame_advance {as as' : List Attr} (h : parseAdvance rd as = parseAdvance rd as') :
    StepSame rd (.empty sAdvance (some as)) (.empty sAdvance (some as')) := by
  intro s hv
  unfold step
  cases s.mode <;> simp +decide [stepBody, bodyEmpty, stepOutline, stepContour, stepLib, stepNote, hv, h]

theorem stepSame_unicode {as as' : List Attr} (h : ∀ cps, parseUnicode cps as = parseUnicode cps as') :
    StepSame rd (.empty sUnicode (some as)) (.empty sUnicode (some as')) := by
  intro s hv
  unfold step
  cases s.mode <;> simp +decide [stepBody, bodyEmpty, stepOutline, stepContour, stepLib, stepNote, hv, h]

theorem stepSame_component {as as' : List Attr} (h : ∀ seen, parseComponent rd 2 seen as = parseComponent rd 2 seen as') :
    StepSame rd (.empty sComponent (some as)) (.empty sComponent (some as')) := by
  intro s hv
  unfold step
  cases s.mode <;> simp +decide [stepBody, bodyEmpty, stepOutline, stepContour, stepLib, stepNote, hv, h]

theorem stepSame_point {as as' : List Attr} (h : ∀ seen, parsePoint rd 2 seen as = parsePoint rd 2 seen as') :
    StepSame rd (.empty sPoint (some as)) (.empty sPoint (some as')) := by
  intro s hv
  unfold step
  cases s.mode <;> simp +decide [stepBody, bodyEmpty, stepOutline, stepContour, stepLib, stepNote, hv, h]

end
end C05Bridge

/-! ### descriptions as objects of the parser model -/

namespace C05Bridge
open Ufo3 Glif

def anchorG (a : AnchorD) : Anchor :=
  { x := a.x, y := a.y, name := a.name.map L, color := a.color.map colG, ident := a.identifier.map L }
def guidelineG (g : GuidelineD) : Guideline :=
  { line := (lineOf g).getD (.vertical 0), name := g.name.map L, color := g.color.map colG, ident := g.identifier.map L }
def pointG (p : PointD) : Point :=
  { x := p.x, y := p.y, typ := ptG p.typ, smooth := p.smooth, name := p.name.map L, ident := p.identifier.map L }
def componentG (k : ComponentD) : Component := { base := L k.base, transform := trG k.t, ident := k.identifier.map L }
def imageG (i : ImageD) : Image := { fileName := L i.fileName, color := i.color.map colG, transform := trG i.t }

/-- the colour survives norad's three-decimal string (`nc`) -/
def ncFixed (nc : Color → Color) (c : Option ColorD) : Prop := ∀ x, c = some x → nc (colG x) = colG x

/-- a coefficient the encoder's gate would drop is the default itself (no `-0`, no value within 2⁻⁵² of 1 other than 1) -/
def scaleStd (b : Nat) : Prop := farFromOne b = true ∨ b = f64One
def offsetStd (b : Nat) : Prop := nonZero b = true ∨ b = 0
def affineStd (t : Affine Nat) : Prop :=
  scaleStd t.xScale ∧ offsetStd t.xyScale ∧ offsetStd t.yxScale ∧ scaleStd t.yScale ∧ offsetStd t.xOffset ∧ offsetStd t.yOffset

section
variable {F : Fmt} {rd : Str → Option Nat} {rdr : Render} {nc : Color → Color} {ok : Nat → Prop}

theorem colF (hF : Codec F rd nc ok) (c : ColorD) (h : nc (colG c) = colG c) :
    readCol rd (showColor F (colG c)) = some (colG c) := by rw [hF.col, h]

/-- **anchor**: the grammar's rendering and the specification writer's spelling are read alike, whatever has been seen -/
theorem anchor_same (hF : Codec F rd nc ok) (hP : ParseCodec rd rdr ok) {a : AnchorD} (hx : ok a.x) (hy : ok a.y)
    (hn : ∀ n, a.name = some n → validName (L n) = true) (hcol : okColor ok a.color) (hnc : ncFixed nc a.color)
    (seen : List Str) :
    parseAnchor rd 2 seen (anchorAttrs F (anchorG a)) = parseAnchor rd 2 seen (nodeAttrs (writeAnchor rdr a)) := by
  obtain ⟨x, y, name, color, ident⟩ := a
  simp only at hx hy hn hcol hnc
  have f1 := hF.num _ hx; have f2 := hF.num _ hy
  have p1 := hP.num _ hx; have p2 := hP.num _ hy
  have hcl : ∀ c, color = some c → readCol rd (rdr.nums [c.r, c.g, c.b, c.a]).toList = some (colG c) :=
    fun c h => hP.col c (hcol c h).1 (hcol c h).2.1 (hcol c h).2.2.1 (hcol c h).2.2.2
  have hcf : ∀ c, color = some c → readCol rd (showColor F (colG c)) = some (colG c) := fun c h => colF hF c (hnc c h)
  cases name <;> cases color <;> cases ident <;>
    simp [anchorAttrs, anchorG, optAttr, nodeAttrs, writeAnchor, attrsL, optA, colorA, parseAnchor, foldAttrs, aStep,
          aApply, aFinish, f1, f2, p1, p2, hn, hcl, hcf, L] <;>
    (first | done | (split <;> simp_all [L]))

/-- **guideline** -/
theorem guideline_same (hF : Codec F rd nc ok) (hP : ParseCodec rd rdr ok) {g : GuidelineD} {l : Line} (hl : lineOf g = some l)
    (hx : ∀ v, g.x = some v → ok v) (hy : ∀ v, g.y = some v → ok v)
    (ha : ∀ v, g.angle = some v → ok v ∧ angleOk v = true)
    (hn : ∀ n, g.name = some n → validName (L n) = true) (hcol : okColor ok g.color) (hnc : ncFixed nc g.color)
    (seen : List Str) :
    parseGuideline rd 2 seen (guidelineAttrs F (guidelineG g)) =
      parseGuideline rd 2 seen (nodeAttrs (writeGuideline rdr g)) := by
  obtain ⟨x, y, angle, name, color, ident⟩ := g
  simp only at hx hy ha hn hcol hnc
  have hcl : ∀ c, color = some c → readCol rd (rdr.nums [c.r, c.g, c.b, c.a]).toList = some (colG c) :=
    fun c h => hP.col c (hcol c h).1 (hcol c h).2.1 (hcol c h).2.2.1 (hcol c h).2.2.2
  have hcf : ∀ c, color = some c → readCol rd (showColor F (colG c)) = some (colG c) := fun c h => colF hF c (hnc c h)
  have fx : ∀ v, x = some v → rd (F.shw v) = some v := fun v h => hF.num _ (hx v h)
  have fy : ∀ v, y = some v → rd (F.shw v) = some v := fun v h => hF.num _ (hy v h)
  have fa : ∀ v, angle = some v → rd (F.shw v) = some v := fun v h => hF.num _ (ha v h).1
  have ka : ∀ v, angle = some v → angleOk v = true := fun v h => (ha v h).2
  have px : ∀ v, x = some v → rd (rdr.nums [v]).toList = some v := fun v h => hP.num _ (hx v h)
  have py : ∀ v, y = some v → rd (rdr.nums [v]).toList = some v := fun v h => hP.num _ (hy v h)
  have pa : ∀ v, angle = some v → rd (rdr.nums [v]).toList = some v := fun v h => hP.num _ (ha v h).1
  cases x <;> cases y <;> cases angle <;> simp [lineOf] at hl <;> subst hl <;>
    cases name <;> cases color <;> cases ident <;>
    simp [guidelineAttrs, guidelineG, lineOf, lineAttrs, optAttr, nodeAttrs, writeGuideline, attrsL, optA, optN, colorA,
          parseGuideline, foldAttrs, guStep, guApply, guFinish, fx, fy, fa, ka, px, py, pa, hn, hcl, hcf, L] <;>
    (first | done | (split <;> simp_all [L]) | (split <;> split <;> simp_all [L]))

/-- **point**: `type="offcurve"` and `smooth="no"` spelt out change nothing -/
theorem point_same (hF : Codec F rd nc ok) (hP : ParseCodec rd rdr ok) {p : PointD} (hx : ok p.x) (hy : ok p.y)
    (hn : ∀ n, p.name = some n → validName (L n) = true) (seen : List Str) :
    parsePoint rd 2 seen (pointAttrs F (pointG p)) = parsePoint rd 2 seen (nodeAttrs (writePoint rdr p)) := by
  obtain ⟨x, y, typ, smooth, name, ident⟩ := p
  simp only at hx hy hn
  have f1 := hF.num _ hx; have f2 := hF.num _ hy
  have p1 := hP.num _ hx; have p2 := hP.num _ hy
  cases typ <;> cases smooth <;> cases name <;> cases ident <;>
    simp [pointAttrs, pointG, ptG, pointTypeAttr, optAttr, nodeAttrs, writePoint, attrsL, optA, PType.str, parsePoint,
          foldAttrs, pStep, pApply, pFinish, f1, f2, p1, p2, hn, L] <;>
    (first | done | (split <;> simp_all [L]))

/-- **advance**: both attributes spelt out -/
theorem advance_same (hF : Codec F rd nc ok) (hP : ParseCodec rd rdr ok) {w h : Nat} (hw : ok w) (hh : ok h)
    (sw : offsetStd w) (sh : offsetStd h) :
    parseAdvance rd (advanceAttrs F w h) = parseAdvance rd (attrsL [("width", rdr.nums [w]), ("height", rdr.nums [h])]) := by
  have f1 := hF.num _ hw; have f2 := hF.num _ hh
  have p1 := hP.num _ hw; have p2 := hP.num _ hh
  rcases sw with sw | sw <;> rcases sh with sh | sh <;>
    simp_all [advanceAttrs, attrsL, parseAdvance, foldAttrs, advStep, advApply, nonZero]

/-- **unicode**: any hexadecimal spelling that reads back -/
theorem unicode_same (hP : ParseCodec rd rdr ok) {c : Nat} (hv : ValidCodepoint c) (cps : List Nat) :
    parseUnicode cps [(sHex, showCodepoint c)] = parseUnicode cps (nodeAttrs (writeUnicode rdr c)) := by
  rw [norad_parses_spec_unicode hP cps hv, unicode_roundtrip hv]

theorem normT_std {t : Affine Nat} (h : affineStd t) : normT (trG t) = trG t := by
  obtain ⟨a, b, c, d, e, f'⟩ := t
  obtain ⟨h1, h2, h3, h4, h5, h6⟩ := h
  simp only [scaleStd, offsetStd] at h1 h2 h3 h4 h5 h6
  have hone : farFromOne f64One = false := by decide
  have hzero : nonZero 0 = false := by decide
  rcases h1 with h1 | h1 <;> rcases h2 with h2 | h2 <;> rcases h3 with h3 | h3 <;> rcases h4 with h4 | h4 <;>
    rcases h5 with h5 | h5 <;> rcases h6 with h6 | h6 <;> simp_all [normT, trG]

/-- all six coefficients spelt out, folded by the component loop from any accumulator -/
theorem spelled_fold_component (hP : ParseCodec rd rdr ok) (seen : List Str) {t : Affine Nat} (ht : okAffine ok t)
    (b i : Option Str) :
    foldAttrs (cStep rd 2 seen) { base := b, ident := i, transform := {} } (attrsL (transformA rdr t)) =
      some { base := b, ident := i, transform := trG t } := by
  obtain ⟨a, b', c, d, e, f'⟩ := t
  obtain ⟨h1, h2, h3, h4, h5, h6⟩ := ht
  simp only at h1 h2 h3 h4 h5 h6
  have n1 := hP.num _ h1; have n2 := hP.num _ h2; have n3 := hP.num _ h3
  have n4 := hP.num _ h4; have n5 := hP.num _ h5; have n6 := hP.num _ h6
  simp [attrsL, transformA, foldAttrs, cStep, cApply, tSet, n1, n2, n3, n4, n5, n6, trG]

theorem spelled_fold_image (hP : ParseCodec rd rdr ok) {t : Affine Nat} (ht : okAffine ok t) (fn : Option Str) (c : Option Color) :
    foldAttrs (iStep rd) { fileName := fn, color := c, transform := {} } (attrsL (transformA rdr t)) =
      some { fileName := fn, color := c, transform := trG t } := by
  obtain ⟨a, b', c', d, e, f'⟩ := t
  obtain ⟨h1, h2, h3, h4, h5, h6⟩ := ht
  simp only at h1 h2 h3 h4 h5 h6
  have n1 := hP.num _ h1; have n2 := hP.num _ h2; have n3 := hP.num _ h3
  have n4 := hP.num _ h4; have n5 := hP.num _ h5; have n6 := hP.num _ h6
  simp [attrsL, transformA, foldAttrs, iStep, iApply, tSet, n1, n2, n3, n4, n5, n6, trG]

theorem okT_of (ht : okAffine ok t) : OkT ok (trG t) := ht

@[simp] theorem attrsL_append (a b : List (String × String)) : attrsL (a ++ b) = attrsL a ++ attrsL b := by simp [attrsL]

/-- **component**: the gated rendering of the grammar and all six coefficients spelt out are read alike -/
theorem component_same (hF : Codec F rd nc ok) (hP : ParseCodec rd rdr ok) {k : ComponentD}
    (hb : validName (L k.base) = true) (ht : okAffine ok k.t) (hs : affineStd k.t) (seen : List Str) :
    parseComponent rd 2 seen (componentAttrs F (componentG k)) =
      parseComponent rd 2 seen (nodeAttrs (writeComponent rdr k)) := by
  obtain ⟨base, t, ident⟩ := k
  simp only at hb ht hs
  have e1 : foldAttrs (cStep rd 2 seen) {} [("base".toList, L base)] =
      some { base := some (L base), ident := none, transform := {} } := by
    simp [foldAttrs, cStep, cApply, hb]
  have e1' : foldAttrs (cStep rd 2 seen) {} (attrsL [("base", base)]) =
      some { base := some (L base), ident := none, transform := {} } := by
    simp [attrsL, foldAttrs, cStep, cApply, L] at hb ⊢; simp [hb]
  have hA : attrsL (optA "identifier" ident) = optAttr "identifier" (ident.map L) := by
    cases ident <;> simp [attrsL, optA, optAttr, L]
  unfold parseComponent
  simp only [componentAttrs, componentG, nodeAttrs, writeComponent, attrsL_append, hA]
  rw [foldAttrs_append, foldAttrs_append, foldAttrs_append, foldAttrs_append, e1, e1']
  simp only [Option.bind_some, transform_fold_component hF seen (okT_of ht), spelled_fold_component hP seen ht,
    normT_std hs]

/-- **image** -/
theorem image_same (hF : Codec F rd nc ok) (hP : ParseCodec rd rdr ok) {i : ImageD}
    (ht : okAffine ok i.t) (hs : affineStd i.t) (hcol : okColor ok i.color) (hnc : ncFixed nc i.color) :
    parseImage rd (imageAttrs F (imageG i)) = parseImage rd (nodeAttrs (writeImage rdr i)) := by
  obtain ⟨fn, t, color⟩ := i
  simp only at ht hs hcol hnc
  have hcl : ∀ c, color = some c → readCol rd (rdr.nums [c.r, c.g, c.b, c.a]).toList = some (colG c) :=
    fun c h => hP.col c (hcol c h).1 (hcol c h).2.1 (hcol c h).2.2.1 (hcol c h).2.2.2
  have hcf : ∀ c, color = some c → readCol rd (showColor F (colG c)) = some (colG c) := fun c h => colF hF c (hnc c h)
  have e1 : foldAttrs (iStep rd) {} [("fileName".toList, L fn)] =
      some { fileName := some (L fn), color := none, transform := {} } := by
    simp [foldAttrs, iStep, iApply]
  have e1' : foldAttrs (iStep rd) {} (attrsL [("fileName", fn)]) =
      some { fileName := some (L fn), color := none, transform := {} } := by
    simp [attrsL, foldAttrs, iStep, iApply, L]
  unfold parseImage
  simp only [imageAttrs, imageG, nodeAttrs, writeImage, attrsL_append]
  rw [foldAttrs_append, foldAttrs_append, foldAttrs_append, foldAttrs_append, e1, e1']
  simp only [Option.bind_some, transform_fold_image hF (okT_of ht), spelled_fold_image hP ht, normT_std hs]
  cases color <;> simp [optAttr, colorA, attrsL, foldAttrs, iStep, iApply, hcl, hcf]

/-! ### the document -/

/-- the static rules a description obeys (numbers in the codec's domain, valid names, colours in 0..1 that survive three
    decimals, coefficients the encoder's gates would not alter, no `-0` advance); identifier and contour legality are in
    `Glif.LegalItems` of the document -/
structure DescOK (ok : Nat → Prop) (nc : Color → Color) (d : GlyphD) : Prop where
  width : ok d.width
  height : ok d.height
  wstd : offsetStd d.width
  hstd : offsetStd d.height
  unicodes : ∀ c, c ∈ d.unicodes → ValidCodepoint c
  image : ∀ i, d.image = some i → okAffine ok i.t ∧ affineStd i.t ∧ okColor ok i.color ∧ ncFixed nc i.color
  guidelines : ∀ g, g ∈ d.guidelines → (∃ l, lineOf g = some l) ∧ (∀ v, g.x = some v → ok v) ∧ (∀ v, g.y = some v → ok v) ∧
    (∀ v, g.angle = some v → ok v ∧ angleOk v = true) ∧ (∀ n, g.name = some n → validName (L n) = true) ∧
    okColor ok g.color ∧ ncFixed nc g.color
  anchors : ∀ a, a ∈ d.anchors → ok a.x ∧ ok a.y ∧ (∀ n, a.name = some n → validName (L n) = true) ∧
    okColor ok a.color ∧ ncFixed nc a.color
  points : ∀ c, c ∈ d.contours → ∀ p, p ∈ c.points → ok p.x ∧ ok p.y ∧ (∀ n, p.name = some n → validName (L n) = true)
  components : ∀ k, k ∈ d.components → validName (L k.base) = true ∧ okAffine ok k.t ∧ affineStd k.t

def oitsOf (d : GlyphD) : List OIt :=
  d.contours.map (fun c => OIt.contour (c.identifier.map L) (c.points.map fun p => CIt.point (pointG p))) ++
  d.components.map (fun k => OIt.component (componentG k))

/-- the document of the glif builder's grammar that describes the same glyph, items in the order `specWrite` uses -/
def itemsOf (libD : Dict) (d : GlyphD) : List BIt :=
  [BIt.advance d.width d.height] ++ d.unicodes.map BIt.unicode ++
  (match d.note with | none => [] | some n => [BIt.note (if n.isEmpty then none else some (L n))]) ++
  (match d.image with | none => [] | some i => [BIt.image (imageG i)]) ++
  d.guidelines.map (fun g => BIt.guideline (guidelineG g)) ++ d.anchors.map (fun a => BIt.anchor (anchorG a)) ++
  [BIt.outline (oitsOf d)] ++
  (match d.lib with | none => [] | some _ => [BIt.lib libD])

def gdocOf (libD : Dict) (d : GlyphD) : GDoc :=
  { prolog := [.decl], name := L d.name, minor := false, items := itemsOf libD d, trailer := [] }

theorem toList_anchor : "anchor".toList = sAnchor := by decide
theorem toList_guideline : "guideline".toList = sGuideline := by decide
theorem toList_image : "image".toList = sImage := by decide
theorem toList_advance : "advance".toList = sAdvance := by decide
theorem toList_unicode : "unicode".toList = sUnicode := by decide
theorem toList_component : "component".toList = sComponent := by decide
theorem toList_point : "point".toList = sPoint := by decide

theorem flatMap_single {α : Type} (w : α → List Ev) (e : α → Ev) (h : ∀ x, w x = [e x]) (l : List α) :
    l.flatMap w = l.map e := by
  induction l with
  | nil => rfl
  | cons a r ih => simp [List.flatMap_cons, h, ih]

/-- the events of the specification writer's contour -/
def contourEvsS (rdr : Render) (c : ContourD) : List Ev :=
  .start sContour (some (optAttr "identifier" (c.identifier.map L))) ::
    (c.points.map (fun p => Ev.empty sPoint (some (nodeAttrs (writePoint rdr p)))) ++ [.close sContour])

theorem outlineChild_contour (c : ContourD) : outlineChildEvs (writeContour rdr c) = contourEvsS rdr c := by
  have hA : attrsL (optA "identifier" c.identifier) = optAttr "identifier" (c.identifier.map L) := by
    cases c.identifier <;> simp [attrsL, optA, optAttr, L]
  simp [outlineChildEvs, writeContour, XNode.tag, contourEvsOf, contourEvsS, toList_contour, hA, List.map_map,
        Function.comp_def, leafEv, writePoint, nodeAttrs, toList_point]

theorem outlineChild_component (k : ComponentD) :
    outlineChildEvs (writeComponent rdr k) = [Ev.empty sComponent (some (nodeAttrs (writeComponent rdr k)))] := by
  simp [outlineChildEvs, writeComponent, XNode.tag, leafEv, nodeAttrs, toList_component]

/-- the body of the specification writer's document, event by event -/
def bodyS (rl : String → LibV) (rdr : Render) (d : GlyphD) : List Ev :=
  [Ev.empty sAdvance (some (attrsL [("width", rdr.nums [d.width]), ("height", rdr.nums [d.height])]))] ++
  d.unicodes.map (fun c => Ev.empty sUnicode (some (nodeAttrs (writeUnicode rdr c)))) ++
  (match d.note with
   | none => []
   | some n => .start sNote (some []) :: ((if n.isEmpty then [] else [.text (some n.toList)]) ++ [.close sNote])) ++
  (match d.image with | none => [] | some i => [Ev.empty sImage (some (nodeAttrs (writeImage rdr i)))]) ++
  d.guidelines.map (fun g => Ev.empty sGuideline (some (nodeAttrs (writeGuideline rdr g)))) ++
  d.anchors.map (fun a => Ev.empty sAnchor (some (nodeAttrs (writeAnchor rdr a)))) ++
  (.start sOutline (some []) ::
    (d.contours.flatMap (contourEvsS rdr) ++
     d.components.map (fun k => Ev.empty sComponent (some (nodeAttrs (writeComponent rdr k)))) ++ [.close sOutline])) ++
  (match d.lib with | none => [] | some t => [.startLib (some []) (rl t), .close sLib])

theorem events_of_specWrite (rl : String → LibV) (d : GlyphD) :
    eventsOf rl (specWrite rdr d) =
      .decl :: .start sGlyph (some [("name".toList, L d.name), ("format".toList, ['2'])]) ::
        (bodyS rl rdr d ++ [.close sGlyph]) := by
  have hU := flatMap_single (fun c => glyphChildEvs rl (writeUnicode rdr c))
    (fun c => Ev.empty sUnicode (some (nodeAttrs (writeUnicode rdr c))))
    (fun c => by simp [glyphChildEvs, writeUnicode, nodeAttrs, toList_unicode]) d.unicodes
  have hG := flatMap_single (fun g => glyphChildEvs rl (writeGuideline rdr g))
    (fun g => Ev.empty sGuideline (some (nodeAttrs (writeGuideline rdr g))))
    (fun g => by simp [glyphChildEvs, writeGuideline, nodeAttrs, toList_guideline]) d.guidelines
  have hA := flatMap_single (fun a => glyphChildEvs rl (writeAnchor rdr a))
    (fun a => Ev.empty sAnchor (some (nodeAttrs (writeAnchor rdr a))))
    (fun a => by simp [glyphChildEvs, writeAnchor, nodeAttrs, toList_anchor]) d.anchors
  have hC : (d.contours.map (writeContour rdr)).flatMap outlineChildEvs = d.contours.flatMap (contourEvsS rdr) := by
    induction d.contours with
    | nil => rfl
    | cons c r ih => simp [List.flatMap_cons, outlineChild_contour, ih]
  have hK : (d.components.map (writeComponent rdr)).flatMap outlineChildEvs =
      d.components.map (fun k => Ev.empty sComponent (some (nodeAttrs (writeComponent rdr k)))) := by
    induction d.components with
    | nil => rfl
    | cons c r ih => simp [List.flatMap_cons, outlineChild_component, ih]
  have hImg : ∀ i, glyphChildEvs rl (writeImage rdr i) = [Ev.empty sImage (some (nodeAttrs (writeImage rdr i)))] :=
    fun i => by simp [glyphChildEvs, writeImage, nodeAttrs, toList_image]
  have hAdv : ∀ as, glyphChildEvs rl (.elem "advance" as [] "") = [Ev.empty sAdvance (some (attrsL as))] :=
    fun as => by simp [glyphChildEvs, toList_advance]
  have hOut : ∀ kids, glyphChildEvs rl (.elem "outline" [] kids "") =
      .start sOutline (some []) :: (kids.flatMap outlineChildEvs ++ [.close sOutline]) :=
    fun kids => by simp [glyphChildEvs, toList_outline, attrsL]
  unfold specWrite eventsOf bodyS
  simp only [List.flatMap_append, List.flatMap_map, hU, hG, hA]
  cases d.note <;> cases d.image <;> cases d.lib <;>
    simp [optNode, hAdv, hOut, childEvs_note, childEvs_lib, hImg, toList_glyph, attrsL, L,
          List.flatMap_append, hC, hK, List.append_assoc]

/-- the grammar's rendering of the same contour -/
def contourEvsR (F : Fmt) (c : ContourD) : List Ev :=
  .start sContour (some (optAttr "identifier" (c.identifier.map L))) ::
    (c.points.map (fun p => pointEv F (pointG p)) ++ [.close sContour])

/-- the body of `render F (gdocOf libD d)`, event by event -/
def bodyR (F : Fmt) (libD : Dict) (d : GlyphD) : List Ev :=
  [Ev.empty sAdvance (some (advanceAttrs F d.width d.height))] ++
  d.unicodes.map (fun c => Ev.empty sUnicode (some [(sHex, showCodepoint c)])) ++
  (match d.note with
   | none => []
   | some n => .start sNote (some []) :: ((if n.isEmpty then [] else [.text (some n.toList)]) ++ [.close sNote])) ++
  (match d.image with | none => [] | some i => [imageEv F (imageG i)]) ++
  d.guidelines.map (fun g => guidelineEv F (guidelineG g)) ++
  d.anchors.map (fun a => anchorEv F (anchorG a)) ++
  (.start sOutline (some []) ::
    (d.contours.flatMap (contourEvsR F) ++ d.components.map (fun k => componentEv F (componentG k)) ++ [.close sOutline])) ++
  (match d.lib with | none => [] | some _ => [.startLib (some []) (.dict libD), .close sLib])

theorem render_items (libD : Dict) (d : GlyphD) : (itemsOf libD d).flatMap (BIt.evs F) = bodyR F libD d := by
  have hU := flatMap_single (fun c => BIt.evs F (BIt.unicode c)) (fun c => Ev.empty sUnicode (some [(sHex, showCodepoint c)]))
    (fun _ => rfl) d.unicodes
  have hG := flatMap_single (fun g => BIt.evs F (BIt.guideline (guidelineG g))) (fun g => guidelineEv F (guidelineG g))
    (fun _ => rfl) d.guidelines
  have hA := flatMap_single (fun a => BIt.evs F (BIt.anchor (anchorG a))) (fun a => anchorEv F (anchorG a))
    (fun _ => rfl) d.anchors
  have hP : ∀ ps : List PointD, (ps.map fun p => CIt.point (pointG p)).flatMap (CIt.evs F) = ps.map (fun p => pointEv F (pointG p)) := by
    intro ps
    induction ps with
    | nil => rfl
    | cons p r ih => simp [List.flatMap_cons, CIt.evs, ih]
  have hC : (d.contours.map (fun c => OIt.contour (c.identifier.map L) (c.points.map fun p => CIt.point (pointG p)))).flatMap
      (OIt.evs F) = d.contours.flatMap (contourEvsR F) := by
    induction d.contours with
    | nil => rfl
    | cons c r ih => simp [List.flatMap_cons, OIt.evs, contourEvsR, hP, ih]
  have hK : (d.components.map (fun k => OIt.component (componentG k))).flatMap (OIt.evs F) =
      d.components.map (fun k => componentEv F (componentG k)) := by
    induction d.components with
    | nil => rfl
    | cons c r ih => simp [List.flatMap_cons, OIt.evs, ih]
  unfold itemsOf bodyR
  simp only [List.flatMap_append, List.flatMap_map, hU, hG, hA]
  rcases hn : d.note with _ | n
  · cases d.image <;> cases d.lib <;> simp [BIt.evs, oitsOf, List.flatMap_append, hC, hK, List.append_assoc]
  · by_cases he : n = "" <;> cases d.image <;> cases d.lib <;>
      simp [he, BIt.evs, oitsOf, List.flatMap_append, hC, hK, List.append_assoc, L]

/-- **the two bodies make the parser do the same thing** -/
theorem body_same (hF : Codec F rd nc ok) (hP : ParseCodec rd rdr ok) (rl : String → LibV) (libD : Dict) (d : GlyphD)
    (hv : DescOK ok nc d) (hl : ∀ t, d.lib = some t → rl t = .dict libD) :
    EvsSame rd (bodyR F libD d ++ [.close sGlyph]) (bodyS rl rdr d ++ [.close sGlyph]) := by
  unfold bodyR bodyS
  refine EvsSame.append rd (EvsSame.append rd (EvsSame.append rd (EvsSame.append rd (EvsSame.append rd (EvsSame.append rd
    (EvsSame.append rd (EvsSame.append rd ?adv ?uni) ?note) ?img) ?gl) ?an) ?out) ?lib) (EvsSame.refl rd _)
  case adv =>
    exact .cons (stepSame_advance rd (advance_same hF hP hv.width hv.height hv.wstd hv.hstd)) .nil
  case uni =>
    exact EvsSame.map rd _ _ _ (fun c hc => stepSame_unicode rd (unicode_same hP (hv.unicodes c hc)))
  case note => exact EvsSame.refl rd _
  case img =>
    cases hi : d.image with
    | none => exact .nil
    | some i =>
      obtain ⟨h1, h2, h3, h4⟩ := hv.image i hi
      exact .cons (stepSame_image rd (image_same hF hP h1 h2 h3 h4)) .nil
  case gl =>
    refine EvsSame.map rd _ _ _ (fun g hg => ?_)
    obtain ⟨⟨l, h0⟩, h1, h2, h3, h4, h5, h6⟩ := hv.guidelines g hg
    exact stepSame_guideline rd (guideline_same hF hP h0 h1 h2 h3 h4 h5 h6)
  case an =>
    refine EvsSame.map rd _ _ _ (fun a ha => ?_)
    obtain ⟨h1, h2, h3, h4, h5⟩ := hv.anchors a ha
    exact stepSame_anchor rd (anchor_same hF hP h1 h2 h3 h4 h5)
  case out =>
    refine .cons (StepSame.rfl' rd _) (EvsSame.append rd (EvsSame.append rd ?cs ?ks) (EvsSame.refl rd _))
    case cs =>
      refine EvsSame.flatMap rd _ _ _ (fun c hc => ?_)
      unfold contourEvsR contourEvsS
      refine .cons (StepSame.rfl' rd _) (EvsSame.append rd ?_ (EvsSame.refl rd _))
      refine EvsSame.map rd _ _ _ (fun p hp => ?_)
      obtain ⟨h1, h2, h3⟩ := hv.points c hc p hp
      exact stepSame_point rd (point_same hF hP h1 h2 h3)
    case ks =>
      refine EvsSame.map rd _ _ _ (fun k hk => ?_)
      obtain ⟨h1, h2, h3⟩ := hv.components k hk
      exact stepSame_component rd (component_same hF hP h1 h2 h3)
  case lib =>
    cases hlib : d.lib with
    | none => exact .nil
    | some t => dsimp only; rw [hl t hlib]; exact EvsSame.refl rd _

/-- **norad's parser reads a whole document of the specification-level writer** -/
theorem parse_specWrite (hF : Codec F rd nc ok) (hP : ParseCodec rd rdr ok) (rl : String → LibV) (libD : Dict) (d : GlyphD)
    (hn : validName (L d.name) = true) (hv : DescOK ok nc d) (hl : ∀ t, d.lib = some t → rl t = .dict libD)
    (hL : LegalItems ok (itemsOf libD d)) :
    parseGlif rd (eventsOf rl (specWrite rdr d)) = loadObjectLibs (interp nc (gdocOf libD d)) := by
  rw [← legal_accepted_gdoc hF (gdocOf libD d) (by intro e he; simp [gdocOf] at he; subst he; rfl) hn hL]
  rw [events_of_specWrite]
  have hr : render F (gdocOf libD d) =
      .decl :: .start sGlyph (some [("name".toList, L d.name), ("format".toList, ['2'])]) ::
        (bodyR F libD d ++ [.close sGlyph]) := by
    simp [render, gdocOf, glyphStartAttrs, render_items]
  rw [hr]
  have hg := glyphAttrs_roundtrip hn
  simp only [parseGlif, scanStart, if_true, hg]
  exact (run_evssame rd (body_same hF hP rl libD d hv hl) _ rfl).symm

/-! ### which glyph: `interp` of the described document in closed form -/

def contourG (c : ContourD) : Contour :=
  { points := c.points.map (fun p => pPoint (pointG p)), ident := c.identifier.map L }

/-- the glyph `specWrite rdr d` describes, as norad's parser builds it (before the object libs are moved out of the lib):
    colours through `nc`, gated coefficients through `normT` (both the identity under `DescOK`), contours without points
    dropped, repeated code points kept once -/
def glyphOf (nc : Color → Color) (libD : Dict) (d : GlyphD) : Glyph :=
  { name := L d.name
    width := if nonZero d.width then d.width else 0
    height := if nonZero d.height then d.height else 0
    codepoints := d.unicodes.foldl cpInsert []
    note := match d.note with | none => none | some n => if n.isEmpty then none else some (L n)
    guidelines := d.guidelines.map (fun g => pGuideline nc (guidelineG g))
    anchors := d.anchors.map (fun a => pAnchor nc (anchorG a))
    components := d.components.map (fun k => pComponent (componentG k))
    contours := (d.contours.filter (fun c => !c.points.isEmpty)).map contourG
    image := d.image.map (fun i => pImage nc (imageG i))
    lib := match d.lib with | none => [] | some _ => libD }

theorem foldl_applyB_g (nc : Color → Color) : ∀ (items : List BIt) (s : PS),
    (items.foldl (applyB nc) s).g = items.foldl (applyG nc) s.g := by
  intro items
  induction items with
  | nil => intro s; rfl
  | cons it r ih => intro s; rw [List.foldl_cons, List.foldl_cons, ih]; rfl

theorem foldl_unicodes (nc : Color → Color) : ∀ (cs : List Nat) (g : Glyph),
    (cs.map BIt.unicode).foldl (applyG nc) g = { g with codepoints := cs.foldl cpInsert g.codepoints } := by
  intro cs
  induction cs with
  | nil => intro g; rfl
  | cons c r ih => intro g; simp [List.foldl_cons, ih, applyG]

theorem foldl_guidelines (nc : Color → Color) : ∀ (gs : List GuidelineD) (g : Glyph),
    (gs.map fun x => BIt.guideline (guidelineG x)).foldl (applyG nc) g =
      { g with guidelines := g.guidelines ++ gs.map (fun x => pGuideline nc (guidelineG x)) } := by
  intro gs
  induction gs with
  | nil => intro g; simp
  | cons c r ih => intro g; simp [List.foldl_cons, ih, applyG]

theorem foldl_anchors (nc : Color → Color) : ∀ (as : List AnchorD) (g : Glyph),
    (as.map fun x => BIt.anchor (anchorG x)).foldl (applyG nc) g =
      { g with anchors := g.anchors ++ as.map (fun x => pAnchor nc (anchorG x)) } := by
  intro as
  induction as with
  | nil => intro g; simp
  | cons c r ih => intro g; simp [List.foldl_cons, ih, applyG]

theorem pts_points (ps : List PointD) :
    (ps.map fun p => CIt.point (pointG p)).flatMap CIt.pts = ps.map (fun p => pPoint (pointG p)) := by
  induction ps with
  | nil => rfl
  | cons p r ih => simp [List.flatMap_cons, CIt.pts, ih]

theorem foldl_contours : ∀ (cs : List ContourD) (ob : OB),
    (cs.map fun c => OIt.contour (c.identifier.map L) (c.points.map fun p => CIt.point (pointG p))).foldl applyO ob =
      { ob with contours := ob.contours ++ (cs.filter (fun c => !c.points.isEmpty)).map contourG } := by
  intro cs
  induction cs with
  | nil => intro ob; simp
  | cons c r ih =>
    intro ob
    simp only [List.map_cons, List.foldl_cons, ih, applyO, pts_points]
    cases hp : c.points <;> simp [List.filter_cons, hp, contourG]

theorem foldl_components : ∀ (ks : List ComponentD) (ob : OB),
    (ks.map fun k => OIt.component (componentG k)).foldl applyO ob =
      { ob with components := ob.components ++ ks.map (fun k => pComponent (componentG k)) } := by
  intro ks
  induction ks with
  | nil => intro ob; simp
  | cons c r ih => intro ob; simp [List.foldl_cons, ih, applyO]

/-- **the described glyph in closed form** -/
theorem interp_gdocOf (nc : Color → Color) (libD : Dict) (d : GlyphD) :
    interp nc (gdocOf libD d) = glyphOf nc libD d := by
  unfold interp gdocOf itemsOf glyphOf
  rw [foldl_applyB_g]
  simp only [List.foldl_append, List.foldl_cons, List.foldl_nil, foldl_unicodes, foldl_guidelines, foldl_anchors]
  rcases d.note with _ | n
  · cases d.image <;> cases d.lib <;>
      simp [applyG, oitsOf, List.foldl_append, foldl_contours, foldl_components, glyphOf]
  · by_cases he : n = "" <;> cases d.image <;> cases d.lib <;>
      simp [he, applyG, oitsOf, List.foldl_append, foldl_contours, foldl_components, glyphOf, L]

/-! ### legality stated on the description -/

/-- the identifiers of a description, in the order `specWrite` writes their objects -/
def descIdents (d : GlyphD) : List Str :=
  d.guidelines.flatMap (fun g => (g.identifier.map L).toList) ++ d.anchors.flatMap (fun a => (a.identifier.map L).toList) ++
  d.contours.flatMap (fun c => (c.identifier.map L).toList ++ c.points.flatMap (fun p => (p.identifier.map L).toList)) ++
  d.components.flatMap (fun k => (k.identifier.map L).toList)

/-- a point of the description as the contour rules see it -/
def descPt (p : PointD) : C11.Pt := ⟨ptG p.typ, p.smooth⟩

/-- **the rules of a legal glyph, on the description alone**: `DescOK`, a valid glyph name, an image file name without
    directory, identifiers valid and pairwise different across ALL objects, every contour legal (`C11.Legal`, the
    declarative rule of C11) -/
structure DescLegal (ok : Nat → Prop) (nc : Color → Color) (d : GlyphD) : Prop where
  name : validName (L d.name) = true
  desc : DescOK ok nc d
  imageName : ∀ i, d.image = some i → imageNameOk (L i.fileName) = true
  identsValid : ∀ i, i ∈ descIdents d → validIdent i = true
  identsNodup : (descIdents d).Nodup
  contours : ∀ c, c ∈ d.contours → C11.Legal (c.points.map descPt)

theorem flatMap_map' {α β γ : Type} (w : α → β) (f : β → List γ) (g : α → List γ) (h : ∀ x, f (w x) = g x) (l : List α) :
    (l.map w).flatMap f = l.flatMap g := by
  induction l with
  | nil => rfl
  | cons a r ih => rw [List.map_cons, List.flatMap_cons, List.flatMap_cons, ih, h]

theorem ids_points (ps : List PointD) :
    (ps.map fun p => CIt.point (pointG p)).flatMap CIt.ids = ps.flatMap (fun p => (p.identifier.map L).toList) :=
  flatMap_map' _ _ _ (fun _ => rfl) ps

theorem ids_oits (d : GlyphD) :
    (oitsOf d).flatMap OIt.ids =
      d.contours.flatMap (fun c => (c.identifier.map L).toList ++ c.points.flatMap (fun p => (p.identifier.map L).toList)) ++
      d.components.flatMap (fun k => (k.identifier.map L).toList) := by
  unfold oitsOf
  rw [List.flatMap_append]
  congr 1
  · exact flatMap_map' _ _ _ (fun c => by simp [OIt.ids, ids_points]) d.contours
  · exact flatMap_map' _ _ _ (fun _ => rfl) d.components

theorem ids_items (libD : Dict) (d : GlyphD) : (itemsOf libD d).flatMap BIt.ids = descIdents d := by
  have hU : (d.unicodes.map BIt.unicode).flatMap BIt.ids = [] := by
    induction d.unicodes with
    | nil => rfl
    | cons c r ih => simp [List.flatMap_cons, BIt.ids, ih]
  have hG : (d.guidelines.map fun g => BIt.guideline (guidelineG g)).flatMap BIt.ids =
      d.guidelines.flatMap (fun g => (g.identifier.map L).toList) :=
    flatMap_map' _ _ _ (fun _ => rfl) d.guidelines
  have hA : (d.anchors.map fun a => BIt.anchor (anchorG a)).flatMap BIt.ids =
      d.anchors.flatMap (fun a => (a.identifier.map L).toList) :=
    flatMap_map' _ _ _ (fun _ => rfl) d.anchors
  unfold itemsOf descIdents
  simp only [List.flatMap_append, hU, hG, hA]
  cases d.note <;> cases d.image <;> cases d.lib <;> simp [BIt.ids, ids_oits, List.append_assoc]

theorem countP_map_false {α : Type} (p : BIt → Bool) (w : α → BIt) (h : ∀ x, p (w x) = false) (l : List α) :
    (l.map w).countP p = 0 := by
  induction l with
  | nil => rfl
  | cons a r ih => simp [List.countP_cons, h, ih]

theorem toPt_points (ps : List PointD) :
    ((ps.map fun p => CIt.point (pointG p)).flatMap CIt.pts).map toPt = ps.map descPt := by
  rw [pts_points]
  induction ps with
  | nil => rfl
  | cons p r ih => simp [toPt, pPoint, pointG, descPt, ih]

/-- **the described document is legal in the glif builder's sense** whenever the description is legal -/
theorem legalItems_of_descLegal {ok : Nat → Prop} {nc : Color → Color} (libD : Dict) {d : GlyphD}
    (h : DescLegal ok nc d) : LegalItems ok (itemsOf libD d) := by
  have hid : ∀ (o : Option String) (i : Str), o.map L = some i → i ∈ (o.map L).toList := by
    intro o i hi; simp [hi]
  refine ⟨?valid, ?ids, ?adv, ?out, ?lib, ?note, ?img⟩
  case ids => rw [ids_items]; exact h.identsNodup
  case adv =>
    unfold itemsOf
    cases d.note <;> cases d.image <;> cases d.lib <;>
      simp [List.countP_append, List.countP_cons, BIt.isAdvance, countP_map_false BIt.isAdvance BIt.unicode (fun _ => rfl),
            countP_map_false BIt.isAdvance (fun g => BIt.guideline (guidelineG g)) (fun _ => rfl),
            countP_map_false BIt.isAdvance (fun a => BIt.anchor (anchorG a)) (fun _ => rfl)]
  case out =>
    unfold itemsOf
    cases d.note <;> cases d.image <;> cases d.lib <;>
      simp [List.countP_append, List.countP_cons, BIt.isOutline, countP_map_false BIt.isOutline BIt.unicode (fun _ => rfl),
            countP_map_false BIt.isOutline (fun g => BIt.guideline (guidelineG g)) (fun _ => rfl),
            countP_map_false BIt.isOutline (fun a => BIt.anchor (anchorG a)) (fun _ => rfl)]
  case lib =>
    unfold itemsOf
    cases d.note <;> cases d.image <;> cases d.lib <;>
      simp [List.countP_append, List.countP_cons, BIt.isLib, countP_map_false BIt.isLib BIt.unicode (fun _ => rfl),
            countP_map_false BIt.isLib (fun g => BIt.guideline (guidelineG g)) (fun _ => rfl),
            countP_map_false BIt.isLib (fun a => BIt.anchor (anchorG a)) (fun _ => rfl)]
  case note =>
    unfold itemsOf
    cases d.note <;> cases d.image <;> cases d.lib <;>
      simp [List.countP_append, List.countP_cons, BIt.isNote, countP_map_false BIt.isNote BIt.unicode (fun _ => rfl),
            countP_map_false BIt.isNote (fun g => BIt.guideline (guidelineG g)) (fun _ => rfl),
            countP_map_false BIt.isNote (fun a => BIt.anchor (anchorG a)) (fun _ => rfl)]
  case img =>
    unfold itemsOf
    cases d.note <;> cases d.image <;> cases d.lib <;>
      simp [List.countP_append, List.countP_cons, BIt.isImage, countP_map_false BIt.isImage BIt.unicode (fun _ => rfl),
            countP_map_false BIt.isImage (fun g => BIt.guideline (guidelineG g)) (fun _ => rfl),
            countP_map_false BIt.isImage (fun a => BIt.anchor (anchorG a)) (fun _ => rfl)]
  case valid =>
    have hv := h.desc
    -- identifiers of each kind of object are among `descIdents`
    have iG : ∀ g, g ∈ d.guidelines → ∀ i, g.identifier.map L = some i → validIdent i = true := fun g hg i hi =>
      h.identsValid i (by
        unfold descIdents
        simp only [List.mem_append, List.mem_flatMap]
        exact Or.inl (Or.inl (Or.inl ⟨g, hg, hid _ _ hi⟩)))
    have iA : ∀ a, a ∈ d.anchors → ∀ i, a.identifier.map L = some i → validIdent i = true := fun a ha i hi =>
      h.identsValid i (by
        unfold descIdents
        simp only [List.mem_append, List.mem_flatMap]
        exact Or.inl (Or.inl (Or.inr ⟨a, ha, hid _ _ hi⟩)))
    have iC : ∀ c, c ∈ d.contours → ∀ i, c.identifier.map L = some i → validIdent i = true := fun c hc i hi =>
      h.identsValid i (by
        unfold descIdents
        simp only [List.mem_append, List.mem_flatMap]
        exact Or.inl (Or.inr ⟨c, hc, Or.inl (hid _ _ hi)⟩))
    have iP : ∀ c, c ∈ d.contours → ∀ p, p ∈ c.points → ∀ i, p.identifier.map L = some i → validIdent i = true :=
      fun c hc p hp i hi => h.identsValid i (by
        unfold descIdents
        simp only [List.mem_append, List.mem_flatMap]
        exact Or.inl (Or.inr ⟨c, hc, Or.inr ⟨p, hp, hid _ _ hi⟩⟩))
    have iK : ∀ k, k ∈ d.components → ∀ i, k.identifier.map L = some i → validIdent i = true := fun k hk i hi =>
      h.identsValid i (by
        unfold descIdents
        simp only [List.mem_append, List.mem_flatMap]
        exact Or.inr ⟨k, hk, hid _ _ hi⟩)
    intro it hit
    unfold itemsOf at hit
    simp only [List.mem_append, List.mem_map, List.mem_singleton] at hit
    rcases hit with ((((((hit | hit) | hit) | hit) | hit) | hit) | hit) | hit
    · subst hit; exact ⟨hv.width, hv.height⟩
    · obtain ⟨c, hc, rfl⟩ := hit; exact hv.unicodes c hc
    · cases hn : d.note <;> simp [hn] at hit; subst hit; trivial
    · cases hi : d.image with
      | none => simp [hi] at hit
      | some i =>
        simp [hi] at hit; subst hit
        exact ⟨h.imageName i hi, (hv.image i hi).1⟩
    · obtain ⟨g, hg, rfl⟩ := hit
      obtain ⟨⟨l, h0⟩, h1, h2, h3, h4, _, _⟩ := hv.guidelines g hg
      refine ⟨?_, fun n hn => ?_, fun i hi => iG g hg i hi⟩
      · obtain ⟨x, y, angle, name, color, ident⟩ := g
        simp only at h0 h1 h2 h3
        cases x <;> cases y <;> cases angle <;> simp [lineOf] at h0 <;> subst h0 <;>
          simp [guidelineG, lineOf] <;> simp_all
      · simp [guidelineG] at hn
        obtain ⟨n', hn', rfl⟩ := hn
        exact h4 n' hn'
    · obtain ⟨a, ha, rfl⟩ := hit
      obtain ⟨h1, h2, h3, _, _⟩ := hv.anchors a ha
      refine ⟨h1, h2, fun n hn => ?_, fun i hi => iA a ha i hi⟩
      simp [anchorG] at hn
      obtain ⟨n', hn', rfl⟩ := hn
      exact h3 n' hn'
    · subst hit
      intro oit ho
      unfold oitsOf at ho
      simp only [List.mem_append, List.mem_map] at ho
      rcases ho with ⟨c, hc, rfl⟩ | ⟨k, hk, rfl⟩
      · refine ⟨?_, ?_, fun i hi => iC c hc i hi⟩
        · intro cit hcit
          simp only [List.mem_map] at hcit
          obtain ⟨p, hp, rfl⟩ := hcit
          obtain ⟨h1, h2, h3⟩ := hv.points c hc p hp
          refine ⟨h1, h2, fun n hn => ?_, fun i hi => iP c hc p hp i hi⟩
          simp [pointG] at hn
          obtain ⟨n', hn', rfl⟩ := hn
          exact h3 n' hn'
        · rw [toPt_points]
          exact (C11.accepts_iff_legal _).2 (h.contours c hc)
      · obtain ⟨h1, h2, _⟩ := hv.components k hk
        exact ⟨h1, h2, fun i hi => iK k hk i hi⟩
    · cases hl : d.lib <;> simp [hl] at hit; subst hit; trivial

/-- **norad's parser reads a whole document of the specification-level writer**, hypotheses on the description only -/
theorem parse_specWrite_legal (hF : Codec F rd nc ok) (hP : ParseCodec rd rdr ok) (rl : String → LibV) (libD : Dict)
    (d : GlyphD) (hd : DescLegal ok nc d) (hl : ∀ t, d.lib = some t → rl t = .dict libD) :
    parseGlif rd (eventsOf rl (specWrite rdr d)) = loadObjectLibs (glyphOf nc libD d) := by
  rw [← interp_gdocOf]
  exact parse_specWrite hF hP rl libD d hd.name hd.desc hl (legalItems_of_descLegal libD hd)

/-! ### the rules are decidable -/

instance (b : Nat) : Decidable (scaleStd b) := by unfold scaleStd; infer_instance
instance (b : Nat) : Decidable (offsetStd b) := by unfold offsetStd; infer_instance
instance (t : Affine Nat) : Decidable (affineStd t) := by unfold affineStd; infer_instance
instance (pts : List C11.Pt) : Decidable (C11.Legal pts) := decidable_of_iff _ (C11.accepts_iff_legal pts)
instance (c : Nat) : Decidable (ValidCodepoint c) := by unfold ValidCodepoint; infer_instance
instance (g : GuidelineD) : Decidable (∃ l, lineOf g = some l) :=
  decidable_of_iff ((lineOf g).isSome = true) (by cases lineOf g <;> simp)

section
variable (ok : Nat → Prop) [DecidablePred ok] (nc : Color → Color)

instance (t : Affine Nat) : Decidable (okAffine ok t) := by unfold okAffine; infer_instance
instance (c : Option ColorD) : Decidable (okColor ok c) := by
  unfold okColor
  cases c with
  | none => exact isTrue (by intro x hx; cases hx)
  | some x =>
    exact decidable_of_iff ((ok x.r ∧ unitOk x.r = true) ∧ (ok x.g ∧ unitOk x.g = true) ∧ (ok x.b ∧ unitOk x.b = true) ∧
      (ok x.a ∧ unitOk x.a = true)) ⟨fun h y hy => by cases hy; exact h, fun h => h x rfl⟩
instance (c : Option ColorD) : Decidable (ncFixed nc c) := by
  unfold ncFixed
  cases c with
  | none => exact isTrue (by intro x hx; cases hx)
  | some x => exact decidable_of_iff (nc (colG x) = colG x) ⟨fun h y hy => by cases hy; exact h, fun h => h x rfl⟩

/-- `∀ v, o = some v → p v` is decidable -/
instance optForall {α : Type} (o : Option α) (p : α → Prop) [DecidablePred p] : Decidable (∀ v, o = some v → p v) := by
  cases o with
  | none => exact isTrue (by intro v hv; cases hv)
  | some x => exact decidable_of_iff (p x) ⟨fun h v hv => by cases hv; exact h, fun h => h x rfl⟩

instance (d : GlyphD) : Decidable (DescOK ok nc d) :=
  decidable_of_iff
    (ok d.width ∧ ok d.height ∧ offsetStd d.width ∧ offsetStd d.height ∧ (∀ c, c ∈ d.unicodes → ValidCodepoint c) ∧
     (∀ i, d.image = some i → okAffine ok i.t ∧ affineStd i.t ∧ okColor ok i.color ∧ ncFixed nc i.color) ∧
     (∀ g, g ∈ d.guidelines → (∃ l, lineOf g = some l) ∧ (∀ v, g.x = some v → ok v) ∧ (∀ v, g.y = some v → ok v) ∧
       (∀ v, g.angle = some v → ok v ∧ angleOk v = true) ∧ (∀ n, g.name = some n → validName (L n) = true) ∧
       okColor ok g.color ∧ ncFixed nc g.color) ∧
     (∀ a, a ∈ d.anchors → ok a.x ∧ ok a.y ∧ (∀ n, a.name = some n → validName (L n) = true) ∧
       okColor ok a.color ∧ ncFixed nc a.color) ∧
     (∀ c, c ∈ d.contours → ∀ p, p ∈ c.points → ok p.x ∧ ok p.y ∧ (∀ n, p.name = some n → validName (L n) = true)) ∧
     (∀ k, k ∈ d.components → validName (L k.base) = true ∧ okAffine ok k.t ∧ affineStd k.t))
    ⟨fun ⟨a, b, c, e, f, g, h, i, j, k⟩ => ⟨a, b, c, e, f, g, h, i, j, k⟩,
     fun ⟨a, b, c, e, f, g, h, i, j, k⟩ => ⟨a, b, c, e, f, g, h, i, j, k⟩⟩

instance (d : GlyphD) : Decidable (DescLegal ok nc d) :=
  decidable_of_iff
    (validName (L d.name) = true ∧ DescOK ok nc d ∧ (∀ i, d.image = some i → imageNameOk (L i.fileName) = true) ∧
     (∀ i, i ∈ descIdents d → validIdent i = true) ∧ (descIdents d).Nodup ∧
     (∀ c, c ∈ d.contours → C11.Legal (c.points.map descPt)))
    ⟨fun ⟨a, b, c, e, f, g⟩ => ⟨a, b, c, e, f, g⟩, fun ⟨a, b, c, e, f, g⟩ => ⟨a, b, c, e, f, g⟩⟩

/-- **the executable form of the rules** -/
def descLegalB (d : GlyphD) : Bool := decide (DescLegal ok nc d)

omit [DecidablePred ok] in
theorem descLegalB_iff' (d : GlyphD) [Decidable (DescLegal ok nc d)] : decide (DescLegal ok nc d) = true ↔ DescLegal ok nc d := by
  simp

theorem descLegalB_iff (d : GlyphD) : descLegalB ok nc d = true ↔ DescLegal ok nc d := by
  simp [descLegalB]

end

/-! ### other legal spellings of the same description -/

theorem evsPerm_refl : ∀ l : List Ev, EvsPerm l l
  | [] => .nil
  | e :: r => .cons (.refl e) (evsPerm_refl r)


/-- **the other spellings an independent writer may choose**, as an instance of `Glif.legal_accepted`: the description
    written with defaults OMITTED (the grammar's gated rendering: no `type` on off-curve points, no `smooth="no"`, no
    coefficient at its default, no `±0` advance attribute), numbers and colours in ANY spelling `F` that reads back,
    attributes of every element in ANY order (`EvsPerm`), a declaration and comments before the root, `formatMinor="0"`
    written or not, anything after `</glyph>` — is accepted and yields the same glyph as `specWrite`'s document. -/
theorem parse_other_spellings (hF : Codec F rd nc ok) (libD : Dict) (d : GlyphD) (hd : DescLegal ok nc d)
    (pro tr : List Ev) (minor : Bool) (hp : ∀ e, e ∈ pro → isProlog e = true)
    (hol : ∀ v, dictGet objectLibsKey (glyphOf nc libD d).lib = some v → ∃ ol, v = PV.dict ol ∧ AllDicts ol)
    {evs : List Ev}
    (hperm : EvsPerm (render F { prolog := pro, name := L d.name, minor := minor, items := itemsOf libD d, trailer := tr }) evs) :
    ∃ g, parseGlif rd evs = .ok g ∧ loadObjectLibs (glyphOf nc libD d) = .ok g := by
  have hi : interp nc { prolog := pro, name := L d.name, minor := minor, items := itemsOf libD d, trailer := tr } =
      glyphOf nc libD d := by rw [← interp_gdocOf]; rfl
  have := legal_accepted hF { prolog := pro, name := L d.name, minor := minor, items := itemsOf libD d, trailer := tr }
    hp hd.name (legalItems_of_descLegal libD hd) (by rw [hi]; exact hol) hperm
  rwa [hi] at this

end
end C05Bridge
