import Norad.Model.DSEscape
/-!
# C18 — reading back what the writer escapes: `unescape (escText s) = some s`, `unescape (escAttr s) = some s`
-/
namespace C18

theorem unescGo_plain (ch : Char) (r : List Char) (h : ch ≠ '&') :
    unescGo xmlEntity none (ch :: r) = (unescGo xmlEntity none r).map (ch :: ·) := by
  simp [unescGo, h]

/-- one escaped character followed by anything is read back as that character -/
theorem unescGo_entity (set : List Char) (ch : Char) (rest : List Char)
    (hsub : ∀ x ∈ set, x = '&' ∨ x = '<' ∨ x = '>' ∨ x = '"' ∨ x = '\'') (hamp : '&' ∈ set) :
    unescGo xmlEntity none (escChar set ch ++ rest) = (unescGo xmlEntity none rest).map (ch :: ·) := by
  unfold escChar
  by_cases hm : set.contains ch = true
  · simp only [hm, if_true]
    have := hsub ch (by simpa using hm)
    rcases this with h | h | h | h | h <;> subst h <;>
      simp [entityOf, unescGo, resolveRef, xmlEntity]
  · simp only [hm]
    have : ch ≠ '&' := by
      intro e; subst e; exact hm (by simpa using hamp)
    simp [unescGo, this]

theorem unescape_escWith (set : List Char)
    (hsub : ∀ x ∈ set, x = '&' ∨ x = '<' ∨ x = '>' ∨ x = '"' ∨ x = '\'') (hamp : '&' ∈ set) :
    ∀ s : List Char, unescGo xmlEntity none (escWith set s) = some s
  | [] => by simp [escWith, unescGo]
  | ch :: r => by
    simp only [escWith]
    rw [unescGo_entity set ch _ hsub hamp, unescape_escWith set hsub hamp r]
    rfl

end C18
