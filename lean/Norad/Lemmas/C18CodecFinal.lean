import Norad.Lemmas.C18Calendar
import Norad.Lemmas.C18Float
/-!
# C18 — the codec hypothesis with real integers, base64, dates, and floats exact on the simple fragment
-/
namespace C18

theorem codecLaws_realDateCodec' : CodecLaws realDateCodec := codecLaws_realDateCodec calendarInverse

theorem codecLaws_simpleFloatCodec : CodecLaws simpleFloatCodec :=
  { codecLaws_realDateCodec' with
    f32_rt := fun x _ => by
      simp only [simpleFloatCodec, String.toList_ofList, readFloat_showFloat, Option.map_some]
    f32_ne := fun x => by
      simp only [simpleFloatCodec, String.toList_ofList]; exact (showFloat_safe fmt32 x.bits).2
    f32_safe := fun x => by
      simp only [simpleFloatCodec, String.toList_ofList]; exact (showFloat_safe fmt32 x.bits).1
    f64_rt := fun x _ => by
      simp only [simpleFloatCodec, String.toList_ofList, readFloat_showFloat, Option.map_some]
    f64_safe := fun x => by
      simp only [simpleFloatCodec, String.toList_ofList]; exact (showFloat_safe fmt64 x.bits).1 }

end C18
