import Norad.Model.FontSave
import Norad.Lemmas.AbsFS
/-!
Running effects whose paths are all-normal name lists (`NEff`): what one effect changes, which
directories and files survive, which paths exist afterwards.  Used by C08 (in-place save) and C09
(frame, determined files).
-/
namespace FontSave
open AbsFS
open Path (Comp)

variable {β : Type}

/-- an effect on an all-normal path, given by its names -/
inductive NEff (β : Type) where
  | mkdir (l : APath)
  | mkdirAll (l : APath)
  | write (l : APath) (b : β)
  | fail (e : SaveErr)

def NEff.toEff : NEff β → Eff β
  | .mkdir l => .mkdir (tC l)
  | .mkdirAll l => .mkdirAll (tC l)
  | .write l b => .write (tC l) b
  | .fail e => .fail e

/-- the path an effect names (`[]` for `fail`) -/
def NEff.path : NEff β → APath
  | .mkdir l => l
  | .mkdirAll l => l
  | .write l _ => l
  | .fail _ => []

def runN (es : List (NEff β)) (fs : FS β) : Option SaveErr × FS β := runEffs (es.map NEff.toEff) fs

/-! ### primitives on `tC l` for arbitrary `l` -/

theorem mkdir_tC {fs fs' : FS β} {l : APath} (h : mkdir fs (tC l) = .ok fs') :
    l ≠ [] ∧ node fs l = none ∧ fs' = set fs l .dir ∧ ∀ m, m <+: l.dropLast → m ≠ [] → isDir fs m = true := by
  rcases List.eq_nil_or_concat l with rfl | ⟨l', s, rfl⟩ <;> try simp only [List.concat_eq_append] at *
  · simp [tC, mkdir, locate] at h
  · have h' : mkdir fs ((l' ++ [s]).map Comp.normal) = .ok fs' := h
    obtain ⟨a, b, c⟩ := mkdir_normal h'
    exact ⟨by simp, a, b, by simpa using c⟩

theorem writeFile_tC {fs fs' : FS β} {l : APath} {b : β} (h : writeFile fs (tC l) b = .ok fs') :
    l ≠ [] ∧ isDir fs l = false ∧ fs' = set fs l (.file b) ∧ ∀ m, m <+: l.dropLast → m ≠ [] → isDir fs m = true := by
  rcases List.eq_nil_or_concat l with rfl | ⟨l', s, rfl⟩ <;> try simp only [List.concat_eq_append] at *
  · simp [tC, writeFile, locate] at h
  · have h' : writeFile fs ((l' ++ [s]).map Comp.normal) b = .ok fs' := h
    obtain ⟨a, b, c⟩ := writeFile_normal h'
    exact ⟨by simp, a, b, by simpa using c⟩

theorem readFile_tC {fs : FS β} {l : APath} {b : β} (h : readFile fs (tC l) = .ok b) :
    l ≠ [] ∧ node fs l = some (.file b) := by
  rcases List.eq_nil_or_concat l with rfl | ⟨l', s, rfl⟩ <;> try simp only [List.concat_eq_append] at *
  · simp [tC, readFile, locate] at h
  · have h' : readFile fs ((l' ++ [s]).map Comp.normal) = .ok b := h
    exact ⟨by simp, (readFile_normal h').1⟩

theorem mkdirAll_tC_changes (fs : FS β) (l q : APath)
    (h : lookup (mkdirAll fs (tC l)).1 q ≠ lookup fs q) :
    q <+: l ∧ q ≠ [] ∧ node fs q = none ∧ lookup (mkdirAll fs (tC l)).1 q = some .dir := by
  have e : (tC l).reverse = l.reverse.map Comp.normal := by simp [tC, List.map_reverse]
  unfold mkdirAll at h ⊢
  rw [e] at h ⊢
  have := mkdirAllRev_changes l.reverse fs q h
  simpa using this

theorem mkdirAll_tC_dirs (fs : FS β) (l : APath) (h : (mkdirAll fs (tC l)).2 = none) :
    ∀ m, m <+: l → m ≠ [] → isDir (mkdirAll fs (tC l)).1 m = true := by
  have e : (tC l).reverse = l.reverse.map Comp.normal := by simp [tC, List.map_reverse]
  unfold mkdirAll at h ⊢
  rw [e] at h ⊢
  have := mkdirAllRev_dirs l.reverse fs h
  simpa using this

/-! ### one effect -/

theorem runEff_mkdirAll_snd (cs : List Comp) (fs : FS β) :
    (runEff (Eff.mkdirAll cs) fs).2 = (mkdirAll fs cs).1 := by
  simp only [runEff]
  generalize mkdirAll fs cs = r
  obtain ⟨a, b⟩ := r
  cases b <;> rfl

/-- whatever the outcome, a changed path is a non-empty prefix of the path the effect names, and it is that
    path itself unless it did not exist before (a directory created on the way by `mkdirAll`) -/
theorem runEff_changes (e : NEff β) (fs : FS β) (q : APath)
    (h : lookup (runEff e.toEff fs).2 q ≠ lookup fs q) :
    q <+: e.path ∧ q ≠ [] ∧ (q = e.path ∨ node fs q = none) := by
  cases e with
  | mkdir l =>
    simp only [NEff.toEff, runEff, NEff.path] at h ⊢
    cases hm : mkdir fs (tC l) with
    | error x => simp [hm] at h
    | ok fs' =>
      simp only [hm] at h
      obtain ⟨hne, _, rfl, _⟩ := mkdir_tC hm
      by_cases hq : l = q
      · subst hq; exact ⟨List.prefix_refl _, hne, Or.inl rfl⟩
      · exact absurd (lookup_set_ne fs _ hq) h
  | write l b =>
    simp only [NEff.toEff, runEff, NEff.path] at h ⊢
    cases hm : writeFile fs (tC l) b with
    | error x => simp [hm] at h
    | ok fs' =>
      simp only [hm] at h
      obtain ⟨hne, _, rfl, _⟩ := writeFile_tC hm
      by_cases hq : l = q
      · subst hq; exact ⟨List.prefix_refl _, hne, Or.inl rfl⟩
      · exact absurd (lookup_set_ne fs _ hq) h
  | mkdirAll l =>
    simp only [NEff.toEff, NEff.path] at h ⊢
    rw [runEff_mkdirAll_snd] at h
    obtain ⟨a, b, c, _⟩ := mkdirAll_tC_changes fs l q h
    exact ⟨a, b, Or.inr c⟩
  | fail x => simp [NEff.toEff, runEff] at h

/-- a directory stays a directory, whatever the effect and its outcome -/
theorem runEff_keeps_dir (e : NEff β) (fs : FS β) (m : APath) (hm : isDir fs m = true) :
    isDir (runEff e.toEff fs).2 m = true := by
  by_cases hm0 : m = []
  · subst hm0; simp [isDir, node]
  rw [isDir_iff, node_of_ne_nil _ hm0] at hm ⊢
  by_cases hc : lookup (runEff e.toEff fs).2 m = lookup fs m
  · rw [hc]; exact hm
  · cases e with
    | mkdir l =>
      simp only [NEff.toEff, runEff] at hc ⊢
      cases h : mkdir fs (tC l) with
      | error x => simp [h] at hc
      | ok fs' =>
        simp only [h] at hc ⊢
        obtain ⟨_, _, rfl, _⟩ := mkdir_tC h
        by_cases hq : l = m
        · simp [lookup_set, hq]
        · exact absurd (lookup_set_ne fs _ hq) hc
    | write l b =>
      simp only [NEff.toEff, runEff] at hc ⊢
      cases h : writeFile fs (tC l) b with
      | error x => simp [h] at hc
      | ok fs' =>
        simp only [h] at hc ⊢
        obtain ⟨_, hnd, rfl, _⟩ := writeFile_tC h
        by_cases hq : l = m
        · subst hq
          have : isDir fs l = true := by rw [isDir_iff, node_of_ne_nil _ hm0]; exact hm
          rw [this] at hnd; cases hnd
        · exact absurd (lookup_set_ne fs _ hq) hc
    | mkdirAll l =>
      simp only [NEff.toEff] at hc ⊢
      rw [runEff_mkdirAll_snd] at hc ⊢
      exact (mkdirAll_tC_changes fs l m hc).2.2.2
    | fail x => simp [NEff.toEff, runEff] at hc

/-- an existing plain file keeps its bytes unless the effect is a write to exactly that path -/
theorem runEff_keeps_file (e : NEff β) (fs : FS β) (p : APath) (b : β)
    (hp : lookup fs p = some (.file b)) (hp0 : p ≠ [])
    (hw : ∀ b', e = .write p b' → b' = b) :
    lookup (runEff e.toEff fs).2 p = some (.file b) := by
  by_cases hc : lookup (runEff e.toEff fs).2 p = lookup fs p
  · rw [hc]; exact hp
  · obtain ⟨_, _, h3⟩ := runEff_changes e fs p hc
    rcases h3 with h3 | h3
    · cases e with
      | mkdir l =>
        simp only [NEff.path] at h3; subst h3
        simp only [NEff.toEff, runEff] at hc
        cases h : mkdir fs (tC p) with
        | error x => simp [h] at hc
        | ok fs' =>
          obtain ⟨_, hn, _, _⟩ := mkdir_tC h
          rw [node_of_ne_nil _ hp0, hp] at hn; cases hn
      | write l b' =>
        simp only [NEff.path] at h3; subst h3
        have := hw b' rfl; subst this
        simp only [NEff.toEff, runEff] at hc ⊢
        cases h : writeFile fs (tC p) b' with
        | error x => simp [h] at hc
        | ok fs' =>
          obtain ⟨_, _, rfl, _⟩ := writeFile_tC h
          simp [lookup_set]
      | mkdirAll l =>
        simp only [NEff.toEff] at hc
        rw [runEff_mkdirAll_snd] at hc
        have := (mkdirAll_tC_changes fs l p hc).2.2.1
        rw [node_of_ne_nil _ hp0, hp] at this; cases this
      | fail x => simp [NEff.toEff, runEff] at hc
    · rw [node_of_ne_nil _ hp0, hp] at h3; cases h3

/-! ### lists of effects -/

theorem runEffs_append (es1 es2 : List (Eff β)) (fs : FS β) :
    runEffs (es1 ++ es2) fs =
      match runEffs es1 fs with
      | (none, fsm) => runEffs es2 fsm
      | (some x, fsm) => (some x, fsm) := by
  induction es1 generalizing fs with
  | nil => simp [runEffs]
  | cons e r ih =>
    simp only [List.cons_append, runEffs]
    generalize runEff e fs = res
    obtain ⟨o, fs1⟩ := res
    cases o with
    | none => simp only; exact ih fs1
    | some x => rfl

theorem runEffs_append_ok {es1 es2 : List (Eff β)} {fs fs' : FS β}
    (h : runEffs (es1 ++ es2) fs = (none, fs')) :
    ∃ fsm, runEffs es1 fs = (none, fsm) ∧ runEffs es2 fsm = (none, fs') := by
  rw [runEffs_append] at h
  generalize runEffs es1 fs = res at h
  obtain ⟨o, fsm⟩ := res
  cases o with
  | none => exact ⟨fsm, rfl, h⟩
  | some x => simp at h

/-- runs of normal effects: an invariant-style induction principle on the state reached -/
theorem runN_induction (P : FS β → Prop) (es : List (NEff β))
    (hstep : ∀ e ∈ es, ∀ fs, P fs → P (runEff e.toEff fs).2) :
    ∀ fs, P fs → P (runN es fs).2 := by
  induction es with
  | nil => intro fs h; simpa [runN, runEffs] using h
  | cons e r ih =>
    intro fs h
    have h1 := hstep e (List.mem_cons_self ..) fs h
    simp only [runN, List.map, runEffs]
    generalize hres : runEff e.toEff fs = res at h1
    obtain ⟨o, fs1⟩ := res
    cases o with
    | none => exact ih (fun e he => hstep e (List.mem_cons_of_mem _ he)) fs1 h1
    | some x => exact h1

theorem runN_keeps_file (es : List (NEff β)) (p : APath) (b : β) (hp0 : p ≠ [])
    (hw : ∀ b', NEff.write p b' ∈ es → b' = b) (fs : FS β) (hp : lookup fs p = some (.file b)) :
    lookup (runN es fs).2 p = some (.file b) :=
  runN_induction (fun g => lookup g p = some (.file b)) es
    (fun e he g hg => runEff_keeps_file e g p b hg hp0 (fun b' hb => hw b' (hb ▸ he))) fs hp

theorem runN_keeps_dir (es : List (NEff β)) (m : APath) (fs : FS β) (hm : isDir fs m = true) :
    isDir (runN es fs).2 m = true :=
  runN_induction (fun g => isDir g m = true) es (fun e _ g hg => runEff_keeps_dir e g m hg) fs hm

end FontSave
