import Norad.Lemmas.C18Spec
/-!
# C18 — `Spec.specRead` finds the document in the tree `toTree` writes
-/
namespace C18
open C18.Spec

/-! ## the reader's helpers -/

theorem get_eq_attr : ∀ (a : List (String × String)) (k : String), Spec.get a k = attr? a k
  | [], _ => rfl
  | (k', v) :: r, k => by
    by_cases h : k' = k
    · subst h; simp [Spec.get, attr?, List.lookup]
    · have : (k == k') = false := by simp; exact fun e => h e.symm
      have ih := get_eq_attr r k
      simp only [attr?] at ih
      simp [Spec.get, attr?, List.lookup, h, this, ih]

theorem number_eq (c : Codec) (a : List (String × String)) (k : String) :
    number c a k = readOptF32 c (attr? a k) := by
  unfold number
  rw [get_eq_attr]
  cases attr? a k with
  | none => rfl
  | some s => simp only [readOptF32]; cases c.readF32 s <;> rfl

theorem required_eq (c : Codec) (a : List (String × String)) (k : String) :
    required c a k = (attr? a k).bind c.readF32 := by
  unfold required
  rw [get_eq_attr]
  cases attr? a k <;> rfl

theorem leafText_content (s : String) : leafText (if s = "" then [] else [Tree.txt s]) = some s := by
  by_cases h : s = "" <;> simp [h, leafText]

theorem optionAll_map_some {α β : Type} (f : β → Option α) (g : α → β) :
    ∀ xs : List α, (∀ x ∈ xs, f (g x) = some x) → optionAll f (xs.map g) = some xs
  | [], _ => rfl
  | x :: r, h => by
    simp [optionAll, h x (by simp), optionAll_map_some f g r (fun y hy => h y (by simp [hy]))]

theorem kids_append (n : String) : ∀ a b : List Tree, kids n (a ++ b) = kids n a ++ kids n b
  | [], _ => rfl
  | .txt _ :: r, b => by simp [kids, kids_append n r b]
  | .elem m _ _ :: r, b => by
    by_cases h : m = n <;> simp [kids, h, kids_append n r b]

theorem kids_map_elem (n : String) {α : Type} (g : α → Tree) (A : α → List (String × String))
    (K : α → List Tree) (h : ∀ x, g x = .elem n (A x) (K x)) :
    ∀ xs : List α, kids n (xs.map g) = xs.map fun x => (A x, K x)
  | [] => rfl
  | x :: r => by simp [kids, h x, kids_map_elem n g A K h r]

theorem kids_none (n : String) : ∀ ts : List Tree, (∀ t ∈ ts, named n t = false) → kids n ts = []
  | [], _ => rfl
  | .txt _ :: r, h => by simp [kids, kids_none n r (fun t ht => h t (by simp [ht]))]
  | .elem m a k :: r, h => by
    have := h (.elem m a k) (by simp)
    simp only [named, beq_eq_false_iff_ne, ne_eq] at this
    simp [kids, this, kids_none n r (fun t ht => h t (by simp [ht]))]

theorem kids_map_ne (n : String) {α : Type} (g : α → Tree) (xs : List α) (h : ∀ x, named n (g x) = false) :
    kids n (xs.map g) = [] :=
  kids_none n _ (by intro t ht; simp only [List.mem_map] at ht; obtain ⟨x, _, rfl⟩ := ht; exact h x)

theorem words_word (w : List Char) (hw : ' ' ∉ w) : ∀ (rest acc : List Char),
    words (w ++ rest) acc = words rest (w.reverse ++ acc) := by
  induction w with
  | nil => intro rest acc; simp
  | cons ch r ih =>
    intro rest acc
    simp only [List.mem_cons, not_or] at hw
    have : ¬ ch = ' ' := fun e => hw.1 e.symm
    simp [words, this, ih hw.2]

theorem words_join : ∀ ws : List (List Char), (∀ w ∈ ws, w ≠ [] ∧ ' ' ∉ w) → words (joinSp ws) [] = ws
  | [], _ => by simp [joinSp, words]
  | [w], h => by
    have hw := h w (by simp)
    have := words_word w hw.2 [] []
    simp only [List.append_nil] at this
    simp [joinSp, this, words, hw.1]
  | w :: w2 :: r, h => by
    have hw := h w (by simp)
    have ih := words_join (w2 :: r) (fun x hx => h x (by simp [hx]))
    have := words_word w hw.2 (' ' :: joinSp (w2 :: r)) []
    simp only [List.append_nil] at this
    simp [joinSp, this, words, hw.1, ih]

/-! ## structs -/

theorem spec_dimension {c : Codec} (L : CodecLaws c) (d : Dimension) (h : dimOk d = true) (k : List Tree) :
    dimension c (mkAttrs (dimensionAttrs c d), k) = some d := by
  simp only [dimOk, Bool.and_eq_true] at h
  simp [dimension, number_eq, get_eq_attr, readOptF32_show L _ h.1.1, readOptF32_show L _ h.1.2,
    readOptF32_show L _ h.2]

theorem spec_location {c : Codec} (L : CodecLaws c) (l : List Dimension) (h : locOk l = true) (rest : List Tree)
    (hr : kids "location" rest = []) : location c (locationNode c l :: rest) = some l := by
  simp only [locOk, Bool.and_eq_true, List.all_eq_true] at h
  have : kids "location" (locationNode c l :: rest) = [([], l.map (dimensionNode c))] := by
    simp [kids, locationNode, hr]
  unfold location
  rw [this]
  simp only
  rw [kids_map_elem "dimension" (dimensionNode c) _ (fun _ => []) (fun _ => rfl)]
  exact optionAll_map_some _ _ l (fun x hx => spec_dimension L x (h.2 x hx) [])

theorem spec_mapping {c : Codec} (L : CodecLaws c) (m : AxisMapping) (h1 : m.input.notNaN = true)
    (h2 : m.output.notNaN = true) (k : List Tree) :
    mapping c (mkAttrs (mapAttrs c m), k) = some m := by
  simp [mapping, required_eq, L.f32_rt _ h1, L.f32_rt _ h2]

theorem spec_values {c : Codec} (L : CodecLaws c) (a : List (String × String)) (ov : Option (List F32))
    (ha : attr? a "values" = ov.map (showValues c))
    (h : ∀ vs, ov = some vs → vs.all F32.notNaN = true) : valuesList c a = some ov := by
  unfold valuesList
  rw [get_eq_attr, ha]
  cases ov with
  | none => rfl
  | some vs =>
    simp only [Option.map_some, showValues, String.toList_ofList]
    rw [words_join _ (by
      intro w hw; simp only [List.mem_map] at hw; obtain ⟨v, _, rfl⟩ := hw; exact L.f32_word v)]
    rw [optionAll_map_some (fun w => c.readF32 (String.ofList w)) (fun v => (c.showF32 v).toList) vs
      (by intro x hx; simp; exact L.f32_rt x (by have := h vs rfl; simp [List.all_eq_true] at this; exact this x hx))]
    rfl

theorem spec_axis {c : Codec} (L : CodecLaws c) (a : Axis) (h : axisOk a = true) :
    axis c (mkAttrs (axisAttrs c a), mapNodes c a.map) = some a := by
  simp only [axisOk, Bool.and_eq_true] at h
  obtain ⟨⟨⟨⟨h1, h2⟩, h3⟩, h4⟩, h5⟩ := h
  have hv := spec_values L (mkAttrs (axisAttrs c a)) a.values (by simp)
      (by intro vs hvs; rw [hvs] at h4; exact h4)
  have hh : flag (mkAttrs (axisAttrs c a)) "hidden" = some a.hidden := by
    cases hhid : a.hidden <;> simp [flag, get_eq_attr, hhid]
  have hm : optionAll (mapping c) (kids "map" (mapNodes c a.map)) = some (a.map.getD []) ∧
      (∀ ms, a.map = some ms → ms ≠ []) := by
    cases hmap : a.map with
    | none => simp [mapNodes, kids, optionAll]
    | some ms =>
      rw [hmap] at h5
      simp only [Bool.and_eq_true, Bool.not_eq_true', List.isEmpty_eq_false_iff, List.all_eq_true] at h5
      refine ⟨?_, fun ms' e => by cases e; exact h5.1⟩
      simp only [mapNodes, Option.getD_some]
      rw [kids_map_elem "map" (mapNode c) _ (fun _ => []) (fun _ => rfl)]
      exact optionAll_map_some _ _ ms (fun x hx => spec_mapping L x (h5.2 x hx).1 (h5.2 x hx).2 [])
  have hmap : (if a.map.getD [] = [] then none else some (a.map.getD [])) = a.map := by
    cases hm' : a.map with
    | none => rfl
    | some ms =>
      have := hm.2 ms hm'
      cases ms with
      | nil => exact absurd rfl this
      | cons x r => simp
  unfold axis
  simp only [hv, hh, hm.1, number_eq, required_eq, get_eq_attr]
  simp [L.f32_rt _ h1, readOptF32_show L _ h2, readOptF32_show L _ h3, hmap]

theorem spec_condition {c : Codec} (L : CodecLaws c) (x : Condition) (h1 : optOk x.minimum = true)
    (h2 : optOk x.maximum = true) (k : List Tree) :
    condition c (mkAttrs (conditionAttrs c x), k) = some x := by
  simp [condition, number_eq, get_eq_attr, readOptF32_show L _ h1, readOptF32_show L _ h2]

theorem spec_conditionSet {c : Codec} (L : CodecLaws c) (s : ConditionSet)
    (h : s.conditions.all (fun x => optOk x.minimum && optOk x.maximum) = true) (a : List (String × String)) :
    conditionSet c (a, s.conditions.map (conditionNode c)) = some s := by
  simp only [List.all_eq_true, Bool.and_eq_true] at h
  unfold conditionSet
  simp only
  rw [kids_map_elem "condition" (conditionNode c) _ (fun _ => []) (fun _ => rfl),
    optionAll_map_some _ _ s.conditions (fun x hx => spec_condition L x (h x hx).1 (h x hx).2 [])]
  rfl

theorem spec_substitution (s : Substitution) (k : List Tree) :
    substitution (mkAttrs (subAttrs s), k) = some s := by
  simp [substitution, get_eq_attr]

theorem spec_rule {c : Codec} (L : CodecLaws c) (r : Rule) (h : ruleOk r = true) :
    rule c (mkAttrs (ruleAttrs r), r.conditionSets.map (conditionSetNode c) ++ r.substitutions.map subNode)
      = some r := by
  simp only [ruleOk, Bool.and_eq_true, List.all_eq_true] at h
  obtain ⟨⟨⟨_, _⟩, h3⟩, _⟩ := h
  unfold rule
  simp only [kids_append]
  rw [kids_map_elem "conditionset" (conditionSetNode c) (fun _ => []) _ (fun _ => rfl),
    kids_map_ne "conditionset" subNode _ (fun _ => rfl),
    kids_map_ne "sub" (conditionSetNode c) _ (fun _ => rfl),
    kids_map_elem "sub" subNode _ (fun _ => []) (fun _ => rfl), List.append_nil, List.nil_append,
    optionAll_map_some _ _ r.conditionSets (fun x hx => spec_conditionSet L x (by simpa [List.all_eq_true] using h3 x hx) []),
    optionAll_map_some _ _ r.substitutions (fun x _ => spec_substitution x [])]
  cases hn : r.name <;> simp [get_eq_attr, hn] <;> (cases r; simp_all)

theorem spec_rulesNode {c : Codec} (L : CodecLaws c) (r : Rules) (h : r.rules.all ruleOk = true)
    (rest : List Tree) (hr : kids "rules" rest = []) : rules c (rulesNode c r :: rest) = some r := by
  simp only [List.all_eq_true] at h
  have : kids "rules" (rulesNode c r :: rest) =
      [(mkAttrs (rulesAttrs r), r.rules.map (ruleNode c))] := by
    simp only [kids, rulesNode, hr, if_true]
  unfold rules
  rw [this]
  simp only
  rw [kids_map_elem "rule" (ruleNode c) _ _ (fun _ => rfl),
    optionAll_map_some _ _ r.rules (fun x hx => spec_rule L x (h x hx))]
  cases hp : r.processing <;> simp [get_eq_attr, showProcessing, hp] <;> (cases r; simp_all)

theorem spec_source {c : Codec} (L : CodecLaws c) (s : Source) (h : locOk s.location = true) :
    source c (mkAttrs (sourceAttrs s), [locationNode c s.location]) = some s := by
  have := spec_location L s.location h [] rfl
  simp [source, get_eq_attr, this]

/-! ## the property list, by mutual induction -/

mutual
theorem pv_spec {c : Codec} (L : CodecLaws c) : ∀ (v : PV) (t : Tree), pvStated v = true →
    serializeWithin c v = .ok t → plistObject c t = some v
  | .str s, t, _, e => by
    simp only [serializeWithin, leafInner, Out.map, Out.ok.injEq] at e
    subst e; simp [plistObject, leafText_content]
  | .int i, t, h, e => by
    simp only [serializeWithin, leafInner, Out.map, Out.ok.injEq] at e
    simp only [pvStated, Bool.and_eq_true, decide_eq_true_eq] at h
    subst e
    simp only [plistObject, leafText_content]
    by_cases hi : i ≤ i64Max
    · simp [L.int_i64 i h.1 hi]
    · have := L.int_u64 i (by omega) h.2
      simp [this.1, this.2]
  | .real r, t, h, e => by
    simp only [serializeWithin, leafInner, Out.map, Out.ok.injEq] at e
    simp only [pvStated] at h
    subst e; simp [plistObject, leafText_content, L.f64_rt r h]
  | .bool true, t, _, e => by
    simp only [serializeWithin, Out.ok.injEq] at e; subst e; simp [plistObject]
  | .bool false, t, _, e => by
    simp only [serializeWithin, Out.ok.injEq] at e; subst e; simp [plistObject]
  | .data d, t, _, e => by
    simp only [serializeWithin, leafInner, Out.map, Out.ok.injEq] at e
    subst e; simp [plistObject, leafText_content, L.data_rt]
  | .date d, t, _, e => by
    cases hd : c.showDate d with
    | none => simp [serializeWithin, leafInner, Out.map, hd] at e
    | some s =>
      simp only [serializeWithin, leafInner, Out.map, hd, Out.ok.injEq] at e
      subst e; simp [plistObject, leafText_content, L.date_rt d s hd]
  | .arr xs, t, h, e => by
    simp only [pvStated] at h
    cases ha : arrayInner c xs with
    | ok ts =>
      simp only [serializeWithin, ha, Out.map, Out.ok.injEq] at e
      subst e; simp [plistObject, pvs_spec L xs ts h ha]
    | err => simp [serializeWithin, ha, Out.map] at e
    | panic => simp [serializeWithin, ha, Out.map] at e
  | .dict kvs, t, h, e => by
    simp only [pvStated] at h
    cases ha : dictInner c kvs with
    | ok ts =>
      simp only [serializeWithin, ha, Out.map, Out.ok.injEq] at e
      subst e; simp [plistObject, kvs_spec L kvs ts h ha]
    | err => simp [serializeWithin, ha, Out.map] at e
    | panic => simp [serializeWithin, ha, Out.map] at e
  | .uid _, t, _, e => by simp [serializeWithin] at e
theorem pvs_spec {c : Codec} (L : CodecLaws c) : ∀ (xs : PVs) (ts : List Tree), pvsStated xs = true →
    arrayInner c xs = .ok ts → plistArray c ts = some xs
  | .nil, ts, _, e => by simp only [arrayInner, Out.ok.injEq] at e; subst e; simp [plistArray]
  | .cons v r, ts, h, e => by
    simp only [pvsStated, Bool.and_eq_true] at h
    cases hv : serializeWithin c v with
    | ok t =>
      cases hr : arrayInner c r with
      | ok rs =>
        simp only [arrayInner, hv, hr, Out.bind, Out.ok.injEq] at e
        subst e
        simp [plistArray, pv_spec L v t h.1 hv, pvs_spec L r rs h.2 hr]
      | err => simp [arrayInner, hv, hr, Out.bind] at e
      | panic => simp [arrayInner, hv, hr, Out.bind] at e
    | err => simp [arrayInner, hv, Out.bind] at e
    | panic => simp [arrayInner, hv, Out.bind] at e
theorem kvs_spec {c : Codec} (L : CodecLaws c) : ∀ (kvs : KVs) (ts : List Tree), kvsStated kvs = true →
    dictInner c kvs = .ok ts → plistDict c ts = some kvs
  | .nil, ts, _, e => by simp only [dictInner, Out.ok.injEq] at e; subst e; simp [plistDict]
  | .cons k v r, ts, h, e => by
    simp only [kvsStated, Bool.and_eq_true, Bool.not_eq_true'] at h
    cases hv : serializeWithin c v with
    | ok t =>
      cases hr : dictInner c r with
      | ok rs =>
        simp only [dictInner, hv, hr, Out.bind, Out.ok.injEq] at e
        subst e
        have hk : ¬ k ∈ r.keys := by simpa using h.1.1
        simp [plistDict, textElem, leafText_content, pv_spec L v t h.1.2 hv, kvs_spec L r rs h.2 hr, hk]
      | err => simp [dictInner, hv, hr, Out.bind] at e
      | panic => simp [dictInner, hv, hr, Out.bind] at e
    | err => simp [dictInner, hv, Out.bind] at e
    | panic => simp [dictInner, hv, Out.bind] at e
end

/-! ## libs, instances, the document -/

theorem lib_shape {c : Codec} (l : KVs) (ls : List Tree) (e : libNodes c l = .ok ls) (n : String)
    (hn : n ≠ "lib") : kids n ls = [] := by
  cases l with
  | nil => simp only [libNodes, Out.ok.injEq] at e; subst e; rfl
  | cons k v r =>
    cases hd : dictInner c (.cons k v r) with
    | ok ts =>
      simp only [libNodes, hd, Out.map, Out.ok.injEq] at e
      subst e
      have : ¬ "lib" = n := fun e => hn e.symm
      simp [kids, this]
    | err => simp [libNodes, hd, Out.map] at e
    | panic => simp [libNodes, hd, Out.map] at e

theorem spec_lib {c : Codec} (L : CodecLaws c) (l : KVs) (ls : List Tree) (hs : kvsStated l = true)
    (e : libNodes c l = .ok ls) (pre : List Tree) (hpre : kids "lib" pre = []) :
    libOf c (pre ++ ls) = some l := by
  unfold libOf
  rw [kids_append, hpre, List.nil_append]
  cases l with
  | nil => simp only [libNodes, Out.ok.injEq] at e; subst e; rfl
  | cons k v r =>
    cases hd : dictInner c (.cons k v r) with
    | ok ts =>
      simp only [libNodes, hd, Out.map, Out.ok.injEq] at e
      subst e
      simp [kids, kvs_spec L _ ts hs hd]
    | err => simp [libNodes, hd, Out.map] at e
    | panic => simp [libNodes, hd, Out.map] at e

theorem spec_inst {c : Codec} (L : CodecLaws c) (i : Instance) (t : Tree) (hl : locOk i.location = true)
    (hs : kvsStated i.lib = true) (e : instanceNode c i = .ok t) :
    ∃ a k, t = .elem "instance" a k ∧ inst c (a, k) = some i := by
  cases hlib : libNodes c i.lib with
  | ok ls =>
    simp only [instanceNode, hlib, Out.map, Out.ok.injEq] at e
    subst e
    refine ⟨_, _, rfl, ?_⟩
    have h1 := spec_location L i.location hl ls (lib_shape _ ls hlib "location" (by decide))
    have h2 := spec_lib L i.lib ls hs hlib [locationNode c i.location] (by simp [kids, locationNode])
    simp only [List.singleton_append] at h2
    simp [inst, h1, h2, instanceAttrs, get_eq_attr]
  | err => simp [instanceNode, hlib, Out.map] at e
  | panic => simp [instanceNode, hlib, Out.map] at e

theorem spec_instances {c : Codec} (L : CodecLaws c) : ∀ (is : List Instance) (ts : List Tree),
    (∀ i ∈ is, locOk i.location = true ∧ kvsStated i.lib = true) → instanceNodes c is = .ok ts →
    optionAll (inst c) (kids "instance" ts) = some is ∧ ts.length = is.length
  | [], ts, _, e => by simp only [instanceNodes, Out.ok.injEq] at e; subst e; simp [kids, optionAll]
  | i :: r, ts, h, e => by
    cases hv : instanceNode c i with
    | ok t =>
      cases hr : instanceNodes c r with
      | ok rs =>
        simp only [instanceNodes, hv, hr, Out.bind, Out.ok.injEq] at e
        subst e
        obtain ⟨a, k, rfl, h2⟩ := spec_inst L i t (h i (by simp)).1 (h i (by simp)).2 hv
        obtain ⟨h3, h4⟩ := spec_instances L r rs (fun x hx => h x (by simp [hx])) hr
        simp [kids, optionAll, h2, h3, h4]
      | err => simp [instanceNodes, hv, hr, Out.bind] at e
      | panic => simp [instanceNodes, hv, hr, Out.bind] at e
    | err => simp [instanceNodes, hv, Out.bind] at e
    | panic => simp [instanceNodes, hv, Out.bind] at e

theorem kids_wrapList (n m : String) (items : List Tree) :
    kids n (wrapList m items) = if m = n then (if items.isEmpty then [] else [([], items)]) else [] := by
  unfold wrapList
  by_cases h : items.isEmpty = true
  · simp [h, kids]
  · by_cases hm : m = n <;> simp [h, kids, hm]

theorem kids_rulesPiece (c : Codec) (n : String) (r : Rules) :
    kids n (if rulesIsEmpty r then [] else [rulesNode c r]) =
      if "rules" = n then (if rulesIsEmpty r then []
        else [(mkAttrs [("processing", some (showProcessing r.processing))], r.rules.map (ruleNode c))]) else [] := by
  by_cases h : rulesIsEmpty r = true
  · simp [h, kids]
  · by_cases hn : "rules" = n <;> simp [h, kids, rulesNode, hn]

theorem rules_congr (c : Codec) (a b : List Tree) (h : kids "rules" a = kids "rules" b) :
    rules c a = rules c b := by unfold rules; rw [h]

theorem spec_doc {c : Codec} (L : CodecLaws c) (d : Doc) (insts ls : List Tree)
    (hf : d.format.notNaN = true) (hax : d.axes ≠ []) (haxs : ∀ a ∈ d.axes, axisOk a = true)
    (hru : d.rules.rules.all ruleOk = true) (hsos : ∀ s ∈ d.sources, locOk s.location = true)
    (hso : d.sources ≠ [])
    (hins : ∀ i ∈ d.instances, locOk i.location = true ∧ kvsStated i.lib = true)
    (hlib : kvsStated d.lib = true)
    (e1 : instanceNodes c d.instances = .ok insts) (e2 : libNodes c d.lib = .ok ls) :
    specRead c (.elem "designspace" (mkAttrs [("format", some (c.showF32 d.format))]) (topChildren c d insts ls))
      = some d := by
  have hls := lib_shape d.lib ls e2
  obtain ⟨i1, i2⟩ := spec_instances L d.instances insts hins e1
  -- axes
  have a1 : (below "axes" "axis" (topChildren c d insts ls)).bind (optionAll (axis c)) = some d.axes := by
    have hne : (d.axes.map (axisNode c)).isEmpty = false := by simpa using hax
    unfold below
    simp only [topChildren, kids_append, kids_wrapList, kids_rulesPiece, hls "axes" (by decide), hne]
    simp only [if_true, Bool.false_eq_true, if_false, List.append_nil]
    simp
    rw [kids_map_elem "axis" (axisNode c) _ _ (fun _ => rfl)]
    exact optionAll_map_some _ _ d.axes (fun a ha => spec_axis L a (haxs a ha))
  -- sources
  have a2 : (below "sources" "source" (topChildren c d insts ls)).bind (optionAll (source c)) = some d.sources := by
    have hne : (d.sources.map (sourceNode c)).isEmpty = false := by simpa using hso
    unfold below
    simp only [topChildren, kids_append, kids_wrapList, kids_rulesPiece, hls "sources" (by decide), hne]
    simp
    rw [kids_map_elem "source" (sourceNode c) _ _ (fun _ => rfl)]
    exact optionAll_map_some _ _ d.sources (fun s hs => spec_source L s (hsos s hs))
  -- instances
  have a3 : (below "instances" "instance" (topChildren c d insts ls)).bind (optionAll (inst c))
      = some d.instances := by
    unfold below
    simp only [topChildren, kids_append, kids_wrapList, kids_rulesPiece, hls "instances" (by decide)]
    cases hi : insts with
    | nil =>
      rw [hi] at i2
      have : d.instances = [] := by simpa using i2.symm
      simp [this, optionAll]
    | cons t r =>
      rw [← hi]
      have : insts.isEmpty = false := by rw [hi]; rfl
      simp [this, i1]
  -- rules
  have a4 : rules c (topChildren c d insts ls) = some d.rules := by
    rw [rules_congr c _ (if rulesIsEmpty d.rules then [] else [rulesNode c d.rules])
      (by simp [topChildren, kids_append, kids_wrapList, kids_rulesPiece, hls "rules" (by decide)])]
    by_cases hr : rulesIsEmpty d.rules = true
    · simp only [hr, if_true]
      simp only [rulesIsEmpty, Bool.and_eq_true, List.isEmpty_iff, beq_iff_eq] at hr
      cases hd : d.rules with
      | mk p rs => rw [hd] at hr; simp at hr; simp [rules, kids, hr.1, hr.2]
    · simp only [hr]
      exact spec_rulesNode L d.rules hru [] rfl
  -- lib
  have a5 : libOf c (topChildren c d insts ls) = some d.lib := by
    have := spec_lib L d.lib ls hlib e2
      (wrapList "axes" (d.axes.map (axisNode c)) ++
        (if rulesIsEmpty d.rules then [] else [rulesNode c d.rules]) ++
        wrapList "sources" (d.sources.map (sourceNode c)) ++ wrapList "instances" insts)
      (by simp [kids_append, kids_wrapList, kids_rulesPiece])
    exact this
  simp [specRead, required_eq, L.f32_rt _ hf, a1, a2, a3, a4, a5]

end C18
