import Norad.Base.Path
/-! Lemmas about the path model (core only). -/
namespace Path

theorem splitSlash_ne_nil (s : List Char) : splitSlash s ≠ [] := by
  induction s with
  | nil => simp [splitSlash]
  | cons c r ih =>
    unfold splitSlash
    split
    · simp
    · split
      · rename_i h; exact absurd h ih
      · simp

theorem compOfPiece_cons_isSome (c : Char) (p : List Char) (h : c :: p ≠ ['.']) :
    (compOfPiece (c :: p)).isSome = true := by
  unfold compOfPiece
  simp only [reduceCtorEq, ↓reduceIte, h]
  split <;> simp

theorem firstComp_cons_isSome (c : Char) (p : List Char) : (firstComp (c :: p)).isSome = true := by
  unfold firstComp
  split
  · simp
  · rename_i h; exact compOfPiece_cons_isSome c p h

/-- a relative path is one that does not start with `/` -/
theorem parse_abs (k : List Char) : (parse k).abs = (k.head? == some '/') := by
  unfold parse
  split <;> simp [*]

theorem splitSlash_cons {c : Char} (hc : c ≠ '/') (r : List Char) :
    ∃ p ps, splitSlash (c :: r) = (c :: p) :: ps := by
  unfold splitSlash
  simp only [hc, ↓reduceIte]
  cases h : splitSlash r with
  | nil => exact absurd h (splitSlash_ne_nil r)
  | cons p ps => exact ⟨p, ps, rfl⟩

/-- a non-empty relative path string has at least one component -/
theorem parse_comps_ne_nil {k : List Char} (h1 : k ≠ []) (h2 : (parse k).abs = false) :
    (parse k).comps ≠ [] := by
  cases k with
  | nil => exact absurd rfl h1
  | cons c r =>
    have hc : c ≠ '/' := by
      intro hc; rw [parse_abs] at h2; simp [hc] at h2
    have hh : ¬ ((c :: r).head? = some '/') := by simpa using hc
    obtain ⟨p, ps, hs⟩ := splitSlash_cons hc r
    unfold parse
    simp only [hh, ↓reduceIte]
    unfold relComps
    rw [hs]
    have := firstComp_cons_isSome c p
    cases hf : firstComp (c :: p) with
    | none => simp [hf] at this
    | some x => simp [hf]

/-- the empty string is the only one without root and components -/
theorem parse_isEmpty_iff (k : List Char) : (parse k).isEmpty = true ↔ k = [] := by
  constructor
  · intro h
    by_cases hk : k = []
    · exact hk
    · simp only [P.isEmpty, Bool.and_eq_true, Bool.not_eq_true', List.isEmpty_iff] at h
      exact absurd h.2 (parse_comps_ne_nil hk h.1)
  · rintro rfl; decide

theorem mem_properPrefixes {l m : List Comp} : l ∈ properPrefixes m ↔ l <+: m ∧ l ≠ m := by
  induction m generalizing l with
  | nil =>
    simp only [properPrefixes, List.not_mem_nil, List.prefix_nil, ne_eq, false_iff]
    exact fun h => h.2 h.1
  | cons c r ih =>
    simp only [properPrefixes, List.mem_append, List.mem_map, List.mem_singleton]
    cases l with
    | nil => simp
    | cons d l' =>
      simp only [List.cons.injEq, reduceCtorEq, or_false, List.cons_prefix_cons, ne_eq]
      constructor
      · rintro ⟨a, ha, rfl, rfl⟩
        have := ih.1 ha
        exact ⟨⟨rfl, this.1⟩, fun h => this.2 h.2⟩
      · rintro ⟨⟨rfl, hp⟩, hne⟩
        exact ⟨l', ih.2 ⟨hp, fun h => hne ⟨rfl, h⟩⟩, rfl, rfl⟩

theorem mem_properAncestors {a p : P} :
    a ∈ p.properAncestors ↔ a.abs = p.abs ∧ a.comps <+: p.comps ∧ a.comps ≠ p.comps := by
  unfold P.properAncestors
  simp only [List.mem_map]
  constructor
  · rintro ⟨l, hl, rfl⟩
    exact ⟨rfl, mem_properPrefixes.1 hl⟩
  · rintro ⟨h1, h2⟩
    refine ⟨a.comps, mem_properPrefixes.2 h2, ?_⟩
    cases a; simp_all

theorem isPrefixOf_map_c (l m : List Comp) :
    (l.map FullComp.c).isPrefixOf (m.map FullComp.c) = l.isPrefixOf m := by
  induction l generalizing m with
  | nil => simp
  | cons a l ih =>
    cases m with
    | nil => simp
    | cons b m =>
      simp only [List.map_cons, List.isPrefixOf_cons_cons, ih]
      congr 1
      by_cases h : a = b
      · simp [h]
      · have : FullComp.c a ≠ FullComp.c b := fun hc => h (by injection hc)
        rw [beq_eq_false_iff_ne.2 h, beq_eq_false_iff_ne.2 this]

/-- `starts_with` between relative paths is the prefix relation on components -/
theorem startsWith_rel {p q : P} (hp : p.abs = false) (hq : q.abs = false) :
    q.startsWith p = true ↔ p.comps <+: q.comps := by
  unfold P.startsWith P.full
  simp only [hp, hq, Bool.false_eq_true, ↓reduceIte, List.nil_append, isPrefixOf_map_c]
  exact List.isPrefixOf_iff_prefix

theorem P.ext' {p q : P} (h1 : p.abs = q.abs) (h2 : p.comps = q.comps) : p = q := by
  cases p; cases q; simp_all

end Path
