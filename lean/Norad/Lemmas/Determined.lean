import Norad.Lemmas.Kinds
/-!
The paths the normal-form plan makes exist are exactly `expectedPaths` (C09, `exactly_the_determined_files`).
-/
namespace FontSave
open AbsFS
open Path (Comp)

variable {β : Type}

theorem prefix_append_iff {α : Type} {q a b : List α} :
    (q <+: a ++ b ∧ a <+: q) ↔ ∃ m, m <+: b ∧ q = a ++ m := by
  constructor
  · rintro ⟨h1, ⟨m, rfl⟩⟩
    exact ⟨m, (List.prefix_append_right_inj a).mp h1, rfl⟩
  · rintro ⟨m, hm, rfl⟩
    exact ⟨(List.prefix_append_right_inj a).mpr hm, List.prefix_append _ _⟩

theorem mem_dirsBelow : ∀ (names : List Name) (base q : APath),
    q ∈ dirsBelow base names ↔ ∃ m, m <+: names.dropLast ∧ m ≠ [] ∧ q = base ++ m := by
  intro names
  induction names with
  | nil =>
    intro base q
    simp only [dirsBelow, List.not_mem_nil, List.dropLast_nil, false_iff]
    rintro ⟨m, hm, hne, _⟩
    exact hne (List.prefix_nil.mp hm)
  | cons n r ih =>
    intro base q
    cases r with
    | nil =>
      simp only [dirsBelow, List.not_mem_nil, List.dropLast_singleton, false_iff]
      rintro ⟨m, hm, hne, _⟩
      exact hne (List.prefix_nil.mp hm)
    | cons n2 r2 =>
      simp only [dirsBelow, List.mem_cons, List.dropLast_cons₂]
      rw [ih (base ++ [n]) q]
      constructor
      · rintro (h | ⟨m, hm, hne, rfl⟩)
        · exact ⟨[n], by simp, by simp, h⟩
        · exact ⟨n :: m, List.cons_prefix_cons.mpr ⟨rfl, hm⟩, by simp, by simp⟩
      · rintro ⟨m, hm, hne, rfl⟩
        cases m with
        | nil => exact absurd rfl hne
        | cons a m' =>
          obtain ⟨rfl, hm'⟩ := List.cons_prefix_cons.mp hm
          by_cases h0 : m' = []
          · subst h0; exact Or.inl rfl
          · exact Or.inr ⟨m', hm', h0, by simp⟩

/-! ### segment by segment -/

theorem effpath_top (t : APath) (name : String) (b : β) (q : APath) (k : Bool) :
    EffPath (topN t name b) q k ↔ (q, k) = expTop t name := by
  simp [topN, EffPath, expTop]

theorem effpath_fail (x : SaveErr) (q : APath) (k : Bool) : EffPath (NEff.fail x : NEff β) q k ↔ False := Iff.rfl

theorem opt_paths (t : APath) (name : String) (tok : Nat) (b : β) (q : APath) (k : Bool) :
    (∃ e ∈ planOptN t name tok b, EffPath e q k) ↔ (q, k) ∈ (if tok = 0 then [] else [expTop t name]) := by
  unfold planOptN
  by_cases h : tok = 0
  · simp [h]
  · simp [h, effpath_top]

theorem fontinfo_paths (cfg : Cfg β) (t : APath) (i : AInfo) (q : APath) (k : Bool) :
    (∃ e ∈ planFontinfoN cfg t i, EffPath e q k) ↔ (q, k) ∈ (if i.isEmpty then [] else [expTop t "fontinfo.plist"]) := by
  unfold planFontinfoN
  by_cases h : i.isEmpty = true
  · simp [h]
  · by_cases h2 : i.serialisable = true
    · simp [h, h2, effpath_top]
    · simp [h, h2, effpath_top, effpath_fail]

theorem lib_paths (cfg : Cfg β) (t : APath) (f : AFont β) (hnf : ∀ x, NEff.fail x ∉ planLibN cfg t f)
    (q : APath) (k : Bool) :
    (∃ e ∈ planLibN cfg t f, EffPath e q k) ↔ (q, k) ∈ (if hasLibFile f then [expTop t "lib.plist"] else []) := by
  unfold planLibN hasLibFile at *
  cases hd : dumpObjectLibs f.info.guides with
  | none => simp [hd] at hnf
  | some ol =>
    simp only [Option.getD_some]
    by_cases h : (f.lib.isEmpty && ol.isEmpty) = true
    · simp [h]
    · simp [h, effpath_top]

theorem layer_paths (cfg : Cfg β) (t : APath) (l : ALayer) (hnf : ∀ x, NEff.fail x ∉ planLayerN cfg t l)
    (q : APath) (k : Bool) :
    (∃ e ∈ planLayerN cfg t l, EffPath e q k) ↔ (q, k) ∈ expLayer t l := by
  unfold planLayerN expLayer at *
  simp only at hnf ⊢
  have hg : ∀ e ∈ l.entries, planGlyphN cfg (t ++ namesOf (Path.parse l.dir)) e =
      [.write (t ++ namesOf (Path.parse l.dir) ++ namesOf (Path.parse e.file))
        (cfg.render (.glif ((e.glyph.map (·.tok)).getD 0)))] := by
    intro e he
    have hnf' : ∀ x, NEff.fail x ∉ planGlyphN cfg (t ++ namesOf (Path.parse l.dir)) e := by
      intro x hx
      apply hnf x
      simp only [List.mem_append, List.mem_flatMap]
      exact Or.inr ⟨e, he, hx⟩
    unfold planGlyphN at hnf' ⊢
    cases hgl : e.glyph with
    | none => simp [hgl] at hnf'
    | some g =>
      by_cases hen : g.encodable = true
      · simp [hen]
      · simp [hgl, hen] at hnf'
  constructor
  · rintro ⟨e, he, hp⟩
    simp only [List.mem_append, List.mem_cons, List.not_mem_nil, or_false, List.mem_flatMap] at he
    simp only [List.mem_append, List.mem_cons, List.not_mem_nil, or_false, List.mem_map]
    rcases he with ((he | he) | he) | ⟨en, hen, he⟩
    · subst he; simp only [EffPath] at hp; exact Or.inl (Or.inl (Or.inl (by rw [hp.1, hp.2])))
    · subst he; simp only [EffPath] at hp; exact Or.inl (Or.inl (Or.inr (by rw [hp.1, hp.2])))
    · by_cases hi : l.info = 0
      · simp [hi] at he
      · simp only [hi, if_false, List.mem_singleton] at he ⊢
        subst he; simp only [EffPath] at hp
        exact Or.inl (Or.inr (by rw [hp.1, hp.2]))
    · rw [hg en hen] at he
      simp only [List.mem_singleton] at he
      subst he; simp only [EffPath] at hp
      exact Or.inr ⟨en, hen, by rw [hp.1, hp.2]⟩
  · intro h
    simp only [List.mem_append, List.mem_cons, List.not_mem_nil, or_false, List.mem_map] at h
    rcases h with ((h | h) | h) | ⟨en, hen, h⟩
    · refine ⟨NEff.mkdir (t ++ namesOf (Path.parse l.dir)), by simp, ?_⟩
      cases h; simp [EffPath]
    · refine ⟨NEff.write (t ++ namesOf (Path.parse l.dir) ++ [contentsFile.toList])
        (cfg.render (.contents (l.entries.map fun e => (e.name, e.file)))), ?_, ?_⟩
      · simp only [List.mem_append, List.mem_cons]
        exact Or.inl (Or.inl (Or.inr (Or.inl trivial)))
      · cases h; simp [EffPath]
    · by_cases hi : l.info = 0
      · simp [hi] at h
      · simp only [hi, if_false, List.mem_singleton] at h
        refine ⟨NEff.write (t ++ namesOf (Path.parse l.dir) ++ [layerinfoFile.toList])
          (cfg.render (.layerinfo l.info)), ?_, ?_⟩
        · simp only [List.mem_append, hi, if_false, List.mem_singleton]
          exact Or.inl (Or.inr trivial)
        · cases h; simp [EffPath]
    · refine ⟨NEff.write (t ++ namesOf (Path.parse l.dir) ++ namesOf (Path.parse en.file))
          (cfg.render (.glif ((en.glyph.map (·.tok)).getD 0))), ?_, ?_⟩
      · simp only [List.mem_append, List.mem_flatMap]
        exact Or.inr ⟨en, hen, by rw [hg en hen]; exact List.mem_singleton.mpr rfl⟩
      · cases h; simp [EffPath]

end FontSave

namespace FontSave
open AbsFS
open Path (Comp)

variable {β : Type}

theorem dataItem_paths (t : APath) (kb : Path.P × β) (hne : namesOf kb.1 ≠ []) (q : APath) (k : Bool)
    (htq : t <+: q) :
    (∃ e ∈ planDataItemN t kb, EffPath e q k) ↔ ((q, k) = (t, false) ∨ (q, k) ∈ expDataItem t kb.1) := by
  have hdl : (t ++ ["data".toList] ++ namesOf kb.1).dropLast = t ++ ("data".toList :: (namesOf kb.1).dropLast) := by
    rw [List.dropLast_append_of_ne_nil hne]; simp
  have hpre : ∀ m, m <+: (namesOf kb.1).dropLast →
      t ++ ["data".toList] ++ m <+: (t ++ ["data".toList] ++ namesOf kb.1).dropLast := by
    intro m hm
    rw [hdl]
    have : t ++ ["data".toList] ++ m = t ++ ("data".toList :: m) := by simp
    rw [this]
    exact (List.prefix_append_right_inj t).mpr (List.cons_prefix_cons.mpr ⟨rfl, hm⟩)
  constructor
  · rintro ⟨e, he, hp⟩
    unfold planDataItemN at he
    simp only [List.mem_cons, List.not_mem_nil, or_false] at he
    rcases he with rfl | rfl
    · obtain ⟨hp, rfl⟩ := hp
      rw [hdl] at hp
      obtain ⟨m, hm, rfl⟩ := prefix_append_iff.mp ⟨hp, htq⟩
      cases m with
      | nil => left; simp
      | cons a m' =>
        obtain ⟨rfl, hm'⟩ := List.cons_prefix_cons.mp hm
        right
        unfold expDataItem
        by_cases h0 : m' = []
        · subst h0; exact List.mem_cons_self ..
        · apply List.mem_cons_of_mem
          apply List.mem_append_left
          refine List.mem_map.mpr ⟨t ++ ["data".toList] ++ m', (mem_dirsBelow _ _ _).mpr ⟨m', hm', h0, rfl⟩, ?_⟩
          simp
    · obtain ⟨rfl, rfl⟩ := hp
      right
      unfold expDataItem
      apply List.mem_cons_of_mem
      exact List.mem_append_right _ (List.mem_singleton.mpr rfl)
  · rintro (h | h)
    · cases h
      refine ⟨NEff.mkdirAll (t ++ ["data".toList] ++ namesOf kb.1).dropLast, ?_, ?_⟩
      · unfold planDataItemN; exact List.mem_cons_self ..
      · refine ⟨?_, rfl⟩
        rw [hdl]; exact List.prefix_append _ _
    · unfold expDataItem at h
      rcases List.mem_cons.mp h with h | h
      · cases h
        refine ⟨NEff.mkdirAll (t ++ ["data".toList] ++ namesOf kb.1).dropLast, ?_, ?_⟩
        · unfold planDataItemN; exact List.mem_cons_self ..
        · refine ⟨?_, rfl⟩
          have := hpre [] List.nil_prefix
          simpa using this
      · rcases List.mem_append.mp h with h | h
        · obtain ⟨x, hx, hxe⟩ := List.mem_map.mp h
          cases hxe
          obtain ⟨m, hm, _, rfl⟩ := (mem_dirsBelow _ _ _).mp hx
          refine ⟨NEff.mkdirAll (t ++ ["data".toList] ++ namesOf kb.1).dropLast, ?_, ?_⟩
          · unfold planDataItemN; exact List.mem_cons_self ..
          · exact ⟨hpre m hm, rfl⟩
        · have := List.mem_singleton.mp h
          cases this
          refine ⟨NEff.write (t ++ ["data".toList] ++ namesOf kb.1) kb.2, ?_, ?_⟩
          · unfold planDataItemN; exact List.mem_cons_of_mem _ (List.mem_singleton.mpr rfl)
          · exact ⟨rfl, rfl⟩

theorem images_paths (t : APath) (i : List (Path.P × β)) (q : APath) (k : Bool) :
    (∃ e ∈ planImagesN t i, EffPath e q k) ↔ (q, k) ∈ expImages t (i.map (·.1)) := by
  unfold planImagesN expImages
  cases i with
  | nil => simp
  | cons x r =>
    simp only [List.isEmpty_cons, Bool.false_eq_true, if_false, List.map, List.mem_cons, exists_eq_or_imp,
      EffPath, List.mem_map, Prod.mk.injEq]
    constructor
    · rintro (⟨rfl, rfl⟩ | ⟨rfl, rfl⟩ | ⟨e, ⟨kb, hkb, rfl⟩, rfl, rfl⟩)
      · exact Or.inl ⟨rfl, rfl⟩
      · exact Or.inr (Or.inl ⟨rfl, rfl⟩)
      · exact Or.inr (Or.inr ⟨kb.1, ⟨kb, hkb, rfl⟩, rfl, rfl⟩)
    · rintro (⟨rfl, rfl⟩ | ⟨rfl, rfl⟩ | ⟨key, ⟨kb, hkb, rfl⟩, rfl, rfl⟩)
      · exact Or.inl ⟨rfl, rfl⟩
      · exact Or.inr (Or.inl ⟨rfl, rfl⟩)
      · exact Or.inr (Or.inr ⟨_, ⟨kb, hkb, rfl⟩, rfl, rfl⟩)

theorem forceList_keys {cfg : Cfg β} {kind : StoreKind} {fs : FS β} {root : APath} {keys : List Path.P} :
    ∀ {items : List (Path.P × Cell β)} {d : List (Path.P × β)},
      forceList cfg kind fs root keys items = some d → d.map (·.1) = items.map (·.1) := by
  intro items
  induction items with
  | nil => intro d h; simp [forceList] at h; subst h; rfl
  | cons e r ih =>
    intro d h
    obtain ⟨k0, c0⟩ := e
    unfold forceList at h
    cases hc : forceCell cfg kind fs root keys k0 c0 with
    | notLoaded => simp [hc] at h
    | error => simp [hc] at h
    | loaded b0 =>
      simp only [hc] at h
      cases hr : forceList cfg kind fs root keys r with
      | none => simp [hr] at h
      | some l => simp only [hr] at h; cases h; simp [ih hr]

theorem exists_mem_append {α : Type} {p : α → Prop} {a b : List α} :
    (∃ e ∈ a ++ b, p e) ↔ ((∃ e ∈ a, p e) ∨ ∃ e ∈ b, p e) := by
  simp only [List.mem_append]
  constructor
  · rintro ⟨e, h | h, hp⟩
    · exact Or.inl ⟨e, h, hp⟩
    · exact Or.inr ⟨e, h, hp⟩
  · rintro (⟨e, h, hp⟩ | ⟨e, h, hp⟩)
    · exact ⟨e, Or.inl h, hp⟩
    · exact ⟨e, Or.inr h, hp⟩

/-- the plan of a successful save makes exist, at and below `t`, exactly `expectedPaths` -/
theorem determined_core (cfg : Cfg β) (f : AFont β) (d i : List (Path.P × β)) (t : APath)
    (hd : d.map (·.1) = f.data.items.map (·.1)) (hi : i.map (·.1) = f.images.items.map (·.1))
    (hsafe : ∀ kb ∈ d, safeRel kb.1 = true) (hnf : ∀ x, NEff.fail x ∉ planRestN cfg f d i t)
    (q : APath) (k : Bool) (htq : t <+: q) :
    ((q, k) = (t, false) ∨ ∃ e ∈ planRestN cfg f d i t, EffPath e q k) ↔ (q, k) ∈ expectedPaths f t := by
  -- no-fail facts for the segments that need them
  have hnfLib : ∀ x, NEff.fail x ∉ planLibN cfg t f := by
    intro x hx; apply hnf x; unfold planRestN; simp only [List.mem_append]
    exact Or.inl (Or.inl (Or.inl (Or.inl (Or.inl (Or.inl (Or.inl (Or.inr hx)))))))
  have hnfLayer : ∀ l ∈ f.layers, ∀ x, NEff.fail x ∉ planLayerN cfg t l := by
    intro l hl x hx; apply hnf x; unfold planRestN
    simp only [List.mem_append, List.mem_flatMap]
    exact Or.inl (Or.inl (Or.inr ⟨l, hl, hx⟩))
  have hLayers : (∃ e ∈ f.layers.flatMap (planLayerN cfg t), EffPath e q k) ↔ (q, k) ∈ f.layers.flatMap (expLayer t) := by
    simp only [List.mem_flatMap]
    constructor
    · rintro ⟨e, ⟨l, hl, he⟩, hp⟩
      exact ⟨l, hl, (layer_paths cfg t l (hnfLayer l hl) q k).mp ⟨e, he, hp⟩⟩
    · rintro ⟨l, hl, hm⟩
      obtain ⟨e, he, hp⟩ := (layer_paths cfg t l (hnfLayer l hl) q k).mpr hm
      exact ⟨e, ⟨l, hl, he⟩, hp⟩
  have hData : ((q, k) = (t, false) ∨ ∃ e ∈ d.flatMap (planDataItemN t), EffPath e q k) ↔
      ((q, k) = (t, false) ∨ (q, k) ∈ (f.data.items.map (·.1)).flatMap (expDataItem t)) := by
    rw [← hd]
    simp only [List.mem_flatMap, List.mem_map]
    constructor
    · rintro (h | ⟨e, ⟨kb, hkb, he⟩, hp⟩)
      · exact Or.inl h
      · rcases (dataItem_paths t kb (namesOf_ne_nil _ (hsafe kb hkb)) q k htq).mp ⟨e, he, hp⟩ with h | h
        · exact Or.inl h
        · exact Or.inr ⟨kb.1, ⟨kb, hkb, rfl⟩, h⟩
    · rintro (h | ⟨key, ⟨kb, hkb, rfl⟩, hm⟩)
      · exact Or.inl h
      · obtain ⟨e, he, hp⟩ := (dataItem_paths t kb (namesOf_ne_nil _ (hsafe kb hkb)) q k htq).mpr (Or.inr hm)
        exact Or.inr ⟨e, ⟨kb, hkb, he⟩, hp⟩
  have hImages := images_paths t i q k
  rw [hi] at hImages
  have hsing : ∀ (x : NEff β), (∃ e ∈ [x], EffPath e q k) ↔ EffPath x q k := by intro x; simp
  unfold planRestN expectedPaths
  simp only [exists_mem_append]
  simp only [hsing, effpath_top, fontinfo_paths, lib_paths cfg t f hnfLib, opt_paths, hLayers, hImages]
  simp only [List.mem_append, List.mem_cons, List.not_mem_nil, or_false]
  constructor
  · rintro (h | (((((((((h | h) | h) | h) | h) | h) | h) | h) | h) | h))
    · exact Or.inl (Or.inl (Or.inl (Or.inl (Or.inl (Or.inl (Or.inl (Or.inl (Or.inl (Or.inl h)))))))))
    · exact Or.inl (Or.inl (Or.inl (Or.inl (Or.inl (Or.inl (Or.inl (Or.inl (Or.inl (Or.inr h)))))))))
    · exact Or.inl (Or.inl (Or.inl (Or.inl (Or.inl (Or.inl (Or.inl (Or.inl (Or.inr h))))))))
    · exact Or.inl (Or.inl (Or.inl (Or.inl (Or.inl (Or.inl (Or.inl (Or.inr h)))))))
    · exact Or.inl (Or.inl (Or.inl (Or.inl (Or.inl (Or.inl (Or.inr h))))))
    · exact Or.inl (Or.inl (Or.inl (Or.inl (Or.inl (Or.inr h)))))
    · exact Or.inl (Or.inl (Or.inl (Or.inl (Or.inr h))))
    · exact Or.inl (Or.inl (Or.inl (Or.inr h)))
    · exact Or.inl (Or.inl (Or.inr h))
    · rcases hData.mp (Or.inr h) with h' | h'
      · exact Or.inl (Or.inl (Or.inl (Or.inl (Or.inl (Or.inl (Or.inl (Or.inl (Or.inl (Or.inl h')))))))))
      · exact Or.inl (Or.inr h')
    · exact Or.inr h
  · rintro ((((((((((h | h) | h) | h) | h) | h) | h) | h) | h) | h) | h)
    · exact Or.inl h
    · exact Or.inr (Or.inl (Or.inl (Or.inl (Or.inl (Or.inl (Or.inl (Or.inl (Or.inl (Or.inl h)))))))))
    · exact Or.inr (Or.inl (Or.inl (Or.inl (Or.inl (Or.inl (Or.inl (Or.inl (Or.inl (Or.inr h)))))))))
    · exact Or.inr (Or.inl (Or.inl (Or.inl (Or.inl (Or.inl (Or.inl (Or.inl (Or.inr h))))))))
    · exact Or.inr (Or.inl (Or.inl (Or.inl (Or.inl (Or.inl (Or.inl (Or.inr h)))))))
    · exact Or.inr (Or.inl (Or.inl (Or.inl (Or.inl (Or.inl (Or.inr h))))))
    · exact Or.inr (Or.inl (Or.inl (Or.inl (Or.inl (Or.inr h)))))
    · exact Or.inr (Or.inl (Or.inl (Or.inl (Or.inr h))))
    · exact Or.inr (Or.inl (Or.inl (Or.inr h)))
    · rcases hData.mpr (Or.inr h) with h' | h'
      · exact Or.inl h'
      · exact Or.inr (Or.inl (Or.inr h'))
    · exact Or.inr (Or.inr h)

end FontSave
