import Norad.Model.FontInfoUp
/-! Helper lemmas for C14: association lists (`lookup`, `setKey`) and the hint-data fold. -/
namespace C14
open FI

theorem lookup_nil {β} (k : String) : lookup ([] : List (String × β)) k = none := rfl

theorem lookup_cons {β} (a : String × β) (r : List (String × β)) (k : String) :
    lookup (a :: r) k = if a.1 = k then some a.2 else lookup r k := by
  unfold lookup
  simp only [List.find?_cons]
  by_cases h : a.1 = k
  · simp [h]
  · have hb : (a.1 == k) = false := by simpa using h
    simp [h, hb]

theorem lookup_append {β} (a b : List (String × β)) (k : String) :
    lookup (a ++ b) k = match lookup a k with | some v => some v | none => lookup b k := by
  induction a with
  | nil => simp [lookup_nil]
  | cons x r ih =>
    simp only [List.cons_append, lookup_cons]
    by_cases h : x.1 = k
    · simp [h]
    · simp [h, ih]

theorem lookup_filter_self (info : List (String × Val)) (k : String) :
    lookup (info.filter (fun p => p.1 != k)) k = none := by
  induction info with
  | nil => rfl
  | cons x r ih =>
    simp only [List.filter_cons]
    by_cases h : x.1 = k
    · simp [h, ih]
    · simp [h, lookup_cons, ih]

theorem lookup_filter_other (info : List (String × Val)) (k k' : String) (hne : k' ≠ k) :
    lookup (info.filter (fun p => p.1 != k)) k' = lookup info k' := by
  induction info with
  | nil => rfl
  | cons x r ih =>
    simp only [List.filter_cons, lookup_cons]
    by_cases h : x.1 = k
    · have hk : ¬ k = k' := fun e => hne e.symm
      simp [h, ih, hk]
    · simp [h, lookup_cons, ih]

theorem getKey_setKey_self (info : List (String × Val)) (k : String) (v : Option Val) :
    getKey (setKey info k v) k = v := by
  unfold getKey setKey
  cases v with
  | none => exact lookup_filter_self info k
  | some x => simp [lookup_append, lookup_filter_self, lookup_cons]

theorem getKey_setKey_other (info : List (String × Val)) (k k' : String) (v : Option Val) (hne : k' ≠ k) :
    getKey (setKey info k v) k' = getKey info k' := by
  unfold getKey setKey
  cases v with
  | none => exact lookup_filter_other info k k' hne
  | some x =>
    have : k ≠ k' := fun e => hne e.symm
    simp only [lookup_append, lookup_filter_other info k k' hne, lookup_cons, lookup_nil, this, if_false]
    cases lookup info k' <;> rfl

theorem hintStep_other (hint acc : List (String × Val)) (row : String × String) (k : String)
    (hne : k ≠ row.2) : getKey (hintStep hint acc row) k = getKey acc k := by
  unfold hintStep
  split
  · exact getKey_setKey_other _ _ _ _ hne
  · split
    · rfl
    · exact getKey_setKey_other _ _ _ _ hne

theorem foldl_hintStep_other (hint : List (String × Val)) (rows : List (String × String)) :
    ∀ (acc : List (String × Val)) (k : String), k ∉ rows.map (·.2) →
      getKey (rows.foldl (hintStep hint) acc) k = getKey acc k := by
  induction rows with
  | nil => intro acc k _; rfl
  | cons r rs ih =>
    intro acc k hk
    simp only [List.map_cons, List.mem_cons, not_or] at hk
    simp only [List.foldl_cons]
    rw [ih _ k hk.2, hintStep_other _ _ _ _ hk.1]

/-- after the fold, the attribute of a row holds what that row's own step put there -/
theorem foldl_hintStep_row (hint : List (String × Val)) (rows : List (String × String)) :
    (rows.map (·.2)).Nodup → ∀ (acc : List (String × Val)) (row : String × String), row ∈ rows →
      ∃ acc', getKey (rows.foldl (hintStep hint) acc) row.2 = getKey (hintStep hint acc' row) row.2 := by
  induction rows with
  | nil => intro _ acc row h; simp at h
  | cons r rs ih =>
    intro hnd acc row hmem
    simp only [List.map_cons, List.nodup_cons] at hnd
    simp only [List.foldl_cons]
    rcases List.mem_cons.1 hmem with rfl | hr
    · exact ⟨acc, foldl_hintStep_other hint rs _ _ hnd.1⟩
    · exact ih hnd.2 _ row hr

theorem hintStep_some (hint acc : List (String × Val)) (row : String × String) (v : Val)
    (h : lookup hint row.1 = some v) : getKey (hintStep hint acc row) row.2 = some (flatten v) := by
  unfold hintStep
  simp only [h]
  exact getKey_setKey_self _ _ _

theorem hintStep_none (hint acc : List (String × Val)) (row : String × String)
    (h : lookup hint row.1 = none) (hc : hintConditional.contains row.1 = false) :
    getKey (hintStep hint acc row) row.2 = none := by
  unfold hintStep
  simp only [h, hc, Bool.false_eq_true, if_false]
  exact getKey_setKey_self _ _ _

end C14
