import Norad.Lemmas.C16Save
import Norad.Lemmas.StoreOrder
/-! Lemmas for `iter_forcing_order_independent`: a `get` touches only its own cell, and what it puts
    there depends on the other entries only through their keys; hence `get`s of different keys commute. -/
namespace C16
open Path

/-! ### validation sees the other entries only through their keys -/

theorem hasKey_keys {i j : Items} (h : i.map (·.1) = j.map (·.1)) (p : P) : hasKey i p = hasKey j p := by
  have e : ∀ l : Items, hasKey l p = (l.map (·.1)).any fun k => parse k == p := by
    intro l; simp [hasKey, List.any_map, Function.comp_def]
  rw [e, e, h]

theorem descendantInStore_keys {i j : Items} (h : i.map (·.1) = j.map (·.1)) (p : P) :
    descendantInStore i p = descendantInStore j p := by
  have e : ∀ l : Items, descendantInStore l p =
      (l.map (·.1)).any fun k => (parse k).startsWith p && parse k != p := by
    intro l; simp [descendantInStore, List.any_map, Function.comp_def]
  rw [e, e, h]

theorem ancestorInStore_keys {i j : Items} (h : i.map (·.1) = j.map (·.1)) (p : P) :
    ancestorInStore i p = ancestorInStore j p := by
  unfold ancestorInStore
  congr 1
  funext a
  rw [hasKey_keys h]

theorem validate_keys {i j : Items} (h : i.map (·.1) = j.map (·.1)) (kind : Kind) (k : Key) (b : Bytes) :
    validate kind k i b = validate kind k j b := by
  cases kind with
  | data =>
    simp only [validate, validateData, ancestorInStore_keys h, descendantInStore_keys h]
  | image => rfl

theorem loadItem_keys {i j : Items} (h : i.map (·.1) = j.map (·.1)) (kind : Kind) (d : Disk) (k : Key) :
    loadItem kind d k i = loadItem kind d k j := by
  unfold loadItem
  cases d k with
  | none => rfl
  | some b => simp only [validate_keys h]

/-! ### the store after a `get` -/

theorem get_fst_of_lazy {s : Store} {d : Disk} {k k0 : Key} (h : find? s.items k = some (k0, .notLoaded)) :
    (get s d k).1 = { s with items := setCell s.items k (loadItem s.kind d k s.items) } := by
  unfold get; simp [h]

theorem get_fst_of_not_lazy {s : Store} {d : Disk} {k : Key}
    (h : ∀ k0, find? s.items k ≠ some (k0, .notLoaded)) : (get s d k).1 = s := by
  unfold get
  split
  · rfl
  · rename_i k0 hf; exact absurd hf (h k0)
  · rfl

theorem find?_get_other (s : Store) (d : Disk) {a b : Key} (hab : parse a ≠ parse b) :
    find? (get s d a).1.items b = find? s.items b := by
  by_cases h : ∃ k0, find? s.items a = some (k0, .notLoaded)
  · obtain ⟨k0, hf⟩ := h
    rw [get_fst_of_lazy hf]
    show find? (setCell s.items a _) b = _
    rw [setCell_of_hasKey (find?_hasKey hf)]
    exact find?_map_other _ _ _ _ hab
  · rw [get_fst_of_not_lazy (fun k0 hk => h ⟨k0, hk⟩)]

theorem upd_comm {a b : Key} (ca cb : Cell) (hab : parse a ≠ parse b) (e : Key × Cell) :
    upd b cb (upd a ca e) = upd a ca (upd b cb e) := by
  by_cases ha : parse e.1 = parse a
  · have hb : parse e.1 ≠ parse b := fun h => hab (ha.symm.trans h)
    rw [upd_other (k' := b) hb, upd_same ha, upd_other (k' := b) (e := (e.1, ca)) hb]
  · rw [upd_other (k' := a) ha]
    rw [upd_other (k' := a) (e := upd b cb e) (by rw [upd_fst]; exact ha)]

/-- **`get`s of keys with different components commute** (as far as the store is concerned) -/
theorem get_comm (s : Store) (d : Disk) {a b : Key} (hab : parse a ≠ parse b) :
    (get (get s d a).1 d b).1 = (get (get s d b).1 d a).1 := by
  by_cases ha : ∃ k0, find? s.items a = some (k0, .notLoaded)
  · by_cases hb : ∃ k0, find? s.items b = some (k0, .notLoaded)
    · obtain ⟨ka, hfa⟩ := ha
      obtain ⟨kb, hfb⟩ := hb
      have hfb' : find? (get s d a).1.items b = some (kb, .notLoaded) := by
        rw [find?_get_other s d hab]; exact hfb
      have hfa' : find? (get s d b).1.items a = some (ka, .notLoaded) := by
        rw [find?_get_other s d (Ne.symm hab)]; exact hfa
      rw [get_fst_of_lazy hfb', get_fst_of_lazy hfa', get_fst_of_lazy hfa, get_fst_of_lazy hfb]
      have hka := find?_hasKey hfa
      have hkb := find?_hasKey hfb
      have k1 : (setCell s.items a (loadItem s.kind d a s.items)).map (·.1) = s.items.map (·.1) :=
        keys_setCell_of_hasKey hka
      have k2 : (setCell s.items b (loadItem s.kind d b s.items)).map (·.1) = s.items.map (·.1) :=
        keys_setCell_of_hasKey hkb
      simp only [loadItem_keys k1, loadItem_keys k2]
      have hkb1 : hasKey (setCell s.items a (loadItem s.kind d a s.items)) (parse b) = true := by
        rw [hasKey_keys k1]; exact hkb
      have hka2 : hasKey (setCell s.items b (loadItem s.kind d b s.items)) (parse a) = true := by
        rw [hasKey_keys k2]; exact hka
      congr 1
      rw [setCell_of_hasKey hkb1, setCell_of_hasKey hka2, setCell_of_hasKey hka, setCell_of_hasKey hkb,
        List.map_map, List.map_map]
      apply List.map_congr_left
      intro e _
      exact upd_comm _ _ hab e
    · have hb' : ∀ k0, find? s.items b ≠ some (k0, .notLoaded) := fun k0 hk => hb ⟨k0, hk⟩
      have hb'' : ∀ k0, find? (get s d a).1.items b ≠ some (k0, .notLoaded) := by
        intro k0; rw [find?_get_other s d hab]; exact hb' k0
      rw [get_fst_of_not_lazy hb'', get_fst_of_not_lazy hb']
  · have ha' : ∀ k0, find? s.items a ≠ some (k0, .notLoaded) := fun k0 hk => ha ⟨k0, hk⟩
    have ha'' : ∀ k0, find? (get s d b).1.items a ≠ some (k0, .notLoaded) := by
      intro k0; rw [find?_get_other s d (Ne.symm hab)]; exact ha' k0
    rw [get_fst_of_not_lazy ha'', get_fst_of_not_lazy ha']

theorem iterFrom_fst (s : Store) (d : Disk) (ks : List Key) :
    (iterFrom s d ks).1 = ks.foldl (fun s k => (get s d k).1) s := by
  induction ks generalizing s with
  | nil => rfl
  | cons k r ih =>
    simp only [iterFrom, List.foldl_cons]
    exact ih _

theorem forceUntilError_fst_of_none {s s1 : Store} {d : Disk} {ks : List Key}
    (h : forceUntilError s d ks = (s1, none)) : s1 = ks.foldl (fun s k => (get s d k).1) s := by
  induction ks generalizing s with
  | nil => simp [forceUntilError] at h; exact h.symm
  | cons k r ih =>
    simp only [forceUntilError] at h
    split at h
    · rename_i s' b heq
      rw [List.foldl_cons, heq]
      exact ih h
    · simp at h

theorem hasKey_get (s : Store) (d : Disk) (k : Key) (p : P) :
    hasKey (get s d k).1.items p = hasKey s.items p :=
  hasKey_keys (keys_get s d k) p

theorem find?_ne_none_iff {items : Items} {k : Key} : find? items k ≠ none ↔ hasKey items (parse k) = true := by
  constructor
  · intro h
    cases hf : find? items k with
    | none => exact absurd hf h
    | some e => exact find?_hasKey hf
  · intro h hf
    obtain ⟨e, he, hp⟩ := hasKey_iff.1 h
    unfold find? at hf
    rw [List.find?_eq_none] at hf
    exact hf e he (by simpa using hp)

end C16
