import Norad.Model.Layers
/-! Helper lemmas for the container model: invariants and their preservation, operation by operation. -/
namespace Layers

/-! ## generic list facts -/

theorem mem_eraseKey {k : Str} {l : List (Str × Str)} {e : Str × Str} :
    e ∈ eraseKey k l ↔ e ∈ l ∧ e.1 ≠ k := by simp [eraseKey]

theorem lookup_mem {k : Str} {l : List (Str × Str)} {v : Str} (h : lookup k l = some v) : (k, v) ∈ l := by
  induction l with
  | nil => simp [lookup] at h
  | cons e r ih =>
    obtain ⟨k', v'⟩ := e
    simp only [lookup] at h
    split at h
    · simp_all
    · simp [ih h]

theorem lookup_none {k : Str} {l : List (Str × Str)} (h : lookup k l = none) : k ∉ keys l := by
  induction l with
  | nil => simp [keys]
  | cons e r ih =>
    obtain ⟨k', v'⟩ := e
    simp only [lookup] at h
    split at h
    · simp at h
    · rename_i hne
      simp only [keys, List.map_cons, List.mem_cons, not_or]
      exact ⟨fun hk => hne hk.symm, ih h⟩

/-- injectivity from `Nodup` of a mapped list -/
theorem eq_of_nodup_map {α β} (f : α → β) (l : List α) (h : (l.map f).Nodup)
    {a b : α} (ha : a ∈ l) (hb : b ∈ l) (hab : f a = f b) : a = b := by
  induction l with
  | nil => simp at ha
  | cons c cs ih =>
    simp only [List.map_cons, List.nodup_cons, List.mem_map, not_exists, not_and] at h
    simp only [List.mem_cons] at ha hb
    rcases ha with rfl | ha <;> rcases hb with rfl | hb
    · rfl
    · exact absurd hab.symm (h.1 b hb)
    · exact absurd hab (h.1 a ha)
    · exact ih h.2 ha hb

theorem nodup_addGlyphName {g : Str} {gs : List Str} (h : gs.Nodup) : (addGlyphName g gs).Nodup := by
  unfold addGlyphName; split
  · exact h
  · rename_i hg; exact List.nodup_cons.2 ⟨hg, h⟩

theorem mem_addGlyphName {g n : Str} {gs : List Str} : n ∈ addGlyphName g gs ↔ n = g ∨ n ∈ gs := by
  unfold addGlyphName; split
  · rename_i hg; constructor
    · exact Or.inr
    · rintro (rfl | h); exact hg; exact h
  · simp

/-! ## layer invariant -/

section
variable (lower : Str → Str) (assignG assignL : Str → List Str → Option Str) (valid : Str → Bool)

/-- the part of the layer invariant that every operation (the `entry` API included) preserves -/
structure LInvW (L : Layer) : Prop where
  keysNodup : (keys L.contents).Nodup
  glyphsNodup : L.glyphs.Nodup
  inSet : ∀ e ∈ L.contents, lower e.2 ∈ L.pathSet
  distinct : (L.contents.map (fun e => lower e.2)).Nodup

/-- the glyph map and the contents index hold the same names -/
def Sync (L : Layer) : Prop := ∀ n, n ∈ L.glyphs ↔ n ∈ keys L.contents

/-- contract of a file-name function: the result was not taken (C07 `fileName_accepted`) -/
def AssignOK (assign : Str → List Str → Option Str) : Prop :=
  ∀ n ps p, assign n ps = some p → lower p ∉ ps

theorem linvw_new (n p : Str) : LInvW lower (Layer.new n p) := by
  constructor <;> simp [Layer.new, keys]

theorem sync_new (n p : Str) : Sync (Layer.new n p) := by
  intro m; simp [Layer.new, keys]

theorem linvw_clear (L : Layer) : LInvW lower (clearLayer L) := by
  constructor <;> simp [clearLayer, keys]

theorem sync_clear (L : Layer) : Sync (clearLayer L) := by
  intro m; simp [clearLayer, keys]

theorem linvw_remove (L : Layer) (n : Str) (h : LInvW lower L) : LInvW lower (removeGlyph lower L n) := by
  constructor
  · simpa [removeGlyph, eraseKey, keys] using h.keysNodup.sublist (List.Sublist.map _ List.filter_sublist)
  · simpa [removeGlyph] using h.glyphsNodup.sublist List.filter_sublist
  · intro e he
    have he' := mem_eraseKey.1 he
    have hin := h.inSet e he'.1
    simp only [removeGlyph]
    cases hl : lookup n L.contents with
    | none => simpa using hin
    | some p =>
      simp only [List.mem_filter, decide_eq_true_eq, ne_eq]
      refine ⟨hin, fun heq => ?_⟩
      have := eq_of_nodup_map (fun e : Str × Str => lower e.2) L.contents h.distinct he'.1 (lookup_mem hl) heq
      exact he'.2 (by rw [this])
  · simpa [removeGlyph, eraseKey] using h.distinct.sublist (List.Sublist.map _ List.filter_sublist)

theorem sync_remove (L : Layer) (n : Str) (h : Sync L) : Sync (removeGlyph lower L n) := by
  intro m
  simp only [removeGlyph, List.mem_filter, keys, List.mem_map, eraseKey, decide_eq_true_eq, ne_eq]
  constructor
  · rintro ⟨hm, hne⟩
    obtain ⟨e, he, rfl⟩ := List.mem_map.1 ((h m).1 hm)
    exact ⟨e, ⟨he, hne⟩, rfl⟩
  · rintro ⟨e, ⟨he, hne⟩, rfl⟩
    exact ⟨(h e.1).2 (List.mem_map.2 ⟨e, he, rfl⟩), hne⟩

theorem linvw_insert (hA : AssignOK lower assignG) (L : Layer) (g : Str) (h : LInvW lower L) :
    LInvW lower (insertGlyph lower assignG L g).1 := by
  unfold insertGlyph
  split
  · exact ⟨h.keysNodup, nodup_addGlyphName h.glyphsNodup, h.inSet, h.distinct⟩
  · rename_i hg
    cases ha : assignG g L.pathSet with
    | none => simpa using h
    | some p =>
      have hp := hA g L.pathSet p ha
      constructor
      · simpa [keys] using ⟨by simpa [keys] using hg, h.keysNodup⟩
      · exact nodup_addGlyphName h.glyphsNodup
      · intro e he
        simp only [List.mem_cons] at he ⊢
        rcases he with rfl | he
        · exact Or.inl rfl
        · exact Or.inr (h.inSet e he)
      · simp only [List.map_cons, List.nodup_cons, List.mem_map, not_exists, not_and]
        refine ⟨fun e he heq => hp ?_, h.distinct⟩
        rw [← heq]; exact h.inSet e he

theorem sync_insert (L : Layer) (g : Str) (h : Sync L)
    (hok : (insertGlyph lower assignG L g).2 = .ok) : Sync (insertGlyph lower assignG L g).1 := by
  unfold insertGlyph at hok ⊢
  split
  · rename_i hg
    intro m
    simp only [mem_addGlyphName]
    constructor
    · rintro (rfl | hm); exact hg; exact (h m).1 hm
    · intro hm; exact Or.inr ((h m).2 hm)
  · rename_i hg
    cases ha : assignG g L.pathSet with
    | none => simp [hg, ha] at hok
    | some p =>
      intro m
      simp only [mem_addGlyphName, keys, List.map_cons, List.mem_cons]
      constructor
      · rintro (rfl | hm); exact Or.inl rfl; exact Or.inr ((h m).1 hm)
      · rintro (rfl | hm); exact Or.inl rfl; exact Or.inr ((h m).2 hm)

theorem linvw_rename (hA : AssignOK lower assignG) (L : Layer) (old new : Str) (ow : Bool)
    (h : LInvW lower L) : LInvW lower (renameGlyph lower assignG valid L old new ow).1 := by
  unfold renameGlyph
  split; · exact h
  split; · exact h
  split; · exact h
  exact linvw_insert lower assignG hA _ _ (linvw_remove lower L old h)

theorem sync_rename (L : Layer) (old new : Str) (ow : Bool) (h : Sync L)
    (hok : (renameGlyph lower assignG valid L old new ow).2 = .ok) :
    Sync (renameGlyph lower assignG valid L old new ow).1 := by
  unfold renameGlyph at hok ⊢
  split; · simp_all
  split; · simp_all
  split; · simp_all
  rename_i h1 h2 h3
  simp only [h1, h2, h3] at hok
  exact sync_insert lower assignG _ _ (sync_remove lower L old h) (by simpa using hok)

theorem linvw_retain (L : Layer) (keep : Str → Bool) (h : LInvW lower L) :
    LInvW lower (retainGlyphs lower L keep) := by
  constructor
  · simpa [retainGlyphs, keys] using h.keysNodup.sublist (List.Sublist.map _ List.filter_sublist)
  · simpa [retainGlyphs] using h.glyphsNodup.sublist List.filter_sublist
  · intro e he
    simp only [retainGlyphs, List.mem_filter, decide_eq_true_eq] at he ⊢
    refine ⟨h.inSet e he.1, ?_⟩
    simp only [List.mem_map, List.mem_filter, decide_eq_true_eq, not_exists, not_and, and_imp]
    intro e' he' hdrop heq
    have := eq_of_nodup_map (fun e : Str × Str => lower e.2) L.contents h.distinct he' he.1 heq
    subst this
    exact hdrop he.2.1 he.2.2
  · simpa [retainGlyphs] using h.distinct.sublist (List.Sublist.map _ List.filter_sublist)

theorem sync_retain (L : Layer) (keep : Str → Bool) (h : Sync L) : Sync (retainGlyphs lower L keep) := by
  intro m
  simp only [retainGlyphs, keys, List.mem_map, List.mem_filter, decide_eq_true_eq]
  constructor
  · rintro ⟨hm, hk⟩
    obtain ⟨e, he, rfl⟩ := List.mem_map.1 ((h m).1 hm)
    exact ⟨e, ⟨he, hm, hk⟩, rfl⟩
  · rintro ⟨e, ⟨_, hm, hk⟩, rfl⟩
    exact ⟨hm, hk⟩

theorem linvw_entryOrInsert (L : Layer) (n : Str) (h : LInvW lower L) : LInvW lower (entryOrInsert L n) :=
  ⟨h.keysNodup, nodup_addGlyphName h.glyphsNodup, h.inSet, h.distinct⟩

theorem linvw_entryRemove (L : Layer) (n : Str) (h : LInvW lower L) : LInvW lower (entryRemove L n) :=
  ⟨h.keysNodup, by simpa [entryRemove] using h.glyphsNodup.sublist List.filter_sublist, h.inSet, h.distinct⟩


/-! ### layer operations never touch the layer's name or directory -/

theorem insertGlyph_name (L : Layer) (g : Str) : (insertGlyph lower assignG L g).1.name = L.name := by
  unfold insertGlyph; split
  · rfl
  · split <;> rfl

theorem insertGlyph_path (L : Layer) (g : Str) : (insertGlyph lower assignG L g).1.path = L.path := by
  unfold insertGlyph; split
  · rfl
  · split <;> rfl

theorem renameGlyph_name (L : Layer) (o n : Str) (ow : Bool) :
    (renameGlyph lower assignG valid L o n ow).1.name = L.name := by
  unfold renameGlyph
  split; · rfl
  split; · rfl
  split; · rfl
  rw [insertGlyph_name]; rfl

theorem renameGlyph_path (L : Layer) (o n : Str) (ow : Bool) :
    (renameGlyph lower assignG valid L o n ow).1.path = L.path := by
  unfold renameGlyph
  split; · rfl
  split; · rfl
  split; · rfl
  rw [insertGlyph_path]; rfl

theorem insertGlyph_not_err (L : Layer) (g : Str) (e : NErr) : (insertGlyph lower assignG L g).2 ≠ .err e := by
  unfold insertGlyph; split
  · simp
  · split <;> simp

theorem renameGlyph_err (L : Layer) (o n : Str) (ow : Bool) (e : NErr)
    (h : (renameGlyph lower assignG valid L o n ow).2 = .err e) :
    (renameGlyph lower assignG valid L o n ow).1 = L := by
  unfold renameGlyph at h ⊢
  split; · rfl
  split; · rfl
  split; · rfl
  rename_i h1 h2 h3
  rw [if_neg h1, if_neg h2, if_neg h3] at h
  exact absurd h (insertGlyph_not_err lower assignG _ n e)


theorem insertGlyph_panic (L : Layer) (g : Str) (site : String)
    (h : (insertGlyph lower assignG L g).2 = .panic site) : site = "99 file-name clashes (documented)" := by
  unfold insertGlyph at h
  split at h
  · simp at h
  · split at h
    · simp at h; exact h.symm
    · simp at h

theorem renameGlyph_panic (L : Layer) (o n : Str) (ow : Bool) (site : String)
    (h : (renameGlyph lower assignG valid L o n ow).2 = .panic site) :
    site = "99 file-name clashes (documented)" := by
  unfold renameGlyph at h
  split at h; · simp at h
  split at h; · simp at h
  split at h; · simp at h
  exact insertGlyph_panic lower assignG _ n site h

end
end Layers
