import Norad.Model.RoundTrip
/-!
# serde field tables ↔ plist dictionaries: a table-driven codec and its round trip (C01, "rest" of the font info)

`Ty` is the shape of a serde-derived value: a leaf (string, integer, enumeration, …, named by its Rust type), a
`Vec<T>`, or a struct given by its FIELD TABLE (plist key, is the field an `Option`, type).  `enc` is what
`#[derive(Serialize)]` + the `plist` crate do with such a value (a dictionary holding one entry per field that is not
`None`, in field order; a vector becomes an array), `dec` what `#[derive(Deserialize)]` with `deny_unknown_fields`
does with a dictionary (fields are found BY KEY, whatever the order; a missing key is `None` for an `Option` field and
an error otherwise; a key that is no field is an error).  Leaves are a parameter (`LeafCodec`) with one law.

`roundtrip`: for every shape whose structs have pairwise different keys (`keysOK`, a decidable property of the table),
`enc t v = some p → dec t p = some v`.
-/
namespace FT
open RT

inductive Ty where
  | leaf (n : String)
  | vec (t : Ty)
  | struct (fs : List (String × Bool × Ty))

/-- a value; the fields of a struct are positional (aligned with the field table), `none` = `Option::None` -/
inductive Val (L : Type) where
  | leaf (x : L)
  | list (l : List (Val L))
  | struct (vs : List (Option (Val L)))

/-- leaves: `enc n x = none` when `x` is not a value of the leaf type `n` (or not representable) -/
structure LeafCodec (L : Type) where
  enc : String → L → Option PV
  dec : String → PV → Option L

variable {L : Type} (C : LeafCodec L)

def mapMO {α β : Type} (f : α → Option β) : List α → Option (List β)
  | [] => some []
  | a :: r =>
    match f a, mapMO f r with
    | some b, some bs => some (b :: bs)
    | _, _ => none

mutual
def enc : Ty → Val L → Option PV
  | .leaf n, .leaf x => C.enc n x
  | .vec t, .list l => (mapMO (enc t) l).map PV.arr
  | .struct fs, .struct vs => (encFields fs vs).map PV.dict
  | _, _ => none
/-- one dictionary entry per field that is not `None`, in field order -/
def encFields : List (String × Bool × Ty) → List (Option (Val L)) → Option Dict
  | [], [] => some []
  | (_, opt, _) :: fs, none :: vs => if opt then encFields fs vs else none
  | (k, _, t) :: fs, some v :: vs =>
    match enc t v, encFields fs vs with
    | some p, some d => some ((k, p) :: d)
    | _, _ => none
  | _, _ => none
end

mutual
def dec : Ty → PV → Option (Val L)
  | .leaf n, p => (C.dec n p).map Val.leaf
  | .vec t, .arr l => (mapMO (dec t) l).map Val.list
  | .struct fs, .dict d =>
    -- deny_unknown_fields
    if d.all (fun e => fs.any (fun f => f.1 == e.1)) then (decFields fs d).map Val.struct else none
  | _, _ => none
/-- every field is looked up by its key -/
def decFields : List (String × Bool × Ty) → Dict → Option (List (Option (Val L)))
  | [], _ => some []
  | (k, opt, t) :: fs, d =>
    match lookupKV k d with
    | some p =>
      match dec t p, decFields fs d with
      | some v, some vs => some (some v :: vs)
      | _, _ => none
    | none => if opt then (decFields fs d).map (none :: ·) else none
end

-- the keys of every struct are pairwise different, at every depth
mutual
def keysOK : Ty → Bool
  | .leaf _ => true
  | .vec t => keysOK t
  | .struct fs => nodupS (fs.map (·.1)) && keysOKL fs
def keysOKL : List (String × Bool × Ty) → Bool
  | [] => true
  | (_, _, t) :: fs => keysOK t && keysOKL fs
end

/-- the law assumed of the leaves (strings, integers, enumerations, …: the `plist` crate and serde's primitive impls) -/
def LeafLaw : Prop := ∀ n x p, C.enc n x = some p → C.dec n p = some x

theorem mapMO_rt {α β : Type} (f : α → Option β) (g : β → Option α) :
    ∀ (l : List α) (ps : List β), (∀ a ∈ l, ∀ b, f a = some b → g b = some a) → mapMO f l = some ps → mapMO g ps = some l
  | [], ps, _, h => by simp only [mapMO, Option.some.injEq] at h; subst h; rfl
  | a :: r, ps, hl, h => by
    simp only [mapMO] at h
    cases ha : f a with
    | none => simp [ha] at h
    | some b =>
      cases hr : mapMO f r with
      | none => simp [ha, hr] at h
      | some bs =>
        simp only [ha, hr, Option.some.injEq] at h
        subst h
        have h1 := hl a (List.mem_cons_self ..) b ha
        have h2 := mapMO_rt f g r bs (fun x hx => hl x (List.mem_cons_of_mem _ hx)) hr
        simp [mapMO, h1, h2]

/-- the entries `encFields` produces carry keys of the table, in table order -/
theorem encFields_keys : ∀ (fs : List (String × Bool × Ty)) (vs : List (Option (Val L))) (d : Dict),
    encFields C fs vs = some d → ∀ e ∈ d, e.1 ∈ fs.map (·.1)
  | [], [], d, h => by simp only [encFields, Option.some.injEq] at h; subst h; intro e he; cases he
  | [], _ :: _, d, h => by simp [encFields] at h
  | _ :: _, [], d, h => by simp [encFields] at h
  | (k, opt, t) :: fs, none :: vs, d, h => by
    simp only [encFields] at h
    split at h
    · intro e he
      exact List.mem_cons_of_mem _ (encFields_keys fs vs d h e he)
    · cases h
  | (k, opt, t) :: fs, some v :: vs, d, h => by
    simp only [encFields] at h
    cases hp : enc C t v with
    | none => simp [hp] at h
    | some p =>
      cases hd : encFields C fs vs with
      | none => simp [hp, hd] at h
      | some d' =>
        simp only [hp, hd, Option.some.injEq] at h
        subst h
        intro e he
        rcases List.mem_cons.1 he with rfl | he'
        · exact List.mem_cons_self ..
        · exact List.mem_cons_of_mem _ (encFields_keys fs vs d' hd e he')

theorem lookupKV_none_of_not_mem (k : String) : ∀ (d : Dict), (∀ e ∈ d, e.1 ≠ k) → lookupKV k d = none
  | [], _ => rfl
  | (k', v) :: r, h => by
    have h1 : k' ≠ k := h (k', v) (List.mem_cons_self ..)
    simp only [lookupKV, h1, if_false]
    exact lookupKV_none_of_not_mem k r (fun e he => h e (List.mem_cons_of_mem _ he))

theorem nodupS_cons' (a : String) (r : List String) : nodupS (a :: r) = true ↔ a ∉ r ∧ nodupS r = true := by
  simp [nodupS]

mutual
/-- **the round trip**, by recursion on the shape -/
theorem roundtrip (hL : LeafLaw C) : ∀ (t : Ty) (v : Val L) (p : PV), keysOK t = true → enc C t v = some p → dec C t p = some v
  | .leaf n, .leaf x, p, _, h => by
    simp only [enc] at h
    simp [dec, hL n x p h]
  | .leaf _, .list _, _, _, h => by simp [enc] at h
  | .leaf _, .struct _, _, _, h => by simp [enc] at h
  | .vec t, .list l, p, hk, h => by
    simp only [enc, Option.map_eq_some_iff] at h
    obtain ⟨ps, hps, rfl⟩ := h
    simp only [keysOK] at hk
    have := mapMO_rt (enc C t) (dec C t) l ps (fun a _ b hb => roundtrip hL t a b hk hb) hps
    simp [dec, this]
  | .vec _, .leaf _, _, _, h => by simp [enc] at h
  | .vec _, .struct _, _, _, h => by simp [enc] at h
  | .struct fs, .struct vs, p, hk, h => by
    simp only [enc, Option.map_eq_some_iff] at h
    obtain ⟨d, hd, rfl⟩ := h
    simp only [keysOK, Bool.and_eq_true] at hk
    have hkeys := encFields_keys C fs vs d hd
    have hall : d.all (fun e => fs.any (fun f => f.1 == e.1)) = true := by
      simp only [List.all_eq_true, List.any_eq_true, beq_iff_eq]
      intro e he
      obtain ⟨f, hf, hfe⟩ := List.mem_map.1 (hkeys e he)
      exact ⟨f, hf, hfe⟩
    have := fields_rt hL fs vs d hk.1 hk.2 hd d (fun e he => he) (fun e he _ => he)
    simp [dec, hall, this]
  | .struct _, .leaf _, _, _, h => by simp [enc] at h
  | .struct _, .list _, _, _, h => by simp [enc] at h
/-- reading the fields `fs` from a dictionary `D` that holds the entries written for them (and, for the keys of `fs`,
    nothing else) gives the values back -/
theorem fields_rt (hL : LeafLaw C) : ∀ (fs : List (String × Bool × Ty)) (vs : List (Option (Val L))) (d : Dict),
    nodupS (fs.map (·.1)) = true → keysOKL fs = true → encFields C fs vs = some d →
    ∀ D : Dict, (∀ e ∈ d, e ∈ D) → (∀ e ∈ D, e.1 ∈ fs.map (·.1) → e ∈ d) → decFields C fs D = some vs
  | [], [], d, _, _, h, D, _, _ => by simp [decFields]
  | [], _ :: _, d, _, _, h, _, _, _ => by simp [encFields] at h
  | _ :: _, [], d, _, _, h, _, _, _ => by simp [encFields] at h
  | (k, opt, t) :: fs, none :: vs, d, hn, hk, h, D, hsub, honly => by
    simp only [encFields] at h
    simp only [List.map_cons, nodupS_cons'] at hn
    simp only [keysOKL, Bool.and_eq_true] at hk
    split at h
    · rename_i hopt
      -- the key of an omitted field is not in the dictionary
      have hno : lookupKV k D = none := by
        apply lookupKV_none_of_not_mem
        intro e he hek
        have : e ∈ d := honly e he (by simp [hek])
        have := encFields_keys C fs vs d h e this
        rw [hek] at this
        exact hn.1 this
      have hr := fields_rt hL fs vs d hn.2 hk.2 h D hsub
        (fun e he hm => honly e he (List.mem_cons_of_mem _ hm))
      simp [decFields, hno, hopt, hr]
    · cases h
  | (k, opt, t) :: fs, some v :: vs, d, hn, hk, h, D, hsub, honly => by
    simp only [encFields] at h
    simp only [List.map_cons, nodupS_cons'] at hn
    simp only [keysOKL, Bool.and_eq_true] at hk
    cases hp : enc C t v with
    | none => simp [hp] at h
    | some p =>
      cases hd : encFields C fs vs with
      | none => simp [hp, hd] at h
      | some d' =>
        simp only [hp, hd, Option.some.injEq] at h
        subst h
        -- the entry of this field is the only one with its key
        have hlk : lookupKV k D = some p := by
          have hin : (k, p) ∈ D := hsub (k, p) (List.mem_cons_self ..)
          have huniq : ∀ e ∈ D, e.1 = k → e = (k, p) := by
            intro e he hek
            have := honly e he (by simp [hek])
            rcases List.mem_cons.1 this with rfl | he'
            · rfl
            · have := encFields_keys C fs vs d' hd e he'
              rw [hek] at this
              exact absurd this hn.1
          clear hsub honly
          induction D with
          | nil => cases hin
          | cons x xs ih =>
            obtain ⟨xk, xv⟩ := x
            simp only [lookupKV]
            by_cases hx : xk = k
            · have := huniq (xk, xv) (List.mem_cons_self ..) hx
              simp only [Prod.mk.injEq] at this
              simp [hx, this.2]
            · simp only [hx, if_false]
              rcases List.mem_cons.1 hin with hh | hh
              · simp only [Prod.mk.injEq] at hh; exact absurd hh.1.symm hx
              · exact ih hh (fun e he => huniq e (List.mem_cons_of_mem _ he))
        have hv := roundtrip hL t v p hk.1 hp
        have hr := fields_rt hL fs vs d' hn.2 hk.2 hd D
          (fun e he => hsub e (List.mem_cons_of_mem _ he))
          (fun e he hm => by
            have := honly e he (List.mem_cons_of_mem _ hm)
            rcases List.mem_cons.1 this with rfl | he'
            · exact absurd hm hn.1
            · exact he')
        simp [decFields, hlk, hv, hr]
end

/-! ## shapes from the regenerated tables (type strings as `tools/extract_vocab.py` writes them) -/

def stripWrap (pre : List Char) (s : List Char) : Option (List Char) :=
  if pre.isPrefixOf s && s.getLast? == some '>' then some ((s.drop pre.length).dropLast) else none

/-- the shape of a type string; `recs` = the record tables; records are resolved with `fuel` -/
def tyOf (recs : List (String × List (String × String × String))) : Nat → List Char → Ty
  | 0, s => .leaf (String.ofList s)
  | fuel + 1, s =>
    match stripWrap "Vec<".toList s with
    | some inner => .vec (tyOf recs fuel inner)
    | none =>
      match recs.find? (fun r => r.1.toList == s) with
      | some r => .struct (r.2.map fun f =>
          match stripWrap "Option<".toList f.2.2.toList with
          | some inner => (f.2.1, true, tyOf recs fuel inner)
          | none => (f.2.1, false, tyOf recs fuel f.2.2.toList))
      | none => .leaf (String.ofList s)

/-- the shape of a top-level field table -/
def structOf (recs : List (String × List (String × String × String))) (fields : List (String × String × String)) : Ty :=
  .struct (fields.map fun f =>
    match stripWrap "Option<".toList f.2.2.toList with
    | some inner => (f.2.1, true, tyOf recs 6 inner)
    | none => (f.2.1, false, tyOf recs 6 f.2.2.toList))

-- the leaf type names of a shape
mutual
def leaves : Ty → List String
  | .leaf n => [n]
  | .vec t => leaves t
  | .struct fs => leavesL fs
def leavesL : List (String × Bool × Ty) → List String
  | [] => []
  | (_, _, t) :: fs => leaves t ++ leavesL fs
end

end FT
