import Norad.Lemmas.JudgeBody
/-!
# From `judge`'s own clauses to the model's refusals

`Lemmas/JudgeElem.lean` … `JudgeBody.lean` describe what the parser refuses in the model's terms (`ElemBad`, `CBad`, `OBad`,
`BodyBad`).  This file connects the specification's side: a rule `Spec.valueCheck` / `Spec.elemCheck` reports, other than
the ones that correspond to a recorded finding, puts the element into `ElemBad`.  Core Lean only.
-/
namespace Glif
open Spec

/-! ### characters and code points -/

theorem char_le_iff (a b : Char) : a ≤ b ↔ a.toNat ≤ b.toNat := by
  rw [Char.le_def]
  exact UInt32.le_iff_toNat_le

theorem digitVal_nonhex {c : Char} (h : isHexDigit c = false) : digitVal 16 c = none := by
  simp only [isHexDigit, isDigit, Bool.or_eq_false_iff, Bool.and_eq_false_iff, decide_eq_false_iff_not, char_le_iff] at h
  obtain ⟨⟨h1, h2⟩, h3⟩ := h
  simp only [digitVal, char_le_iff]
  have e0 : ('0' : Char).toNat = 48 := rfl
  have e9 : ('9' : Char).toNat = 57 := rfl
  have ea : ('a' : Char).toNat = 97 := rfl
  have ef : ('f' : Char).toNat = 102 := rfl
  have ez : ('z' : Char).toNat = 122 := rfl
  have eA : ('A' : Char).toNat = 65 := rfl
  have eF : ('F' : Char).toNat = 70 := rfl
  have eZ : ('Z' : Char).toNat = 90 := rfl
  simp only [e0, e9, ea, ef, ez, eA, eF, eZ] at h1 h2 h3 ⊢
  by_cases c1 : 48 ≤ c.toNat ∧ c.toNat ≤ 57
  · omega
  · simp only [c1, if_false]
    by_cases c2 : 97 ≤ c.toNat ∧ c.toNat ≤ 122
    · simp only [c2, if_true]
      have : ¬ (c.toNat - 97 + 10 < 16) := by omega
      simp [this]
    · simp only [c2, if_false]
      by_cases c3 : 65 ≤ c.toNat ∧ c.toNat ≤ 90
      · simp only [c3, if_true]
        have : ¬ (c.toNat - 65 + 10 < 16) := by omega
        simp [this]
      · simp only [c3, if_false]

theorem digitsVal_nonhex : ∀ {s : Str}, (∃ c, c ∈ s ∧ isHexDigit c = false) → ∀ acc, digitsVal 16 s acc = none := by
  intro s
  induction s with
  | nil => rintro ⟨c, hc, _⟩; cases hc
  | cons d r ih =>
    rintro ⟨c, hc, hx⟩ acc
    simp only [digitsVal]
    cases hd : digitVal 16 d with
    | none => rfl
    | some n =>
      simp only
      rcases List.mem_cons.1 hc with rfl | hc
      · rw [digitVal_nonhex hx] at hd; cases hd
      · exact ih ⟨c, hc, hx⟩ _

theorem not_all_hex {s : Str} (h : s.all isHexDigit = false) : ∃ c, c ∈ s ∧ isHexDigit c = false := by
  induction s with
  | nil => simp at h
  | cons c r ih =>
    simp only [List.all_cons, Bool.and_eq_false_iff] at h
    rcases h with h | h
    · exact ⟨c, List.mem_cons_self, h⟩
    · obtain ⟨d, hd, hx⟩ := ih h
      exact ⟨d, List.mem_cons_of_mem _ hd, hx⟩

/-- `parseU32 16` of a string that does not start with `+` reads the digits of the string itself -/
theorem parseU32_plain {c : Char} {r : Str} (hc : c ≠ '+') :
    parseU32 16 (c :: r) = (match digitsVal 16 (c :: r) 0 with
      | some n => if n ≤ 4294967295 then some n else none
      | none => none) := by
  unfold parseU32
  split
  · rename_i r' heq; cases heq; exact absurd rfl hc
  · first | rfl | (simp; try rfl)

theorem parseHex_plain_none {c : Char} {r : Str} (hc : c ≠ '+') (hd : digitsVal 16 (c :: r) 0 = none) :
    parseHex (c :: r) = none := by
  simp [parseHex, parseU32_plain hc, hd]

/-- an all-hex nonempty string that `hexCls` does not call legal does not parse -/
theorem hexCls_allhex {s : Str} (hne : s ≠ []) (hall : s.all isHexDigit = true) (h : hexCls s ≠ .legal) : parseHex s = none := by
  unfold hexCls at h
  have : (!s.isEmpty && s.all isHexDigit) = true := by
    cases s with
    | nil => exact absurd rfl hne
    | cons _ _ => simp [hall]
  rw [if_pos this] at h
  cases hp : parseHex s with
  | none => rfl
  | some n => simp [hp] at h

theorem hex_rule_refuses {rd : Str → Option Nat} {v : Str} (h : "hex" ∈ (valueCheck rd .hex v).1) : parseHex v = none := by
  have hplus : isHexDigit '+' = false := by decide
  unfold valueCheck at h
  simp only at h
  cases v with
  | nil => simp [parseHex, parseU32]
  | cons c r =>
    by_cases hc : c = '+'
    · subst hc
      -- `+…`: the finding `hex-plus` if the rest is a legal code point, otherwise nothing parses
      have hcls : hexCls ('+' :: r) ≠ .legal := by
        unfold hexCls; simp [hplus]
      cases hcl : hexCls ('+' :: r) with
      | legal => exact absurd hcl hcls
      | odd =>
        simp only [hcl] at h
        by_cases hr : hexCls r = .legal
        · simp [hr] at h
        · cases r with
          | nil => simp +decide [parseHex, parseU32, digitsVal]
          | cons d r' =>
            have hu : parseU32 16 ('+' :: d :: r') = (match digitsVal 16 (d :: r') 0 with
                | some n => if n ≤ 4294967295 then some n else none
                | none => none) := by
              unfold parseU32; first | rfl | (simp; try rfl)
            by_cases hall : (d :: r').all isHexDigit = true
            · have hd : d ≠ '+' := by
                intro e; subst e; simp [hplus] at hall
              have := hexCls_allhex (by simp) hall hr
              simp only [parseHex, parseU32_plain hd] at this
              simp only [parseHex, hu]
              exact this
            · have hall' : (d :: r').all isHexDigit = false := by simpa using hall
              simp [parseHex, hu, digitsVal_nonhex (not_all_hex hall') 0]
      | bad =>
        simp only [hcl] at h
        by_cases hr : hexCls r = .legal
        · simp [hr] at h
        · cases r with
          | nil => simp +decide [parseHex, parseU32, digitsVal]
          | cons d r' =>
            have hu : parseU32 16 ('+' :: d :: r') = (match digitsVal 16 (d :: r') 0 with
                | some n => if n ≤ 4294967295 then some n else none
                | none => none) := by
              unfold parseU32; first | rfl | (simp; try rfl)
            by_cases hall : (d :: r').all isHexDigit = true
            · have hd : d ≠ '+' := by
                intro e; subst e; simp [hplus] at hall
              have := hexCls_allhex (by simp) hall hr
              simp only [parseHex, parseU32_plain hd] at this
              simp only [parseHex, hu]
              exact this
            · have hall' : (d :: r').all isHexDigit = false := by simpa using hall
              simp [parseHex, hu, digitsVal_nonhex (not_all_hex hall') 0]
    · have hcls : hexCls (c :: r) ≠ .legal := by
        intro hl; simp [hl] at h
      by_cases hall : (c :: r).all isHexDigit = true
      · exact hexCls_allhex (by simp) hall hcls
      · have hall' : (c :: r).all isHexDigit = false := by simpa using hall
        exact parseHex_plain_none hc (digitsVal_nonhex (not_all_hex hall') 0)

/-! ### image file names -/

theorem imageCls_bad {v : Str} (h : imageCls v = .bad) : imageNameOk v = false := by
  unfold imageCls at h
  unfold imageNameOk
  by_cases he : v.isEmpty = true
  · simp [he]
  · simp only [he, Bool.false_eq_true, if_false] at h
    by_cases hc : (!v.contains '/') = true
    · rw [if_pos hc] at h
      split at h <;> cases h
    · rw [if_neg hc] at h
      by_cases hh : v.head? = some '/'
      · simp [hh]
      · rw [if_neg hh] at h
        by_cases hn : ((splitOn '/' v).filter (fun p => !p.isEmpty && p ≠ ['.'])).length ≥ 2
        · have : ¬ ((relComponents v).length ≤ 1) := by
            unfold relComponents
            cases hs : splitOn '/' v with
            | nil => simp [hs] at hn
            | cons hd tl =>
              simp only [hs, List.filter_cons] at hn
              simp only [List.length_append]
              by_cases hp : (!hd.isEmpty && decide (hd ≠ ['.'])) = true
              · have hne : hd.isEmpty = false := by
                  simp only [Bool.and_eq_true, Bool.not_eq_true'] at hp; exact hp.1
                simp only [hp, if_true, List.length_cons] at hn
                simp only [hne, Bool.false_eq_true, if_false, List.length_cons, List.length_nil]
                omega
              · have hp' : (!hd.isEmpty && decide (hd ≠ ['.'])) = false := by simpa using hp
                simp only [hp', Bool.false_eq_true, if_false] at hn
                split <;> simp only [List.length_nil, List.length_cons] <;> omega
          simp [this]
        · rw [if_neg hn] at h; cases h

section
variable {rd : Str → Option Nat}

/-! ### numbers, names, identifiers, colours -/

theorem numCls_bad {v : Str} (h : numCls rd v = .bad) : rd v = none := by
  unfold numCls at h
  split at h
  · cases h
  · split at h
    · cases h
    · assumption

theorem nameOk_eq_validName (v : Str) : nameOk v = validName v := by
  unfold nameOk validName
  have hf : ∀ c : Char, decide (c.toNat < 32) = decide (c.toNat ≤ 31) := fun c => decide_eq_decide.2 (by omega)
  simp only [hf]

theorem identOk_false {v : Str} (h : identOk v = false) (hne : v ≠ []) : validIdent v = false := by
  unfold identOk at h
  unfold validIdent
  cases v with
  | nil => exact absurd rfl hne
  | cons c r => simpa using h

theorem readIdent_invalid' {ver : Nat} {seen : List Str} {v : Str} (h : validIdent v = false) : readIdent ver seen v = none := by
  unfold readIdent; split <;> simp [h]

/-- Rust's float parser accepts no blanks around the number -/
def ReadsTrimmed (rd : Str → Option Nat) : Prop := ∀ t b, rd t = some b → trimBlanks t = t

theorem colCls_bad (lawT : ReadsTrimmed rd) {v : Str} (h : colCls rd v = .bad) : readCol rd v = none := by
  cases hrc : readCol rd v with
  | none => rfl
  | some c =>
    exfalso
    unfold readCol at hrc
    unfold colCls at h
    simp only at h
    cases hps : splitOn ',' v with
    | nil => simp [hps] at hrc
    | cons t1 l1 =>
      cases l1 with
      | nil => simp [hps] at hrc
      | cons t2 l2 =>
        cases l2 with
        | nil => simp [hps] at hrc
        | cons t3 l3 =>
          cases l3 with
          | nil => simp [hps] at hrc
          | cons t4 l4 =>
            cases l4 with
            | cons t5 l5 => simp [hps] at hrc
            | nil =>
              simp only [hps, List.map_cons, List.map_nil] at hrc h
              cases h1 : rd t1 with
              | none => simp [h1] at hrc
              | some b1 =>
              cases h2 : rd t2 with
              | none => simp [h1, h2] at hrc
              | some b2 =>
              cases h3 : rd t3 with
              | none => simp [h1, h2, h3] at hrc
              | some b3 =>
              cases h4 : rd t4 with
              | none => simp [h1, h2, h3, h4] at hrc
              | some b4 =>
                simp only [h1, h2, h3, h4] at hrc
                by_cases hu : (unitOk b1 && unitOk b2 && unitOk b3 && unitOk b4) = true
                · simp only [Bool.and_eq_true] at hu
                  obtain ⟨⟨⟨u1, u2⟩, u3⟩, u4⟩ := hu
                  rw [lawT t1 b1 h1, lawT t2 b2 h2, lawT t3 b3 h3, lawT t4 b4 h4] at h
                  simp [h1, h2, h3, h4, u1, u2, u3, u4] at h
                  split at h <;> cases h
                · simp [hu] at hrc

/-- the value rules that correspond to a recorded finding: norad accepts such a value (`empty-identifier-accepted`,
    `hex-plus-sign-accepted`) -/
def findingValueRules : List String := ["ident-empty", "hex-plus"]

theorem hex_rules (v : Str) : (valueCheck rd .hex v).1 = [] ∨ (valueCheck rd .hex v).1 = ["hex-plus"] ∨
    (valueCheck rd .hex v).1 = ["hex"] := by
  unfold valueCheck
  simp only
  repeat' split
  all_goals simp

/-- **a value `judge` flags, with a rule that is not one of the two value findings, is refused by the model**: by the reader of
    the attribute loop for every kind but the image file name, which the model checks when the element is finished -/
theorem valueCheck_refuses (lawT : ReadsTrimmed rd) {ver : Nat} {seen : List Str} {k : AK} {v : Str} {r : String}
    (hr : r ∈ (valueCheck rd k v).1) (hnf : r ∉ findingValueRules) :
    (k ≠ .file → Refuses rd ver seen k v) ∧ (k = .file → imageNameOk v = false) := by
  cases k with
  | num =>
    refine ⟨fun _ => ?_, fun h => by cases h⟩
    simp only [valueCheck] at hr
    cases hc : numCls rd v <;> simp [hc] at hr
    exact numCls_bad hc
  | angle =>
    refine ⟨fun _ => ?_, fun h => by cases h⟩
    simp only [valueCheck] at hr
    intro b hb
    cases hc : numCls rd v with
    | bad => rw [numCls_bad hc] at hb; cases hb
    | legal =>
      simp only [hc, hb] at hr
      by_cases ha : angleOk b = true
      · simp [ha] at hr
      · simpa using ha
    | odd =>
      simp only [hc, hb] at hr
      by_cases ha : angleOk b = true
      · simp [ha] at hr
      · simpa using ha
  | name =>
    refine ⟨fun _ => ?_, fun h => by cases h⟩
    simp only [valueCheck] at hr
    by_cases hn : nameOk v = true
    · simp [hn] at hr
    · show validName v = false
      rw [← nameOk_eq_validName]; simpa using hn
  | color =>
    refine ⟨fun _ => ?_, fun h => by cases h⟩
    simp only [valueCheck] at hr
    cases hc : colCls rd v <;> simp [hc] at hr
    exact colCls_bad lawT hc
  | ident =>
    refine ⟨fun _ => ?_, fun h => by cases h⟩
    simp only [valueCheck] at hr
    by_cases hi : identOk v = true
    · simp [hi] at hr
    · have hi' : identOk v = false := by simpa using hi
      by_cases he : v.isEmpty = true
      · simp [hi', he] at hr
        subst hr; exact absurd (by decide) hnf
      · have hne : v ≠ [] := by intro e; subst e; simp at he
        exact readIdent_invalid' (identOk_false hi' hne)
  | hex =>
    refine ⟨fun _ => ?_, fun h => by cases h⟩
    show parseHex v = none
    rcases hex_rules (rd := rd) v with h | h | h
    · rw [h] at hr; cases hr
    · rw [h] at hr
      have : r = "hex-plus" := by simpa using hr
      subst this; exact absurd (by decide) hnf
    · exact hex_rule_refuses (rd := rd) (by rw [h]; simp)
  | ptype =>
    refine ⟨fun _ => ?_, fun h => by cases h⟩
    simp only [valueCheck] at hr
    show readPointType v = none
    cases hp : readPointType v with
    | none => rfl
    | some t => simp [hp] at hr
  | smooth =>
    simp only [valueCheck] at hr
    split at hr <;> cases hr
  | file =>
    refine ⟨fun h => absurd rfl h, fun _ => ?_⟩
    simp only [valueCheck] at hr
    cases hc : imageCls v <;> simp [hc] at hr
    exact imageCls_bad hc

/-! ### a whole element -/

theorem file_kind_image {n : Str} {tbl : List (String × AK)} {nm : String} (ht : attrTable n = some tbl)
    (hm : (nm, AK.file) ∈ tbl) : n = sImage ∧ nm = "fileName" := by
  unfold attrTable at ht
  simp only at ht
  repeat' split at ht
  all_goals first | (cases ht; done) | skip
  all_goals (cases ht; simp at hm)
  all_goals first | exact ⟨by assumption, hm⟩ | skip

theorem readIdent_v1' (seen : List Str) (v : Str) : readIdent 1 seen v = none := by simp [readIdent]

theorem mem_merge {rs : List (List String × Bool)} {r : String} (h : r ∈ (merge rs).1) : ∃ x, x ∈ rs ∧ r ∈ x.1 := by
  simp only [merge, List.mem_flatMap] at h
  exact h

/-- **every rule `elemCheck` reports for a content-free element — other than the two value findings and `v1-element`, which is
    about the position of the element — is a hard error of the element in the model's terms** -/
theorem elemCheck_elemBad (lawT : ReadsTrimmed rd) {ver : Nat} {seen : List Str} {e : Elem} {as : List Attr}
    {tbl : List (String × AK)} (ht : attrTable e.name = some tbl) (ha : e.attrs = some as) (hnd : (as.map (·.1)).Nodup)
    {r : String} (hr : r ∈ (elemCheck rd ver e).1) (hnf : r ∉ findingValueRules) (hv1 : r ≠ "v1-element") :
    ElemBad rd ver seen e.name as := by
  unfold elemCheck at hr
  simp only [ht, ha] at hr
  obtain ⟨x, hx, hrx⟩ := mem_merge hr
  rcases List.mem_append.1 hx with hx | hx
  · -- one attribute
    obtain ⟨a, haa, rfl⟩ := List.mem_map.1 hx
    cases hf : tbl.find? (fun t => t.1.toList = a.1) with
    | none =>
      refine .attr a haa ?_
      unfold AttrBad
      simp only [ht, hf]
    | some p =>
      obtain ⟨nm, k⟩ := p
      simp only [hf] at hrx
      by_cases hv : (k == AK.ident && ver == 1) = true
      · refine .attr a haa ?_
        unfold AttrBad
        simp only [ht, hf]
        simp only [Bool.and_eq_true, beq_iff_eq] at hv
        obtain ⟨rfl, rfl⟩ := hv
        exact readIdent_v1' seen a.2
      · simp only [hv, Bool.false_eq_true, if_false] at hrx
        obtain ⟨h1, h2⟩ := valueCheck_refuses lawT (ver := ver) (seen := seen) hrx hnf
        by_cases hk : k = AK.file
        · subst hk
          obtain ⟨hmem, hnm⟩ := find_table hf
          obtain ⟨hname, rfl⟩ := file_kind_image ht hmem
          obtain ⟨a1, a2⟩ := a
          simp only at hnm; subst hnm
          exact .file a2 hname hnd (get_of_mem_nodup hnd haa) (h2 rfl)
        · refine .attr a haa ?_
          unfold AttrBad
          simp only [ht, hf]
          exact h1 hk
  · -- the element as a whole
    simp only [List.mem_cons, List.not_mem_nil, or_false] at hx
    rcases hx with rfl | rfl | rfl
    · -- a required attribute is missing
      simp only [List.mem_map, List.mem_filter] at hrx
      obtain ⟨q, ⟨hq, hhas⟩, _⟩ := hrx
      exact .missing q hq (by simpa using hhas)
    · -- the guideline shape
      simp only at hrx
      by_cases hg : e.name = sGuideline
      · refine .shape hg ?_
        rw [if_pos hg] at hrx
        unfold guidelineShapeOk
        cases hx : has as "x" <;> cases hy : has as "y" <;> cases hz : has as "angle" <;>
          simp only [hx, hy, hz] at hrx ⊢ <;> first | rfl | (cases hrx)
      · rw [if_neg hg] at hrx; cases hrx
    · -- `v1-element`
      simp only at hrx
      split at hrx
      · have : r = "v1-element" := by simpa using hrx
        exact absurd this hv1
      · cases hrx
end
end Glif
