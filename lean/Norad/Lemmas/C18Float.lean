import Norad.Lemmas.C18Codec
import Norad.Model.DSFloat
/-!
# C18 — floats on the simple fragment: `readFloat (showFloat bits) = some bits`, all characters safe
-/
namespace C18

def isDig (ch : Char) : Prop := 48 ≤ ch.toNat ∧ ch.toNat ≤ 57

theorem digitChar_isDig (d : Nat) : isDig (digitChar d) := by
  have h : ∀ k, k < 10 → isDig (Char.ofNat (48 + k)) := by unfold isDig; decide
  exact h (d % 10) (Nat.mod_lt _ (by decide))

theorem isDig_props {ch : Char} (h : isDig ch) : safeChar ch = true ∧ ch ≠ '.' ∧ ch ≠ '-' ∧ ch ≠ '~' := by
  unfold isDig at h
  refine ⟨by simp only [safeChar, Bool.and_eq_true, decide_eq_true_eq]; omega, ?_, ?_, ?_⟩ <;>
    (intro e; subst e; revert h; decide)

def digStep (acc : Option Nat) (ch : Char) : Option Nat :=
  match acc, digitVal? ch with
  | some n, some d => some (n * 10 + d)
  | _, _ => none

theorem parseDigits_eq_foldl (cs : List Char) : parseDigits cs = cs.foldl digStep (some 0) := by
  cases cs <;> rfl

theorem parseDigits_snoc (l : List Char) (d : Nat) :
    parseDigits (l ++ [digitChar d]) = (parseDigits l).map fun n => n * 10 + d % 10 := by
  rw [parseDigits_eq_foldl, parseDigits_eq_foldl, List.foldl_append]
  simp only [List.foldl, digStep, digitVal_digitChar]
  cases List.foldl digStep (some 0) l <;> rfl

theorem natDigits_spec : ∀ (fuel n : Nat), n < fuel →
    parseDigits (natDigits fuel n) = some n ∧ natDigits fuel n ≠ [] ∧ ∀ ch ∈ natDigits fuel n, isDig ch
  | 0, n, h => by omega
  | fuel + 1, n, h => by
    unfold natDigits
    by_cases h10 : n < 10
    · simp only [h10, if_true]
      refine ⟨?_, by simp, ?_⟩
      · have := parseDigits_snoc [] n
        simp only [List.nil_append] at this
        rw [this]; simp [parseDigits]; omega
      · intro ch hch; simp only [List.mem_singleton] at hch; subst hch; exact digitChar_isDig n
    · simp only [h10, if_false]
      obtain ⟨i1, i2, i3⟩ := natDigits_spec fuel (n / 10) (by omega)
      refine ⟨?_, by simp, ?_⟩
      · rw [parseDigits_snoc, i1]; simp; omega
      · intro ch hch
        simp only [List.mem_append, List.mem_singleton] at hch
        rcases hch with h | h
        · exact i3 ch h
        · subst h; exact digitChar_isDig n

theorem showNat_spec (n : Nat) :
    parseDigits (showNat n) = some n ∧ showNat n ≠ [] ∧ ∀ ch ∈ showNat n, isDig ch :=
  natDigits_spec (n + 1) n (by omega)

theorem showFixed_spec : ∀ (w n : Nat),
    parseDigits (showFixed w n) = some (n % 10 ^ w) ∧ (showFixed w n).length = w ∧
    ∀ ch ∈ showFixed w n, isDig ch
  | 0, n => by simp [showFixed, parseDigits, Nat.mod_one]
  | w + 1, n => by
    obtain ⟨i1, i2, i3⟩ := showFixed_spec w (n / 10)
    unfold showFixed
    refine ⟨?_, by simp [i2], ?_⟩
    · rw [parseDigits_snoc, i1]
      simp only [Option.map_some, Option.some.injEq]
      have : n % 10 ^ (w + 1) = n % 10 + 10 * (n / 10 % 10 ^ w) := by
        rw [Nat.pow_succ, Nat.mul_comm (10 ^ w) 10, Nat.mod_mul]
      omega
    · intro ch hch
      simp only [List.mem_append, List.mem_singleton] at hch
      rcases hch with h | h
      · exact i3 ch h
      · subst h; exact digitChar_isDig n

theorem takeWhile_noDot (l : List Char) (h : ∀ ch ∈ l, ch ≠ '.') (rest : List Char)
    (hr : rest = [] ∨ ∃ r, rest = '.' :: r) :
    (l ++ rest).takeWhile (· != '.') = l ∧ (l ++ rest).dropWhile (· != '.') = rest := by
  induction l with
  | nil =>
    rcases hr with e | ⟨r, e⟩ <;> subst e <;> simp
  | cons ch r ih =>
    have h1 : (ch != '.') = true := by simpa using h ch (by simp)
    have := ih (fun x hx => h x (by simp [hx]))
    simp [List.takeWhile, List.dropWhile, h1, this.1, this.2]

/-- the decimal `showDyadic` writes is parsed as `±(N·5^j) / 10^j` -/
theorem parseDec_showDyadic (neg : Bool) (N j : Nat) :
    parseDec (showDyadic neg N j) = some (neg, N * 5 ^ j, j) := by
  obtain ⟨n1, n2, n3⟩ := showNat_spec (N / 2 ^ j)
  have hnd : ∀ ch ∈ showNat (N / 2 ^ j), ch ≠ '.' := fun ch h => (isDig_props (n3 ch h)).2.1
  -- the sign
  have hhead : (showDyadic neg N j).head? = some '-' ↔ neg = true := by
    unfold showDyadic
    cases neg
    · simp only [Bool.false_eq_true, if_false, List.nil_append, iff_false]
      cases hs : showNat (N / 2 ^ j) with
      | nil => exact absurd hs n2
      | cons c r =>
        simp only [List.cons_append, List.head?_cons, Option.some.injEq]
        exact (isDig_props (n3 c (by rw [hs]; simp))).2.2.1
    · simp
  have hdrop : (if (showDyadic neg N j).head? = some '-' then (showDyadic neg N j).drop 1 else showDyadic neg N j)
      = showNat (N / 2 ^ j) ++ (if j = 0 then [] else '.' :: showFixed j (N % 2 ^ j * 5 ^ j)) := by
    cases neg
    · have : ¬ (showDyadic false N j).head? = some '-' := by rw [hhead]; simp
      simp only [this, if_false]; simp [showDyadic]
    · have : (showDyadic true N j).head? = some '-' := by rw [hhead]
      simp only [this, if_true]; simp [showDyadic]
  have hneg : decide ((showDyadic neg N j).head? = some '-') = neg := by
    cases neg
    · have : ¬ (showDyadic false N j).head? = some '-' := by rw [hhead]; simp
      simp [this]
    · have : (showDyadic true N j).head? = some '-' := by rw [hhead]
      simp [this]
  unfold parseDec
  simp only [hneg]
  rw [hdrop]
  have hemp : (showNat (N / 2 ^ j)).isEmpty = false := by
    cases hs : showNat (N / 2 ^ j) with
    | nil => exact absurd hs n2
    | cons _ _ => rfl
  have hp : parseNat (showNat (N / 2 ^ j)) = some (N / 2 ^ j) := by
    unfold parseNat
    rw [hemp]
    simp only [Bool.false_eq_true, if_false]
    exact n1
  by_cases hj : j = 0
  · simp only [hj, if_true, List.append_nil]
    have tw := takeWhile_noDot (showNat (N / 2 ^ j)) hnd [] (Or.inl rfl)
    simp only [List.append_nil, hj] at tw
    rw [tw.1, tw.2]
    rw [hj] at hp
    rw [hp]
    simp
  · simp only [hj, if_false]
    have tw := takeWhile_noDot (showNat (N / 2 ^ j)) hnd ('.' :: showFixed j (N % 2 ^ j * 5 ^ j))
      (Or.inr ⟨_, rfl⟩)
    rw [tw.1, tw.2]
    obtain ⟨f1, f2, _⟩ := showFixed_spec j (N % 2 ^ j * 5 ^ j)
    have hlt : N % 2 ^ j * 5 ^ j < 10 ^ j := by
      have h2 : N % 2 ^ j < 2 ^ j := Nat.mod_lt _ (Nat.pow_pos (by decide))
      have : (10 : Nat) ^ j = 2 ^ j * 5 ^ j := by rw [← Nat.mul_pow]
      rw [this]
      exact Nat.mul_lt_mul_of_lt_of_le h2 (Nat.le_refl _) (Nat.pow_pos (by decide))
    have hpf : parseNat (showFixed j (N % 2 ^ j * 5 ^ j)) = some (N % 2 ^ j * 5 ^ j) := by
      unfold parseNat
      have : (showFixed j (N % 2 ^ j * 5 ^ j)).isEmpty = false := by
        cases hs : showFixed j (N % 2 ^ j * 5 ^ j) with
        | nil => rw [hs] at f2; simp at f2; omega
        | cons _ _ => rfl
      simp [this, f1, Nat.mod_eq_of_lt hlt]
    rw [hp]
    simp only [hpf, f2]
    have : N / 2 ^ j * 10 ^ j + N % 2 ^ j * 5 ^ j = N * 5 ^ j := by
      have h10 : (10 : Nat) ^ j = 2 ^ j * 5 ^ j := by rw [← Nat.mul_pow]
      rw [h10, ← Nat.mul_assoc, ← Nat.add_mul, Nat.mul_comm (N / 2 ^ j) (2 ^ j), Nat.div_add_mod]
    rw [this]

theorem readDyadic_showDyadic (f : FloatFmt) (neg : Bool) (N j : Nat) :
    readDyadic f (showDyadic neg N j) = encodeDyadic f neg N j := by
  unfold readDyadic
  rw [parseDec_showDyadic]
  have h5 : 0 < 5 ^ j := Nat.pow_pos (by decide)
  simp [Nat.mul_mod_left, Nat.mul_div_cancel _ h5]

theorem simpleOf_encode {f : FloatFmt} {bits : Nat} {neg : Bool} {N j : Nat}
    (h : simpleOf f bits = some (neg, N, j)) : encodeDyadic f neg N j = some bits := by
  unfold simpleOf at h
  split at h
  · rename_i n' N' j' _
    split at h
    · rename_i hc
      simp only [Option.some.injEq, Prod.mk.injEq] at h
      obtain ⟨rfl, rfl, rfl⟩ := h
      exact hc.1
    · exact absurd h (by simp)
  · exact absurd h (by simp)

theorem showDyadic_head_ne_tilde (neg : Bool) (N j : Nat) : ∀ r, showDyadic neg N j ≠ '~' :: r := by
  intro r e
  obtain ⟨_, n2, n3⟩ := showNat_spec (N / 2 ^ j)
  unfold showDyadic at e
  cases neg
  · simp only [Bool.false_eq_true, if_false, List.nil_append] at e
    cases hs : showNat (N / 2 ^ j) with
    | nil => exact n2 hs
    | cons c t =>
      rw [hs] at e
      simp only [List.cons_append, List.cons.injEq] at e
      exact (isDig_props (n3 c (by rw [hs]; simp))).2.2.2 e.1
  · simp at e

/-- **the float round trip of the model**, every bit pattern: exact decimal on the simple fragment,
    stand-in elsewhere -/
theorem readFloat_showFloat (f : FloatFmt) (bits : Nat) : readFloat f (showFloat f bits) = some bits := by
  unfold showFloat
  cases hs : simpleOf f bits with
  | none =>
    simp only [readFloat]
    obtain ⟨n1, n2, _⟩ := showNat_spec bits
    unfold parseNat
    have : (showNat bits).isEmpty = false := by
      cases hh : showNat bits with
      | nil => exact absurd hh n2
      | cons _ _ => rfl
    simp [this, n1]
  | some r =>
    obtain ⟨neg, N, j⟩ := r
    simp only
    have hne := showDyadic_head_ne_tilde neg N j
    have : readFloat f (showDyadic neg N j) = readDyadic f (showDyadic neg N j) := by
      unfold readFloat
      split
      · rename_i r' heq; exact absurd heq (hne r')
      · rfl
    rw [this, readDyadic_showDyadic, simpleOf_encode hs]

theorem showDyadic_safe (neg : Bool) (N j : Nat) : (showDyadic neg N j).all safeChar = true := by
  apply List.all_eq_true.2
  intro ch hch
  obtain ⟨_, _, n3⟩ := showNat_spec (N / 2 ^ j)
  obtain ⟨_, _, f3⟩ := showFixed_spec j (N % 2 ^ j * 5 ^ j)
  unfold showDyadic at hch
  simp only [List.mem_append] at hch
  rcases hch with (h | h) | h
  · cases neg <;> simp at h; subst h; decide
  · exact (isDig_props (n3 ch h)).1
  · by_cases hj : j = 0
    · simp [hj] at h
    · simp only [hj, if_false, List.mem_cons] at h
      rcases h with h | h
      · subst h; decide
      · exact (isDig_props (f3 ch h)).1

theorem showFloat_safe (f : FloatFmt) (bits : Nat) :
    (showFloat f bits).all safeChar = true ∧ showFloat f bits ≠ [] := by
  unfold showFloat
  cases hs : simpleOf f bits with
  | none =>
    obtain ⟨_, _, n3⟩ := showNat_spec bits
    refine ⟨?_, by simp⟩
    apply List.all_eq_true.2
    intro ch hch
    simp only [List.mem_cons] at hch
    rcases hch with h | h
    · subst h; decide
    · exact (isDig_props (n3 ch h)).1
  | some r =>
    obtain ⟨neg, N, j⟩ := r
    refine ⟨showDyadic_safe neg N j, ?_⟩
    intro e
    obtain ⟨_, n2, _⟩ := showNat_spec (N / 2 ^ j)
    unfold showDyadic at e
    simp only [List.append_eq_nil_iff] at e
    exact n2 e.1.2

end C18
