import Norad.Lemmas.FontInfo
/-! Definitions for the source-level tie of C13: the model's literals mirrored as tables, the date chain
    rebuilt from an operand list, set comparison. -/
namespace C13
open FI

/-! ### the model's literals, mirrored as tables -/
namespace ModelConsts
def listLimits : List (String × Nat) :=
  [("postscript_blue_values", 14), ("postscript_other_blues", 10), ("postscript_family_blues", 14),
   ("postscript_family_other_blues", 10), ("postscript_stem_snap_h", 12), ("postscript_stem_snap_v", 12)]
def pairLists : List String :=
  ["postscript_blue_values", "postscript_other_blues", "postscript_family_blues", "postscript_family_other_blues"]
def dateLength : Nat := 19
def dateExtraChars : List Char := [' ', '/', ':']
/-- operands of `dateChain`, encoded as the extractor encodes the source's -/
def dateOps : List (Nat × Nat × Nat × Nat × Nat) :=
  [(0, 0, 4, 0, 0), (1, 4, 5, 47, 0), (2, 5, 7, 1, 12), (1, 7, 8, 47, 0), (2, 8, 10, 1, 31), (1, 10, 11, 32, 0),
   (2, 11, 13, 0, 23), (1, 13, 14, 58, 0), (2, 14, 16, 0, 59), (1, 16, 17, 58, 0), (2, 17, 19, 0, 59)]
def selectionForbidden : List Nat := [0, 5, 6]
def classRange : Nat × Nat := (0, 14)
def subclassRange : Nat × Nat := (0, 15)
def angleRange : Nat × Nat := (0, 360)
end ModelConsts

/-- one operand of the date chain from its encoding -/
def opStep (v : List Char) (op : Nat × Nat × Nat × Nat × Nat) : Step :=
  match op with
  | (0, a, b, _, _) =>
    (match slice v a b with
     | none => .panic
     | some s => if (parseUnsigned 65535 s).isSome then .tt else .ff)
  | (1, a, b, x, _) =>
    (match slice v a b with
     | none => .panic
     | some s => if s = [Char.ofNat x] then .tt else .ff)
  | (_, a, b, lo, hi) => fieldIn v a b lo hi

def chainOf (v : List Char) : List (Nat × Nat × Nat × Nat × Nat) → Step
  | [] => .tt
  | [op] => opStep v op
  | op :: r => (opStep v op).andThen (chainOf v r)

/-! ### the source-level tie: what `src/fontinfo.rs` says now = the model's literals = the rule table -/

def sameSet {α} (a b : List α) : Prop := (∀ x ∈ a, x ∈ b) ∧ (∀ x ∈ b, x ∈ a)

instance {α} [DecidableEq α] (a b : List α) : Decidable (sameSet a b) := by unfold sameSet; infer_instance

/-- two-digit fields of the extracted chain as (position, least, greatest) -/
def fieldsOf (ops : List (Nat × Nat × Nat × Nat × Nat)) : List (Nat × Nat × Nat) :=
  ops.filterMap fun op => if op.1 = 2 then some (op.2.1, op.2.2.2.1, op.2.2.2.2) else none
def separatorsOf (ops : List (Nat × Nat × Nat × Nat × Nat)) : List (Nat × Char) :=
  ops.filterMap fun op => if op.1 = 1 then some (op.2.1, Char.ofNat op.2.2.2.1) else none
def yearsOf (ops : List (Nat × Nat × Nat × Nat × Nat)) : List (Nat × Nat) :=
  ops.filterMap fun op => if op.1 = 0 then some (op.2.1, op.2.2.1) else none

end C13
