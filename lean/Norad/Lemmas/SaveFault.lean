import Norad.Model.SaveFault
import Norad.Lemmas.SafePlan
/-! frame lemma for a prefix of the normal plan followed by an injected failure -/
namespace FontSave
open AbsFS

variable {β : Type}

theorem injectFault_map (ft : Fault) (es : List (NEff β)) :
    injectFault ft (es.map NEff.toEff) =
      (if ft.pos < es.length then es.take ft.pos ++ [NEff.fail (.io ft.err)] else es).map NEff.toEff := by
  unfold injectFault
  by_cases h : ft.pos < es.length
  · simp [h, List.map_take, NEff.toEff]
  · simp [h]

/-- running any prefix of the normal plan, then failing, changes nothing outside the target -/
theorem planN_prefix_frame (cfg : Cfg β) (f : AFont β) (d i : List (Path.P × β)) (t : APath)
    (hd : ∀ kb ∈ d, safeRel kb.1 = true) (g : FS β) (k : Nat) (x : SaveErr) :
    ∀ q, ¬ t <+: q → lookup (runN ((planN cfg f d i t).take k ++ [NEff.fail x]) g).2 q = lookup g q := by
  intro q hq
  cases k with
  | zero => simp [runN, runEffs, runEff, NEff.toEff]
  | succ k =>
    unfold planN runN
    simp only [List.take_succ_cons, List.cons_append, List.map, runEffs, NEff.toEff, runEff]
    cases hm : mkdir g (tC t) with
    | error x => rfl
    | ok g2 =>
      simp only
      obtain ⟨_, _, hset, _⟩ := mkdir_tC hm
      have hes : ∀ e ∈ (planRestN cfg f d i t).take k ++ [NEff.fail x], UnderT t e := by
        intro e he
        rcases List.mem_append.mp he with h | h
        · exact planRestN_under cfg f d i t hd e (List.mem_of_mem_take h)
        · simp only [List.mem_singleton] at h
          subst h
          exact Or.inl rfl
      have h2 := runN_frame t _ hes g2 (mkdir_t_dirs hm) q hq
      unfold runN at h2
      rw [h2, hset]
      exact lookup_set_ne g _ (fun e => hq (e ▸ List.prefix_refl _))

end FontSave
