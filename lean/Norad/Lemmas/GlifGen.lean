import Norad.Lemmas.C02
/-!
# A generative grammar of legal format-2 glif documents, and its acceptance

`render f doc` lists the events of a document described by `GDoc`: declaration/comments before the root, the `glyph`
start tag, body items in ANY order (advance, unicode, image, outline, anchors, guidelines, lib, note, comments), outline
items in any order (contours, `<contour/>`, components, comments), comments between points, anything after `</glyph>`.
Numbers and colours are spelled by an arbitrary `Fmt` that reads back (`Codec`); attribute order is covered separately by
`parseGlif_attr_order_irrelevant` (`EvsPerm`).  `interp` says which glyph the document describes.  Core Lean only.
-/
namespace Glif

inductive CIt where
  | point (p : Point)
  | comment

inductive OIt where
  | contour (cid : Option Str) (its : List CIt)
  | emptyContour (a : Option (List Attr))
  | component (k : Component)
  | comment

inductive BIt where
  | advance (w h : Nat)
  | unicode (c : Nat)
  | image (i : Image)
  | outline (its : List OIt)
  | emptyOutline (a : Option (List Attr))
  | anchor (a : Anchor)
  | guideline (g : Guideline)
  | lib (d : Dict)
  | note (t : Option Str)
  | comment

/-! ### rendering -/

def CIt.evs (f : Fmt) : CIt → List Ev
  | .point p => [pointEv f p]
  | .comment => [.comment]

def OIt.evs (f : Fmt) : OIt → List Ev
  | .contour cid its => .start sContour (some (optAttr "identifier" cid)) :: (its.flatMap (CIt.evs f) ++ [.close sContour])
  | .emptyContour a => [.empty sContour a]
  | .component k => [componentEv f k]
  | .comment => [.comment]

def BIt.evs (f : Fmt) : BIt → List Ev
  | .advance w h => [.empty sAdvance (some (advanceAttrs f w h))]
  | .unicode c => [.empty sUnicode (some [(sHex, showCodepoint c)])]
  | .image i => [imageEv f i]
  | .outline its => .start sOutline (some []) :: (its.flatMap (OIt.evs f) ++ [.close sOutline])
  | .emptyOutline a => [.empty sOutline a]
  | .anchor a => [anchorEv f a]
  | .guideline g => [guidelineEv f g]
  | .lib d => [.startLib (some []) (.dict d), .close sLib]
  | .note none => [.start sNote (some []), .close sNote]
  | .note (some t) => [.start sNote (some []), .text (some t), .close sNote]
  | .comment => [.comment]

/-! ### identifiers in document order -/

def CIt.ids : CIt → List Str
  | .point p => p.ident.toList
  | .comment => []

def OIt.ids : OIt → List Str
  | .contour cid its => cid.toList ++ its.flatMap CIt.ids
  | .component k => k.ident.toList
  | _ => []

def BIt.ids : BIt → List Str
  | .outline its => its.flatMap OIt.ids
  | .anchor a => a.ident.toList
  | .guideline g => g.ident.toList
  | _ => []

/-! ### the glyph a document describes -/

def CIt.pts : CIt → List Point
  | .point p => [pPoint p]
  | .comment => []

def applyO (ob : OB) : OIt → OB
  | .contour cid its =>
    let pts := its.flatMap CIt.pts
    if pts.isEmpty then ob else { ob with contours := ob.contours ++ [{ points := pts, ident := cid }] }
  | .component k => { ob with components := ob.components ++ [pComponent k] }
  | _ => ob

def applyG (nc : Color → Color) (g : Glyph) : BIt → Glyph
  | .advance w h => { g with width := (if nonZero w then w else 0), height := (if nonZero h then h else 0) }
  | .unicode c => { g with codepoints := cpInsert g.codepoints c }
  | .image i => { g with image := some (pImage nc i) }
  | .outline its =>
    let ob := its.foldl applyO {}
    { g with contours := g.contours ++ ob.contours, components := g.components ++ ob.components }
  | .anchor a => { g with anchors := g.anchors ++ [pAnchor nc a] }
  | .guideline a => { g with guidelines := g.guidelines ++ [pGuideline nc a] }
  | .lib d => { g with lib := d }
  | .note (some t) => { g with note := some t }
  | _ => g

def BIt.isAdvance : BIt → Bool | .advance .. => true | _ => false
def BIt.isOutline : BIt → Bool | .outline .. => true | .emptyOutline .. => true | _ => false
def BIt.isLib : BIt → Bool | .lib .. => true | _ => false
def BIt.isNote : BIt → Bool | .note .. => true | _ => false
def BIt.isImage : BIt → Bool | .image .. => true | _ => false

/-- the parser state after a body item -/
def applyB (nc : Color → Color) (s : PS) (it : BIt) : PS :=
  { s with
    seen := pushIds s.seen it.ids
    seenAdvance := s.seenAdvance || it.isAdvance
    seenOutline := s.seenOutline || it.isOutline
    seenLib := s.seenLib || it.isLib
    g := applyG nc s.g it }

/-! ### acceptance -/

section
variable {f : Fmt} {rd : Str → Option Nat} {nc : Color → Color} {ok : Nat → Prop}

def CIt.OK (ok : Nat → Prop) : CIt → Prop
  | .point p => PointOK ok p
  | .comment => True

theorem reach_cits (hc : Codec f rd nc ok) : ∀ (its : List CIt) (s : PS) (ob : OB) (cid : Option Str) (pts : List Point),
    s.mode = .contour ob cid pts → s.ver = 2 → (∀ it, it ∈ its → it.OK ok) →
    (its.flatMap CIt.ids).Nodup → (∀ i, i ∈ its.flatMap CIt.ids → i ∉ s.seen) →
    Reach rd s (its.flatMap (CIt.evs f))
      { s with
        seen := pushIds s.seen (its.flatMap CIt.ids)
        mode := .contour ob cid (pts ++ its.flatMap CIt.pts) } := by
  intro its
  induction its with
  | nil =>
    intro s ob cid pts hm _ _ _ _
    exact (Reach.nil s).cast (by cases s with | mk g _ _ _ _ _ _ => cases g; simp_all [pushIds_nil])
  | cons it r ih =>
    intro s ob cid pts hm hv hok hnd hfr
    rw [List.flatMap_cons] at hnd hfr
    obtain ⟨f1, f2, f3, f4⟩ := fresh_append hnd hfr
    cases it with
    | comment =>
      have h1 : step rd s .comment = .ok (.inl s) := by simp [step, hm, stepContour, cont]
      have h2 := ih s ob cid pts hm hv (fun b hb => hok b (List.mem_cons_of_mem _ hb)) f3
        (by simpa [CIt.ids, pushIds_nil] using f4)
      exact (Reach.cons h1 h2).cast (by simp [CIt.ids, CIt.pts, CIt.evs, List.flatMap_cons])
    | point p =>
      have hp : PointOK ok p := hok _ List.mem_cons_self
      have h1 := step_point hc hm hv hp (fun i hi => f2 i (by simp [CIt.ids, hi]))
      have h2 := ih { s with
          seen := pushIds s.seen p.ident.toList
          mode := .contour ob cid (pts ++ [pPoint p]) } ob cid (pts ++ [pPoint p]) rfl hv
        (fun b hb => hok b (List.mem_cons_of_mem _ hb)) f3 (by simpa [CIt.ids] using f4)
      refine (Reach.cons h1 h2).cast ?_
      simp [CIt.ids, CIt.pts, List.flatMap_cons, pushIds_append, List.append_assoc]

def OIt.OK (ok : Nat → Prop) : OIt → Prop
  | .contour cid its => (∀ it, it ∈ its → it.OK ok) ∧ C11.accepts ((its.flatMap CIt.pts).map toPt) = true ∧
      (∀ i, cid = some i → validIdent i = true)
  | .component k => ComponentOK ok k
  | _ => True

theorem reach_oit (hc : Codec f rd nc ok) {s : PS} {ob : OB} (hm : s.mode = .outline ob) (hv : s.ver = 2)
    (it : OIt) (hok : it.OK ok) (hnd : it.ids.Nodup) (hfr : ∀ i, i ∈ it.ids → i ∉ s.seen) :
    Reach rd s (it.evs f)
      { s with
        seen := pushIds s.seen it.ids
        mode := .outline (applyO ob it) } := by
  cases it with
  | comment =>
    have h1 : step rd s .comment = .ok (.inl s) := by simp [step, hm, stepOutline, cont]
    exact (Reach.one h1).cast (by cases s with | mk g _ _ _ _ _ _ => cases g; simp_all [OIt.ids, applyO, pushIds_nil])
  | emptyContour a =>
    have h1 : step rd s (.empty sContour a) = .ok (.inl s) := by simp [step, hm, stepOutline, cont]
    exact (Reach.one h1).cast (by cases s with | mk g _ _ _ _ _ _ => cases g; simp_all [OIt.ids, applyO, pushIds_nil])
  | component k =>
    have h1 := step_component hc hm hv (hok : ComponentOK ok k) (fun i hi => hfr i (by simp [OIt.ids, hi]))
    exact (Reach.one h1).cast (by simp [OIt.ids, applyO])
  | contour cid its =>
    obtain ⟨hk1, hk2, hk3⟩ := (hok : (∀ it, it ∈ its → it.OK ok) ∧ _ ∧ _)
    simp only [OIt.ids] at hnd hfr
    obtain ⟨f1, f2, f3⟩ := fresh_split hnd hfr
    have hcid := contourAttrs_roundtrip (seen := s.seen) (cid := cid) (fun i hi => ⟨f1 i hi, hk3 i hi⟩)
    have h1 : step rd s (.start sContour (some (optAttr "identifier" cid))) = .ok (.inl
        { s with
          seen := pushIds s.seen cid.toList
          mode := .contour ob cid [] }) := by
      simp +decide [step, hm, stepOutline, hv, hcid, cont, addSeen_eq]
    have h2 := reach_cits hc its { s with
          seen := pushIds s.seen cid.toList
          mode := .contour ob cid [] } ob cid [] rfl hv hk1 f2 f3
    have h3 : step rd { s with
          seen := pushIds (pushIds s.seen cid.toList) (its.flatMap CIt.ids)
          mode := .contour ob cid ([] ++ its.flatMap CIt.pts) } (.close sContour) = .ok (.inl
        { s with
          seen := pushIds (pushIds s.seen cid.toList) (its.flatMap CIt.ids)
          mode := .outline (applyO ob (.contour cid its)) }) := by
      simp [step, stepContour, hk2, cont, applyO]
    simp only [OIt.evs]
    refine (Reach.cons h1 (Reach.append h2 (Reach.one h3))).cast ?_
    simp [OIt.ids, pushIds_append]

theorem reach_oits (hc : Codec f rd nc ok) : ∀ (its : List OIt) (s : PS) (ob : OB), s.mode = .outline ob → s.ver = 2 →
    (∀ it, it ∈ its → it.OK ok) → (its.flatMap OIt.ids).Nodup → (∀ i, i ∈ its.flatMap OIt.ids → i ∉ s.seen) →
    Reach rd s (its.flatMap (OIt.evs f))
      { s with
        seen := pushIds s.seen (its.flatMap OIt.ids)
        mode := .outline (its.foldl applyO ob) } := by
  intro its
  induction its with
  | nil =>
    intro s ob hm _ _ _ _
    exact (Reach.nil s).cast (by cases s with | mk g _ _ _ _ _ _ => cases g; simp_all [pushIds_nil])
  | cons it r ih =>
    intro s ob hm hv hok hnd hfr
    rw [List.flatMap_cons] at hnd hfr
    obtain ⟨f1, f2, f3, f4⟩ := fresh_append hnd hfr
    have h1 := reach_oit hc hm hv it (hok it List.mem_cons_self) f1 f2
    have h2 := ih { s with
          seen := pushIds s.seen it.ids
          mode := .outline (applyO ob it) } (applyO ob it) rfl hv
      (fun b hb => hok b (List.mem_cons_of_mem _ hb)) f3 f4
    rw [List.flatMap_cons]
    refine (Reach.append h1 h2).cast ?_
    simp [List.flatMap_cons, pushIds_append, List.foldl_cons]
def BIt.OK (ok : Nat → Prop) : BIt → Prop
  | .advance w h => ok w ∧ ok h
  | .unicode c => ValidCodepoint c
  | .image i => ValidImage ok i
  | .outline its => ∀ it, it ∈ its → it.OK ok
  | .anchor a => AnchorOK ok a
  | .guideline g => GuidelineOK ok g
  | _ => True

theorem reach_bit (hc : Codec f rd nc ok) {s : PS} (hm : s.mode = .body) (hv : s.ver = 2) (it : BIt) (hok : it.OK ok)
    (hnd : it.ids.Nodup) (hfr : ∀ i, i ∈ it.ids → i ∉ s.seen)
    (hadv : it.isAdvance = true → s.seenAdvance = false) (hout : it.isOutline = true → s.seenOutline = false)
    (hlib : it.isLib = true → s.seenLib = false) (hnote : it.isNote = true → s.g.note = none)
    (himg : it.isImage = true → s.g.image = none) :
    Reach rd s (it.evs f) (applyB nc s it) := by
  cases it with
  | advance w h =>
    have h1 := step_advance hc hm (hadv rfl) (hok : ok w ∧ ok h).1 (hok : ok w ∧ ok h).2
    exact (Reach.one h1).cast (by
      cases s with | mk g _ _ _ _ _ _ => cases g; simp_all [applyB, applyG, BIt.ids, BIt.isAdvance, BIt.isOutline, BIt.isLib, pushIds_nil])
  | unicode c =>
    have hp := unicode_roundtrip (cps := s.g.codepoints) (hok : ValidCodepoint c)
    have h1 : step rd s (.empty sUnicode (some [(sHex, showCodepoint c)])) =
        .ok (.inl { s with g := { s.g with codepoints := cpInsert s.g.codepoints c } }) := by
      simp +decide [step, hm, stepBody, bodyEmpty, hp, cont]
    exact (Reach.one h1).cast (by
      cases s with | mk g _ _ _ _ _ _ => cases g; simp_all [applyB, applyG, BIt.ids, BIt.isAdvance, BIt.isOutline, BIt.isLib, pushIds_nil])
  | image i =>
    have h1 := step_image hc hm hv (himg rfl) (hok : ValidImage ok i)
    exact (Reach.one h1).cast (by
      cases s with | mk g _ _ _ _ _ _ => cases g; simp_all [applyB, applyG, BIt.ids, BIt.isAdvance, BIt.isOutline, BIt.isLib, pushIds_nil])
  | anchor a =>
    have h1 := step_anchor hc hm hv (hok : AnchorOK ok a) (fun i hi => hfr i (by simp [BIt.ids, hi]))
    exact (Reach.one h1).cast (by
      cases s with | mk g _ _ _ _ _ _ => cases g; simp_all [applyB, applyG, BIt.ids, BIt.isAdvance, BIt.isOutline, BIt.isLib])
  | guideline a =>
    have h1 := step_guideline hc hm hv (hok : GuidelineOK ok a) (fun i hi => hfr i (by simp [BIt.ids, hi]))
    exact (Reach.one h1).cast (by
      cases s with | mk g _ _ _ _ _ _ => cases g; simp_all [applyB, applyG, BIt.ids, BIt.isAdvance, BIt.isOutline, BIt.isLib])
  | lib d =>
    exact (reach_lib hm (hlib rfl) d).cast (by
      cases s with | mk g _ _ _ _ _ _ => cases g; simp_all [applyB, applyG, BIt.ids, BIt.isAdvance, BIt.isOutline, BIt.isLib, pushIds_nil])
  | comment =>
    have h1 : step rd s .comment = .ok (.inl s) := by simp [step, hm, stepBody, cont]
    exact (Reach.one h1).cast (by
      cases s with | mk g _ _ _ _ _ _ => cases g; simp_all [applyB, applyG, BIt.ids, BIt.isAdvance, BIt.isOutline, BIt.isLib, pushIds_nil])
  | emptyOutline a =>
    have h1 : step rd s (.empty sOutline a) = .ok (.inl { s with seenOutline := true }) := by
      simp [step, hm, stepBody, bodyEmpty, hout rfl, cont]
    exact (Reach.one h1).cast (by
      cases s with | mk g _ _ _ _ _ _ => cases g; simp_all [applyB, applyG, BIt.ids, BIt.isAdvance, BIt.isOutline, BIt.isLib, pushIds_nil])
  | note t =>
    have h1 : step rd s (.start sNote (some [])) = .ok (.inl { s with mode := .note }) := by
      simp +decide [step, hm, stepBody, bodyStart, hv, hnote rfl, cont]
    cases t with
    | none =>
      have h2 : step rd { s with mode := .note } (.close sNote) = .ok (.inl { s with mode := .body }) := by
        simp [step, stepNote, cont]
      exact (Reach.cons h1 (Reach.one h2)).cast (by
        cases s with | mk g _ _ _ _ _ _ => cases g; simp_all [applyB, applyG, BIt.ids, BIt.isAdvance, BIt.isOutline, BIt.isLib, pushIds_nil])
    | some t =>
      have h2 : step rd { s with mode := .note } (.text (some t)) =
          .ok (.inl { s with mode := .note, g := { s.g with note := some t } }) := by
        simp [step, stepNote, cont]
      have h3 : step rd { s with mode := .note, g := { s.g with note := some t } } (.close sNote) =
          .ok (.inl { s with mode := .body, g := { s.g with note := some t } }) := by
        simp [step, stepNote, cont]
      exact (Reach.cons h1 (Reach.cons h2 (Reach.one h3))).cast (by
        cases s with | mk g _ _ _ _ _ _ => cases g; simp_all [applyB, applyG, BIt.ids, BIt.isAdvance, BIt.isOutline, BIt.isLib, pushIds_nil])
  | outline its =>
    have h1 : step rd s (.start sOutline (some [])) = .ok (.inl { s with seenOutline := true, mode := .outline {} }) := by
      simp [step, hm, stepBody, bodyStart, hout rfl, cont]
    have h2 := reach_oits hc its { s with seenOutline := true, mode := .outline {} } {} rfl hv
      (hok : ∀ it, it ∈ its → it.OK ok) (by simpa [BIt.ids] using hnd) (by simpa [BIt.ids] using hfr)
    have h3 : step rd { s with
          seenOutline := true
          seen := pushIds s.seen (its.flatMap OIt.ids)
          mode := .outline (its.foldl applyO {}) } (.close sOutline) = .ok (.inl
        { s with
          seenOutline := true
          seen := pushIds s.seen (its.flatMap OIt.ids)
          mode := .body
          g := { s.g with contours := s.g.contours ++ (its.foldl applyO {}).contours,
                          components := s.g.components ++ (its.foldl applyO {}).components } }) := by
      simp [step, stepOutline, cont, finishOutline, hv]
    simp only [BIt.evs]
    refine (Reach.cons h1 (Reach.append h2 (Reach.one h3))).cast ?_
    cases s with | mk g _ _ _ _ _ _ => cases g; simp_all [applyB, applyG, BIt.ids, BIt.isAdvance, BIt.isOutline, BIt.isLib]

/-! ### a whole body: items in any order -/

structure LegalItems (ok : Nat → Prop) (items : List BIt) : Prop where
  valid : ∀ it, it ∈ items → it.OK ok
  ids : (items.flatMap BIt.ids).Nodup
  advance : items.countP BIt.isAdvance ≤ 1
  outline : items.countP BIt.isOutline ≤ 1
  lib : items.countP BIt.isLib ≤ 1
  note : items.countP BIt.isNote ≤ 1
  image : items.countP BIt.isImage ≤ 1

theorem count_tail {p : BIt → Bool} {it : BIt} {r : List BIt} (h : (it :: r).countP p ≤ 1) :
    r.countP p ≤ 1 ∧ (p it = true → ∀ b, b ∈ r → p b = false) := by
  rw [List.countP_cons] at h
  refine ⟨by omega, fun hp b hb => ?_⟩
  simp only [hp, if_true] at h
  have h0 : r.countP p = 0 := by omega
  have := List.countP_eq_zero.1 h0 b hb
  simpa using this

theorem applyG_note {nc : Color → Color} {g : Glyph} {it : BIt} (h : (applyG nc g it).note.isSome = true) :
    g.note.isSome = true ∨ it.isNote = true := by
  cases it with
  | note t => right; rfl
  | _ => left; simpa [applyG] using h

theorem applyG_image {nc : Color → Color} {g : Glyph} {it : BIt} (h : (applyG nc g it).image.isSome = true) :
    g.image.isSome = true ∨ it.isImage = true := by
  cases it with
  | image i => right; rfl
  | note t => left; cases t <;> simpa [applyG] using h
  | _ => left; simpa [applyG] using h

theorem reach_bits (hc : Codec f rd nc ok) : ∀ (items : List BIt) (s : PS), s.mode = .body → s.ver = 2 →
    LegalItems ok items → (∀ i, i ∈ items.flatMap BIt.ids → i ∉ s.seen) →
    (s.seenAdvance = true → ∀ b, b ∈ items → b.isAdvance = false) →
    (s.seenOutline = true → ∀ b, b ∈ items → b.isOutline = false) →
    (s.seenLib = true → ∀ b, b ∈ items → b.isLib = false) →
    (s.g.note.isSome = true → ∀ b, b ∈ items → b.isNote = false) →
    (s.g.image.isSome = true → ∀ b, b ∈ items → b.isImage = false) →
    Reach rd s (items.flatMap (BIt.evs f)) (items.foldl (applyB nc) s) := by
  intro items
  induction items with
  | nil => intro s _ _ _ _ _ _ _ _ _; exact Reach.nil s
  | cons it r ih =>
    intro s hm hv hL hfr ha ho hl hn hi
    have hids := hL.ids
    rw [List.flatMap_cons] at hids hfr
    obtain ⟨f1, f2, f3, f4⟩ := fresh_append hids hfr
    obtain ⟨ca, ca'⟩ := count_tail hL.advance
    obtain ⟨co, co'⟩ := count_tail hL.outline
    obtain ⟨cl, cl'⟩ := count_tail hL.lib
    obtain ⟨cn, cn'⟩ := count_tail hL.note
    obtain ⟨ci, ci'⟩ := count_tail hL.image
    have bfalse : ∀ {b : Bool}, (b = true → False) → b = false := by intro b h; cases b <;> simp_all
    have h1 := reach_bit hc hm hv it (hL.valid it List.mem_cons_self) f1 f2
      (fun h => bfalse (fun hs => by have := ha hs it List.mem_cons_self; simp [h] at this))
      (fun h => bfalse (fun hs => by have := ho hs it List.mem_cons_self; simp [h] at this))
      (fun h => bfalse (fun hs => by have := hl hs it List.mem_cons_self; simp [h] at this))
      (fun h => by
        cases hgn : s.g.note with
        | none => rfl
        | some n => have := hn (by simp [hgn]) it List.mem_cons_self; simp [h] at this)
      (fun h => by
        cases hgi : s.g.image with
        | none => rfl
        | some n => have := hi (by simp [hgi]) it List.mem_cons_self; simp [h] at this)
    have h2 := ih (applyB nc s it) hm hv
      ⟨fun b hb => hL.valid b (List.mem_cons_of_mem _ hb), f3, ca, co, cl, cn, ci⟩ f4
      (fun hs b hb => by
        simp only [applyB, Bool.or_eq_true] at hs
        rcases hs with hs | hs
        · exact ha hs b (List.mem_cons_of_mem _ hb)
        · exact ca' hs b hb)
      (fun hs b hb => by
        simp only [applyB, Bool.or_eq_true] at hs
        rcases hs with hs | hs
        · exact ho hs b (List.mem_cons_of_mem _ hb)
        · exact co' hs b hb)
      (fun hs b hb => by
        simp only [applyB, Bool.or_eq_true] at hs
        rcases hs with hs | hs
        · exact hl hs b (List.mem_cons_of_mem _ hb)
        · exact cl' hs b hb)
      (fun hs b hb => by
        rcases applyG_note (by simpa [applyB] using hs) with hs | hs
        · exact hn hs b (List.mem_cons_of_mem _ hb)
        · exact cn' hs b hb)
      (fun hs b hb => by
        rcases applyG_image (by simpa [applyB] using hs) with hs | hs
        · exact hi hs b (List.mem_cons_of_mem _ hb)
        · exact ci' hs b hb)
    rw [List.flatMap_cons, List.foldl_cons]
    exact Reach.append h1 h2

/-- a format-2 glif document, generatively -/
structure GDoc where
  /-- declaration and comments before the root -/
  prolog : List Ev
  name : Str
  /-- `formatMinor="0"` written or not -/
  minor : Bool
  items : List BIt
  /-- whatever follows `</glyph>` -/
  trailer : List Ev

def isProlog : Ev → Bool
  | .decl => true
  | .comment => true
  | _ => false

def glyphStartAttrs (d : GDoc) : List Attr :=
  [("name".toList, d.name), ("format".toList, ['2'])] ++ (if d.minor then [("formatMinor".toList, ['0'])] else [])

def render (f : Fmt) (d : GDoc) : List Ev :=
  d.prolog ++ (.start sGlyph (some (glyphStartAttrs d)) :: (d.items.flatMap (BIt.evs f) ++ (.close sGlyph :: d.trailer)))

/-- the glyph the document describes, before the object libs are moved -/
def interp (nc : Color → Color) (d : GDoc) : Glyph :=
  (d.items.foldl (applyB nc) { g := { name := d.name }, ver := 2 }).g

theorem scanStart_prolog : ∀ (pro : List Ev) (l : List Ev), (∀ e, e ∈ pro → isProlog e = true) →
    scanStart (pro ++ l) = scanStart l := by
  intro pro
  induction pro with
  | nil => intro l _; rfl
  | cons e r ih =>
    intro l h
    have he := h e List.mem_cons_self
    have hr := ih l (fun x hx => h x (List.mem_cons_of_mem _ hx))
    cases e <;> simp [isProlog] at he <;> simpa [scanStart] using hr

theorem foldl_applyB_mode (nc : Color → Color) : ∀ (items : List BIt) (s : PS),
    (items.foldl (applyB nc) s).mode = s.mode := by
  intro items
  induction items with
  | nil => intro s; rfl
  | cons it r ih => intro s; rw [List.foldl_cons, ih]; rfl

theorem glyphStart_ok (d : GDoc) (hn : validName d.name = true) :
    parseGlyphAttrs (some (glyphStartAttrs d)) = .ok (d.name, 2) := by
  have h2 : parseU32 10 ['2'] = some 2 := by decide
  have h0 : parseU32 10 ['0'] = some 0 := by decide
  cases hm : d.minor <;> simp [glyphStartAttrs, hm, parseGlyphAttrs, foldAttrs, gStep, gApply, hn, h2, h0, gFinish]

/-- **legal_accepted** (format 2, any element order, comments anywhere): the parser accepts every document of the
    generative grammar whose items obey the rules, and what it has built at `</glyph>` is the glyph the document
    describes; what is returned is `load_object_libs` of it. -/
theorem legal_accepted_gdoc (hc : Codec f rd nc ok) (d : GDoc) (hp : ∀ e, e ∈ d.prolog → isProlog e = true)
    (hn : validName d.name = true) (hL : LegalItems ok d.items) :
    parseGlif rd (render f d) = loadObjectLibs (interp nc d) := by
  unfold parseGlif render
  rw [scanStart_prolog _ _ hp]
  simp only [scanStart, if_true, glyphStart_ok d hn]
  have hr := reach_bits hc d.items { g := { name := d.name }, ver := 2 } rfl rfl hL (by simp)
    (by intro h; cases h) (by intro h; cases h) (by intro h; cases h) (by intro h; simp at h) (by intro h; simp at h)
  rw [run_of_reach rd hr]
  have hm := foldl_applyB_mode nc d.items { g := { name := d.name }, ver := 2 }
  cases hl : loadObjectLibs (interp nc d) with
  | error k => simp [run, step, hm, stepBody, interp] at hl ⊢; simp [hl]
  | ok g' => simp [run, step, hm, stepBody, interp] at hl ⊢; simp [hl]

/-! ### `load_object_libs` succeeds on a well-shaped `public.objectLibs` -/

def AllDicts (ol : Dict) : Prop := ∀ e, e ∈ ol → ∃ d, e.2 = PV.dict d

theorem dictGet_mem {k : Str} {v : PV} {d : Dict} (h : dictGet k d = some v) : (k, v) ∈ d := by
  induction d with
  | nil => simp [dictGet] at h
  | cons e r ih =>
    obtain ⟨k', v'⟩ := e
    by_cases hk : k' = k
    · simp [dictGet, hk] at h; subst h; subst hk; exact List.mem_cons_self
    · simp only [dictGet, hk, if_false] at h; exact List.mem_cons_of_mem _ (ih h)

theorem allDicts_erase {k : Str} {ol : Dict} (h : AllDicts ol) : AllDicts (dictErase k ol) :=
  fun e he => h e (List.mem_filter.1 he).1

theorem transferLib_ok {id : Option Str} {ol : Dict} (h : AllDicts ol) :
    ∃ l ol', transferLib id ol = some (l, ol') ∧ AllDicts ol' := by
  cases id with
  | none => exact ⟨none, ol, rfl, h⟩
  | some i =>
    cases hg : dictGet i ol with
    | none => exact ⟨none, ol, by simp [transferLib, hg], h⟩
    | some v =>
      obtain ⟨d, hd⟩ := h _ (dictGet_mem hg)
      simp only at hd
      subst hd
      exact ⟨some d, dictErase i ol, by simp [transferLib, hg], allDicts_erase h⟩

theorem loadGen_ok {α : Type} (id : α → Option Str) (setLib : α → Option Dict → α) :
    ∀ (xs : List α) (ol : Dict), AllDicts ol → ∃ r ol', loadGen id setLib xs ol = some (r, ol') ∧ AllDicts ol' := by
  intro xs
  induction xs with
  | nil => intro ol h; exact ⟨[], ol, rfl, h⟩
  | cons a r ih =>
    intro ol h
    obtain ⟨l, ol1, h1, a1⟩ := transferLib_ok (id := id a) h
    obtain ⟨r', ol2, h2, a2⟩ := ih ol1 a1
    exact ⟨setLib a l :: r', ol2, by simp [loadGen, h1, h2], a2⟩

theorem loadContours_ok : ∀ (cs : List Contour) (ol : Dict), AllDicts ol →
    ∃ r ol', loadContours cs ol = some (r, ol') ∧ AllDicts ol' := by
  intro cs
  induction cs with
  | nil => intro ol h; exact ⟨[], ol, rfl, h⟩
  | cons c r ih =>
    intro ol h
    obtain ⟨l, ol1, h1, a1⟩ := transferLib_ok (id := c.ident) h
    obtain ⟨ps, ol2, h2, a2⟩ := loadGen_ok (·.ident) (fun (a : Point) l => { a with lib := l }) c.points ol1 a1
    obtain ⟨r', ol3, h3, a3⟩ := ih ol2 a2
    exact ⟨{ c with lib := l, points := ps } :: r', ol3, by simp [loadContours, h1, loadPoints_gen, h2, h3], a3⟩

/-- `load_object_libs` succeeds when `public.objectLibs`, if present, is a dictionary of dictionaries -/
theorem loadObjectLibs_ok {g : Glyph}
    (h : ∀ v, dictGet objectLibsKey g.lib = some v → ∃ ol, v = PV.dict ol ∧ AllDicts ol) :
    ∃ g', loadObjectLibs g = .ok g' := by
  unfold loadObjectLibs
  cases hg : dictGet objectLibsKey g.lib with
  | none => exact ⟨g, rfl⟩
  | some v =>
    obtain ⟨ol, rfl, ha⟩ := h v hg
    obtain ⟨as, o1, h1, a1⟩ := loadGen_ok (·.ident) (fun (a : Anchor) l => { a with lib := l }) g.anchors ol ha
    obtain ⟨gs, o2, h2, a2⟩ := loadGen_ok (·.ident) (fun (a : Guideline) l => { a with lib := l }) g.guidelines o1 a1
    obtain ⟨cs, o3, h3, a3⟩ := loadContours_ok g.contours o2 a2
    obtain ⟨ks, o4, h4, _⟩ := loadGen_ok (·.ident) (fun (a : Component) l => { a with lib := l }) g.components o3 a3
    exact ⟨{ g with lib := dictErase objectLibsKey g.lib, anchors := as, guidelines := gs, contours := cs, components := ks },
      by simp [loadAnchors_gen, loadGuidelines_gen, loadComponents_gen, h1, h2, h3, h4]⟩


end

end Glif
