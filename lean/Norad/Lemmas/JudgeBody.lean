import Norad.Lemmas.JudgeNested
namespace Glif
open Spec
section
variable {rd : Str → Option Nat}

theorem CtAttrBad.congr {ver : Nat} {seen seen' : List Str} (h : ∀ i, i ∈ seen ↔ i ∈ seen') {a : Attr}
    (hb : CtAttrBad ver seen a) : CtAttrBad ver seen' a := by
  unfold CtAttrBad at hb ⊢
  rw [← readIdent_congr h]; exact hb

theorem CtStartClean.congr {ver : Nat} {seen seen' : List Str} (h : ∀ i, i ∈ seen ↔ i ∈ seen') {as : List Attr}
    (hc : CtStartClean ver seen as) : CtStartClean ver seen' as :=
  ⟨hc.nodup, hc.own, fun i hi hm => hc.fresh i hi ((h i).2 hm)⟩

theorem CKidsClean.congr {ver : Nat} {seen seen' : List Str} (h : ∀ i, i ∈ seen ↔ i ∈ seen') {ks : List CItem}
    (hc : CKidsClean rd ver seen ks) : CKidsClean rd ver seen' ks :=
  ⟨hc.shaped, hc.points, hc.nodup, fun i hi hm => hc.fresh i hi ((h i).2 hm)⟩

theorem mem_append_congr {α : Type} {a a' b : List α} (h : ∀ i, i ∈ a ↔ i ∈ a') : ∀ i, i ∈ a ++ b ↔ i ∈ a' ++ b := by
  intro i; simp only [List.mem_append, h i]

theorem OBad.congr {ver : Nat} {seen seen' : List Str} (h : ∀ i, i ∈ seen ↔ i ∈ seen') {k : OItem}
    (hb : OBad rd ver seen k) : OBad rd ver seen' k := by
  cases hb with
  | unknown e h1 h2 => exact .unknown e h1 h2
  | attrSyntax e h1 h2 => exact .attrSyntax e h1 h2
  | component e as hn ha hbad => exact .component e as hn ha (ElemBad.congr h hbad)
  | contourAttrSyntax kids => exact .contourAttrSyntax kids
  | contourStart as kids a ha hbad => exact .contourStart as kids a ha (CtAttrBad.congr h hbad)
  | contourChild as kpre kbad kpost hst hk hbad =>
    exact .contourChild as kpre kbad kpost (hst.congr h) (hk.congr (mem_append_congr h))
      (CBad.congr (mem_append_congr (mem_append_congr h)) hbad)
  | contourIllegal as kids hst hk hill =>
    exact .contourIllegal as kids (hst.congr h) (hk.congr (mem_append_congr h)) hill

/-- the children `ks` of an outline are clean, with fresh, distinct identifiers -/
structure OKidsClean (rd : Str → Option Nat) (ver : Nat) (seen : List Str) (ks : List OItem) : Prop where
  shaped : ∀ k, k ∈ ks → OShaped k
  clean : ∀ k, k ∈ ks → oitemCheck rd ver k = ([], false)
  nodup : (ks.flatMap oitemIdents).Nodup
  fresh : ∀ i, i ∈ ks.flatMap oitemIdents → i ∉ seen

/-- clean children of an outline, then one the parser refuses: the outline is refused -/
theorem outline_kids_bad (law : ReadsNumerals rd) (kpre : List OItem) (kbad : OItem) (kpost : List OItem)
    (s : PS) (ob : OB) (hm : s.mode = .outline ob) (hc : OKidsClean rd s.ver s.seen kpre)
    (hbad : OBad rd s.ver (s.seen ++ kpre.flatMap oitemIdents) kbad) (rest : List Ev) :
    accepted (run rd s ((kpre ++ kbad :: kpost).flatMap OItem.evs ++ rest)) = false := by
  obtain ⟨sn, ob', hr, hup, hlo⟩ := outline_kids_reach law kpre s ob hm hc.shaped hc.clean hc.nodup hc.fresh
  have hev : (kpre ++ kbad :: kpost).flatMap OItem.evs ++ rest =
      kpre.flatMap OItem.evs ++ (OItem.evs kbad ++ (kpost.flatMap OItem.evs ++ rest)) := by
    simp [List.flatMap_append, List.flatMap_cons, List.append_assoc]
  rw [hev, run_of_reach rd hr]
  refine obad_rejected law (s := { s with seen := sn, mode := .outline ob' }) rfl ?_ _
  refine OBad.congr ?_ hbad
  intro i
  rw [List.mem_append]
  exact ⟨fun h => hlo i h, fun h => hup i h⟩

/-! ### the glyph body -/

/-- a body item the parser refuses after the clean items `pre` of a glyph of format `ver` -/
inductive BodyBad (rd : Str → Option Nat) (ver : Nat) (pre : List Item) : Item → Prop
  /-- unknown element, a format-2 element in format 1, unknown attribute, lib that is not a dictionary -/
  | hard (it : Item) : HardFlag ver it → BodyBad rd ver pre it
  /-- a second advance, outline, lib or image -/
  | dupOnce (it : Item) (n : Str) : itemName it = some n → (n = sAdvance ∨ n = sOutline ∨ n = sLib ∨ n = sImage) →
      0 < cnt pre n → BodyBad rd ver pre it
  /-- a second note after a note with text -/
  | dupNote (it : Item) : itemName it = some sNote → (∃ x, x ∈ pre ∧ noteWithText x) → BodyBad rd ver pre it
  /-- the attributes of advance, unicode, anchor, guideline or image are not well-formed XML attributes -/
  | attrSyntax (e : Elem) : bodyNames.contains e.name = true → e.attrs = none → BodyBad rd ver pre (.elem e)
  /-- a hard error in advance, unicode, anchor, guideline or image (value, required attribute, shape, identifier) -/
  | elem (e : Elem) (as : List Attr) : bodyNames.contains e.name = true → e.attrs = some as →
      ElemBad rd ver (pre.flatMap itemIdents) e.name as → BodyBad rd ver pre (.elem e)
  /-- an element named `note` (the empty note written `<note></note>` or `<note/>`) in a format-1 glyph -/
  | v1NoteElem (e : Elem) : ver = 1 → e.name = sNote → BodyBad rd ver pre (.elem e)
  /-- `<lib/>`: a lib without a dictionary -/
  | libElem (e : Elem) : e.name = sLib → BodyBad rd ver pre (.elem e)
  /-- inside the outline: clean children, then one that is refused -/
  | outlineChild (a : Option (List Attr)) (kpre : List OItem) (kbad : OItem) (kpost : List OItem) :
      OKidsClean rd ver (pre.flatMap itemIdents) kpre →
      OBad rd ver (pre.flatMap itemIdents ++ kpre.flatMap oitemIdents) kbad →
      BodyBad rd ver pre (.outline a false (kpre ++ kbad :: kpost))

theorem OKidsClean.congr {ver : Nat} {seen seen' : List Str} (h : ∀ i, i ∈ seen ↔ i ∈ seen') {ks : List OItem}
    (hc : OKidsClean rd ver seen ks) : OKidsClean rd ver seen' ks :=
  ⟨hc.shaped, hc.clean, hc.nodup, fun i hi hm => hc.fresh i hi ((h i).2 hm)⟩

theorem bodybad_rejected (law : ReadsNumerals rd) {ver : Nat} {pre : List Item} {s : PS} (hcs : CleanState ver pre s)
    {it : Item} (h : BodyBad rd ver pre it) (rest : List Ev) : accepted (run rd s (Item.evs it ++ rest)) = false := by
  have hm := hcs.mode
  have hseen : ∀ i, i ∈ pre.flatMap itemIdents ↔ i ∈ s.seen := fun i => (hcs.seen i).symm
  cases h with
  | hard it hf => exact hard_item_rejected hm hcs.ver hf rest
  | dupOnce it n hn hcase hc =>
    have hA : sAdvance ≠ sOutline := by decide
    have hL1 : sLib ≠ sOutline := by decide
    have hL2 : sLib ≠ sAdvance := by decide
    have hL3 : sLib ≠ sUnicode := by decide
    have hL4 : sLib ≠ sAnchor := by decide
    have hL5 : sLib ≠ sGuideline := by decide
    have hL6 : sLib ≠ sImage := by decide
    have hL7 : sLib ≠ sNote := by decide
    have hI1 : sImage ≠ sOutline := by decide
    have hI2 : sImage ≠ sAdvance := by decide
    have hI3 : sImage ≠ sUnicode := by decide
    have hI4 : sImage ≠ sAnchor := by decide
    have hI5 : sImage ≠ sGuideline := by decide
    have hI6 : sImage ≠ sNote := by decide
    have hA2 : sAdvance ≠ sNote := by decide
    cases it with
    | comment => cases hn
    | note a kids =>
      have : n = sNote := (Option.some.inj hn).symm
      subst this
      rcases hcase with h | h | h | h <;> exact absurd h (by decide)
    | lib a v inner =>
      have : n = sLib := (Option.some.inj hn).symm
      subst this
      have hf := hcs.lib.2 hc
      simp [Item.evs, run, step, hm, stepBody, hf, accepted]
    | outline a sc kids =>
      have : n = sOutline := (Option.some.inj hn).symm
      subst this
      have hf := hcs.outline.2 hc
      cases sc <;> simp [Item.evs, run, step, hm, stepBody, bodyEmpty, bodyStart, hf, accepted]
    | elem e =>
      have hen : e.name = n := Option.some.inj hn
      rcases hcase with h | h | h | h <;> subst h
      · have hf := hcs.adv.2 hc
        cases hsc : e.selfClosed <;>
          simp [Item.evs, Elem.evs, hsc, run, step, hm, stepBody, bodyEmpty, bodyStart, hen, hA, hA2, hf, accepted]
      · have hf := hcs.outline.2 hc
        cases hsc : e.selfClosed <;>
          simp [Item.evs, Elem.evs, hsc, run, step, hm, stepBody, bodyEmpty, bodyStart, hen, hf, accepted]
      · cases hsc : e.selfClosed <;>
          simp [Item.evs, Elem.evs, hsc, run, step, hm, stepBody, bodyEmpty, bodyStart, hen, hL1, hL2, hL3, hL4, hL5, hL6, hL7,
            accepted]
      · have hf := hcs.image.2 hc
        cases hsc : e.selfClosed
        · simp [Item.evs, Elem.evs, hsc, run, step, hm, stepBody, bodyStart, hen, hI1, hI6, accepted]
        · by_cases hv : s.ver = 1 <;>
            simp [Item.evs, Elem.evs, hsc, run, step, hm, stepBody, bodyEmpty, hen, hI1, hI2, hI3, hI4, hI5, hv, hf, accepted]
  | dupNote it hn hex =>
    have hf := hcs.noteLow hex
    have hN : sNote ≠ sOutline := by decide
    have hnb : bodyEmptyNames.contains sNote = false := by decide
    cases it with
    | comment => cases hn
    | lib a v inner => exact absurd (Option.some.inj hn) (by decide)
    | outline a sc kids => exact absurd (Option.some.inj hn) (by decide)
    | note a kids =>
      by_cases hv : s.ver = 1 <;> simp [Item.evs, run, step, hm, stepBody, bodyStart, hN, hv, hf, accepted]
    | elem e =>
      have hen : e.name = sNote := Option.some.inj hn
      cases hsc : e.selfClosed
      · by_cases hv : s.ver = 1 <;>
          simp [Item.evs, Elem.evs, hsc, run, step, hm, stepBody, bodyStart, hen, hN, hv, hf, accepted]
      · simp [Item.evs, Elem.evs, hsc, run, step, hm, stepBody, hen, bodyEmpty_unknown rd s e.attrs hnb, accepted]
  | attrSyntax e hb ha =>
    have hn1 : [sOutline, sNote].contains e.name = false := by
      simp only [bodyNames, List.contains_cons, List.contains_nil, Bool.or_false, Bool.or_eq_true, beq_iff_eq] at hb
      rcases hb with h | h | h | h | h <;> rw [h] <;> decide
    cases hsc : e.selfClosed
    · simp [Item.evs, Elem.evs, hsc, run, step, hm, stepBody, bodyStart_unknown s hn1, accepted]
    · simp only [bodyNames, List.contains_cons, List.contains_nil, Bool.or_false, Bool.or_eq_true, beq_iff_eq] at hb
      have e1 : step rd s (.empty e.name none) = bodyEmpty rd s e.name none := by simp [step, hm, stepBody]
      have e2 : ∃ k, bodyEmpty rd s e.name none = .error k := by
        rcases hb with h | h | h | h | h <;> rw [h] <;> unfold bodyEmpty <;> simp +decide <;> repeat' split
        all_goals first | exact ⟨_, rfl⟩ | skip
      obtain ⟨k, hk⟩ := e2
      simp [Item.evs, Elem.evs, hsc, ha, run, e1, hk, accepted]
  | elem e as hb ha hbad =>
    have hn1 : [sOutline, sNote].contains e.name = false := by
      simp only [bodyNames, List.contains_cons, List.contains_nil, Bool.or_false, Bool.or_eq_true, beq_iff_eq] at hb
      rcases hb with h | h | h | h | h <;> rw [h] <;> decide
    cases hsc : e.selfClosed
    · simp [Item.evs, Elem.evs, hsc, run, step, hm, stepBody, bodyStart_unknown s hn1, accepted]
    · have hbad' : ElemBad rd s.ver s.seen e.name as := by rw [hcs.ver]; exact ElemBad.congr hseen hbad
      obtain ⟨f1, f2, f3, f4, f5, _, _⟩ := elemBad_fails hbad'
      simp only [bodyNames, List.contains_cons, List.contains_nil, Bool.or_false, Bool.or_eq_true, beq_iff_eq] at hb
      have e1 : step rd s (.empty e.name (some as)) = bodyEmpty rd s e.name (some as) := by simp [step, hm, stepBody]
      have e2 : ∃ k, bodyEmpty rd s e.name (some as) = .error k := by
        rcases hb with h | h | h | h | h
        · rw [h]; unfold bodyEmpty; simp +decide [f1 h]; split <;> exact ⟨_, rfl⟩
        · rw [h]; unfold bodyEmpty; simp +decide [f2 h]
        · rw [h]; unfold bodyEmpty; simp +decide [f3 h]; split <;> exact ⟨_, rfl⟩
        · rw [h]; unfold bodyEmpty; simp +decide [f4 h]; split <;> exact ⟨_, rfl⟩
        · rw [h]; unfold bodyEmpty; simp +decide [f5 h]; repeat' split
          all_goals exact ⟨_, rfl⟩
      obtain ⟨k, hk⟩ := e2
      simp [Item.evs, Elem.evs, hsc, ha, run, e1, hk, accepted]
  | v1NoteElem e hv hn =>
    have hv1 : s.ver = 1 := by rw [hcs.ver, hv]
    have hnb : bodyEmptyNames.contains sNote = false := by decide
    have hN : sNote ≠ sOutline := by decide
    cases hsc : e.selfClosed
    · simp [Item.evs, Elem.evs, hsc, run, step, hm, stepBody, bodyStart, hn, hN, hv1, accepted]
    · simp [Item.evs, Elem.evs, hsc, run, step, hm, stepBody, hn, bodyEmpty_unknown rd s e.attrs hnb, accepted]
  | libElem e hn =>
    have hnb : bodyEmptyNames.contains sLib = false := by decide
    have hns : [sOutline, sNote].contains sLib = false := by decide
    cases hsc : e.selfClosed
    · simp [Item.evs, Elem.evs, hsc, run, step, hm, stepBody, hn, bodyStart_unknown s hns, accepted]
    · simp [Item.evs, Elem.evs, hsc, run, step, hm, stepBody, hn, bodyEmpty_unknown rd s e.attrs hnb, accepted]
  | outlineChild a kpre kbad kpost hk hbad =>
    by_cases hso : s.seenOutline = true
    · simp [Item.evs, run, step, hm, stepBody, bodyStart, hso, accepted]
    · have h1 : step rd s (.start sOutline a) = .ok (.inl { s with seenOutline := true, mode := .outline {} }) := by
        simp [step, hm, stepBody, bodyStart, hso, cont]
      simp only [Item.evs, List.cons_append, run, h1]
      rw [List.append_assoc]
      refine outline_kids_bad law kpre kbad kpost { s with seenOutline := true, mode := .outline {} } {} rfl ?_ ?_ _
      · have : OKidsClean rd s.ver s.seen kpre := by rw [hcs.ver]; exact hk.congr hseen
        exact this
      · have : OBad rd s.ver (s.seen ++ kpre.flatMap oitemIdents) kbad := by
          rw [hcs.ver]; exact OBad.congr (mem_append_congr hseen) hbad
        exact this

/-- **judge_bad_item_rejected**: a document whose items up to some position are `judge`-clean (and shaped) and whose next item
    is refused for one of the reasons of `BodyBad` — a second once-only element, an identifier already used, a missing
    required attribute, a malformed value, an illegal contour, anything unknown in the body, the outline or a contour — is
    rejected by the parser.  The clean prefix is used through the EXACT state it leaves (`CleanState`). -/
theorem judge_bad_item_rejected (law : ReadsNumerals rd) {d : Doc} {pre post : List Item} {bad : Item} {ver : Nat}
    (hitems : d.items = pre ++ bad :: post)
    (hpre : judge rd { d with items := pre } = ([], false)) (hs : Shaped { d with items := pre })
    (hver : (docVersion d).1 = some ver) (hbad : BodyBad rd ver pre bad) :
    accepted (parseGlif rd (Spec.flatten d)) = false := by
  obtain ⟨as, name, ver', s', has, hparse, hv', hr, hcs⟩ := clean_items_reach law hpre hs
  have hvv : ver' = ver := by
    have : (docVersion { d with items := pre }).1 = (docVersion d).1 := rfl
    rw [this, hver] at hv'
    exact (Option.some.inj hv').symm
  subst hvv
  have hga : d.gattrs = some as := has
  have hopen : d.gSelfClosed = false := hs.glyphOpen
  unfold parseGlif Spec.flatten
  simp only [hopen, hga, Bool.false_eq_true, if_false, List.append_assoc, List.cons_append]
  rw [scanStart_prolog _ _ hs.prolog]
  simp only [scanStart, if_true, hparse, hitems, List.flatMap_append, List.flatMap_cons, List.append_assoc]
  rw [run_of_reach rd hr]
  exact bodybad_rejected law hcs hbad _
end
end Glif
