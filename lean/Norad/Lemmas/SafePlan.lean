import Norad.Lemmas.Inplace
/-!
The plan of a font with safe relative paths in normal form (`planN`), and the theorems about running it:
frame, equal sub-trees from any two starting states, the kinds of the paths that exist afterwards.
-/
namespace FontSave
open AbsFS
open Path (Comp)

variable {β : Type}

/-! ### joining a safe relative path -/

theorem comps_of_allNormal (p : Path.P) (h : p.allNormal = true) : p.comps = tC (namesOf p) := by
  unfold Path.P.allNormal at h
  unfold namesOf tC
  generalize p.comps = cs at h ⊢
  induction cs with
  | nil => rfl
  | cons c r ih =>
    simp only [List.all_cons, Bool.and_eq_true] at h
    cases c with
    | normal s => simp only [List.filterMap, List.map]; rw [← ih h.2]
    | cur => simp at h
    | parent => simp at h

theorem joinRel_safe (base : List Comp) (p : Path.P) (h : safeRel p = true) :
    joinRel base p = base ++ tC (namesOf p) := by
  unfold safeRel at h
  simp only [Bool.and_eq_true, Bool.not_eq_true'] at h
  obtain ⟨⟨habs, hne⟩, hall⟩ := h
  have hc := comps_of_allNormal p hall
  unfold joinRel
  simp only [habs, Bool.false_eq_true, if_false]
  congr 1
  rw [← hc]
  cases hpc : p.comps with
  | nil => rfl
  | cons c r =>
    cases c with
    | normal s => rfl
    | cur =>
      unfold Path.P.allNormal at hall
      rw [hpc] at hall; simp at hall
    | parent => rfl

theorem namesOf_ne_nil (p : Path.P) (h : safeRel p = true) : namesOf p ≠ [] := by
  unfold safeRel at h
  simp only [Bool.and_eq_true, Bool.not_eq_true'] at h
  obtain ⟨⟨_, hne⟩, hall⟩ := h
  have hc := comps_of_allNormal p hall
  intro hn
  rw [hn] at hc
  simp only [tC, List.map] at hc
  rw [hc] at hne
  simp at hne

/-! ### the plan in normal form -/

def planGlyphN (cfg : Cfg β) (ld : APath) (e : AEntry) : List (NEff β) :=
  match e.glyph with
  | none => [.fail .panic]
  | some g =>
    if g.encodable then [.write (ld ++ namesOf (Path.parse e.file)) (cfg.render (.glif g.tok))]
    else [.fail .serialise]

def planLayerN (cfg : Cfg β) (t : APath) (l : ALayer) : List (NEff β) :=
  let ld := t ++ namesOf (Path.parse l.dir)
  [.mkdir ld, .write (ld ++ [contentsFile.toList]) (cfg.render (.contents (l.entries.map fun e => (e.name, e.file))))] ++
  (if l.info = 0 then [] else [.write (ld ++ [layerinfoFile.toList]) (cfg.render (.layerinfo l.info))]) ++
  l.entries.flatMap (planGlyphN cfg ld)

def planDataItemN (t : APath) (kb : Path.P × β) : List (NEff β) :=
  [.mkdirAll (t ++ ["data".toList] ++ namesOf kb.1).dropLast, .write (t ++ ["data".toList] ++ namesOf kb.1) kb.2]

def planImagesN (t : APath) (items : List (Path.P × β)) : List (NEff β) :=
  if items.isEmpty then []
  else .mkdir (t ++ ["images".toList]) :: items.map fun kb => .write (t ++ ["images".toList] ++ namesOf kb.1) kb.2

def topN (t : APath) (name : String) (b : β) : NEff β := .write (t ++ [name.toList]) b

def planFontinfoN (cfg : Cfg β) (t : APath) (i : AInfo) : List (NEff β) :=
  if i.isEmpty then []
  else if i.serialisable then [topN t "fontinfo.plist" (cfg.render (.fontinfo i))]
  else [topN t "fontinfo.plist" (cfg.render .truncated), .fail .serialise]

def planLibN (cfg : Cfg β) (t : APath) (f : AFont β) : List (NEff β) :=
  match dumpObjectLibs f.info.guides with
  | none => [.fail .panic]
  | some ol =>
    if f.lib.isEmpty && ol.isEmpty then [] else [topN t "lib.plist" (cfg.render (.lib f.lib ol))]

def planOptN (t : APath) (name : String) (tok : Nat) (b : β) : List (NEff β) :=
  if tok = 0 then [] else [topN t name b]

/-- everything after `mkdir t` -/
def planRestN (cfg : Cfg β) (f : AFont β) (d i : List (Path.P × β)) (t : APath) : List (NEff β) :=
  [topN t "metainfo.plist" (cfg.render (.metainfo f.metaTok))] ++
  planFontinfoN cfg t f.info ++
  planLibN cfg t f ++
  planOptN t "groups.plist" f.groups (cfg.render (.groups f.groups)) ++
  planOptN t "kerning.plist" f.kerning (cfg.render (.kerning f.kerning)) ++
  planOptN t "features.fea" f.features (cfg.render (.features f.features)) ++
  [topN t "layercontents.plist" (cfg.render (.layercontents (f.layers.map fun l => (l.name, l.dir))))] ++
  f.layers.flatMap (planLayerN cfg t) ++
  d.flatMap (planDataItemN t) ++
  planImagesN t i

def planN (cfg : Cfg β) (f : AFont β) (d i : List (Path.P × β)) (t : APath) : List (NEff β) :=
  .mkdir t :: planRestN cfg f d i t

theorem top_toEff (t : APath) (name : String) (b : β) :
    (topN t name b).toEff = Eff.write (sub t name) b := by
  simp [topN, NEff.toEff, sub_eq]

theorem fail_toEff (e : SaveErr) : (NEff.fail e : NEff β).toEff = Eff.fail e := rfl

theorem flatMap_map_congr {α : Type} (l : List α) (g : α → List (Eff β)) (gN : α → List (NEff β))
    (h : ∀ a ∈ l, g a = (gN a).map NEff.toEff) : l.flatMap g = (l.flatMap gN).map NEff.toEff := by
  induction l with
  | nil => rfl
  | cons a r ih =>
    simp only [List.flatMap_cons, List.map_append]
    rw [h a (List.mem_cons_self ..), ih (fun x hx => h x (List.mem_cons_of_mem _ hx))]

theorem planLayer_normal (cfg : Cfg β) (t : APath) (l : ALayer)
    (hd : safeRel (Path.parse l.dir) = true) (he : ∀ e ∈ l.entries, safeRel (Path.parse e.file) = true) :
    planLayer cfg t l = (planLayerN cfg t l).map NEff.toEff := by
  unfold planLayer planLayerN
  simp only [joinRel_safe _ _ hd]
  have hld : tC t ++ tC (namesOf (Path.parse l.dir)) = tC (t ++ namesOf (Path.parse l.dir)) := (tC_append _ _).symm
  rw [hld]
  have hg : l.entries.flatMap (planGlyph cfg (tC (t ++ namesOf (Path.parse l.dir)))) =
      (l.entries.flatMap (planGlyphN cfg (t ++ namesOf (Path.parse l.dir)))).map NEff.toEff := by
    apply flatMap_map_congr
    intro e hem
    unfold planGlyph planGlyphN
    cases e.glyph with
    | none => rfl
    | some g =>
      by_cases hen : g.encodable = true
      · simp [hen, NEff.toEff, joinRel_safe _ _ (he e hem), tC_append]
      · simp [hen, NEff.toEff]
  rw [hg]
  by_cases hi : l.info = 0 <;> simp [hi, NEff.toEff, tC]

theorem planDataItem_safe (t : APath) (kb : Path.P × β) (h : safeRel kb.1 = true) :
    planDataItem t kb = (planDataItemN t kb).map NEff.toEff := by
  unfold planDataItem planDataItemN
  simp only [joinRel_safe _ _ h, sub_eq, List.map, NEff.toEff]
  simp [tC, List.map_dropLast]

theorem planImages_safe (t : APath) (items : List (Path.P × β)) (h : ∀ kb ∈ items, safeRel kb.1 = true) :
    planImages t items = (planImagesN t items).map NEff.toEff := by
  unfold planImages planImagesN
  by_cases he : items.isEmpty = true
  · simp [he]
  · simp only [he, Bool.false_eq_true, if_false, List.map, NEff.toEff, sub_eq, List.map_map]
    congr 1
    apply List.map_congr_left
    intro kb hkb
    simp [NEff.toEff, joinRel_safe _ _ (h kb hkb), tC]

theorem plan_normal (cfg : Cfg β) (f : AFont β) (d i : List (Path.P × β)) (t : APath)
    (hs : safePaths f = true) (hd : ∀ kb ∈ d, safeRel kb.1 = true) (hi : ∀ kb ∈ i, safeRel kb.1 = true) :
    plan cfg f d i t = (planN cfg f d i t).map NEff.toEff := by
  unfold safePaths at hs
  simp only [Bool.and_eq_true, List.all_eq_true] at hs
  obtain ⟨⟨hl, _⟩, _⟩ := hs
  have e1 : f.layers.flatMap (planLayer cfg t) = (f.layers.flatMap (planLayerN cfg t)).map NEff.toEff :=
    flatMap_map_congr _ _ _ (fun l hlm => planLayer_normal cfg t l (hl l hlm).1 (hl l hlm).2)
  have e2 : d.flatMap (planDataItem t) = (d.flatMap (planDataItemN t)).map NEff.toEff :=
    flatMap_map_congr _ _ _ (fun kb hkb => planDataItem_safe t kb (hd kb hkb))
  have e3 := planImages_safe t i hi
  have e4 : planFontinfo cfg t f.info = (planFontinfoN cfg t f.info).map NEff.toEff := by
    unfold planFontinfo planFontinfoN
    by_cases h1 : f.info.isEmpty = true
    · simp [h1]
    · by_cases h2 : f.info.serialisable = true <;> simp [h1, h2, top_toEff, fail_toEff]
  have e5 : planLib cfg t f = (planLibN cfg t f).map NEff.toEff := by
    unfold planLib planLibN
    cases dumpObjectLibs f.info.guides with
    | none => rfl
    | some ol => by_cases h1 : (f.lib.isEmpty && ol.isEmpty) = true <;> simp [h1, top_toEff]
  have e6 : ∀ name tok (b : β), planOpt t name tok b = (planOptN t name tok b).map NEff.toEff := by
    intro name tok b
    unfold planOpt planOptN
    by_cases h1 : tok = 0 <;> simp [h1, top_toEff]
  unfold plan planN planRestN
  rw [e1, e2, e3, e4, e5, e6, e6, e6]
  simp only [List.map_append, List.map_cons, List.map_nil, top_toEff, List.cons_append, List.nil_append]
  rfl

/-- the keys of a forced list are keys of the store -/
theorem forced_keys {cfg : Cfg β} {kind : StoreKind} {fs : FS β} {s : Store β} {d : List (Path.P × β)}
    (h : forceStore cfg kind fs s = some d) : ∀ kb ∈ d, ∃ c, (kb.1, c) ∈ s.items := by
  intro kb hkb
  obtain ⟨p1, _⟩ := forceList_spec h
  obtain ⟨c, hc, _⟩ := p1 kb.1 kb.2 hkb
  exact ⟨c, hc⟩

/-! ### every effect of the plan names a path at or below the target -/

def UnderT (t : APath) (e : NEff β) : Prop := e.path = [] ∨ t <+: e.path

theorem planRestN_under (cfg : Cfg β) (f : AFont β) (d i : List (Path.P × β)) (t : APath)
    (hd : ∀ kb ∈ d, safeRel kb.1 = true) :
    ∀ e ∈ planRestN cfg f d i t, UnderT t e := by
  have hpre : ∀ x : APath, t <+: t ++ x := fun x => List.prefix_append _ _
  have htop : ∀ name (b : β), UnderT t (topN t name b) := fun name b => Or.inr (hpre _)
  intro e he
  unfold planRestN at he
  simp only [List.mem_append, List.mem_singleton, List.mem_flatMap] at he
  rcases he with ((((((((he | he) | he) | he) | he) | he) | he) | he) | he) | he
  · subst he; exact htop _ _
  · unfold planFontinfoN at he
    split at he
    · cases he
    · split at he
      · simp only [List.mem_singleton] at he; subst he; exact htop _ _
      · simp only [List.mem_cons, List.mem_singleton, List.not_mem_nil, or_false] at he
        rcases he with he | he
        · subst he; exact htop _ _
        · subst he; exact Or.inl rfl
  · unfold planLibN at he
    split at he
    · simp only [List.mem_singleton] at he; subst he; exact Or.inl rfl
    · split at he
      · cases he
      · simp only [List.mem_singleton] at he; subst he; exact htop _ _
  · unfold planOptN at he; split at he
    · cases he
    · simp only [List.mem_singleton] at he; subst he; exact htop _ _
  · unfold planOptN at he; split at he
    · cases he
    · simp only [List.mem_singleton] at he; subst he; exact htop _ _
  · unfold planOptN at he; split at he
    · cases he
    · simp only [List.mem_singleton] at he; subst he; exact htop _ _
  · subst he; exact htop _ _
  · obtain ⟨l, _, hel⟩ := he
    unfold planLayerN at hel
    simp only [List.mem_append, List.mem_cons, List.mem_singleton, List.not_mem_nil, or_false, List.mem_flatMap] at hel
    rcases hel with ((hel | hel) | hel) | hel
    · subst hel; exact Or.inr (hpre _)
    · subst hel; exact Or.inr (by simp only [NEff.path, List.append_assoc]; exact hpre _)
    · split at hel
      · cases hel
      · simp only [List.mem_singleton] at hel; subst hel
        exact Or.inr (by simp only [NEff.path, List.append_assoc]; exact hpre _)
    · obtain ⟨en, _, hg⟩ := hel
      unfold planGlyphN at hg
      split at hg
      · simp only [List.mem_singleton] at hg; subst hg; exact Or.inl rfl
      · split at hg
        · simp only [List.mem_singleton] at hg; subst hg
          exact Or.inr (by simp only [NEff.path, List.append_assoc]; exact hpre _)
        · simp only [List.mem_singleton] at hg; subst hg; exact Or.inl rfl
  · obtain ⟨kb, hkb, hel⟩ := he
    unfold planDataItemN at hel
    simp only [List.mem_cons, List.mem_singleton, List.not_mem_nil, or_false] at hel
    rcases hel with hel | hel
    · subst hel
      right
      simp only [NEff.path]
      have hne := namesOf_ne_nil kb.1 (hd kb hkb)
      rw [List.dropLast_append_of_ne_nil hne]
      simp only [List.append_assoc]; exact hpre _
    · subst hel; exact Or.inr (by simp only [NEff.path, List.append_assoc]; exact hpre _)
  · unfold planImagesN at he
    split at he
    · cases he
    · simp only [List.mem_cons, List.mem_map] at he
      rcases he with he | ⟨kb, _, he⟩
      · subst he; exact Or.inr (hpre _)
      · subst he; exact Or.inr (by simp only [NEff.path, List.append_assoc]; exact hpre _)

end FontSave

namespace FontSave
open AbsFS
open Path (Comp)

variable {β : Type}

/-! ### the wipe -/

theorem removeDirAll_tC {fs fs1 : FS β} {t : APath} (h : removeDirAll fs (tC t) = .ok fs1) :
    t ≠ [] ∧ fs1 = removeAll fs t := by
  rcases List.eq_nil_or_concat t with rfl | ⟨l', s, rfl⟩ <;> try simp only [List.concat_eq_append] at *
  · simp [tC, removeDirAll, locate] at h
  · unfold removeDirAll at h
    have h' : (match locate fs ((l' ++ [s]).map Comp.normal) with
      | .error e => .error e
      | .ok (_, true) => .error .invalidInput
      | .ok (p, false) =>
        match node fs p with
        | none => .error .notFound
        | some (.file _) => .error .notADirectory
        | some .dir => .ok (removeAll fs p)) = Except.ok fs1 := h
    cases hl : locate fs ((l' ++ [s]).map Comp.normal) with
    | error e => rw [hl] at h'; simp at h'
    | ok pb =>
      obtain ⟨p, b⟩ := pb
      obtain ⟨rfl, rfl, _⟩ := locate_normal hl
      rw [hl] at h'
      simp only at h'
      cases hn : node fs (l' ++ [s]) with
      | none => simp [hn] at h'
      | some n =>
        cases n with
        | file c => simp [hn] at h'
        | dir => simp [hn] at h'; exact ⟨by simp, h'.symm⟩

theorem wipe_frame {fs fs1 : FS β} {t : APath} (h : wipe fs t = .ok fs1) :
    ∀ q, ¬ t <+: q → lookup fs1 q = lookup fs q := by
  intro q hq
  unfold wipe at h
  split at h
  · obtain ⟨_, rfl⟩ := removeDirAll_tC h
    rw [lookup_removeAll]
    have : ¬ t.isPrefixOf q = true := fun e => hq (List.isPrefixOf_iff_prefix.mp e)
    simp [this]
  · cases h; rfl

/-- after the wipe and a successful `mkdir t` nothing but `t` itself exists at or below `t` -/
theorem wipe_mkdir_clean {fs fs1 fs2 : FS β} {t : APath} (hwf : WF fs) (h : wipe fs t = .ok fs1)
    (hm : mkdir fs1 (tC t) = .ok fs2) :
    ∀ q, t <+: q → lookup fs2 q = if t = q then some .dir else none := by
  intro q hq
  obtain ⟨hne, hnone, rfl, _⟩ := mkdir_tC hm
  rw [lookup_set]
  by_cases htq : t = q
  · simp [htq]
  · simp only [htq, if_false]
    unfold wipe at h
    split at h
    · obtain ⟨_, rfl⟩ := removeDirAll_tC h
      rw [lookup_removeAll]
      simp [List.isPrefixOf_iff_prefix.mpr hq]
    · cases h
      cases hl : lookup fs q with
      | none => rfl
      | some n =>
        have := hwf q (by simp [hl]) t hq htq
        rw [isDir_iff, hnone] at this
        cases this

/-! ### frame -/

theorem prefix_snoc_cases {α : Type} {m l : List α} {s : α} (h : m <+: l ++ [s]) : m = l ++ [s] ∨ m <+: l :=
  List.prefix_concat_iff.mp h

theorem runEff_frame_step (t : APath) (e : NEff β) (he : UnderT t e) (g : FS β)
    (hdirs : ∀ m, m <+: t → m ≠ [] → isDir g m = true) :
    ∀ q, ¬ t <+: q → lookup (runEff e.toEff g).2 q = lookup g q := by
  intro q hq
  apply Classical.byContradiction
  intro hc
  obtain ⟨h1, h2, h3⟩ := runEff_changes e g q hc
  rcases he with he | he
  · rw [he] at h1; exact h2 (List.prefix_nil.mp h1)
  · rcases List.prefix_or_prefix_of_prefix he h1 with h4 | h4
    · exact hq h4
    · rcases h3 with h3 | h3
      · rw [h3] at hq; exact hq he
      · have := hdirs q h4 h2
        rw [isDir_iff, h3] at this; cases this

theorem runN_frame (t : APath) (es : List (NEff β)) (hes : ∀ e ∈ es, UnderT t e) (g : FS β)
    (hdirs : ∀ m, m <+: t → m ≠ [] → isDir g m = true) :
    ∀ q, ¬ t <+: q → lookup (runN es g).2 q = lookup g q := by
  have := runN_induction
    (fun x => (∀ m, m <+: t → m ≠ [] → isDir x m = true) ∧ ∀ q, ¬ t <+: q → lookup x q = lookup g q) es
    (fun e he x hx => ⟨fun m hm hmne => runEff_keeps_dir e x m (hx.1 m hm hmne),
      fun q hq => (runEff_frame_step t e (hes e he) x hx.1 q hq).trans (hx.2 q hq)⟩)
    g ⟨hdirs, fun _ _ => rfl⟩
  exact this.2

theorem mkdir_t_dirs {g g2 : FS β} {t : APath} (hm : mkdir g (tC t) = .ok g2) :
    ∀ m, m <+: t → m ≠ [] → isDir g2 m = true := by
  obtain ⟨hne, _, rfl, hd⟩ := mkdir_tC hm
  intro m hmt hmne
  rw [isDir_iff, node_set _ _ _ _ hne]
  by_cases e : t = m
  · simp [e]
  · simp only [e, if_false]
    rw [← isDir_iff]
    apply hd m _ hmne
    rcases List.eq_nil_or_concat t with rfl | ⟨l', s, rfl⟩ <;> try simp only [List.concat_eq_append] at *
    · exact absurd rfl hne
    · rcases prefix_snoc_cases hmt with h | h
      · exact absurd h.symm e
      · simpa using h

/-- running the normal plan changes nothing outside the target, whatever the outcome -/
theorem planN_frame (cfg : Cfg β) (f : AFont β) (d i : List (Path.P × β)) (t : APath)
    (hd : ∀ kb ∈ d, safeRel kb.1 = true) (g : FS β) :
    ∀ q, ¬ t <+: q → lookup (runN (planN cfg f d i t) g).2 q = lookup g q := by
  intro q hq
  unfold planN runN
  simp only [List.map, runEffs, NEff.toEff, runEff]
  cases hm : mkdir g (tC t) with
  | error x => rfl
  | ok g2 =>
    simp only
    obtain ⟨_, _, hset, _⟩ := mkdir_tC hm
    have h2 := runN_frame t (planRestN cfg f d i t) (planRestN_under cfg f d i t hd) g2 (mkdir_t_dirs hm) q hq
    unfold runN at h2
    rw [h2, hset]
    exact lookup_set_ne g _ (fun e => hq (e ▸ List.prefix_refl _))

/-! ### two runs of the same normal plan agree below the target -/

theorem runEff_agree_step (t : APath) (e : NEff β) {gA gA' gB gB' : FS β}
    (hA : runEff e.toEff gA = (none, gA')) (hB : runEff e.toEff gB = (none, gB'))
    (hag : ∀ q, t <+: q → lookup gA q = lookup gB q) :
    ∀ q, t <+: q → lookup gA' q = lookup gB' q := by
  intro q hq
  cases e with
  | mkdir l =>
    simp only [NEff.toEff, runEff] at hA hB
    cases h1 : mkdir gA (tC l) with
    | error x => simp [h1] at hA
    | ok a =>
      cases h2 : mkdir gB (tC l) with
      | error x => simp [h2] at hB
      | ok b =>
        simp only [h1] at hA; simp only [h2] at hB
        cases hA; cases hB
        obtain ⟨_, _, rfl, _⟩ := mkdir_tC h1
        obtain ⟨_, _, rfl, _⟩ := mkdir_tC h2
        simp only [lookup_set]
        split
        · rfl
        · exact hag q hq
  | write l c =>
    simp only [NEff.toEff, runEff] at hA hB
    cases h1 : writeFile gA (tC l) c with
    | error x => simp [h1] at hA
    | ok a =>
      cases h2 : writeFile gB (tC l) c with
      | error x => simp [h2] at hB
      | ok b =>
        simp only [h1] at hA; simp only [h2] at hB
        cases hA; cases hB
        obtain ⟨_, _, rfl, _⟩ := writeFile_tC h1
        obtain ⟨_, _, rfl, _⟩ := writeFile_tC h2
        simp only [lookup_set]
        split
        · rfl
        · exact hag q hq
  | mkdirAll l =>
    have eA : gA' = (mkdirAll gA (tC l)).1 := by
      rw [← runEff_mkdirAll_snd]; simp only [NEff.toEff] at hA; rw [hA]
    have eB : gB' = (mkdirAll gB (tC l)).1 := by
      rw [← runEff_mkdirAll_snd]; simp only [NEff.toEff] at hB; rw [hB]
    have okA : (mkdirAll gA (tC l)).2 = none := by
      simp only [NEff.toEff, runEff] at hA
      generalize mkdirAll gA (tC l) = r at hA
      obtain ⟨x, o⟩ := r
      cases o with
      | none => rfl
      | some y => simp at hA
    have okB : (mkdirAll gB (tC l)).2 = none := by
      simp only [NEff.toEff, runEff] at hB
      generalize mkdirAll gB (tC l) = r at hB
      obtain ⟨x, o⟩ := r
      cases o with
      | none => rfl
      | some y => simp at hB
    subst eA; subst eB
    by_cases hpre : q <+: l ∧ q ≠ []
    · have dA := mkdirAll_tC_dirs gA l okA q hpre.1 hpre.2
      have dB := mkdirAll_tC_dirs gB l okB q hpre.1 hpre.2
      rw [isDir_iff, node_of_ne_nil _ hpre.2] at dA dB
      rw [dA, dB]
    · have uA : lookup (mkdirAll gA (tC l)).1 q = lookup gA q := by
        apply Classical.byContradiction
        intro hc
        obtain ⟨a, b, _, _⟩ := mkdirAll_tC_changes gA l q hc
        exact hpre ⟨a, b⟩
      have uB : lookup (mkdirAll gB (tC l)).1 q = lookup gB q := by
        apply Classical.byContradiction
        intro hc
        obtain ⟨a, b, _, _⟩ := mkdirAll_tC_changes gB l q hc
        exact hpre ⟨a, b⟩
      rw [uA, uB]; exact hag q hq
  | fail x => simp [NEff.toEff, runEff] at hA

theorem runN_agree (t : APath) (es : List (NEff β)) :
    ∀ {gA gA' gB gB' : FS β}, runN es gA = (none, gA') → runN es gB = (none, gB') →
    (∀ q, t <+: q → lookup gA q = lookup gB q) → ∀ q, t <+: q → lookup gA' q = lookup gB' q := by
  induction es with
  | nil =>
    intro gA gA' gB gB' hA hB hag
    simp only [runN, List.map, runEffs] at hA hB
    cases hA; cases hB; exact hag
  | cons e r ih =>
    intro gA gA' gB gB' hA hB hag
    simp only [runN, List.map, runEffs] at hA hB
    generalize hrA : runEff e.toEff gA = resA at hA
    generalize hrB : runEff e.toEff gB = resB at hB
    obtain ⟨oA, xA⟩ := resA
    obtain ⟨oB, xB⟩ := resB
    cases oA with
    | some y => simp at hA
    | none =>
      cases oB with
      | some y => simp at hB
      | none =>
        simp only at hA hB
        exact ih hA hB (runEff_agree_step t e hrA hrB hag)

end FontSave
