import Norad.Spec.C11
/-! Helper lemmas for C11 (may be edited freely; the property theorems live in `Props/C11.lean`). -/
namespace C11


@[simp] theorem trailOffs_nil : trailOffs [] = 0 := rfl

theorem trailOffs_snoc (l : List Pt) (p : Pt) :
    trailOffs (l ++ [p]) = if p.typ = .off then trailOffs l + 1 else 0 := by
  simp only [trailOffs, List.reverse_append, List.reverse_cons, List.reverse_nil, List.nil_append,
    List.singleton_append, List.takeWhile_cons]
  split <;> simp_all

theorem trailOffs_append_cons (x a : List Pt) (p : Pt) :
    trailOffs (x ++ p :: a) = trailOffs ((x ++ [p]) ++ a) := by simp

theorem takeWhile_append_all {α} (p : α → Bool) (r y : List α) (h : ∀ q ∈ r, p q = true) :
    (r ++ y).takeWhile p = r ++ y.takeWhile p := by
  induction r with
  | nil => simp
  | cons c cs ih =>
    have hc := h c (by simp)
    simp [hc, ih (fun q hq => h q (by simp [hq]))]

theorem takeWhile_append_notall {α} (p : α → Bool) (r y : List α) (h : ∃ q ∈ r, p q = false) :
    (r ++ y).takeWhile p = r.takeWhile p := by
  induction r with
  | nil => simp at h
  | cons c cs ih =>
    by_cases hc : p c = true
    · obtain ⟨q, hq, hqp⟩ := h
      have : ∃ q ∈ cs, p q = false := by
        simp at hq; rcases hq with rfl | hq
        · simp [hc] at hqp
        · exact ⟨q, hq, hqp⟩
      simp [List.takeWhile_cons, hc, ih this]
    · simp [List.takeWhile_cons, hc]

/-- appending a block of off-curves only -/
theorem trailOffs_append_offs (x a : List Pt) (h : ∀ q ∈ a, q.typ = .off) :
    trailOffs (x ++ a) = trailOffs x + a.length := by
  unfold trailOffs
  rw [List.reverse_append, takeWhile_append_all]
  · simp; omega
  · intro q hq; simp at hq; simp [h q hq]

/-- appending something that contains a non-off point: only the appended part matters -/
theorem trailOffs_append_nonoff (x a : List Pt) (h : ∃ q ∈ a, q.typ ≠ .off) :
    trailOffs (x ++ a) = trailOffs a := by
  unfold trailOffs
  rw [List.reverse_append, takeWhile_append_notall]
  obtain ⟨q, hq, hqo⟩ := h
  exact ⟨q, by simp [hq], by simp [hqo]⟩

theorem addPoint_ok_iff (pre : List Pt) (p : Pt) :
    (∃ n, addPoint pre.isEmpty (trailOffs pre) p = .ok n) ↔ pointOK pre p := by
  unfold addPoint pointOK
  cases hp : p.typ <;> simp
  · cases pre <;> simp
  · constructor
    · intro ⟨n, h⟩; split at h <;> simp_all
    · intro h; simp [h]
  · cases p.smooth <;> simp
  · constructor
    · intro ⟨n, h⟩; split at h <;> simp_all
    · intro h; refine ⟨0, ?_⟩; split <;> simp_all; omega

theorem addPoint_ok_val (pre : List Pt) (p : Pt) (n : Nat)
    (h : addPoint pre.isEmpty (trailOffs pre) p = .ok n) : n = trailOffs (pre ++ [p]) := by
  rw [trailOffs_snoc]
  unfold addPoint at h
  cases hp : p.typ <;> simp [hp] at h ⊢
  · split at h <;> simp_all
  · split at h <;> simp_all
  · split at h <;> simp_all
  · split at h <;> simp_all
  · exact h.symm

theorem feed_spec (l pre : List Pt) :
    (∃ n, feed l pre.isEmpty (trailOffs pre) = .ok n) ↔
    (∀ a p b, l = a ++ p :: b → pointOK (pre ++ a) p) := by
  induction l generalizing pre with
  | nil => simp [feed]
  | cons q qs ih =>
    have key := ih (pre ++ [q])
    have hne : (pre ++ [q]).isEmpty = false := by cases pre <;> simp
    rw [hne] at key
    constructor
    · rintro ⟨n, hf⟩ a p b hab
      simp only [feed] at hf
      cases hq : addPoint pre.isEmpty (trailOffs pre) q with
      | error e => simp [hq] at hf
      | ok n' =>
        simp only [hq] at hf
        have hn' := addPoint_ok_val pre q n' hq
        cases a with
        | nil =>
          simp at hab; obtain ⟨rfl, rfl⟩ := hab
          simpa using (addPoint_ok_iff pre q).1 ⟨n', hq⟩
        | cons a0 as =>
          simp at hab; obtain ⟨rfl, rfl⟩ := hab
          have := (key.1 ⟨n, by rw [← hn']; exact hf⟩) as p b rfl
          simpa using this
    · intro h
      have h0 : pointOK pre q := by simpa using h [] q qs rfl
      obtain ⟨n', hq⟩ := (addPoint_ok_iff pre q).2 h0
      have hn' := addPoint_ok_val pre q n' hq
      have : ∃ n, feed qs false (trailOffs (pre ++ [q])) = .ok n := by
        apply key.2
        intro a p b hab
        have := h (q :: a) p b (by simp [hab])
        simpa using this
      obtain ⟨n, hn⟩ := this
      exact ⟨n, by simp only [feed, hq]; rw [hn']; exact hn⟩

/-- when feeding succeeds the final state is the trailing off-curve count -/
theorem feed_val (l pre : List Pt) (n : Nat)
    (h : feed l pre.isEmpty (trailOffs pre) = .ok n) : n = trailOffs (pre ++ l) := by
  induction l generalizing pre with
  | nil => simp [feed] at h; simp [h]
  | cons q qs ih =>
    simp only [feed] at h
    cases hq : addPoint pre.isEmpty (trailOffs pre) q with
    | error e => simp [hq] at h
    | ok n' =>
      simp only [hq] at h
      have hn' := addPoint_ok_val pre q n' hq
      have hne : (pre ++ [q]).isEmpty = false := by cases pre <;> simp
      have := ih (pre ++ [q]) (by rw [hne, ← hn']; exact h)
      simpa using this

theorem feed_top (pts : List Pt) :
    (∃ n, feed pts true 0 = .ok n) ↔ LinearOK pts := by
  have := feed_spec pts []
  simpa [LinearOK] using this

theorem feed_top_val (pts : List Pt) (n : Nat) (h : feed pts true 0 = .ok n) : n = trailOffs pts := by
  have := feed_val pts [] n (by simpa using h)
  simpa using this

/-- `wrap` walks the leading off-curves; characterise it by the first non-off point -/
theorem wrap_spec (l : List Pt) (n : Nat) (hmove : ∀ q ∈ l, q.typ ≠ .move) :
    (wrap l n = .ok ()) ↔
    (∀ a p b, l = a ++ p :: b → (∀ q ∈ a, q.typ = .off) →
        (p.typ ≠ .line) ∧ (p.typ = .curve → n + a.length ≤ 2)) := by
  induction l generalizing n with
  | nil => simp [wrap]
  | cons q qs ih =>
    have hq := hmove q (by simp)
    have ih' := ih (n + 1) (fun r hr => hmove r (by simp [hr]))
    -- splits of `q :: qs` : either `a = []`, or `a = q :: a'` with a split of `qs`
    have hsplit : ∀ a p b, q :: qs = a ++ p :: b →
        (a = [] ∧ p = q ∧ b = qs) ∨ (∃ a', a = q :: a' ∧ qs = a' ++ p :: b) := by
      intro a p b hab
      cases a with
      | nil => left; simp at hab; exact ⟨rfl, hab.1.symm, hab.2.symm⟩
      | cons a0 as => right; simp at hab; exact ⟨as, by rw [hab.1], hab.2⟩
    unfold wrap
    cases ht : q.typ with
    | move => exact absurd ht hq
    | off =>
      simp only
      rw [ih']
      constructor
      · intro h a p b hab haoff
        rcases hsplit a p b hab with ⟨rfl, rfl, rfl⟩ | ⟨a', rfl, hqs⟩
        · simp [ht]
        · have := h a' p b hqs (fun r hr => haoff r (by simp [hr]))
          refine ⟨this.1, fun hc => ?_⟩
          have := this.2 hc
          simp only [List.length_cons]; omega
      · intro h a p b hab haoff
        have := h (q :: a) p b (by simp [hab])
          (by intro r hr; simp at hr; rcases hr with rfl | hr; exact ht; exact haoff r hr)
        refine ⟨this.1, fun hc => ?_⟩
        have := this.2 hc
        simp only [List.length_cons] at this; omega
    | qcurve =>
      simp only [true_iff]
      intro a p b hab haoff
      rcases hsplit a p b hab with ⟨rfl, rfl, rfl⟩ | ⟨a', rfl, hqs⟩
      · simp [ht]
      · have := haoff q (by simp); simp [ht] at this
    | curve =>
      simp only
      constructor
      · intro h a p b hab haoff
        rcases hsplit a p b hab with ⟨rfl, rfl, rfl⟩ | ⟨a', rfl, hqs⟩
        · refine ⟨by simp [ht], fun _ => ?_⟩
          split at h
          · simp at h
          · simp; omega
        · have := haoff q (by simp); simp [ht] at this
      · intro h
        have := (h [] q qs rfl (by simp)).2 ht
        simp at this
        split
        · omega
        · rfl
    | line =>
      simp only [reduceCtorEq, false_iff]
      intro h
      exact (h [] q qs rfl (by simp)).1 ht

theorem closed_no_move (pts : List Pt) (hc : isClosed pts = true) (hl : LinearOK pts) :
    ∀ q ∈ pts, q.typ ≠ .move := by
  intro q hq hm
  obtain ⟨a, b, rfl⟩ := List.append_of_mem hq
  have := (hl a q b rfl).1 hm
  subst this
  simp [isClosed, hm] at hc

theorem trailOffs_all_off (a : List Pt) (h : ∀ q ∈ a, q.typ = .off) : trailOffs a = a.length := by
  have := trailOffs_append_offs [] a h
  simpa using this

theorem closed_end_iff (pts : List Pt) (hc : isClosed pts = true) (hl : LinearOK pts) :
    (trailOffs pts = 0 ∨ wrap pts (trailOffs pts) = .ok ()) ↔ CyclicOK pts := by
  have hmove := closed_no_move pts hc hl
  have hw := wrap_spec pts (trailOffs pts) hmove
  constructor
  · intro h a p b hab
    by_cases haoff : ∀ q ∈ a, q.typ = .off
    · rw [trailOffs_append_offs pts a haoff]
      have hlin := hl a p b hab
      unfold pointOK at hlin
      rw [trailOffs_all_off a haoff] at hlin
      rcases h with h0 | hwrap
      · exact ⟨fun hp => by have := hlin.2.1 hp; omega, fun hp => by have := hlin.2.2.1 hp; omega⟩
      · have := (hw.1 hwrap) a p b hab haoff
        exact ⟨fun hp => absurd hp this.1, fun hp => this.2 hp⟩
    · have hex : ∃ q ∈ a, q.typ ≠ .off := by
        apply Classical.byContradiction
        intro hne
        apply haoff
        intro q hq
        apply Classical.byContradiction
        intro hqo
        exact hne ⟨q, hq, hqo⟩
      rw [trailOffs_append_nonoff pts a hex]
      have hlin := hl a p b hab
      exact ⟨hlin.2.1, hlin.2.2.1⟩
  · intro hcyc
    by_cases h0 : trailOffs pts = 0
    · exact Or.inl h0
    · right
      rw [hw]
      intro a p b hab haoff
      have := hcyc a p b hab
      rw [trailOffs_append_offs pts a haoff] at this
      exact ⟨fun hp => by have := this.1 hp; omega, this.2⟩

theorem endPath_ok_iff (pts : List Pt) (n : Nat) :
    endPath pts n = .ok () ↔ (n = 0 ∨ (isClosed pts = true ∧ wrap pts n = .ok ())) := by
  unfold endPath
  by_cases hn : n > 0
  · simp only [hn, if_true]
    by_cases hc : isClosed pts = true
    · simp [hc]; omega
    · simp [hc]; omega
  · have : n = 0 := by omega
    simp [this]


/-! ### executable versions of the spec -/

theorem linearB_iff_aux (pre l : List Pt) :
    linearB pre l = true ↔ ∀ a p b, l = a ++ p :: b → pointOK (pre ++ a) p := by
  induction l generalizing pre with
  | nil => simp [linearB]
  | cons q qs ih =>
    simp only [linearB, Bool.and_eq_true, decide_eq_true_eq, ih]
    constructor
    · rintro ⟨h0, h⟩ a p b hab
      cases a with
      | nil => simp at hab; obtain ⟨rfl, rfl⟩ := hab; simpa using h0
      | cons a0 as =>
        simp at hab; obtain ⟨rfl, rfl⟩ := hab
        simpa using h as p b rfl
    · intro h
      refine ⟨by simpa using h [] q qs rfl, ?_⟩
      intro a p b hab
      simpa using h (q :: a) p b (by simp [hab])

theorem linearB_iff (pts : List Pt) : linearB [] pts = true ↔ LinearOK pts := by
  simpa [LinearOK] using linearB_iff_aux [] pts

theorem cyclicB_iff_aux (pts pre l : List Pt) :
    cyclicB pts pre l = true ↔ ∀ a p b, l = a ++ p :: b →
      (p.typ = .line → trailOffs (pts ++ (pre ++ a)) = 0) ∧
      (p.typ = .curve → trailOffs (pts ++ (pre ++ a)) ≤ 2) := by
  induction l generalizing pre with
  | nil => simp [cyclicB]
  | cons q qs ih =>
    simp only [cyclicB, Bool.and_eq_true, Bool.or_eq_true, bne_iff_ne, ne_eq, beq_iff_eq,
      decide_eq_true_eq, ih]
    constructor
    · rintro ⟨⟨h0, h1⟩, h⟩ a p b hab
      cases a with
      | nil =>
        simp at hab; obtain ⟨rfl, rfl⟩ := hab
        simp only [List.append_nil]
        exact ⟨fun hp => h0.resolve_left (fun hn => hn hp), fun hp => h1.resolve_left (fun hn => hn hp)⟩
      | cons a0 as =>
        simp at hab; obtain ⟨rfl, rfl⟩ := hab
        simpa using h as p b rfl
    · intro h
      have h0 := h [] q qs rfl
      simp only [List.append_nil] at h0
      refine ⟨⟨?_, ?_⟩, ?_⟩
      · by_cases hq : q.typ = .line
        · exact Or.inr (h0.1 hq)
        · exact Or.inl hq
      · by_cases hq : q.typ = .curve
        · exact Or.inr (h0.2 hq)
        · exact Or.inl hq
      · intro a p b hab
        simpa using h (q :: a) p b (by simp [hab])

theorem cyclicB_iff (pts : List Pt) : cyclicB pts [] pts = true ↔ CyclicOK pts := by
  simpa [CyclicOK] using cyclicB_iff_aux pts [] pts

end C11
