import Norad.Lemmas.C18
/-!
# C18 — document level: every struct's writer output is read back by its reader
-/
namespace C18
open C18.Spec

/-! ## attributes -/

@[simp] theorem attr_mk_nil (k : String) : attr? (mkAttrs []) k = none := rfl

@[simp] theorem attr_mk_cons (k k' : String) (ov : Option String) (r : List (String × Option String)) :
    attr? (mkAttrs ((k', ov) :: r)) k = if k' = k then ov.or (attr? (mkAttrs r) k) else attr? (mkAttrs r) k := by
  cases ov with
  | none => by_cases h : k' = k <;> simp [mkAttrs, h]
  | some v =>
    by_cases h : k' = k
    · subst h; simp [mkAttrs, attr?, List.lookup]
    · have : (k == k') = false := by simp; exact fun e => h e.symm
      simp [mkAttrs, attr?, List.lookup, this, h]

theorem readOptF32_show {c : Codec} (L : CodecLaws c) (ov : Option F32) (h : optOk ov = true) :
    readOptF32 c (ov.map c.showF32) = some ov := by
  cases ov with
  | none => rfl
  | some x => simp [readOptF32, L.f32_rt x h]

/-! ## lists -/

theorem mapM_map_some {α β : Type} (f : β → Option α) (g : α → β) :
    ∀ xs : List α, (∀ x ∈ xs, f (g x) = some x) → (xs.map g).mapM f = some xs
  | [], _ => by simp
  | x :: r, h => by
    have h1 := h x (by simp)
    have h2 := mapM_map_some f g r (fun y hy => h y (by simp [hy]))
    simp [List.mapM_cons, h1, h2]

theorem childrenNamed_append (n : String) (a b : List Tree) :
    childrenNamed n (a ++ b) = childrenNamed n a ++ childrenNamed n b := by simp [childrenNamed]

theorem childrenNamed_map_eq (n : String) {α : Type} (g : α → Tree) (xs : List α)
    (h : ∀ x, named n (g x) = true) : childrenNamed n (xs.map g) = xs.map g := by
  simp [childrenNamed, List.filter_eq_self, h]

theorem childrenNamed_map_ne (n : String) {α : Type} (g : α → Tree) (xs : List α)
    (h : ∀ x, named n (g x) = false) : childrenNamed n (xs.map g) = [] := by
  simp [childrenNamed, List.filter_eq_nil_iff, h]

theorem readVec1_map {α : Type} (f : Tree → Option α) (n : String) (g : α → Tree) (xs : List α)
    (hne : xs ≠ []) (hn : ∀ x, named n (g x) = true) (h : ∀ x ∈ xs, f (g x) = some x) :
    readVec1 f n (xs.map g) = some xs := by
  unfold readVec1
  rw [childrenNamed_map_eq n g xs hn]
  cases xs with
  | nil => exact absurd rfl hne
  | cons x r => exact mapM_map_some f g (x :: r) h

/-! ## values list -/

theorem splitSp_word (w : List Char) (hw : ' ' ∉ w) : ∀ (rest cur : List Char),
    splitSp (w ++ rest) cur = splitSp rest (cur ++ w) := by
  induction w with
  | nil => intro rest cur; simp
  | cons ch r ih =>
    intro rest cur
    simp only [List.mem_cons, not_or] at hw
    have : ¬ ch = ' ' := fun e => hw.1 e.symm
    simp [splitSp, this, ih hw.2]

theorem splitSp_join : ∀ ws : List (List Char), (∀ w ∈ ws, w ≠ [] ∧ ' ' ∉ w) →
    splitSp (joinSp ws) [] = ws
  | [], _ => by simp [joinSp, splitSp]
  | [w], h => by
    have hw := h w (by simp)
    have := splitSp_word w hw.2 [] []
    simp only [List.append_nil, List.nil_append] at this
    simp [joinSp, this, splitSp, hw.1]
  | w :: w2 :: r, h => by
    have hw := h w (by simp)
    have ih := splitSp_join (w2 :: r) (fun x hx => h x (by simp [hx]))
    have := splitSp_word w hw.2 (' ' :: joinSp (w2 :: r)) []
    simp only [List.nil_append] at this
    simp [joinSp, this, splitSp, hw.1, ih]

theorem readValues_show {c : Codec} (L : CodecLaws c) (vs : List F32) (h : vs.all F32.notNaN = true) :
    readValues c (showValues c vs) = some vs := by
  unfold readValues showValues
  simp only [String.toList_ofList]
  rw [splitSp_join]
  · have := mapM_map_some (fun w => c.readF32 (String.ofList w)) (fun v => (c.showF32 v).toList) vs
      (by intro x hx; simp; exact L.f32_rt x (by simp [List.all_eq_true] at h; exact h x hx))
    exact this
  · intro w hw
    simp only [List.mem_map] at hw
    obtain ⟨v, _, rfl⟩ := hw
    exact L.f32_word v

/-! ## structs -/

theorem dimension_rt {c : Codec} (L : CodecLaws c) (d : Dimension) (h : dimOk d = true) :
    dimensionOf c (dimensionNode c d) = some d := by
  simp only [dimOk, Bool.and_eq_true] at h
  simp [dimensionOf, dimensionNode, optF32Attr, readOptF32_show L _ h.1.1, readOptF32_show L _ h.1.2,
    readOptF32_show L _ h.2]

theorem named_dimension (c : Codec) (n : String) (d : Dimension) :
    named n (dimensionNode c d) = ("dimension" == n) := rfl

theorem oneChild_single (n : String) (as : List (String × String)) (k : List Tree) :
    oneChild n [Tree.elem n as k] = .one as k := by
  simp [oneChild, childrenNamed, named]

theorem location_rt {c : Codec} (L : CodecLaws c) (l : List Dimension) (h : locOk l = true) (rest : List Tree)
    (hr : childrenNamed "location" rest = []) :
    readLocation c (locationNode c l :: rest) = some l := by
  simp only [locOk, Bool.and_eq_true, Bool.not_eq_true', List.isEmpty_eq_false_iff, List.all_eq_true] at h
  have hf : childrenNamed "location" (locationNode c l :: rest) = [locationNode c l] := by
    have : named "location" (locationNode c l) = true := rfl
    simp only [childrenNamed, List.filter_cons, this, if_true] at hr ⊢
    rw [hr]
  have : oneChild "location" (locationNode c l :: rest) = .one [] (l.map (dimensionNode c)) := by
    unfold oneChild; rw [hf]; rfl
  rw [readLocation, this]
  exact readVec1_map _ _ _ l h.1 (fun x => by simp [named_dimension]) (fun x hx => dimension_rt L x (h.2 x hx))

theorem map_rt {c : Codec} (L : CodecLaws c) (m : AxisMapping) (h1 : m.input.notNaN = true)
    (h2 : m.output.notNaN = true) : mapOf c (mapNode c m) = some m := by
  simp [mapOf, mapNode, L.f32_rt _ h1, L.f32_rt _ h2]

theorem readOptMaps_rt {c : Codec} (L : CodecLaws c) (om : Option (List AxisMapping))
    (h : ∀ ms, om = some ms → ms ≠ [] ∧ ∀ m ∈ ms, m.input.notNaN = true ∧ m.output.notNaN = true) :
    readOptMaps c (childrenNamed "map" (mapNodes c om)) = some om := by
  cases om with
  | none => simp [childrenNamed, readOptMaps, mapNodes]
  | some ms =>
    have h := h ms rfl
    simp only [mapNodes]
    rw [childrenNamed_map_eq "map" _ _ (fun x => rfl)]
    cases ms with
    | nil => exact absurd rfl h.1
    | cons m r =>
      simp only [List.map_cons, readOptMaps]
      have := mapM_map_some (mapOf c) (mapNode c) (m :: r) (fun x hx => map_rt L x (h.2 x hx).1 (h.2 x hx).2)
      simp only [List.map_cons] at this
      rw [this]; rfl

theorem axis_rt {c : Codec} (L : CodecLaws c) (a : Axis) (h : axisOk a = true) :
    axisOf c (axisNode c a) = some a := by
  simp only [axisOk, Bool.and_eq_true] at h
  obtain ⟨⟨⟨⟨h1, h2⟩, h3⟩, h4⟩, h5⟩ := h
  have hv : readOptValues c (a.values.map (showValues c)) = some a.values := by
    cases hv : a.values with
    | none => rfl
    | some vs => rw [hv] at h4; simp [readOptValues, readValues_show L vs h4]
  have hh : readHidden (if a.hidden = true then some "true" else none) = some a.hidden := by
    cases a.hidden <;> simp [readHidden, readBool]
  have hm : readOptMaps c (childrenNamed "map" (mapNodes c a.map)) = some a.map := by
    apply readOptMaps_rt L
    intro ms hms
    rw [hms] at h5
    simp only [Bool.and_eq_true, Bool.not_eq_true', List.isEmpty_eq_false_iff, List.all_eq_true] at h5
    exact h5
  simp [axisOf, axisNode, optF32Attr, L.f32_rt _ h1, readOptF32_show L _ h2, readOptF32_show L _ h3, hv, hh, hm]

theorem condition_rt {c : Codec} (L : CodecLaws c) (x : Condition) (h1 : optOk x.minimum = true)
    (h2 : optOk x.maximum = true) : conditionOf c (conditionNode c x) = some x := by
  simp [conditionOf, conditionNode, optF32Attr, readOptF32_show L _ h1, readOptF32_show L _ h2]

theorem conditionSet_rt {c : Codec} (L : CodecLaws c) (s : ConditionSet)
    (h : s.conditions.all (fun x => optOk x.minimum && optOk x.maximum) = true) :
    conditionSetOf c (conditionSetNode c s) = some s := by
  simp only [List.all_eq_true, Bool.and_eq_true] at h
  simp only [conditionSetOf, conditionSetNode]
  rw [childrenNamed_map_eq "condition" _ _ (fun x => rfl),
    mapM_map_some _ _ _ (fun x hx => condition_rt L x (h x hx).1 (h x hx).2)]
  rfl

theorem glyphNameOk_nameValid (s : String) (h : glyphNameOk s = true) : nameValid s = true := by
  simp only [glyphNameOk, nameValid, Bool.and_eq_true, List.all_eq_true, decide_eq_true_eq] at h ⊢
  refine ⟨by simpa using h.1, fun ch hch => ?_⟩
  have := h.2 ch hch
  simp only [Bool.not_eq_true', Bool.or_eq_false_iff, decide_eq_false_iff_not, Bool.and_eq_false_imp,
    decide_eq_true_eq, beq_eq_false_iff_ne] at this ⊢
  omega

theorem sub_rt (s : Substitution) (h : (glyphNameOk s.name && glyphNameOk s.withName) = true) :
    subOf (subNode s) = some s := by
  simp only [Bool.and_eq_true] at h
  simp [subOf, subNode, glyphNameOk_nameValid _ h.1, glyphNameOk_nameValid _ h.2]

theorem rule_rt {c : Codec} (L : CodecLaws c) (r : Rule) (h : ruleOk r = true) :
    ruleOf c (ruleNode c r) = some r := by
  simp only [ruleOk, Bool.and_eq_true, Bool.not_eq_true', List.isEmpty_eq_false_iff, List.all_eq_true] at h
  obtain ⟨⟨⟨h1, h2⟩, h3⟩, h4⟩ := h
  have e1 : readVec1 (conditionSetOf c) "conditionset"
      (r.conditionSets.map (conditionSetNode c) ++ r.substitutions.map subNode) = some r.conditionSets := by
    unfold readVec1
    rw [childrenNamed_append, childrenNamed_map_eq "conditionset" _ _ (fun x => rfl),
      childrenNamed_map_ne "conditionset" subNode _ (fun x => rfl), List.append_nil]
    cases hcs : r.conditionSets with
    | nil => exact absurd hcs h1
    | cons x t =>
      rw [← hcs]
      have := mapM_map_some (conditionSetOf c) (conditionSetNode c) r.conditionSets
        (fun x hx => conditionSet_rt L x (by simpa [List.all_eq_true] using h3 x hx))
      rw [hcs] at this ⊢
      exact this
  have e2 : readVec1 subOf "sub"
      (r.conditionSets.map (conditionSetNode c) ++ r.substitutions.map subNode) = some r.substitutions := by
    unfold readVec1
    rw [childrenNamed_append, childrenNamed_map_ne "sub" (conditionSetNode c) _ (fun x => rfl),
      childrenNamed_map_eq "sub" subNode _ (fun x => rfl), List.nil_append]
    cases hcs : r.substitutions with
    | nil => exact absurd hcs h2
    | cons x t =>
      have := mapM_map_some subOf subNode r.substitutions (fun x hx => sub_rt x (by simpa using h4 x hx))
      rw [hcs] at this
      exact this
  simp [ruleOf, ruleNode, e1, e2]

/-! ## libs -/

theorem oneChild_congr (n : String) (a b : List Tree) (h : childrenNamed n a = childrenNamed n b) :
    oneChild n a = oneChild n b := by unfold oneChild; rw [h]

theorem readLib_congr (c : Codec) (a b : List Tree) (h : childrenNamed "lib" a = childrenNamed "lib" b) :
    readLib c a = readLib c b := by unfold readLib; rw [oneChild_congr "lib" a b h]

theorem readLocation_congr (c : Codec) (a b : List Tree)
    (h : childrenNamed "location" a = childrenNamed "location" b) :
    readLocation c a = readLocation c b := by unfold readLocation; rw [oneChild_congr "location" a b h]

/-- what `libNodes` produces: nothing or a single `<lib>`, and `readLib` gets the dictionary back -/
theorem lib_rt {c : Codec} (L : CodecLaws c) (l : KVs) (hs : kvsStated l = true) (hc : kvsClean l = true)
    (hd : kvsDates c l = true) :
    ∃ ls, libNodes c l = .ok ls ∧ childrenNamed "lib" ls = ls ∧
      (∀ n, n ≠ "lib" → childrenNamed n ls = []) ∧ readLib c ls = some l := by
  cases l with
  | nil => exact ⟨[], rfl, rfl, fun _ _ => rfl, rfl⟩
  | cons k v r =>
    obtain ⟨ts, h1, h2⟩ := kvs_rt L (.cons k v r) hs hc hd
    refine ⟨[.elem "lib" [] [.elem "dict" [] ts]], by simp [libNodes, h1, Out.map], by simp [childrenNamed, named],
      fun n hn => by simp [childrenNamed, named]; exact fun e => hn e.symm, ?_⟩
    simp [readLib, oneChild, childrenNamed, named, h2,
      KVs.insertAll_nil _ (kvsStated_distinct _ hs)]

/-! ## sources, instances -/

theorem source_rt {c : Codec} (L : CodecLaws c) (s : Source) (h : locOk s.location = true) :
    sourceOf c (sourceNode c s) = some s := by
  have := location_rt L s.location h [] rfl
  simp [sourceOf, sourceNode, this]

theorem instance_rt {c : Codec} (L : CodecLaws c) (i : Instance) (hl : locOk i.location = true)
    (hs : kvsStated i.lib = true) (hc : kvsClean i.lib = true) (hd : kvsDates c i.lib = true) :
    ∃ t, instanceNode c i = .ok t ∧ named "instance" t = true ∧ instanceOf c t = some i := by
  obtain ⟨ls, h1, h2, h3, h4⟩ := lib_rt L i.lib hs hc hd
  refine ⟨.elem "instance" (instanceAttrs i) (locationNode c i.location :: ls),
    by simp [instanceNode, h1, Out.map], rfl, ?_⟩
  have hloc := location_rt L i.location hl ls (h3 "location" (by decide))
  have hlib : readLib c (locationNode c i.location :: ls) = some i.lib := by
    rw [readLib_congr c _ ls, h4]
    have : named "lib" (locationNode c i.location) = false := rfl
    simp [childrenNamed, List.filter_cons, this]
  simp [instanceOf, hloc, hlib, instanceAttrs]

theorem instances_rt {c : Codec} (L : CodecLaws c) : ∀ is : List Instance,
    (∀ i ∈ is, locOk i.location = true ∧ kvsStated i.lib = true ∧ kvsClean i.lib = true ∧ kvsDates c i.lib = true) →
    ∃ ts, instanceNodes c is = .ok ts ∧ (∀ t ∈ ts, named "instance" t = true) ∧ ts.length = is.length ∧
      ts.mapM (instanceOf c) = some is
  | [], _ => ⟨[], rfl, by simp, rfl, by simp⟩
  | i :: r, h => by
    obtain ⟨t, h1, h2, h3⟩ := instance_rt L i (h i (by simp)).1 (h i (by simp)).2.1 (h i (by simp)).2.2.1
      (h i (by simp)).2.2.2
    obtain ⟨ts, h4, h5, h6, h7⟩ := instances_rt L r (fun x hx => h x (by simp [hx]))
    refine ⟨t :: ts, by simp [instanceNodes, h1, h4, Out.bind], ?_, by simp [h6], by simp [List.mapM_cons, h3, h7]⟩
    intro x hx
    simp only [List.mem_cons] at hx
    rcases hx with rfl | hx
    · exact h2
    · exact h5 x hx

/-! ## the document element's children -/

theorem childrenNamed_wrapList (n m : String) (items : List Tree) :
    childrenNamed n (wrapList m items) = if m = n then wrapList m items else [] := by
  unfold wrapList
  by_cases h : items.isEmpty = true
  · simp [h, childrenNamed]
  · by_cases hm : m = n <;> simp [h, childrenNamed, named, hm]

theorem childrenNamed_all {n : String} {ts : List Tree} (h : ∀ t ∈ ts, named n t = true) :
    childrenNamed n ts = ts := by
  simp [childrenNamed, List.filter_eq_self]; exact h

theorem readVec1_of {α : Type} (f : Tree → Option α) (n : String) (ts : List Tree) (xs : List α)
    (hne : ts ≠ []) (hn : ∀ t ∈ ts, named n t = true) (h : ts.mapM f = some xs) :
    readVec1 f n ts = some xs := by
  unfold readVec1
  rw [childrenNamed_all hn]
  cases ts with
  | nil => exact absurd rfl hne
  | cons t r => exact h

theorem wrapList_ne {m : String} {items : List Tree} (h : items ≠ []) :
    wrapList m items = [.elem m [] items] := by
  unfold wrapList
  cases items with
  | nil => exact absurd rfl h
  | cons t r => rfl

theorem rules_node_rt {c : Codec} (L : CodecLaws c) (r : Rules) (h : r.rules.all ruleOk = true) :
    (readOptProcessing (some (showProcessing r.processing)) = some r.processing) ∧
    (childrenNamed "rule" (r.rules.map (ruleNode c))).mapM (ruleOf c) = some r.rules := by
  constructor
  · cases r.processing <;> simp [showProcessing, readOptProcessing, readProcessing]
  · rw [childrenNamed_map_eq "rule" _ _ (fun x => rfl)]
    simp only [List.all_eq_true] at h
    exact mapM_map_some _ _ _ (fun x hx => rule_rt L x (h x hx))

end C18

namespace C18
open C18.Spec

/-- the children of the document element, by field -/
def topChildren (c : Codec) (d : Doc) (insts ls : List Tree) : List Tree :=
  wrapList "axes" (d.axes.map (axisNode c)) ++
  (if rulesIsEmpty d.rules then [] else [rulesNode c d.rules]) ++
  wrapList "sources" (d.sources.map (sourceNode c)) ++
  wrapList "instances" insts ++ ls

theorem childrenNamed_rulesPiece (c : Codec) (n : String) (r : Rules) :
    childrenNamed n (if rulesIsEmpty r then [] else [rulesNode c r]) =
      if "rules" = n then (if rulesIsEmpty r then [] else [rulesNode c r]) else [] := by
  by_cases h : rulesIsEmpty r = true
  · simp [h, childrenNamed]
  · by_cases hn : "rules" = n <;> simp [h, childrenNamed, named, rulesNode, hn]

theorem top_named (c : Codec) (d : Doc) (insts ls : List Tree) (n : String)
    (hls : childrenNamed n ls = if n = "lib" then ls else []) :
    childrenNamed n (topChildren c d insts ls) =
      (if "axes" = n then wrapList "axes" (d.axes.map (axisNode c)) else []) ++
      (if "rules" = n then (if rulesIsEmpty d.rules then [] else [rulesNode c d.rules]) else []) ++
      (if "sources" = n then wrapList "sources" (d.sources.map (sourceNode c)) else []) ++
      (if "instances" = n then wrapList "instances" insts else []) ++ (if n = "lib" then ls else []) := by
  simp only [topChildren, childrenNamed_append, childrenNamed_wrapList, childrenNamed_rulesPiece, hls]

theorem doc_rt {c : Codec} (L : CodecLaws c) (d : Doc) (insts ls : List Tree)
    (hf : d.format.notNaN = true) (hax : d.axes ≠ []) (haxs : ∀ a ∈ d.axes, axisOk a = true)
    (hru : d.rules.rules.all ruleOk = true) (hso : d.sources ≠ [])
    (hsos : ∀ s ∈ d.sources, locOk s.location = true)
    (hin : ∀ t ∈ insts, named "instance" t = true) (hlen : insts.length = d.instances.length)
    (hins : insts.mapM (instanceOf c) = some d.instances)
    (hl1 : childrenNamed "lib" ls = ls) (hl2 : ∀ n, n ≠ "lib" → childrenNamed n ls = [])
    (hl3 : readLib c ls = some d.lib) :
    fromTree c (.elem "designspace" (mkAttrs [("format", some (c.showF32 d.format))]) (topChildren c d insts ls))
      = some d := by
  have hls : ∀ n, childrenNamed n ls = if n = "lib" then ls else [] := by
    intro n; by_cases h : n = "lib"
    · subst h; simp [hl1]
    · simp [h, hl2 n h]
  -- axes
  have e1 : readWrapped (axisOf c) "axes" "axis" (topChildren c d insts ls) = some d.axes := by
    have : oneChild "axes" (topChildren c d insts ls) = .one [] (d.axes.map (axisNode c)) := by
      have hA : wrapList "axes" (d.axes.map (axisNode c)) = [.elem "axes" [] (d.axes.map (axisNode c))] :=
        wrapList_ne (by simpa using hax)
      unfold oneChild
      rw [top_named c d insts ls "axes" (hls _)]
      simp [hA]
    rw [readWrapped, this]
    exact readVec1_map _ _ _ _ hax (fun x => rfl) (fun a ha => axis_rt L a (haxs a ha))
  -- sources
  have e2 : readWrapped (sourceOf c) "sources" "source" (topChildren c d insts ls) = some d.sources := by
    have : oneChild "sources" (topChildren c d insts ls) = .one [] (d.sources.map (sourceNode c)) := by
      have hA : wrapList "sources" (d.sources.map (sourceNode c)) =
          [.elem "sources" [] (d.sources.map (sourceNode c))] := wrapList_ne (by simpa using hso)
      unfold oneChild
      rw [top_named c d insts ls "sources" (hls _)]
      simp [hA]
    rw [readWrapped, this]
    exact readVec1_map _ _ _ _ hso (fun x => rfl) (fun s hs => source_rt L s (hsos s hs))
  -- rules
  have e3 : readRules c (topChildren c d insts ls) = some d.rules := by
    unfold readRules oneChild
    rw [top_named c d insts ls "rules" (hls _)]
    by_cases hr : rulesIsEmpty d.rules = true
    · simp only [hr]
      simp only [rulesIsEmpty, Bool.and_eq_true, List.isEmpty_iff, beq_iff_eq] at hr
      cases hd : d.rules with
      | mk p rs => rw [hd] at hr; simp at hr; simp [hr.1, hr.2]
    · obtain ⟨h1, h2⟩ := rules_node_rt L d.rules hru
      simp [hr, rulesNode, h1, h2]
  -- instances
  have e4 : readWrappedDefault (instanceOf c) "instances" "instance" (topChildren c d insts ls)
      = some d.instances := by
    unfold readWrappedDefault oneChild
    rw [top_named c d insts ls "instances" (hls _)]
    cases hi : insts with
    | nil =>
      rw [hi] at hlen hins
      have : d.instances = [] := by simpa using hlen.symm
      simp [wrapList, this]
    | cons t r =>
      have hne : insts ≠ [] := by rw [hi]; simp
      rw [← hi, wrapList_ne hne]
      simp
      exact readVec1_of _ _ _ _ hne hin hins
  -- lib
  have e5 : readLib c (topChildren c d insts ls) = some d.lib := by
    rw [readLib_congr c _ ls, hl3]
    rw [top_named c d insts ls "lib" (hls _), hl1]
    simp
  simp [fromTree, L.f32_rt _ hf, e1, e2, e3, e4, e5]

end C18
