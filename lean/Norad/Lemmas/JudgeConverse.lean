import Norad.Lemmas.JudgeDoc
import Norad.Lemmas.GlifTables
namespace Glif
open Spec
section
variable {rd : Str → Option Nat}

/-- **the exact parser state after the clean items `pre`** of a glyph of format `ver`: body level, the identifiers seen are
    exactly the identifiers of `pre`, each once-only flag is set exactly if its element occurred (for `note`: the field is
    filled only if a note occurred, and certainly if a note with text occurred — the recorded finding
    `repeated-note-after-empty-note` lives in the gap) -/
structure CleanState (ver : Nat) (pre : List Item) (s : PS) : Prop where
  mode : s.mode = .body
  ver : s.ver = ver
  seen : ∀ i, i ∈ s.seen ↔ i ∈ pre.flatMap itemIdents
  adv : s.seenAdvance = true ↔ 0 < cnt pre sAdvance
  outline : s.seenOutline = true ↔ 0 < cnt pre sOutline
  lib : s.seenLib = true ↔ 0 < cnt pre sLib
  image : s.g.image.isSome = true ↔ 0 < cnt pre sImage
  note : s.g.note.isSome = true → 0 < cnt pre sNote
  noteLow : (∃ it, it ∈ pre ∧ noteWithText it) → s.g.note.isSome = true
  libOK : LibOK s.g.lib

/-- the first part of `judge_clean_accepted`, reusable, with the exact state: a clean shaped document is consumed up to
    `</glyph>` and leaves the parser in the state `CleanState` describes -/
theorem clean_items_reach (law : ReadsNumerals rd) {d : Doc} (hj : judge rd d = ([], false)) (hs : Shaped d) :
    ∃ as name ver s', d.gattrs = some as ∧ parseGlyphAttrs (some as) = .ok (name, ver) ∧ (docVersion d).1 = some ver ∧
      Reach rd { g := { name := name }, ver := ver } (d.items.flatMap Item.evs) s' ∧ CleanState ver d.items s' := by
  obtain ⟨ver, hc⟩ := judge_clean hj
  have hga : ∃ as, d.gattrs = some as := by
    cases hg : d.gattrs with
    | none => have := hc.glyph; simp [glyphAttrCheck, hg] at this
    | some as => exact ⟨as, rfl⟩
  obtain ⟨as, has⟩ := hga
  obtain ⟨hv12, name, hparse⟩ := glyph_start_clean hc has (hs.gattrs as has)
  have hcnt : ∀ n, cnt d.items n ≤ 1 ∨ (n ≠ sAdvance ∧ n ≠ sOutline ∧ n ≠ sLib ∧ n ≠ sNote ∧ n ≠ sImage) := by
    intro n
    by_cases h : n = sAdvance ∨ n = sOutline ∨ n = sLib ∨ n = sNote ∨ n = sImage
    · left
      rcases h with rfl | rfl | rfl | rfl | rfl
      · exact hc.once "advance" (by decide)
      · exact hc.once "outline" (by decide)
      · exact hc.once "lib" (by decide)
      · exact hc.once "note" (by decide)
      · exact hc.once "image" (by decide)
    · right
      simp only [not_or] at h
      exact h
  obtain ⟨s', hr, hm', hl', hrun⟩ := items_reach law d.items { g := { name := name }, ver := ver } rfl hc.items hs.items
    hc.idents (by simp) hcnt (by intro h; cases h) (by intro h; cases h) (by intro h; cases h)
    (by intro h; simp at h) (by intro h; simp at h) (by intro v hv; simp [dictGet] at hv)
    (libOK_of_objectLibsCheck hc.objlibs)
  refine ⟨as, name, ver, s', has, hparse, hc.version, hr, ?_⟩
  exact ⟨hm', hrun.ver, fun i => by simpa using hrun.seen i, by simpa using hrun.adv, by simpa using hrun.outline,
    by simpa using hrun.lib, by simpa using hrun.image, fun h => by simpa using hrun.note h,
    fun h => hrun.noteLow (Or.inr h), hl'⟩

/-! ### the converse, for a fragment: hard errors `judge` flags are rejected -/

def specAttrNames (el : Str) : List Str := ((attrTable el).getD []).map (·.1.toList)

/-- body items that `judge` flags with a hard error, by clause family -/
inductive HardFlag (ver : Nat) : Item → Prop
  /-- `unknown-element` -/
  | unknownElement (e : Elem) : bodyNames.contains e.name = false → e.name ≠ sNote → e.name ≠ sLib → e.name ≠ sOutline →
      HardFlag ver (.elem e)
  /-- `v1-element`: anchor, guideline, image in a format-1 glyph -/
  | v1Element (e : Elem) : ver = 1 → (e.name = sAnchor ∨ e.name = sGuideline ∨ e.name = sImage) → e.selfClosed = true →
      HardFlag ver (.elem e)
  /-- `v1-element`: note in a format-1 glyph -/
  | v1Note (a : Option (List Attr)) (kids : List NItem) : ver = 1 → HardFlag ver (.note a kids)
  /-- `unknown-attr` on advance, unicode, anchor, guideline, image -/
  | unknownAttr (e : Elem) (as : List Attr) (a : Attr) : bodyNames.contains e.name = true → e.selfClosed = true →
      e.attrs = some as → a ∈ as → (specAttrNames e.name).contains a.1 = false → HardFlag ver (.elem e)
  /-- `lib`: the lib does not read as a dictionary -/
  | libNotDict (a : Option (List Attr)) (v : LibV) (inner : List Ev) : (∀ d, v ≠ .dict d) →
      (∀ e, e ∈ inner → libSkips e = true) → HardFlag ver (.lib a v inner)

theorem keys_subset_spec :
    (advKeys.all ((specAttrNames sAdvance).contains ·) && uniKeys.all ((specAttrNames sUnicode).contains ·) &&
     aKeys.all ((specAttrNames sAnchor).contains ·) && guKeys.all ((specAttrNames sGuideline).contains ·) &&
     iKeys.all ((specAttrNames sImage).contains ·)) = true := by decide +kernel

theorem not_in_keys {keys spec : List Str} (hall : keys.all (spec.contains ·) = true) {n : Str}
    (h : spec.contains n = false) : keys.contains n = false := by
  cases hk : keys.contains n with
  | false => rfl
  | true =>
    have hm : n ∈ keys := by simpa using hk
    have := List.all_eq_true.1 hall n hm
    rw [h] at this
    cases this

/-- a flagged item makes the parse fail from any body-level state of that format version -/
theorem hard_item_rejected {s : PS} {ver : Nat} (hm : s.mode = .body) (hv : s.ver = ver) {it : Item}
    (hf : HardFlag ver it) (rest : List Ev) : accepted (run rd s (Item.evs it ++ rest)) = false := by
  cases hf with
  | unknownElement e hb h1 h2 h3 =>
    cases hsc : e.selfClosed with
    | true =>
      have hn : bodyEmptyNames.contains e.name = false := by
        simp only [bodyEmptyNames, bodyNames, List.contains_cons, List.contains_nil, Bool.or_false, Bool.or_eq_false_iff,
          beq_eq_false_iff_ne, ne_eq] at hb ⊢
        exact ⟨fun e' => h3 e', hb⟩
      simp [Item.evs, Elem.evs, hsc, run, step, hm, stepBody, bodyEmpty_unknown rd s e.attrs hn, accepted]
    | false =>
      have hn : [sOutline, sNote].contains e.name = false := by simp [h1, h3]
      simp [Item.evs, Elem.evs, hsc, run, step, hm, stepBody, bodyStart_unknown s hn, accepted]
  | v1Element e h1 hn hsc =>
    have hv1 : s.ver = 1 := by rw [hv, h1]
    have hc : v1RefusedEmpty.contains e.name = true := by
      rcases hn with h | h | h <;> rw [h] <;> decide
    obtain ⟨m, hm'⟩ := (v1_refusals rd s hv1 e.attrs).1 hc
    simp [Item.evs, Elem.evs, hsc, run, step, hm, stepBody, hm', accepted]
  | v1Note a kids h1 =>
    have hv1 : s.ver = 1 := by rw [hv, h1]
    obtain ⟨m, hm'⟩ := (v1_refusals rd s hv1 a (n := sNote)).2 (by decide)
    simp [Item.evs, run, step, hm, stepBody, hm', accepted]
  | unknownAttr e as a hb hsc hattrs ha hnot =>
    have hall := keys_subset_spec
    simp only [Bool.and_eq_true] at hall
    obtain ⟨⟨⟨⟨k1, k2⟩, k3⟩, k4⟩, k5⟩ := hall
    simp only [bodyNames, List.contains_cons, List.contains_nil, Bool.or_false, Bool.or_eq_true, beq_iff_eq] at hb
    have hrf := step_refuses_unknown rd s.ver s.seen a
    rcases hb with hn | hn | hn | hn | hn <;> rw [hn] at hnot
    · have hp : parseAdvance rd as = none :=
        foldAttrs_none_of_mem _ _ (hrf.2.1 (not_in_keys k1 hnot)) as _ ha
      by_cases hs : s.seenAdvance = true
      · simp +decide [Item.evs, Elem.evs, hsc, hattrs, hn, run, step, hm, stepBody, bodyEmpty, hs, accepted]
      · simp +decide [Item.evs, Elem.evs, hsc, hattrs, hn, run, step, hm, stepBody, bodyEmpty, hs, hp, accepted]
    · have hp : parseUnicode s.g.codepoints as = none :=
        foldAttrs_none_of_mem _ _ (hrf.2.2.1 (not_in_keys k2 hnot)) as _ ha
      simp +decide [Item.evs, Elem.evs, hsc, hattrs, hn, run, step, hm, stepBody, bodyEmpty, hp, accepted]
    · have hp : parseAnchor rd s.ver s.seen as = none := by
        have : foldAttrs (aStep rd s.ver s.seen) {} as = none :=
          foldAttrs_none_of_mem _ _ (hrf.2.2.2.1 (not_in_keys k3 hnot)) as _ ha
        simp [parseAnchor, this]
      by_cases hs : s.ver = 1
      · simp +decide [Item.evs, Elem.evs, hsc, hattrs, hn, run, step, hm, stepBody, bodyEmpty, hs, accepted]
      · simp +decide [Item.evs, Elem.evs, hsc, hattrs, hn, run, step, hm, stepBody, bodyEmpty, hs, hp, accepted]
    · have hp : parseGuideline rd s.ver s.seen as = none := by
        have : foldAttrs (guStep rd s.ver s.seen) {} as = none :=
          foldAttrs_none_of_mem _ _ (hrf.2.2.2.2.1 (not_in_keys k4 hnot)) as _ ha
        simp [parseGuideline, this]
      by_cases hs : s.ver = 1
      · simp +decide [Item.evs, Elem.evs, hsc, hattrs, hn, run, step, hm, stepBody, bodyEmpty, hs, accepted]
      · simp +decide [Item.evs, Elem.evs, hsc, hattrs, hn, run, step, hm, stepBody, bodyEmpty, hs, hp, accepted]
    · have hp : parseImage rd as = none := by
        have : foldAttrs (iStep rd) {} as = none :=
          foldAttrs_none_of_mem _ _ (hrf.2.2.2.2.2.1 (not_in_keys k5 hnot)) as _ ha
        simp [parseImage, this]
      by_cases hs : s.ver = 1
      · simp +decide [Item.evs, Elem.evs, hsc, hattrs, hn, run, step, hm, stepBody, bodyEmpty, hs, accepted]
      · by_cases hi : s.g.image.isSome = true
        · simp +decide [Item.evs, Elem.evs, hsc, hattrs, hn, run, step, hm, stepBody, bodyEmpty, hs, hi, accepted]
        · simp +decide [Item.evs, Elem.evs, hsc, hattrs, hn, run, step, hm, stepBody, bodyEmpty, hs, hi, hp, accepted]
  | libNotDict a v inner hnd hskip =>
    by_cases hs : s.seenLib = true
    · simp [Item.evs, run, step, hm, stepBody, hs, accepted]
    · have h1 : step rd s (.startLib a v) = .ok (.inl { s with seenLib := true, mode := .lib v }) := by
        simp [step, hm, stepBody, hs, cont]
      have hr := lib_skip_reach (rd := rd) inner { s with seenLib := true, mode := .lib v } rfl hskip
      have h3 : ∃ k, step rd { s with seenLib := true, mode := .lib v } (.close sLib) = .error k := by
        cases v with
        | bad => simp [step, stepLib, accepted]
        | notDict => simp [step, stepLib, accepted]
        | dict d => exact absurd rfl (hnd d)
      obtain ⟨k, hk⟩ := h3
      have : Item.evs (.lib a v inner) ++ rest = (.startLib a v :: inner) ++ (.close sLib :: rest) := by
        simp [Item.evs, List.append_assoc]
      rw [this, run_of_reach rd (Reach.cons h1 hr)]
      simp [run, hk, accepted]

theorem merge_flagged {rs : List (List String × Bool)} {r : List String × Bool} (hr : r ∈ rs) (hne : r.1 ≠ []) :
    (merge rs).1 ≠ [] := by
  intro h
  simp only [merge, List.flatMap_eq_nil_iff] at h
  exact hne (h r hr)

/-- every `HardFlag` item is one `judge` flags (so the rejection theorem below is about `judge`'s hard errors) -/
theorem hardFlag_flagged {ver : Nat} {it : Item} (hf : HardFlag ver it) : (itemCheck rd ver it).1 ≠ [] := by
  cases hf with
  | unknownElement e hb h1 h2 h3 =>
    simp only [itemCheck, hb, h1, h2, Bool.false_eq_true, if_false]
    simp
  | v1Note a kids h1 =>
    simp only [itemCheck]
    exact merge_flagged (r := (["v1-element"], false)) (by simp [h1]) (by simp)
  | libNotDict a v inner hnd hskip =>
    simp only [itemCheck]
    cases v with
    | dict d => exact absurd rfl (hnd d)
    | bad => exact merge_flagged (r := (["lib"], false)) (by simp) (by simp)
    | notDict => exact merge_flagged (r := (["lib"], false)) (by simp) (by simp)
  | v1Element e h1 hn hsc =>
    have hb : bodyNames.contains e.name = true := by rcases hn with h | h | h <;> rw [h] <;> decide
    simp only [itemCheck, hb, if_true]
    unfold elemCheck
    have htbl : ∃ tbl, attrTable e.name = some tbl := by
      have h3 : (attrTable sAnchor).isSome = true ∧ (attrTable sGuideline).isSome = true ∧ (attrTable sImage).isSome = true := by
        decide
      rcases hn with h | h | h <;> rw [h]
      · exact Option.isSome_iff_exists.1 h3.1
      · exact Option.isSome_iff_exists.1 h3.2.1
      · exact Option.isSome_iff_exists.1 h3.2.2
    obtain ⟨tbl, ht⟩ := htbl
    simp only [ht]
    cases e.attrs with
    | none => simp
    | some as =>
      simp only
      exact merge_flagged (r := (["v1-element"], false)) (by simp [h1, hn]) (by simp)
  | unknownAttr e as a hb hsc hattrs ha hnot =>
    simp only [itemCheck, hb, if_true]
    unfold elemCheck
    cases ht : attrTable e.name with
    | none => simp
    | some tbl =>
      simp only [hattrs]
      have hfind : tbl.find? (fun t => t.1.toList = a.1) = none := by
        apply List.find?_eq_none.2
        intro t htm hd
        simp only [decide_eq_true_eq] at hd
        have : (specAttrNames e.name).contains a.1 = true := by
          simp only [specAttrNames, ht, Option.getD_some]
          have : a.1 ∈ tbl.map (·.1.toList) := List.mem_map.2 ⟨t, htm, hd⟩
          simpa using this
        rw [hnot] at this
        cases this
      refine merge_flagged (r := (["unknown-attr"], false)) ?_ (by simp)
      apply List.mem_append_left
      exact List.mem_map.2 ⟨a, ha, by simp [hfind]⟩

/-- **judge_hard_error_rejected** (fragment): a document whose items up to some position are `judge`-clean and whose next
    item carries one of the hard errors of `HardFlag` — unknown element, a format-2-only element in a format-1 glyph, an
    unknown attribute on advance/unicode/anchor/guideline/image, a lib that does not read as a dictionary — is rejected. -/
theorem judge_hard_error_rejected (law : ReadsNumerals rd) {d : Doc} {pre post : List Item} {bad : Item} {ver : Nat}
    (hitems : d.items = pre ++ bad :: post)
    (hpre : judge rd { d with items := pre } = ([], false)) (hs : Shaped { d with items := pre })
    (hver : (docVersion d).1 = some ver) (hbad : HardFlag ver bad) :
    accepted (parseGlif rd (Spec.flatten d)) = false := by
  obtain ⟨as, name, ver', s', has, hparse, hv', hr, hcs⟩ := clean_items_reach law hpre hs
  have hm' := hcs.mode
  have hsv := hcs.ver
  have hvv : ver' = ver := by
    have : (docVersion { d with items := pre }).1 = (docVersion d).1 := rfl
    rw [this, hver] at hv'
    exact (Option.some.inj hv').symm
  subst hvv
  have hga : d.gattrs = some as := has
  have hopen : d.gSelfClosed = false := hs.glyphOpen
  unfold parseGlif Spec.flatten
  simp only [hopen, hga, Bool.false_eq_true, if_false, List.append_assoc, List.cons_append]
  rw [scanStart_prolog _ _ hs.prolog]
  simp only [scanStart, if_true, hparse, hitems, List.flatMap_append, List.flatMap_cons, List.append_assoc]
  rw [run_of_reach rd hr]
  exact hard_item_rejected hm' hsv hbad _
end
end Glif
