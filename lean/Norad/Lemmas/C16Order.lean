import Norad.Lemmas.C16
import Norad.Lemmas.StoreOrder
/-! Lemmas for `store_save_order_independent`: under the invariant the destinations of the writes of
    a store with normal-component keys are pairwise different and non-nested. -/
namespace C16
open Path StoreOrder

/-- the names of a path whose components are all normal -/
def namesOf (p : P) : Loc := p.comps.filterMap fun c => match c with | .normal s => some s | _ => none

/-- where `Font::save` puts the entry: `<store directory>/<key>` -/
def destOf (base : Loc) (k : Key) : Loc := base ++ namesOf (parse k)

def storeWrites (base : Loc) (ws : List WriteFile) : List (Loc × StoreOrder.Bytes) :=
  ws.map fun w => (destOf base w.key, w.bytes)

theorem allNormal_comps {l : List Comp}
    (h : (l.all fun c => match c with | .normal _ => true | _ => false) = true) :
    l = (l.filterMap fun c => match c with | .normal s => some s | _ => none).map Comp.normal := by
  induction l with
  | nil => rfl
  | cons c r ih =>
    simp only [List.all_cons, Bool.and_eq_true] at h
    cases c with
    | normal s => simp only [List.filterMap_cons, List.map_cons]; rw [← ih h.2]
    | cur => simp at h
    | parent => simp at h

theorem dest_nonNested {s : Store} (h : Inv s) (hplain : ∀ k ∈ keys s, (parse k).allNormal = true)
    (base : Loc) {a b : Key} (ha : a ∈ keys s) (hb : b ∈ keys s) (hab : parse a ≠ parse b) :
    (destOf base a).isPrefixOf (destOf base b) = false := by
  rw [← Bool.not_eq_true]
  intro hc
  have hpre : namesOf (parse a) <+: namesOf (parse b) :=
    (List.prefix_append_right_inj base).1 (List.isPrefixOf_iff_prefix.1 hc)
  have hca := allNormal_comps (hplain a ha)
  have hcb := allNormal_comps (hplain b hb)
  have : (parse a).comps <+: (parse b).comps := by
    rw [hca, hcb]; exact hpre.map _
  have hsw := (startsWith_rel (h.keysOK.relative a ha) (h.keysOK.relative b hb)).2 this
  exact hab (h.keysOK.prefixFree a ha b hb hsw)

end C16
