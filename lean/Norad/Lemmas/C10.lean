import Norad.Lemmas.Kerning
import Norad.Lemmas.SortCanon
/-! Helper lemmas for C10: lookups and block joins do not depend on the order of a map's entries. -/
namespace Kern
open StrMap

theorem lookup_perm {β : Type} {m m' : List (Str × β)} (hp : m.Perm m') (hn : (keys m).Nodup) (n : Str) :
    lookup n m = lookup n m' := by
  have hn' : (keys m').Nodup := (List.Perm.map (fun e : Str × β => e.1) hp).nodup_iff.mp hn
  cases h : lookup n m with
  | some u => exact (lookup_of_mem_nodup hn' (hp.subset (lookup_mem h))).symm
  | none =>
    cases h' : lookup n m' with
    | none => rfl
    | some u =>
      have := lookup_of_mem_nodup hn (hp.symm.subset (lookup_mem h'))
      rw [h] at this; cases this

theorem joinBlocks_perm {b b' : List (Str × Str)} (hp : b.Perm b') (hn : (keys b).Nodup) (ts : List Str) :
    joinBlocks b ts = joinBlocks b' ts := by
  induction ts with
  | nil => rfl
  | cons t ts ih => simp only [joinBlocks, lookup_perm hp hn t, ih]

end Kern
