import Norad.Lemmas.C02
namespace Glif
open Spec

/-! ### generic facts about `merge` and the attribute folds -/

theorem merge_clean {rs : List (List String × Bool)} (h : merge rs = ([], false)) :
    ∀ r, r ∈ rs → r = ([], false) := by
  intro r hr
  simp only [merge, Prod.mk.injEq, List.flatMap_eq_nil_iff, List.any_eq_false] at h
  have h1 := h.1 r hr
  have h2 := h.2 r hr
  obtain ⟨a, b⟩ := r
  simp only at h1 h2
  simp [h1, h2]

theorem foldAttrs_isSome {σ : Type} (step : σ → Attr → Option σ) :
    ∀ (as : List Attr), (∀ a, a ∈ as → ∀ acc, ∃ acc', step acc a = some acc') →
      ∀ acc, ∃ acc', foldAttrs step acc as = some acc' := by
  intro as
  induction as with
  | nil => intro _ acc; exact ⟨acc, rfl⟩
  | cons a r ih =>
    intro h acc
    obtain ⟨acc1, h1⟩ := h a List.mem_cons_self acc
    obtain ⟨acc2, h2⟩ := ih (fun b hb => h b (List.mem_cons_of_mem _ hb)) acc1
    exact ⟨acc2, by simp [foldAttrs, h1, h2]⟩

/-- a field property that a step for key `k` establishes and every step preserves holds at the end when `k` occurs -/
theorem foldAttrs_establishes {σ : Type} (step : σ → Attr → Option σ) (P : σ → Prop) (k : Str)
    (hpres : ∀ acc a acc', P acc → step acc a = some acc' → P acc')
    (hest : ∀ acc a acc', a.1 = k → step acc a = some acc' → P acc') :
    ∀ (as : List Attr) (acc acc' : σ), foldAttrs step acc as = some acc' →
      (P acc ∨ k ∈ as.map (·.1)) → P acc' := by
  intro as
  induction as with
  | nil => intro acc acc' h hk; simp [foldAttrs] at h; subst h; simpa using hk
  | cons a r ih =>
    intro acc acc' h hk
    simp only [foldAttrs] at h
    cases hs : step acc a with
    | none => simp [hs] at h
    | some acc1 =>
      simp only [hs] at h
      apply ih acc1 acc' h
      rcases hk with hk | hk
      · exact Or.inl (hpres acc a acc1 hk hs)
      · simp only [List.map_cons, List.mem_cons] at hk
        rcases hk with hk | hk
        · exact Or.inl (hest acc a acc1 hk.symm hs)
        · exact Or.inr hk

/-- a field property that only a step for key `k` can establish does not hold at the end when `k` does not occur -/
theorem foldAttrs_absent {σ : Type} (step : σ → Attr → Option σ) (P : σ → Prop) (k : Str)
    (honly : ∀ acc a acc', a.1 ≠ k → ¬P acc → step acc a = some acc' → ¬P acc') :
    ∀ (as : List Attr) (acc acc' : σ), foldAttrs step acc as = some acc' → ¬P acc → k ∉ as.map (·.1) → ¬P acc' := by
  intro as
  induction as with
  | nil => intro acc acc' h hp _; simp [foldAttrs] at h; subst h; exact hp
  | cons a r ih =>
    intro acc acc' h hp hk
    simp only [foldAttrs] at h
    simp only [List.map_cons, List.mem_cons, not_or] at hk
    cases hs : step acc a with
    | none => simp [hs] at h
    | some acc1 =>
      simp only [hs] at h
      exact ih acc1 acc' h (honly acc a acc1 (fun e => hk.1 e.symm) hp hs) hk.2

/-! ### what a clean value check says, kind by kind -/

theorem nameOk_validName {v : Str} (h : nameOk v = true) : validName v = true := by
  simp only [nameOk, validName, Bool.and_eq_true, Bool.not_eq_true', List.all_eq_true] at h ⊢
  refine ⟨h.1, fun c hc => ?_⟩
  have := h.2 c hc
  simp only [Bool.not_eq_true', Bool.or_eq_false_iff, Bool.and_eq_false_iff, decide_eq_false_iff_not] at this ⊢
  refine ⟨⟨?_, this.1.2⟩, this.2⟩
  have := this.1.1
  omega

theorem identOk_validIdent {v : Str} (h : identOk v = true) : validIdent v = true ∧ v ≠ [] := by
  simp only [identOk, Bool.and_eq_true] at h
  refine ⟨by simp only [validIdent, Bool.and_eq_true]; exact ⟨h.1.2, h.2⟩, ?_⟩
  intro e; subst e; simp at h

theorem splitOn_no_sep {sep : Char} : ∀ {s : Str}, sep ∉ s → splitOn sep s = [s] := by
  intro s
  induction s with
  | nil => intro _; rfl
  | cons c r ih =>
    intro h
    simp only [List.mem_cons, not_or] at h
    have hc : c ≠ sep := fun e => h.1 e.symm
    simp [splitOn, hc, ih h.2]

theorem imageCls_legal {v : Str} (h : imageCls v = .legal) : imageNameOk v = true := by
  unfold imageCls at h
  split at h
  · cases h
  · rename_i hne
    split at h
    · rename_i hc
      have hns : '/' ∉ v := by simpa using hc
      have hsp := splitOn_no_sep hns
      have hv : v ≠ [] := by intro e; simp [e] at hne
      have hh : v.head? ≠ some '/' := by
        cases v with
        | nil => exact absurd rfl hv
        | cons c r => simp only [List.head?_cons, ne_eq, Option.some.injEq]; intro e; exact hns (by simp [e])
      cases hvv : v with
      | nil => exact absurd hvv hv
      | cons c r =>
        rw [hvv] at hsp hh
        simp only [imageNameOk, relComponents, hsp, List.isEmpty_cons, Bool.not_false, Bool.true_and]
        simp only [List.head?_cons, ne_eq, Option.some.injEq] at hh
        simp [hh]
    · repeat' split at h
      all_goals cases h

/-- what a clean value check guarantees, in the model's terms -/
def ValOK (rd : Str → Option Nat) : AK → Str → Prop
  | .num, v => numeral v = true
  | .angle, v => ∃ b, rd v = some b ∧ angleOk b = true
  | .name, v => validName v = true
  | .color, v => ∃ c, readCol rd v = some c
  | .ident, v => validIdent v = true ∧ v ≠ []
  | .hex, v => ∃ c, parseHex v = some c
  | .ptype, v => ∃ t, readPointType v = some t
  | .smooth, _ => True
  | .file, v => imageNameOk v = true

theorem colCls_legal {rd : Str → Option Nat} {v : Str} (h : colCls rd v = .legal) : ∃ c, readCol rd v = some c := by
  unfold colCls at h
  simp only at h
  split at h
  · rename_i hc
    simp only [Bool.and_eq_true, decide_eq_true_eq, List.all_eq_true] at hc
    obtain ⟨_, hlen, hall⟩ := hc
    unfold readCol
    match hp : splitOn ',' v, hlen, hall with
    | [a, b, c, d], _, hall =>
      have ha := hall a (by simp)
      have hb := hall b (by simp)
      have hc' := hall c (by simp)
      have hd := hall d (by simp)
      cases ra : rd a <;> simp [ra] at ha
      cases rb : rd b <;> simp [rb] at hb
      cases rc : rd c <;> simp [rc] at hc'
      cases rdd : rd d <;> simp [rdd] at hd
      rename_i r g b' a'
      exact ⟨⟨r, g, b', a'⟩, by simp [ra, rb, rc, rdd, ha, hb, hc', hd]⟩
  · split at h <;> cases h

theorem valueCheck_clean {rd : Str → Option Nat} {k : AK} {v : Str} (h : valueCheck rd k v = ([], false)) :
    ValOK rd k v := by
  cases k with
  | num =>
    simp only [valueCheck, numCls] at h
    by_cases hn : numeral v = true
    · exact hn
    · simp only [hn] at h
      cases hr : rd v <;> simp [hr] at h
  | angle =>
    simp only [valueCheck] at h
    split at h
    · simp at h
    · rename_i c hc
      cases hr : rd v with
      | none => simp [hr] at h
      | some b =>
        simp only [hr] at h
        by_cases ha : angleOk b = true
        · exact ⟨b, hr, ha⟩
        · simp [ha] at h
  | name =>
    simp only [valueCheck] at h
    by_cases hn : nameOk v = true
    · exact nameOk_validName hn
    · simp [hn] at h
  | color =>
    simp only [valueCheck] at h
    cases hc : colCls rd v with
    | legal => exact colCls_legal hc
    | odd => simp [hc] at h
    | bad => simp [hc] at h
  | ident =>
    simp only [valueCheck] at h
    by_cases hi : identOk v = true
    · exact identOk_validIdent hi
    · simp only [hi] at h
      by_cases he : v.isEmpty = true <;> simp [he] at h
  | hex =>
    simp only [valueCheck] at h
    cases hc : hexCls v with
    | legal =>
      unfold hexCls at hc
      split at hc
      · cases hp : parseHex v with
        | some c => exact ⟨c, hp⟩
        | none => simp [hp] at hc
      · cases hc
    | odd => simp only [hc] at h; split at h <;> (try split at h) <;> simp at h
    | bad => simp only [hc] at h; split at h <;> (try split at h) <;> simp at h
  | ptype =>
    simp only [valueCheck] at h
    cases hp : readPointType v with
    | some t => exact ⟨t, hp⟩
    | none => simp [hp] at h
  | smooth => trivial
  | file =>
    simp only [valueCheck] at h
    cases hc : imageCls v with
    | legal => exact imageCls_legal hc
    | odd => simp [hc] at h
    | bad => simp [hc] at h

/-! ### a clean element check, unpacked -/

structure ElemClean (rd : Str → Option Nat) (ver : Nat) (e : Elem) (tbl : List (String × AK)) (as : List Attr) : Prop where
  attrs : e.attrs = some as
  table : attrTable e.name = some tbl
  each : ∀ a, a ∈ as → ∃ nm k, tbl.find? (fun t => t.1.toList = a.1) = some (nm, k) ∧
    ¬(k = AK.ident ∧ ver = 1) ∧ ValOK rd k a.2
  req : ∀ r, r ∈ required e.name → has as r = true
  shape : e.name = sGuideline →
    (has as "x" = true ∧ has as "y" = false ∧ has as "angle" = false) ∨
    (has as "x" = false ∧ has as "y" = true ∧ has as "angle" = false) ∨
    (has as "x" = true ∧ has as "y" = true ∧ has as "angle" = true)
  v1 : ¬(ver = 1 ∧ (e.name = sAnchor ∨ e.name = sGuideline ∨ e.name = sImage))

theorem elemCheck_clean {rd : Str → Option Nat} {ver : Nat} {e : Elem} (h : elemCheck rd ver e = ([], false)) :
    ∃ tbl as, ElemClean rd ver e tbl as := by
  unfold elemCheck at h
  split at h
  · simp at h
  · rename_i tbl htbl
    split at h
    · simp at h
    · rename_i as hattrs
      refine ⟨tbl, as, hattrs, htbl, ?_, ?_, ?_, ?_⟩
      all_goals have hm := merge_clean h
      · intro a ha
        have := hm _ (List.mem_append_left _ (List.mem_map.2 ⟨a, ha, rfl⟩))
        split at this
        · simp at this
        · rename_i nm k hf
          refine ⟨nm, k, hf, ?_, ?_⟩
          · rintro ⟨rfl, rfl⟩; simp at this
          · by_cases hc : (k == AK.ident && ver == 1) = true
            · simp [hc] at this
            · simp only [hc] at this; exact valueCheck_clean this
      · intro r hr
        have := hm ((List.filter (fun k => !has as k) (required e.name)).map (fun _ => "required"), false) (by simp)
        simp only [Prod.mk.injEq, List.map_eq_nil_iff, and_true] at this
        have hnot := List.filter_eq_nil_iff.1 this r hr
        simpa using hnot
      · intro hg
        have := hm (_, false) (List.mem_append_right _ (List.mem_cons_of_mem _ (List.mem_cons_self)))
        simp only [hg, if_true, Prod.mk.injEq, and_true] at this
        cases hx : has as "x" <;> cases hy : has as "y" <;> cases ha : has as "angle" <;> simp [hx, hy, ha] at this ⊢
      · intro hv
        have := hm (_, false) (List.mem_append_right _ (List.mem_cons_of_mem _ (List.mem_cons_of_mem _ List.mem_cons_self)))
        simp only [Prod.mk.injEq, and_true] at this
        have hc : (ver == 1) = true ∧ (e.name = sAnchor ∨ e.name = sGuideline ∨ e.name = sImage) := ⟨by simp [hv.1], hv.2⟩
        simp [hc] at this
/-! ### element by element: a clean check means the model's attribute loop succeeds -/

/-- what is assumed of Rust's float parser: it reads every plain decimal numeral -/
def ReadsNumerals (rd : Str → Option Nat) : Prop := ∀ s, numeral s = true → ∃ b, rd s = some b

theorem find_table {tbl : List (String × AK)} {n : Str} {nm : String} {k : AK}
    (h : tbl.find? (fun t => t.1.toList = n) = some (nm, k)) : (nm, k) ∈ tbl ∧ nm.toList = n := by
  refine ⟨List.mem_of_find?_eq_some h, ?_⟩
  have := List.find?_some h
  simpa using this

theorem has_mem {as : List Attr} {k : String} (h : has as k = true) : k.toList ∈ as.map (·.1) := by
  unfold has Spec.get at h
  cases hf : as.find? (fun a => a.1 = k.toList) with
  | none => simp [hf] at h
  | some a =>
    have h1 := List.mem_of_find?_eq_some hf
    have h2 := List.find?_some hf
    simp only [decide_eq_true_eq] at h2
    exact List.mem_map.2 ⟨a, h1, h2⟩

theorem mem_has {as : List Attr} {k : String} (h : k.toList ∈ as.map (·.1)) : has as k = true := by
  unfold has Spec.get
  obtain ⟨a, ha, hk⟩ := List.mem_map.1 h
  cases hf : as.find? (fun a => a.1 = k.toList) with
  | some _ => rfl
  | none =>
    have := List.find?_eq_none.1 hf a ha
    simp [hk] at this

theorem aKeyOf_ident_eq {s : Str} (h : aKeyOf s = some AKey.ident) : s = sIdentifier := by
  unfold aKeyOf at h
  repeat' split at h
  all_goals first | (cases h; done) | skip
  rename_i h5; rw [h5]; decide

section
variable {rd : Str → Option Nat}

theorem anchor_clean_accepted (law : ReadsNumerals rd) {ver : Nat} {seen : List Str} {e : Elem}
    {tbl : List (String × AK)} {as : List Attr} (hc : ElemClean rd ver e tbl as) (hn : e.name = sAnchor)
    (hfr : ∀ v, (sIdentifier, v) ∈ as → v ∉ seen) :
    ∃ x, parseAnchor rd ver seen as = some x ∧ ∀ i, x.ident = some i → (sIdentifier, i) ∈ as := by
  have htbl : tbl = [("x", AK.num), ("y", .num), ("name", .name), ("color", .color), ("identifier", .ident)] := by
    have := hc.table; rw [hn] at this
    have h2 : attrTable sAnchor = some [("x", AK.num), ("y", .num), ("name", .name), ("color", .color), ("identifier", .ident)] := by
      decide
    rw [h2] at this; exact (Option.some.inj this).symm
  have hstep : ∀ a, a ∈ as → ∀ acc, ∃ acc', aStep rd ver seen acc a = some acc' := by
    intro a ha acc
    obtain ⟨nm, k, hf, hv1, hval⟩ := hc.each a ha
    obtain ⟨hmem, hnm⟩ := find_table hf
    rw [htbl] at hmem
    simp only [List.mem_cons, Prod.mk.injEq, List.not_mem_nil, or_false] at hmem
    obtain ⟨a1, a2⟩ := a
    simp only at hnm hval
    rcases hmem with ⟨rfl, rfl⟩ | ⟨rfl, rfl⟩ | ⟨rfl, rfl⟩ | ⟨rfl, rfl⟩ | ⟨rfl, rfl⟩ <;> subst hnm
    · obtain ⟨b, hb⟩ := law a2 hval
      exact Option.isSome_iff_exists.1 (by simp [aStep, aApply, hb])
    · obtain ⟨b, hb⟩ := law a2 hval
      exact Option.isSome_iff_exists.1 (by simp [aStep, aApply, hb])
    · have hvn : validName a2 = true := hval
      exact Option.isSome_iff_exists.1 (by simp [aStep, aApply, hvn])
    · obtain ⟨c, hcl⟩ := (hval : ∃ c, readCol rd a2 = some c)
      exact Option.isSome_iff_exists.1 (by simp [aStep, aApply, hcl])
    · have hv : ver ≠ 1 := fun e => hv1 ⟨rfl, e⟩
      have hfresh := hfr a2 (by simpa [sIdentifier_lit] using ha)
      have hvi := (hval : validIdent a2 = true ∧ a2 ≠ []).1
      exact Option.isSome_iff_exists.1 (by simp [aStep, aApply, readIdent, hv, hvi, hfresh])
  obtain ⟨acc, hacc⟩ := foldAttrs_isSome _ as hstep {}
  have hx : acc.x.isSome = true := by
    refine foldAttrs_establishes (aStep rd ver seen) (fun a => a.x.isSome = true) "x".toList ?_ ?_ as {} acc hacc
      (Or.inr (has_mem (hc.req "x" (by rw [hn]; decide))))
    · intro acc a acc' hp hs
      unfold aStep at hs; split at hs
      · cases hs
      · rename_i k _; cases k <;> simp only [aApply] at hs <;> repeat' split at hs
        all_goals first | (cases hs; done) | (cases hs; first | exact hp | rfl)
    · intro acc a acc' hk hs
      have hk' : aKeyOf a.1 = some .x := by rw [hk]; decide
      simp only [aStep, hk', aApply] at hs
      split at hs <;> cases hs; rfl
  have hy : acc.y.isSome = true := by
    refine foldAttrs_establishes (aStep rd ver seen) (fun a => a.y.isSome = true) "y".toList ?_ ?_ as {} acc hacc
      (Or.inr (has_mem (hc.req "y" (by rw [hn]; decide))))
    · intro acc a acc' hp hs
      unfold aStep at hs; split at hs
      · cases hs
      · rename_i k _; cases k <;> simp only [aApply] at hs <;> repeat' split at hs
        all_goals first | (cases hs; done) | (cases hs; first | exact hp | rfl)
    · intro acc a acc' hk hs
      have hk' : aKeyOf a.1 = some .y := by rw [hk]; decide
      simp only [aStep, hk', aApply] at hs
      split at hs <;> cases hs; rfl
  have hid : ∀ i, acc.ident = some i → (sIdentifier, i) ∈ as := by
    refine foldAttrs_inv_mem (aStep rd ver seen) (fun a => ∀ i, a.ident = some i → (sIdentifier, i) ∈ as) as ?_ {} acc
      (by intro i hi; cases hi) hacc
    intro acc a acc' ha hp hs
    unfold aStep at hs; split at hs
    · cases hs
    · rename_i k hk; cases k <;> simp only [aApply] at hs <;> repeat' split at hs
      all_goals first | (cases hs; done) | (cases hs; first | exact hp | skip)
      rename_i i hri
      intro j hj; cases hj
      have hkk := aKeyOf_ident_eq hk
      obtain ⟨rfl, _, _⟩ := readIdent_some hri
      obtain ⟨a1, a2⟩ := a
      simp only at hkk; subst hkk; exact ha
  cases hxx : acc.x with
  | none => simp [hxx] at hx
  | some x =>
    cases hyy : acc.y with
    | none => simp [hyy] at hy
    | some y =>
      exact ⟨{ x := x, y := y, name := acc.name, color := acc.color, ident := acc.ident },
        by simp [parseAnchor, hacc, aFinish, hxx, hyy], hid⟩

theorem pKeyOf_ident_eq {s : Str} (h : pKeyOf s = some PKey.ident) : s = sIdentifier := by
  unfold pKeyOf at h
  repeat' split at h
  all_goals first | (cases h; done) | skip
  rename_i h6; rw [h6]; decide

theorem point_clean_accepted (law : ReadsNumerals rd) {ver : Nat} {seen : List Str} {e : Elem}
    {tbl : List (String × AK)} {as : List Attr} (hc : ElemClean rd ver e tbl as) (hn : e.name = sPoint)
    (hfr : ∀ v, (sIdentifier, v) ∈ as → v ∉ seen) :
    ∃ x, parsePoint rd ver seen as = some x ∧ ∀ i, x.ident = some i → (sIdentifier, i) ∈ as := by
  have htbl : tbl = [("x", AK.num), ("y", .num), ("type", .ptype), ("smooth", .smooth), ("name", .name), ("identifier", .ident)] := by
    have := hc.table; rw [hn] at this
    have h2 : attrTable sPoint = some [("x", AK.num), ("y", .num), ("type", .ptype), ("smooth", .smooth), ("name", .name), ("identifier", .ident)] := by
      decide
    rw [h2] at this; exact (Option.some.inj this).symm
  have hstep : ∀ a, a ∈ as → ∀ acc, ∃ acc', pStep rd ver seen acc a = some acc' := by
    intro a ha acc
    obtain ⟨nm, k, hf, hv1, hval⟩ := hc.each a ha
    obtain ⟨hmem, hnm⟩ := find_table hf
    rw [htbl] at hmem
    simp only [List.mem_cons, Prod.mk.injEq, List.not_mem_nil, or_false] at hmem
    obtain ⟨a1, a2⟩ := a
    simp only at hnm hval
    rcases hmem with ⟨rfl, rfl⟩ | ⟨rfl, rfl⟩ | ⟨rfl, rfl⟩ | ⟨rfl, rfl⟩ | ⟨rfl, rfl⟩ | ⟨rfl, rfl⟩ <;> subst hnm
    · obtain ⟨b, hb⟩ := law a2 hval
      exact Option.isSome_iff_exists.1 (by simp [pStep, pApply, hb])
    · obtain ⟨b, hb⟩ := law a2 hval
      exact Option.isSome_iff_exists.1 (by simp [pStep, pApply, hb])
    · obtain ⟨t, ht⟩ := (hval : ∃ t, readPointType a2 = some t)
      exact Option.isSome_iff_exists.1 (by simp [pStep, pApply, ht])
    · exact Option.isSome_iff_exists.1 (by simp [pStep, pApply])
    · have hvn : validName a2 = true := hval
      exact Option.isSome_iff_exists.1 (by simp [pStep, pApply, hvn])
    · have hv : ver ≠ 1 := fun e => hv1 ⟨rfl, e⟩
      have hfresh := hfr a2 (by simpa [sIdentifier_lit] using ha)
      have hvi := (hval : validIdent a2 = true ∧ a2 ≠ []).1
      exact Option.isSome_iff_exists.1 (by simp [pStep, pApply, readIdent, hv, hvi, hfresh])
  obtain ⟨acc, hacc⟩ := foldAttrs_isSome _ as hstep {}
  have hx : acc.x.isSome = true := by
    refine foldAttrs_establishes (pStep rd ver seen) (fun a => a.x.isSome = true) "x".toList ?_ ?_ as {} acc hacc
      (Or.inr (has_mem (hc.req "x" (by rw [hn]; decide))))
    · intro acc a acc' hp hs
      unfold pStep at hs; split at hs
      · cases hs
      · rename_i k _; cases k <;> simp only [pApply] at hs <;> repeat' split at hs
        all_goals first | (cases hs; done) | (cases hs; first | exact hp | rfl)
    · intro acc a acc' hk hs
      have hk' : pKeyOf a.1 = some .x := by rw [hk]; decide
      simp only [pStep, hk', pApply] at hs
      split at hs <;> cases hs; rfl
  have hy : acc.y.isSome = true := by
    refine foldAttrs_establishes (pStep rd ver seen) (fun a => a.y.isSome = true) "y".toList ?_ ?_ as {} acc hacc
      (Or.inr (has_mem (hc.req "y" (by rw [hn]; decide))))
    · intro acc a acc' hp hs
      unfold pStep at hs; split at hs
      · cases hs
      · rename_i k _; cases k <;> simp only [pApply] at hs <;> repeat' split at hs
        all_goals first | (cases hs; done) | (cases hs; first | exact hp | rfl)
    · intro acc a acc' hk hs
      have hk' : pKeyOf a.1 = some .y := by rw [hk]; decide
      simp only [pStep, hk', pApply] at hs
      split at hs <;> cases hs; rfl
  have hid : ∀ i, acc.ident = some i → (sIdentifier, i) ∈ as := by
    refine foldAttrs_inv_mem (pStep rd ver seen) (fun a => ∀ i, a.ident = some i → (sIdentifier, i) ∈ as) as ?_ {} acc
      (by intro i hi; cases hi) hacc
    intro acc a acc' ha hp hs
    unfold pStep at hs; split at hs
    · cases hs
    · rename_i k hk; cases k <;> simp only [pApply] at hs <;> repeat' split at hs
      all_goals first | (cases hs; done) | (cases hs; first | exact hp | skip)
      rename_i i hri
      intro j hj; cases hj
      have hkk := pKeyOf_ident_eq hk
      obtain ⟨rfl, _, _⟩ := readIdent_some hri
      obtain ⟨a1, a2⟩ := a
      simp only at hkk; subst hkk; exact ha
  cases hxx : acc.x with
  | none => simp [hxx] at hx
  | some x =>
    cases hyy : acc.y with
    | none => simp [hyy] at hy
    | some y =>
      exact ⟨{ x := x, y := y, typ := acc.typ, smooth := acc.smooth, name := acc.name, ident := acc.ident },
        by simp [parsePoint, hacc, pFinish, hxx, hyy], hid⟩

theorem advance_clean_accepted (law : ReadsNumerals rd) {ver : Nat} {e : Elem}
    {tbl : List (String × AK)} {as : List Attr} (hc : ElemClean rd ver e tbl as) (hn : e.name = sAdvance) :
    ∃ wh, parseAdvance rd as = some wh := by
  have htbl : tbl = [("width", AK.num), ("height", .num)] := by
    have := hc.table; rw [hn] at this
    have h2 : attrTable sAdvance = some [("width", AK.num), ("height", .num)] := by decide
    rw [h2] at this; exact (Option.some.inj this).symm
  refine foldAttrs_isSome _ as ?_ (0, 0)
  intro a ha acc
  obtain ⟨nm, k, hf, _, hval⟩ := hc.each a ha
  obtain ⟨hmem, hnm⟩ := find_table hf
  rw [htbl] at hmem
  simp only [List.mem_cons, Prod.mk.injEq, List.not_mem_nil, or_false] at hmem
  obtain ⟨a1, a2⟩ := a
  simp only at hnm hval
  rcases hmem with ⟨rfl, rfl⟩ | ⟨rfl, rfl⟩ <;> subst hnm
  · obtain ⟨b, hb⟩ := law a2 hval
    exact Option.isSome_iff_exists.1 (by simp [advStep, advApply, hb])
  · obtain ⟨b, hb⟩ := law a2 hval
    exact Option.isSome_iff_exists.1 (by simp [advStep, advApply, hb])

theorem unicode_clean_accepted {ver : Nat} {e : Elem} {tbl : List (String × AK)} {as : List Attr}
    (hc : ElemClean rd ver e tbl as) (hn : e.name = sUnicode) (cps : List Nat) :
    ∃ cps', parseUnicode cps as = some cps' := by
  have htbl : tbl = [("hex", AK.hex)] := by
    have := hc.table; rw [hn] at this
    have h2 : attrTable sUnicode = some [("hex", AK.hex)] := by decide
    rw [h2] at this; exact (Option.some.inj this).symm
  refine foldAttrs_isSome _ as ?_ cps
  intro a ha acc
  obtain ⟨nm, k, hf, _, hval⟩ := hc.each a ha
  obtain ⟨hmem, hnm⟩ := find_table hf
  rw [htbl] at hmem
  simp only [List.mem_cons, Prod.mk.injEq, List.not_mem_nil, or_false] at hmem
  obtain ⟨a1, a2⟩ := a
  simp only at hnm hval
  obtain ⟨rfl, rfl⟩ := hmem
  subst hnm
  obtain ⟨c, hcp⟩ := (hval : ∃ c, parseHex a2 = some c)
  exact Option.isSome_iff_exists.1 (by simp [uniStep, sHex_lit, hcp])

theorem cKeyOf_ident_eq {s : Str} (h : cKeyOf s = some CKey.ident) : s = sIdentifier := by
  unfold cKeyOf at h
  cases ht : tKeyOf s with
  | some k => simp [ht] at h
  | none =>
    simp only [ht] at h
    repeat' split at h
    all_goals first | (cases h; done) | skip
    rename_i h2; rw [h2]; decide

theorem component_clean_accepted (law : ReadsNumerals rd) {ver : Nat} {seen : List Str} {e : Elem}
    {tbl : List (String × AK)} {as : List Attr} (hc : ElemClean rd ver e tbl as) (hn : e.name = sComponent)
    (hfr : ∀ v, (sIdentifier, v) ∈ as → v ∉ seen) :
    ∃ x, parseComponent rd ver seen as = some x ∧ ∀ i, x.ident = some i → (sIdentifier, i) ∈ as := by
  have htbl : tbl = [("base", AK.name), ("identifier", .ident), ("xScale", .num), ("xyScale", .num), ("yxScale", .num),
      ("yScale", .num), ("xOffset", .num), ("yOffset", .num)] := by
    have := hc.table; rw [hn] at this
    have h2 : attrTable sComponent = some [("base", AK.name), ("identifier", .ident), ("xScale", .num), ("xyScale", .num),
        ("yxScale", .num), ("yScale", .num), ("xOffset", .num), ("yOffset", .num)] := by decide
    rw [h2] at this; exact (Option.some.inj this).symm
  have hstep : ∀ a, a ∈ as → ∀ acc, ∃ acc', cStep rd ver seen acc a = some acc' := by
    intro a ha acc
    obtain ⟨nm, k, hf, hv1, hval⟩ := hc.each a ha
    obtain ⟨hmem, hnm⟩ := find_table hf
    rw [htbl] at hmem
    simp only [List.mem_cons, Prod.mk.injEq, List.not_mem_nil, or_false] at hmem
    obtain ⟨a1, a2⟩ := a
    simp only at hnm hval
    rcases hmem with ⟨rfl, rfl⟩ | ⟨rfl, rfl⟩ | ⟨rfl, rfl⟩ | ⟨rfl, rfl⟩ | ⟨rfl, rfl⟩ | ⟨rfl, rfl⟩ | ⟨rfl, rfl⟩ | ⟨rfl, rfl⟩ <;>
      subst hnm
    · have hvn : validName a2 = true := hval
      exact Option.isSome_iff_exists.1 (by simp [cStep, cApply, hvn])
    · have hv : ver ≠ 1 := fun e => hv1 ⟨rfl, e⟩
      have hfresh := hfr a2 (by simpa [sIdentifier_lit] using ha)
      have hvi := (hval : validIdent a2 = true ∧ a2 ≠ []).1
      exact Option.isSome_iff_exists.1 (by simp [cStep, cApply, readIdent, hv, hvi, hfresh])
    all_goals
      obtain ⟨b, hb⟩ := law a2 hval
      exact Option.isSome_iff_exists.1 (by simp [cStep, cApply, hb])
  obtain ⟨acc, hacc⟩ := foldAttrs_isSome _ as hstep {}
  have hb : acc.base.isSome = true := by
    refine foldAttrs_establishes (cStep rd ver seen) (fun a => a.base.isSome = true) "base".toList ?_ ?_ as {} acc hacc
      (Or.inr (has_mem (hc.req "base" (by rw [hn]; decide))))
    · intro acc a acc' hp hs
      unfold cStep at hs; split at hs
      · cases hs
      · rename_i k _; cases k <;> simp only [cApply] at hs <;> repeat' split at hs
        all_goals first | (cases hs; done) | (cases hs; first | exact hp | rfl)
    · intro acc a acc' hk hs
      have hk' : cKeyOf a.1 = some .base := by rw [hk]; decide
      simp only [cStep, hk', cApply] at hs
      split at hs <;> cases hs; rfl
  have hid : ∀ i, acc.ident = some i → (sIdentifier, i) ∈ as := by
    refine foldAttrs_inv_mem (cStep rd ver seen) (fun a => ∀ i, a.ident = some i → (sIdentifier, i) ∈ as) as ?_ {} acc
      (by intro i hi; cases hi) hacc
    intro acc a acc' ha hp hs
    unfold cStep at hs; split at hs
    · cases hs
    · rename_i k hk; cases k <;> simp only [cApply] at hs <;> repeat' split at hs
      all_goals first | (cases hs; done) | (cases hs; first | exact hp | skip)
      rename_i i hri
      intro j hj; cases hj
      have hkk := cKeyOf_ident_eq hk
      obtain ⟨rfl, _, _⟩ := readIdent_some hri
      obtain ⟨a1, a2⟩ := a
      simp only at hkk; subst hkk; exact ha
  cases hbb : acc.base with
  | none => simp [hbb] at hb
  | some b =>
    exact ⟨{ base := b, transform := acc.transform, ident := acc.ident },
      by simp [parseComponent, hacc, cFinish, hbb], hid⟩

theorem image_clean_accepted (law : ReadsNumerals rd) {ver : Nat} {e : Elem}
    {tbl : List (String × AK)} {as : List Attr} (hc : ElemClean rd ver e tbl as) (hn : e.name = sImage) :
    ∃ x, parseImage rd as = some x := by
  have htbl : tbl = [("fileName", AK.file), ("color", .color), ("xScale", .num), ("xyScale", .num), ("yxScale", .num),
      ("yScale", .num), ("xOffset", .num), ("yOffset", .num)] := by
    have := hc.table; rw [hn] at this
    have h2 : attrTable sImage = some [("fileName", AK.file), ("color", .color), ("xScale", .num), ("xyScale", .num),
        ("yxScale", .num), ("yScale", .num), ("xOffset", .num), ("yOffset", .num)] := by decide
    rw [h2] at this; exact (Option.some.inj this).symm
  -- the value of a `fileName` attribute is a legal image name
  have hfile : ∀ a, a ∈ as → a.1 = "fileName".toList → imageNameOk a.2 = true := by
    intro a ha hk
    obtain ⟨nm, k, hf, _, hval⟩ := hc.each a ha
    obtain ⟨hmem, hnm⟩ := find_table hf
    rw [htbl] at hmem
    simp only [List.mem_cons, Prod.mk.injEq, List.not_mem_nil, or_false] at hmem
    rw [hk] at hnm
    rcases hmem with ⟨rfl, rfl⟩ | ⟨rfl, rfl⟩ | ⟨rfl, rfl⟩ | ⟨rfl, rfl⟩ | ⟨rfl, rfl⟩ | ⟨rfl, rfl⟩ | ⟨rfl, rfl⟩ | ⟨rfl, rfl⟩
    · exact hval
    all_goals exact absurd hnm (by decide)
  have hstep : ∀ a, a ∈ as → ∀ acc, ∃ acc', iStep rd acc a = some acc' := by
    intro a ha acc
    obtain ⟨nm, k, hf, hv1, hval⟩ := hc.each a ha
    obtain ⟨hmem, hnm⟩ := find_table hf
    rw [htbl] at hmem
    simp only [List.mem_cons, Prod.mk.injEq, List.not_mem_nil, or_false] at hmem
    obtain ⟨a1, a2⟩ := a
    simp only at hnm hval
    rcases hmem with ⟨rfl, rfl⟩ | ⟨rfl, rfl⟩ | ⟨rfl, rfl⟩ | ⟨rfl, rfl⟩ | ⟨rfl, rfl⟩ | ⟨rfl, rfl⟩ | ⟨rfl, rfl⟩ | ⟨rfl, rfl⟩ <;>
      subst hnm
    · exact Option.isSome_iff_exists.1 (by simp [iStep, iApply])
    · obtain ⟨c, hcl⟩ := (hval : ∃ c, readCol rd a2 = some c)
      exact Option.isSome_iff_exists.1 (by simp [iStep, iApply, hcl])
    all_goals
      obtain ⟨b, hb⟩ := law a2 hval
      exact Option.isSome_iff_exists.1 (by simp [iStep, iApply, hb])
  obtain ⟨acc, hacc⟩ := foldAttrs_isSome _ as hstep {}
  have hfn : acc.fileName.isSome = true := by
    refine foldAttrs_establishes (iStep rd) (fun a => a.fileName.isSome = true) "fileName".toList ?_ ?_ as {} acc hacc
      (Or.inr (has_mem (hc.req "fileName" (by rw [hn]; decide))))
    · intro acc a acc' hp hs
      unfold iStep at hs; split at hs
      · cases hs
      · rename_i k _; cases k <;> simp only [iApply] at hs <;> repeat' split at hs
        all_goals first | (cases hs; done) | (cases hs; first | exact hp | rfl)
    · intro acc a acc' hk hs
      have hk' : iKeyOf a.1 = some .fileName := by rw [hk]; decide
      simp only [iStep, hk', iApply] at hs
      cases hs; rfl
  have hok : ∀ f, acc.fileName = some f → imageNameOk f = true := by
    refine foldAttrs_inv_mem (iStep rd) (fun a => ∀ f, a.fileName = some f → imageNameOk f = true) as ?_ {} acc
      (by intro f hf; cases hf) hacc
    intro acc a acc' ha hp hs
    unfold iStep at hs; split at hs
    · cases hs
    · rename_i k hk; cases k <;> simp only [iApply] at hs <;> repeat' split at hs
      all_goals first | (cases hs; done) | (cases hs; first | exact hp | skip)
      intro f hf; cases hf
      apply hfile a ha
      unfold iKeyOf at hk
      cases ht : tKeyOf a.1 with
      | some k => simp [ht] at hk
      | none =>
        simp only [ht] at hk
        repeat' split at hk
        all_goals first | (cases hk; done) | skip
        rename_i h2; exact h2
  cases hff : acc.fileName with
  | none => simp [hff] at hfn
  | some f =>
    exact ⟨{ fileName := f, color := acc.color, transform := acc.transform },
      by simp [parseImage, hacc, iFinish, hff, hok f hff]⟩

def guKeyName : GuKey → Str
  | .x => "x".toList | .y => "y".toList | .angle => "angle".toList
  | .name => "name".toList | .color => "color".toList | .ident => sIdentifier

theorem guKeyOf_eq {s : Str} {k : GuKey} (h : guKeyOf s = some k) : s = guKeyName k := by
  unfold guKeyOf at h
  repeat' split at h
  all_goals first | (cases h; done) | (cases h; rename_i hh; rw [hh]; first | rfl | decide)

theorem has_false_not_mem {as : List Attr} {k : String} (h : has as k = false) : k.toList ∉ as.map (·.1) := by
  intro hm
  rw [mem_has hm] at h
  cases h

theorem guideline_clean_accepted (law : ReadsNumerals rd) {ver : Nat} {seen : List Str} {e : Elem}
    {tbl : List (String × AK)} {as : List Attr} (hc : ElemClean rd ver e tbl as) (hn : e.name = sGuideline)
    (hfr : ∀ v, (sIdentifier, v) ∈ as → v ∉ seen) :
    ∃ x, parseGuideline rd ver seen as = some x ∧ ∀ i, x.ident = some i → (sIdentifier, i) ∈ as := by
  have htbl : tbl = [("x", AK.num), ("y", .num), ("angle", .angle), ("name", .name), ("color", .color), ("identifier", .ident)] := by
    have := hc.table; rw [hn] at this
    have h2 : attrTable sGuideline = some [("x", AK.num), ("y", .num), ("angle", .angle), ("name", .name), ("color", .color),
        ("identifier", .ident)] := by decide
    rw [h2] at this; exact (Option.some.inj this).symm
  have hstep : ∀ a, a ∈ as → ∀ acc, ∃ acc', guStep rd ver seen acc a = some acc' := by
    intro a ha acc
    obtain ⟨nm, k, hf, hv1, hval⟩ := hc.each a ha
    obtain ⟨hmem, hnm⟩ := find_table hf
    rw [htbl] at hmem
    simp only [List.mem_cons, Prod.mk.injEq, List.not_mem_nil, or_false] at hmem
    obtain ⟨a1, a2⟩ := a
    simp only at hnm hval
    rcases hmem with ⟨rfl, rfl⟩ | ⟨rfl, rfl⟩ | ⟨rfl, rfl⟩ | ⟨rfl, rfl⟩ | ⟨rfl, rfl⟩ | ⟨rfl, rfl⟩ <;> subst hnm
    · obtain ⟨b, hb⟩ := law a2 hval
      exact Option.isSome_iff_exists.1 (by simp [guStep, guApply, hb])
    · obtain ⟨b, hb⟩ := law a2 hval
      exact Option.isSome_iff_exists.1 (by simp [guStep, guApply, hb])
    · obtain ⟨b, hb, hab⟩ := (hval : ∃ b, rd a2 = some b ∧ angleOk b = true)
      exact Option.isSome_iff_exists.1 (by simp [guStep, guApply, hb, hab])
    · have hvn : validName a2 = true := hval
      exact Option.isSome_iff_exists.1 (by simp [guStep, guApply, hvn])
    · obtain ⟨c, hcl⟩ := (hval : ∃ c, readCol rd a2 = some c)
      exact Option.isSome_iff_exists.1 (by simp [guStep, guApply, hcl])
    · have hv : ver ≠ 1 := fun e => hv1 ⟨rfl, e⟩
      have hfresh := hfr a2 (by simpa [sIdentifier_lit] using ha)
      have hvi := (hval : validIdent a2 = true ∧ a2 ≠ []).1
      exact Option.isSome_iff_exists.1 (by simp [guStep, guApply, readIdent, hv, hvi, hfresh])
  obtain ⟨acc, hacc⟩ := foldAttrs_isSome _ as hstep {}
  -- presence of each of the three fields mirrors presence of its attribute
  have pres : ∀ (P : GuideAcc → Prop) (kk : GuKey), (P {} → False) →
      (∀ acc k v acc', guApply rd ver seen k v acc = some acc' → (k = kk → P acc') ∧ (k ≠ kk → (P acc' ↔ P acc))) →
      (P acc ↔ guKeyName kk ∈ as.map (·.1)) := by
    intro P kk h0 hap
    constructor
    · intro hp
      apply Classical.byContradiction
      intro hnot
      exact foldAttrs_absent (guStep rd ver seen) P (guKeyName kk) (by
        intro acc a acc' hk hnp hs
        unfold guStep at hs; split at hs
        · cases hs
        · rename_i k hk'
          have hne : k ≠ kk := by intro e; subst e; exact hk (guKeyOf_eq hk')
          exact fun hp' => hnp (((hap acc k a.2 acc' hs).2 hne).1 hp')) as {} acc hacc h0 hnot hp
    · intro hm
      refine foldAttrs_establishes (guStep rd ver seen) P (guKeyName kk) ?_ ?_ as {} acc hacc (Or.inr hm)
      · intro acc a acc' hp hs
        unfold guStep at hs; split at hs
        · cases hs
        · rename_i k _
          by_cases hk : k = kk
          · exact (hap acc k a.2 acc' hs).1 hk
          · exact ((hap acc k a.2 acc' hs).2 hk).2 hp
      · intro acc a acc' hk hs
        unfold guStep at hs; split at hs
        · cases hs
        · rename_i k hk'
          have : k = kk := by
            have h1 := guKeyOf_eq hk'
            rw [hk] at h1
            cases k <;> cases kk <;> first | rfl | (exact absurd h1 (by decide))
          exact (hap acc k a.2 acc' hs).1 this
  have hxP := pres (fun a => a.x.isSome = true) .x (by simp) (by
    intro acc k v acc' hs
    cases k <;> simp only [guApply] at hs <;> repeat' split at hs
    all_goals first | (cases hs; done) | (cases hs; simp))
  have hyP := pres (fun a => a.y.isSome = true) .y (by simp) (by
    intro acc k v acc' hs
    cases k <;> simp only [guApply] at hs <;> repeat' split at hs
    all_goals first | (cases hs; done) | (cases hs; simp))
  have haP := pres (fun a => a.angle.isSome = true) .angle (by simp) (by
    intro acc k v acc' hs
    cases k <;> simp only [guApply] at hs <;> repeat' split at hs
    all_goals first | (cases hs; done) | (cases hs; simp))
  have hid : ∀ i, acc.ident = some i → (sIdentifier, i) ∈ as := by
    refine foldAttrs_inv_mem (guStep rd ver seen) (fun a => ∀ i, a.ident = some i → (sIdentifier, i) ∈ as) as ?_ {} acc
      (by intro i hi; cases hi) hacc
    intro acc a acc' ha hp hs
    unfold guStep at hs; split at hs
    · cases hs
    · rename_i k hk; cases k <;> simp only [guApply] at hs <;> repeat' split at hs
      all_goals first | (cases hs; done) | (cases hs; first | exact hp | skip)
      rename_i i hri
      intro j hj; cases hj
      have hkk := guKeyOf_eq hk
      obtain ⟨rfl, _, _⟩ := readIdent_some hri
      obtain ⟨a1, a2⟩ := a
      simp only [guKeyName] at hkk; subst hkk; exact ha
  have hmx : ∀ {b : Bool}, has as "x" = b → (acc.x.isSome = b) := by
    intro b hb; cases b
    · cases h : acc.x.isSome with
      | false => rfl
      | true => exact absurd (hxP.1 h) (has_false_not_mem hb)
    · exact hxP.2 (has_mem hb)
  have hmy : ∀ {b : Bool}, has as "y" = b → (acc.y.isSome = b) := by
    intro b hb; cases b
    · cases h : acc.y.isSome with
      | false => rfl
      | true => exact absurd (hyP.1 h) (has_false_not_mem hb)
    · exact hyP.2 (has_mem hb)
  have hma : ∀ {b : Bool}, has as "angle" = b → (acc.angle.isSome = b) := by
    intro b hb; cases b
    · cases h : acc.angle.isSome with
      | false => rfl
      | true => exact absurd (haP.1 h) (has_false_not_mem hb)
    · exact haP.2 (has_mem hb)
  rcases hc.shape hn with ⟨s1, s2, s3⟩ | ⟨s1, s2, s3⟩ | ⟨s1, s2, s3⟩
  all_goals
    have e1 := hmx s1
    have e2 := hmy s2
    have e3 := hma s3
    cases hxx : acc.x <;> cases hyy : acc.y <;> cases haa : acc.angle <;> simp [hxx, hyy, haa] at e1 e2 e3
    have hfin : ∃ x, guFinish acc = some x ∧ x.ident = acc.ident := by simp [guFinish, hxx, hyy, haa]
    obtain ⟨x, hx1, hx2⟩ := hfin
    exact ⟨x, by simp [parseGuideline, hacc, hx1], by rw [hx2]; exact hid⟩

/-- the step neither fails nor ends the parse -/
def stepContinues : StepRes → Bool
  | .ok (.inl _) => true
  | _ => false

/-- **a `judge`-clean self-closing element is accepted wherever it may stand** (format 2 or 1 alike, as far as the
    element is allowed there): for any parser state at the right level whose identifier set does not contain the
    element's identifier — and, for the once-only elements, that has not seen one yet — the step succeeds. -/
theorem clean_element_step (law : ReadsNumerals rd) {s : PS} {e : Elem} (hclean : elemCheck rd s.ver e = ([], false))
    (hfr : ∀ as v, e.attrs = some as → (sIdentifier, v) ∈ as → v ∉ s.seen) :
    (s.mode = .body → e.name = sAdvance → s.seenAdvance = false → stepContinues (step rd s (.empty e.name e.attrs)) = true) ∧
    (s.mode = .body → e.name = sUnicode → stepContinues (step rd s (.empty e.name e.attrs)) = true) ∧
    (s.mode = .body → e.name = sAnchor → stepContinues (step rd s (.empty e.name e.attrs)) = true) ∧
    (s.mode = .body → e.name = sGuideline → stepContinues (step rd s (.empty e.name e.attrs)) = true) ∧
    (s.mode = .body → e.name = sImage → s.g.image = none → stepContinues (step rd s (.empty e.name e.attrs)) = true) ∧
    (∀ ob, s.mode = .outline ob → e.name = sComponent → stepContinues (step rd s (.empty e.name e.attrs)) = true) ∧
    (∀ ob cid pts, s.mode = .contour ob cid pts → e.name = sPoint →
      stepContinues (step rd s (.empty e.name e.attrs)) = true) := by
  obtain ⟨tbl, as, hc⟩ := elemCheck_clean hclean
  have hfr' : ∀ v, (sIdentifier, v) ∈ as → v ∉ s.seen := fun v hv => hfr as v hc.attrs hv
  have hv1 := hc.v1
  refine ⟨?_, ?_, ?_, ?_, ?_, ?_, ?_⟩
  · intro hm hn hs
    obtain ⟨wh, hp⟩ := advance_clean_accepted law hc hn
    obtain ⟨w, h⟩ := wh
    rw [hn, hc.attrs]; simp +decide [step, hm, stepBody, bodyEmpty, hs, hp, cont, stepContinues]
  · intro hm hn
    obtain ⟨cps, hp⟩ := unicode_clean_accepted hc hn s.g.codepoints
    rw [hn, hc.attrs]; simp +decide [step, hm, stepBody, bodyEmpty, hp, cont, stepContinues]
  · intro hm hn
    obtain ⟨x, hp, _⟩ := anchor_clean_accepted law hc hn hfr'
    have hv : s.ver ≠ 1 := fun h => hv1 ⟨h, Or.inl hn⟩
    rw [hn, hc.attrs]; simp +decide [step, hm, stepBody, bodyEmpty, hv, hp, cont, stepContinues]
  · intro hm hn
    obtain ⟨x, hp, _⟩ := guideline_clean_accepted law hc hn hfr'
    have hv : s.ver ≠ 1 := fun h => hv1 ⟨h, Or.inr (Or.inl hn)⟩
    rw [hn, hc.attrs]; simp +decide [step, hm, stepBody, bodyEmpty, hv, hp, cont, stepContinues]
  · intro hm hn hi
    obtain ⟨x, hp⟩ := image_clean_accepted law hc hn
    have hv : s.ver ≠ 1 := fun h => hv1 ⟨h, Or.inr (Or.inr hn)⟩
    rw [hn, hc.attrs]; simp +decide [step, hm, stepBody, bodyEmpty, hv, hi, hp, cont, stepContinues]
  · intro ob hm hn
    obtain ⟨x, hp, _⟩ := component_clean_accepted law hc hn hfr'
    rw [hn, hc.attrs]; simp +decide [step, hm, stepOutline, hp, cont, stepContinues]
  · intro ob cid pts hm hn
    obtain ⟨x, hp, _⟩ := point_clean_accepted law hc hn hfr'
    rw [hn, hc.attrs]; simp +decide [step, hm, stepContour, hp, cont, stepContinues]

end

end Glif
