import Norad.Lemmas.JudgeBody
import Norad.Lemmas.JudgeFlag
/-!
# The first flagged position, derived from `judge`'s own clauses

`Lemmas/JudgeBody.lean` takes the position of the refused item (and, inside an outline, the clean sibling prefix and the
refused child) as hypotheses in the model's terms (`OKidsClean`, `OBad`, `CKidsClean`, `CBad`).  This file derives them from
the specification's checks: for a list of children either ALL are clean with pairwise different, fresh identifiers, or
there is a FIRST child that the parser refuses, after a clean prefix (`ckids_split`, `okids_split`).  Identifier clashes
between two points / contours / components of the same outline are found this way as well.  `first_failure` is the generic
"shortest failing prefix" argument used at the body level, `judge_of_clean` the converse of `judge_clean`.
-/
namespace Glif
open Spec
section
variable {rd : Str → Option Nat}

/-! ### generic -/

theorem first_failure {α : Type} (P : List α → Prop) : ∀ (its pre : List α), P pre → ¬ P (pre ++ its) →
    ∃ mid bad post, its = mid ++ bad :: post ∧ P (pre ++ mid) ∧ ¬ P (pre ++ mid ++ [bad]) := by
  intro its
  induction its with
  | nil => intro pre h1 h2; rw [List.append_nil] at h2; exact absurd h1 h2
  | cons it r ih =>
    intro pre h1 h2
    by_cases h : P (pre ++ [it])
    · have h2' : ¬ P ((pre ++ [it]) ++ r) := by simpa [List.append_assoc] using h2
      obtain ⟨mid, bad, post, e, hp, hn⟩ := ih (pre ++ [it]) h h2'
      refine ⟨it :: mid, bad, post, by rw [e]; rfl, ?_, ?_⟩
      · simpa [List.append_assoc] using hp
      · simpa [List.append_assoc] using hn
    · exact ⟨[], it, r, rfl, by simpa using h1, by simpa using h⟩

theorem merge_nil {rs : List (List String × Bool)} (h : ∀ r, r ∈ rs → r = ([], false)) : merge rs = ([], false) := by
  simp only [merge, Prod.mk.injEq, List.flatMap_eq_nil_iff, List.any_eq_false]
  exact ⟨fun r hr => by rw [h r hr], fun r hr => by rw [h r hr]; simp⟩

theorem mem_merge_of {rs : List (List String × Bool)} {x : List String × Bool} (hx : x ∈ rs) {r : String} (hr : r ∈ x.1) :
    r ∈ (merge rs).1 := by
  simp only [merge, List.mem_flatMap]; exact ⟨x, hx, hr⟩

theorem merge_snd_false {rs : List (List String × Bool)} (h : (merge rs).2 = false) {x : List String × Bool} (hx : x ∈ rs) :
    x.2 = false := by
  simp only [merge, List.any_eq_false] at h; simpa using h x hx

theorem clean_of_parts {x : List String × Bool} (h1 : x.1 = []) (h2 : x.2 = false) : x = ([], false) := by
  obtain ⟨a, b⟩ := x; simp only at h1 h2; rw [h1, h2]

theorem readIdent_of_mem (ver : Nat) {seen : List Str} {v : Str} (h : v ∈ seen) : readIdent ver seen v = none := by
  simp [readIdent, h]

theorem nodup_toList {α : Type} (o : Option α) : o.toList.Nodup := by cases o <;> simp

/-- `v1-element` is reported for anchor, guideline and image only -/
theorem v1_element_names {ver : Nat} {e : Elem} (h : "v1-element" ∈ (elemCheck rd ver e).1) :
    e.name = sAnchor ∨ e.name = sGuideline ∨ e.name = sImage := by
  unfold elemCheck at h
  cases ht : attrTable e.name with
  | none => simp [ht] at h
  | some tbl =>
    cases ha : e.attrs with
    | none => simp [ht, ha] at h
    | some as =>
      simp only [ht, ha] at h
      obtain ⟨x, hx, hrx⟩ := mem_merge h
      rcases List.mem_append.1 hx with hx | hx
      · obtain ⟨at', _, rfl⟩ := List.mem_map.1 hx
        exfalso
        revert hrx
        cases hf : tbl.find? (fun t => t.1.toList = at'.1) with
        | none => simp
        | some p =>
          obtain ⟨nm, k⟩ := p
          simp only
          split
          · simp
          · intro hrx
            cases k <;> simp only [valueCheck] at hrx <;> repeat' split at hrx
            all_goals simp at hrx
      · simp only [List.mem_cons, List.not_mem_nil, or_false] at hx
        rcases hx with rfl | rfl | rfl
        · simp at hrx
        · simp only at hrx
          split at hrx
          · repeat' split at hrx
            all_goals simp at hrx
          · cases hrx
        · simp only at hrx
          split at hrx
          · rename_i hcond
            exact hcond.2
          · cases hrx

/-! ### one content-free element with an identifier (point, component) -/

/-- a `point` / `component` whose attributes are given: either the parser refuses it (`ElemBad`), or `elemCheck` is clean and
    its identifier, if any, has not been seen -/
theorem ident_elem_decide (lawT : ReadsTrimmed rd) {ver : Nat} (seen : List Str) {e : Elem} {as : List Attr}
    (hn : e.name = sPoint ∨ e.name = sComponent) (ha : e.attrs = some as) (hnd : (as.map (·.1)).Nodup)
    (h2 : (elemCheck rd ver e).2 = false) (hnf : ∀ r, r ∈ (elemCheck rd ver e).1 → r ∉ findingValueRules) :
    ElemBad rd ver seen e.name as ∨
      (elemCheck rd ver e = ([], false) ∧ ∀ i, i ∈ elemIdent e → i ∉ seen) := by
  have ht : ∃ tbl, attrTable e.name = some tbl := by
    rcases hn with h | h <;> rw [h] <;> exact Option.isSome_iff_exists.1 (by decide)
  obtain ⟨tbl, ht⟩ := ht
  by_cases hc : (elemCheck rd ver e).1 = []
  · have hclean := clean_of_parts hc h2
    rw [elemIdent_eq ha]
    cases hg : Spec.get as "identifier" with
    | none => exact .inr ⟨hclean, by simp⟩
    | some i =>
      by_cases hi : i ∈ seen
      · left
        have hrf : readIdent ver seen i = none := readIdent_of_mem ver hi
        refine .attr (sIdentifier, i) (get_mem hg) ?_
        rcases hn with h | h <;> rw [h] <;> exact hrf
      · exact .inr ⟨hclean, by simpa using hi⟩
  · obtain ⟨r, hr⟩ := List.exists_mem_of_ne_nil _ hc
    left
    refine elemCheck_elemBad lawT ht ha hnd hr (hnf r hr) ?_
    intro hv
    subst hv
    have h3 := v1_element_names hr
    rcases hn with h | h <;> rw [h] at h3 <;> exact absurd h3 (by decide)

/-! ### the children of a contour -/

/-- what `contourCheck` says about one child of a contour -/
def ckidCheck (rd : Str → Option Nat) (ver : Nat) : CItem → List String × Bool
  | .elem e => if e.name = sPoint then elemCheck rd ver e else (["unknown-element"], false)
  | .comment => ([], false)

theorem ckid_decide (lawT : ReadsTrimmed rd) {ver : Nat} (seen : List Str) (k : CItem) (hsh : CShaped k)
    (h2 : (ckidCheck rd ver k).2 = false) (hnf : ∀ r, r ∈ (ckidCheck rd ver k).1 → r ∉ findingValueRules) :
    CBad rd ver seen k ∨
      ((∀ e, k = .elem e → e.name = sPoint ∧ elemCheck rd ver e = ([], false)) ∧ (citemIdents k).Nodup ∧
        ∀ i, i ∈ citemIdents k → i ∉ seen) := by
  cases k with
  | comment => exact .inr ⟨(by intro e h; cases h), (by simp [citemIdents]), (by simp [citemIdents])⟩
  | elem e =>
    by_cases hn : e.name = sPoint
    · cases ha : e.attrs with
      | none => exact .inl (.attrSyntax e ha)
      | some as =>
        simp only [ckidCheck, hn, if_true] at h2 hnf
        rcases ident_elem_decide lawT seen (.inl hn) ha (hsh.1 as ha) h2 hnf with hb | ⟨hc, hfr⟩
        · exact .inl (.point e as hn ha (hn ▸ hb))
        · refine .inr ⟨fun e' he => by cases he; exact ⟨hn, hc⟩, ?_, ?_⟩
          · simp only [citemIdents, hn, if_true, elemIdent_eq ha]; exact nodup_toList _
          · simpa only [citemIdents, hn, if_true] using hfr
    · exact .inl (.unknown e hn)

theorem ckidsClean_cons {ver : Nat} {seen : List Str} {k : CItem} {r : List CItem} (hsh : CShaped k)
    (hpt : ∀ e, k = .elem e → e.name = sPoint ∧ elemCheck rd ver e = ([], false))
    (hnd : (citemIdents k).Nodup) (hfr : ∀ i, i ∈ citemIdents k → i ∉ seen)
    (hc : CKidsClean rd ver (seen ++ citemIdents k) r) : CKidsClean rd ver seen (k :: r) := by
  refine ⟨?_, ?_, ?_, ?_⟩
  · intro x hx
    rcases List.mem_cons.1 hx with rfl | hx
    · exact hsh
    · exact hc.shaped x hx
  · intro e he
    rcases List.mem_cons.1 he with h | h
    · exact hpt e h.symm
    · exact hc.points e h
  · rw [List.flatMap_cons]
    refine List.nodup_append.2 ⟨hnd, hc.nodup, ?_⟩
    intro a ha b hb hab
    subst hab
    exact hc.fresh a hb (List.mem_append_right _ ha)
  · intro i hi
    rw [List.flatMap_cons] at hi
    rcases List.mem_append.1 hi with h | h
    · exact hfr i h
    · exact fun hm => hc.fresh i h (List.mem_append_left _ hm)

/-- **the children of a contour**: all clean with fresh, pairwise different identifiers — or a first one that the parser
    refuses (not a point, a point with a rule broken, a point whose identifier was used before) -/
theorem ckids_split (lawT : ReadsTrimmed rd) {ver : Nat} : ∀ (ks : List CItem) (seen : List Str),
    (∀ k, k ∈ ks → CShaped k) → (∀ k, k ∈ ks → (ckidCheck rd ver k).2 = false) →
    (∀ k, k ∈ ks → ∀ r, r ∈ (ckidCheck rd ver k).1 → r ∉ findingValueRules) →
    CKidsClean rd ver seen ks ∨ ∃ kpre kbad kpost, ks = kpre ++ kbad :: kpost ∧ CKidsClean rd ver seen kpre ∧
      CBad rd ver (seen ++ kpre.flatMap citemIdents) kbad
  | [], seen, _, _, _ => .inl ⟨by simp, by simp, by simp, by simp⟩
  | k :: r, seen, hsh, h2, hnf => by
    rcases ckid_decide lawT seen k (hsh k List.mem_cons_self) (h2 k List.mem_cons_self) (hnf k List.mem_cons_self) with
      hb | ⟨hpt, hnd, hfr⟩
    · exact .inr ⟨[], k, r, rfl, ⟨by simp, by simp, by simp, by simp⟩, by simpa using hb⟩
    · rcases ckids_split lawT r (seen ++ citemIdents k) (fun x hx => hsh x (List.mem_cons_of_mem _ hx))
          (fun x hx => h2 x (List.mem_cons_of_mem _ hx)) (fun x hx => hnf x (List.mem_cons_of_mem _ hx)) with
        hc | ⟨kpre, kbad, kpost, e, hc, hb⟩
      · exact .inl (ckidsClean_cons (hsh k List.mem_cons_self) hpt hnd hfr hc)
      · refine .inr ⟨k :: kpre, kbad, kpost, by rw [e]; rfl,
          ckidsClean_cons (hsh k List.mem_cons_self) hpt hnd hfr hc, CBad.congr ?_ hb⟩
        intro i
        simp [List.flatMap_cons, List.append_assoc]

/-! ### the children of an outline -/

/-- the attribute part of `contourCheck` -/
def ctOwn (rd : Str → Option Nat) (ver : Nat) (as : List Attr) : List String × Bool :=
  merge (as.map fun a =>
    if a.1 = "identifier".toList then
      (if ver == 1 then (["v1-attr"], false) else valueCheck rd .ident a.2)
    else (["unknown-attr"], false))

theorem contourCheck_eq (ver : Nat) (as : List Attr) (kids : List CItem) :
    contourCheck rd ver (some as) kids =
      merge (ctOwn rd ver as ::
        ((if (contourElems kids).all (fun e => e.name = sPoint) ∧ !C11.legalB ((contourElems kids).map ptOfElem)
          then ["contour"] else []), false) ::
        (contourElems kids).map (fun e => if e.name = sPoint then elemCheck rd ver e else (["unknown-element"], false))) := rfl

/-- the attributes of a contour start tag: one of them is refused, or all are clean -/
theorem ctOwn_decide {ver : Nat} (seen : List Str) {as : List Attr}
    (h2 : (ctOwn rd ver as).2 = false) (hnf : ∀ r, r ∈ (ctOwn rd ver as).1 → r ∉ findingValueRules) :
    (∃ a, a ∈ as ∧ CtAttrBad ver seen a) ∨
      (ctOwn rd ver as = ([], false) ∧ ∀ x, x ∈ as → x.1 = "identifier".toList ∧ ver ≠ 1 ∧ validIdent x.2 = true) := by
  by_cases hown : (ctOwn rd ver as).1 = []
  · right
    have hc := clean_of_parts hown h2
    refine ⟨hc, ?_⟩
    intro x hx
    have hx' := merge_clean hc _ (List.mem_map.2 ⟨x, hx, rfl⟩)
    by_cases hi : x.1 = "identifier".toList
    · simp only [hi, if_true] at hx'
      by_cases hv : ver = 1
      · subst hv; simp at hx'
      · have hv' : (ver == 1) = false := by simpa using hv
        simp only [hv', Bool.false_eq_true, if_false] at hx'
        exact ⟨hi, hv, (valueCheck_clean hx' : validIdent x.2 = true ∧ x.2 ≠ []).1⟩
    · rw [if_neg hi] at hx'
      cases hx'
  · left
    obtain ⟨r, hr⟩ := List.exists_mem_of_ne_nil _ hown
    have hfind := hnf r hr
    obtain ⟨x, hx, hrx⟩ := mem_merge hr
    obtain ⟨a, ha, rfl⟩ := List.mem_map.1 hx
    refine ⟨a, ha, ?_⟩
    by_cases hi : a.1 = "identifier".toList
    · by_cases hv : ver = 1
      · exact .inl hv
      · right; right
        have hv' : (ver == 1) = false := by simpa using hv
        simp only [hi, if_true, hv', Bool.false_eq_true, if_false, valueCheck] at hrx
        by_cases hok : identOk a.2 = true
        · simp [hok] at hrx
        · have hok' : identOk a.2 = false := by simpa using hok
          by_cases hemp : a.2 = []
          · exfalso
            apply hfind
            rw [hemp] at hrx hok'
            simp [hok'] at hrx
            subst hrx
            decide
          · exact readIdent_invalid' (identOk_false hok' hemp)
    · exact .inr (.inl hi)

theorem oitemIdents_contour (as : List Attr) (kids : List CItem) :
    oitemIdents (.contour (some as) false kids) = (Spec.get as "identifier").toList ++ kids.flatMap citemIdents := by
  simp only [oitemIdents]
  cases Spec.get as "identifier" <;> rfl

theorem okid_decide (lawT : ReadsTrimmed rd) {ver : Nat} (seen : List Str) (k : OItem) (hsh : OShaped k)
    (hal : ∀ e, k = .elem e → e.name ≠ sContour) (h2 : (oitemCheck rd ver k).2 = false)
    (hnf : ∀ r, r ∈ (oitemCheck rd ver k).1 → r ∉ findingValueRules ∧ r ≠ "container-attrs") :
    OBad rd ver seen k ∨
      (oitemCheck rd ver k = ([], false) ∧ (oitemIdents k).Nodup ∧ ∀ i, i ∈ oitemIdents k → i ∉ seen) := by
  cases k with
  | comment => exact .inr ⟨rfl, by simp [oitemIdents], by simp [oitemIdents]⟩
  | elem e =>
    by_cases hn : e.name = sComponent
    · cases ha : e.attrs with
      | none => exact .inl (.attrSyntax e (hal e rfl) ha)
      | some as =>
        simp only [oitemCheck, hn, if_true] at h2 hnf
        rcases ident_elem_decide lawT seen (.inr hn) ha (hsh.1 as ha) h2 (fun r hr => (hnf r hr).1) with hb | ⟨hc, hfr⟩
        · exact .inl (.component e as hn ha (hn ▸ hb))
        · refine .inr ⟨by simp only [oitemCheck, hn, if_true]; exact hc, ?_, ?_⟩
          · simp only [oitemIdents, hn, if_true, elemIdent_eq ha]; exact nodup_toList _
          · simpa only [oitemIdents, hn, if_true] using hfr
    · exact .inl (.unknown e hn (hal e rfl))
  | contour a sc kids =>
    cases sc with
    | true =>
      right
      refine ⟨?_, by simp [oitemIdents], by simp [oitemIdents]⟩
      simp only [oitemCheck] at h2 hnf ⊢
      by_cases hemp : (contourCheck rd ver a []).1.isEmpty = true
      · simp only [hemp, if_true] at h2 ⊢
        exact clean_of_parts (by simpa using hemp) h2
      · exfalso
        simp only [hemp, Bool.false_eq_true, if_false] at hnf
        exact (hnf "container-attrs" (by simp)).2 rfl
    | false =>
      cases a with
      | none => exact .inl (.contourAttrSyntax kids)
      | some as =>
        have hnda : (as.map (·.1)).Nodup := hsh.1 as rfl
        simp only [oitemCheck, contourCheck_eq] at h2 hnf ⊢
        have hown2 := merge_snd_false h2 (x := ctOwn rd ver as) List.mem_cons_self
        have hownf : ∀ r, r ∈ (ctOwn rd ver as).1 → r ∉ findingValueRules :=
          fun r hr => (hnf r (mem_merge_of List.mem_cons_self hr)).1
        rcases ctOwn_decide seen hown2 hownf with ⟨a, ha, hbad⟩ | ⟨hownc, hown⟩
        · exact .inl (.contourStart as kids a ha hbad)
        · -- the identifier of the contour itself
          by_cases hseen : ∃ i, Spec.get as "identifier" = some i ∧ i ∈ seen
          · obtain ⟨i, hg, hi⟩ := hseen
            exact .inl (.contourStart as kids (sIdentifier, i) (get_mem hg) (.inr (.inr (readIdent_of_mem ver hi))))
          · have hst : CtStartClean ver seen as :=
              ⟨hnda, hown, fun i hg hi => hseen ⟨i, hg, hi⟩⟩
            have hper : ∀ k, k ∈ kids → ckidCheck rd ver k ∈
                (contourElems kids).map (fun e => if e.name = sPoint then elemCheck rd ver e else (["unknown-element"], false)) ∨
                ckidCheck rd ver k = ([], false) := by
              intro k hk
              cases k with
              | comment => exact .inr rfl
              | elem e =>
                exact .inl (List.mem_map.2 ⟨e, List.mem_filterMap.2 ⟨_, hk, rfl⟩, rfl⟩)
            rcases ckids_split lawT kids (seen ++ (Spec.get as "identifier").toList) hsh.2
                (fun k hk => by
                  rcases hper k hk with h | h
                  · exact merge_snd_false h2 (List.mem_cons_of_mem _ (List.mem_cons_of_mem _ h))
                  · rw [h])
                (fun k hk r hr => by
                  rcases hper k hk with h | h
                  · exact (hnf r (mem_merge_of (List.mem_cons_of_mem _ (List.mem_cons_of_mem _ h)) hr)).1
                  · rw [h] at hr; cases hr) with hc | ⟨kpre, kbad, kpost, e, hc, hb⟩
            · cases hl : C11.legalB ((contourElems kids).map ptOfElem) with
              | false => exact .inl (.contourIllegal as kids hst hc hl)
              | true =>
                right
                refine ⟨?_, ?_, ?_⟩
                · apply merge_nil
                  intro x hx
                  rcases List.mem_cons.1 hx with rfl | hx
                  · exact hownc
                  · rcases List.mem_cons.1 hx with rfl | hx
                    · simp
                    · obtain ⟨e, he, rfl⟩ := List.mem_map.1 hx
                      obtain ⟨k, hk, hke⟩ := List.mem_filterMap.1 he
                      cases k with
                      | comment => cases hke
                      | elem e' =>
                        cases hke
                        have := hc.points _ hk
                        simp [this.1, this.2]
                · rw [oitemIdents_contour]
                  refine List.nodup_append.2 ⟨nodup_toList _, hc.nodup, ?_⟩
                  intro a ha b hb hab
                  subst hab
                  exact hc.fresh a hb (List.mem_append_right _ ha)
                · intro i hi
                  rw [oitemIdents_contour] at hi
                  rcases List.mem_append.1 hi with h | h
                  · cases hg : Spec.get as "identifier" with
                    | none => simp [hg] at h
                    | some j =>
                      simp [hg] at h
                      subst h
                      exact hst.fresh _ hg
                  · exact fun hm => hc.fresh i h (List.mem_append_left _ hm)
            · subst e
              exact .inl (.contourChild as kpre kbad kpost hst hc hb)

theorem okidsClean_cons {ver : Nat} {seen : List Str} {k : OItem} {r : List OItem} (hsh : OShaped k)
    (hcl : oitemCheck rd ver k = ([], false))
    (hnd : (oitemIdents k).Nodup) (hfr : ∀ i, i ∈ oitemIdents k → i ∉ seen)
    (hc : OKidsClean rd ver (seen ++ oitemIdents k) r) : OKidsClean rd ver seen (k :: r) := by
  refine ⟨?_, ?_, ?_, ?_⟩
  · intro x hx
    rcases List.mem_cons.1 hx with rfl | hx
    · exact hsh
    · exact hc.shaped x hx
  · intro x hx
    rcases List.mem_cons.1 hx with rfl | hx
    · exact hcl
    · exact hc.clean x hx
  · rw [List.flatMap_cons]
    refine List.nodup_append.2 ⟨hnd, hc.nodup, ?_⟩
    intro a ha b hb hab
    subst hab
    exact hc.fresh a hb (List.mem_append_right _ ha)
  · intro i hi
    rw [List.flatMap_cons] at hi
    rcases List.mem_append.1 hi with h | h
    · exact hfr i h
    · exact fun hm => hc.fresh i h (List.mem_append_left _ hm)

/-- **the children of an outline**: all clean (`oitemCheck`), identifiers pairwise different and fresh — or a first one
    the parser refuses, after a clean prefix.  Hypotheses: the shape the shape reader delivers, nothing unspecified, and no
    rule that corresponds to a recorded finding (`ident-empty`, `hex-plus`, `container-attrs`). -/
theorem okids_split (lawT : ReadsTrimmed rd) {ver : Nat} : ∀ (ks : List OItem) (seen : List Str),
    (∀ k, k ∈ ks → OShaped k) → (∀ e, OItem.elem e ∈ ks → e.name ≠ sContour) →
    (∀ k, k ∈ ks → (oitemCheck rd ver k).2 = false) →
    (∀ k, k ∈ ks → ∀ r, r ∈ (oitemCheck rd ver k).1 → r ∉ findingValueRules ∧ r ≠ "container-attrs") →
    OKidsClean rd ver seen ks ∨ ∃ kpre kbad kpost, ks = kpre ++ kbad :: kpost ∧ OKidsClean rd ver seen kpre ∧
      OBad rd ver (seen ++ kpre.flatMap oitemIdents) kbad
  | [], seen, _, _, _, _ => .inl ⟨by simp, by simp, by simp, by simp⟩
  | k :: r, seen, hsh, hal, h2, hnf => by
    rcases okid_decide lawT seen k (hsh k List.mem_cons_self) (fun e he => hal e (he ▸ List.mem_cons_self))
        (h2 k List.mem_cons_self) (hnf k List.mem_cons_self) with hb | ⟨hcl, hnd, hfr⟩
    · exact .inr ⟨[], k, r, rfl, ⟨by simp, by simp, by simp, by simp⟩, by simpa using hb⟩
    · rcases okids_split lawT r (seen ++ oitemIdents k) (fun x hx => hsh x (List.mem_cons_of_mem _ hx))
          (fun e he => hal e (List.mem_cons_of_mem _ he))
          (fun x hx => h2 x (List.mem_cons_of_mem _ hx)) (fun x hx => hnf x (List.mem_cons_of_mem _ hx)) with
        hc | ⟨kpre, kbad, kpost, e, hc, hb⟩
      · exact .inl (okidsClean_cons (hsh k List.mem_cons_self) hcl hnd hfr hc)
      · refine .inr ⟨k :: kpre, kbad, kpost, by rw [e]; rfl,
          okidsClean_cons (hsh k List.mem_cons_self) hcl hnd hfr hc, OBad.congr ?_ hb⟩
        intro i
        simp [List.flatMap_cons, List.append_assoc]

/-! ### the converse of `judge_clean` -/

theorem nodup_hasDup_false : ∀ {l : List Str}, l.Nodup → hasDup l = false
  | [], _ => rfl
  | x :: r, h => by
    simp only [List.nodup_cons] at h
    simp only [hasDup, Bool.or_eq_false_iff]
    exact ⟨by simpa using h.1, nodup_hasDup_false h.2⟩

theorem judge_of_clean {d : Doc} {ver : Nat} (h : JudgeClean rd d ver) : judge rd d = ([], false) := by
  have hv : docVersion d = (some ver, (docVersion d).2) := Prod.ext h.version rfl
  have hper : merge (d.items.map (itemCheck rd ver)) = ([], false) := by
    apply merge_nil
    intro r hr
    obtain ⟨it, hit, rfl⟩ := List.mem_map.1 hr
    exact h.items it hit
  have hdups : (onceOnly.filterMap fun n => if countName d n.toList > 1 then some ("dup-" ++ n) else none) = [] := by
    apply List.filterMap_eq_nil_iff.2
    intro n hn
    have := h.once n hn
    have hnot : ¬ countName d n.toList > 1 := by omega
    simp [hnot]
  have hids : hasDup (docIdents d) = false := nodup_hasDup_false h.idents
  unfold judge
  rw [hv]
  simp only [h.glyph, hper, hdups, hids, h.objlibs, h.trailer]
  simp [dedup]

theorem mem_dedup : ∀ {l : List String} {x : String}, x ∈ l → x ∈ dedup l
  | [], _, h => by cases h
  | y :: r, x, h => by
    simp only [dedup]
    by_cases hc : r.contains y = true
    · simp only [hc, if_true]
      rcases List.mem_cons.1 h with rfl | h
      · exact mem_dedup (List.contains_iff_mem.1 hc)
      · exact mem_dedup h
    · simp only [hc, Bool.false_eq_true, if_false]
      rcases List.mem_cons.1 h with rfl | h
      · exact List.mem_cons_self
      · exact List.mem_cons_of_mem _ (mem_dedup h)
/-! ### `judge`, for a glyph with a version, as one expression; small facts about its clauses -/

theorem judge_eq {d : Doc} {ver : Nat} (hver : (docVersion d).1 = some ver) :
    judge rd d =
      (dedup (glyphAttrCheck d ++ (merge (d.items.map (itemCheck rd ver))).1 ++
          (onceOnly.filterMap fun n => if countName d n.toList > 1 then some ("dup-" ++ n) else none) ++
          (if hasDup (docIdents d) then ["ident-dup"] else []) ++ objectLibsCheck d),
        (merge (d.items.map (itemCheck rd ver))).2 || !d.trailer.isEmpty) := by
  have hv : docVersion d = (some ver, (docVersion d).2) := Prod.ext hver rfl
  unfold judge
  rw [hv]

theorem objectLibsCheck_rules {d : Doc} {r : String} (h : r ∈ objectLibsCheck d) : r = "objlib-entry" ∨ r = "objlibs" := by
  simp only [objectLibsCheck, List.mem_flatMap] at h
  obtain ⟨i, _, hr⟩ := h
  repeat' split at hr
  all_goals simp at hr
  all_goals first | exact .inl hr | exact .inr hr

theorem containerAttrs_rule {a : Option (List Attr)} {r : String} (h : r ∈ containerAttrs a) : r = "container-attrs" := by
  cases a with
  | none => simpa [containerAttrs] using h
  | some as => cases as <;> simp [containerAttrs] at h <;> exact h

theorem cnt_append (a b : List Item) (n : Str) : cnt (a ++ b) n = cnt a n + cnt b n := by
  simp [cnt, List.filter_append]

theorem elemIdent_nodup (e : Elem) : (elemIdent e).Nodup := by
  cases ha : e.attrs with
  | none => simp [elemIdent, ha]
  | some as => rw [elemIdent_eq ha]; exact nodup_toList _
/-! ### the two laws assumed of Rust's float parser are jointly satisfiable

`ReadsNumerals rd` (every plain decimal numeral is read) and `ReadsTrimmed rd` (nothing with a blank at either end is read)
hold together for the reader that reads exactly the plain numerals: a numeral consists of digits, signs, `.`, `e`, `E`. -/

def numChar (c : Char) : Bool := isDigit c || c == '-' || c == '+' || c == '.' || c == 'e' || c == 'E'

theorem takeDigits_spec : ∀ (s : Str), (takeDigits s).1 ++ (takeDigits s).2 = s ∧ ∀ c, c ∈ (takeDigits s).1 → numChar c = true
  | [] => ⟨rfl, by intro c h; cases h⟩
  | c :: r => by
    obtain ⟨h1, h2⟩ := takeDigits_spec r
    unfold takeDigits
    by_cases hd : isDigit c = true
    · simp only [hd, if_true]
      refine ⟨by simp [h1], ?_⟩
      intro x hx
      rcases List.mem_cons.1 hx with rfl | hx
      · simp [numChar, hd]
      · exact h2 x hx
    · simp only [hd, Bool.false_eq_true, if_false]
      exact ⟨rfl, by intro x hx; cases hx⟩

def numStage3 (r : Str) : Bool :=
  match r with
  | [] => true
  | c :: r' =>
    if c = 'e' ∨ c = 'E' then
      let r' := match r' with | '+' :: t => t | '-' :: t => t | _ => r'
      let (e, t) := takeDigits r'
      !e.isEmpty && t.isEmpty
    else false

def numStage2 (r : Str) : Bool :=
  let r := match r with
    | '.' :: r' => let (f, t) := takeDigits r'; if f.isEmpty then ['!'] else t
    | _ => r
  numStage3 r

theorem numeral_eq (s : Str) : numeral s =
    (let s := match s with | '-' :: r => r | _ => s
     let (i, r) := takeDigits s
     if i.isEmpty then false else numStage2 r) := rfl

theorem all_digits_of_rest_nil {s : Str} (h : (takeDigits s).2.isEmpty = true) : ∀ c, c ∈ s → numChar c = true := by
  obtain ⟨h1, h2⟩ := takeDigits_spec s
  have : (takeDigits s).2 = [] := by simpa using h
  rw [this, List.append_nil] at h1
  intro c hc
  rw [← h1] at hc
  exact h2 c hc

theorem numStage3_chars {r : Str} (h : numStage3 r = true) : ∀ c, c ∈ r → numChar c = true := by
  unfold numStage3 at h
  split at h
  · intro c hc; cases hc
  · rename_i c r'
    split at h
    · rename_i hce
      have hc : numChar c = true := by rcases hce with rfl | rfl <;> decide
      simp only [Bool.and_eq_true] at h
      intro x hx
      rcases List.mem_cons.1 hx with rfl | hx
      · exact hc
      · revert h
        split
        · rename_i t
          intro h
          rcases List.mem_cons.1 hx with rfl | hx
          · decide
          · exact all_digits_of_rest_nil h.2 x hx
        · rename_i t
          intro h
          rcases List.mem_cons.1 hx with rfl | hx
          · decide
          · exact all_digits_of_rest_nil h.2 x hx
        · intro h
          exact all_digits_of_rest_nil h.2 x hx
    · cases h

theorem numStage2_chars {r : Str} (h : numStage2 r = true) : ∀ c, c ∈ r → numChar c = true := by
  unfold numStage2 at h
  revert h
  split
  · rename_i r'
    intro h
    obtain ⟨h1, h2⟩ := takeDigits_spec r'
    by_cases hf : (takeDigits r').1.isEmpty = true
    · simp only [hf, if_true] at h
      exact absurd h (by decide)
    · simp only [hf, Bool.false_eq_true, if_false] at h
      intro x hx
      rcases List.mem_cons.1 hx with rfl | hx
      · decide
      · rw [← h1] at hx
        rcases List.mem_append.1 hx with hx | hx
        · exact h2 x hx
        · exact numStage3_chars h x hx
  · intro h
    exact numStage3_chars h

theorem numeral_chars {s : Str} (h : numeral s = true) : ∀ c, c ∈ s → numChar c = true := by
  rw [numeral_eq] at h
  have key : ∀ s' : Str, (if (takeDigits s').1.isEmpty then false else numStage2 (takeDigits s').2) = true →
      ∀ c, c ∈ s' → numChar c = true := by
    intro s' h' c hc
    obtain ⟨h1, h2⟩ := takeDigits_spec s'
    by_cases hi : (takeDigits s').1.isEmpty = true
    · simp [hi] at h'
    · simp only [hi, Bool.false_eq_true, if_false] at h'
      rw [← h1] at hc
      rcases List.mem_append.1 hc with hc | hc
      · exact h2 c hc
      · exact numStage2_chars h' c hc
  revert h
  split
  · rename_i r
    intro h c hc
    rcases List.mem_cons.1 hc with rfl | hc
    · decide
    · exact key r h c hc
  · intro h
    exact key s h

theorem numChar_nonblank {c : Char} (h : numChar c = true) :
    decide (c = ' ' ∨ c = '\t' ∨ c = '\n' ∨ c = '\r') = false := by
  simp only [decide_eq_false_iff_not]
  intro hb
  rcases hb with rfl | rfl | rfl | rfl <;> revert h <;> decide

theorem dropWhile_id {p : Char → Bool} : ∀ {l : Str}, (∀ c, c ∈ l → p c = false) → l.dropWhile p = l
  | [], _ => rfl
  | c :: r, h => by simp [List.dropWhile, h c List.mem_cons_self]

theorem trimBlanks_numeral {s : Str} (h : numeral s = true) : trimBlanks s = s := by
  have hall := numeral_chars h
  unfold trimBlanks
  simp only
  rw [dropWhile_id (fun c hc => numChar_nonblank (hall c hc))]
  rw [dropWhile_id (fun c hc => numChar_nonblank (hall c (List.mem_reverse.1 hc)))]
  exact List.reverse_reverse s

/-- the reader that reads exactly the plain decimal numerals -/
def readsPlain : Str → Option Nat := fun s => if numeral s = true then some 0 else none

theorem readsPlain_numerals : ReadsNumerals readsPlain := by
  intro s hs
  exact ⟨0, by simp [readsPlain, hs]⟩

theorem readsPlain_trimmed : ReadsTrimmed readsPlain := by
  intro t b h
  by_cases hn : numeral t = true
  · exact trimBlanks_numeral hn
  · simp [readsPlain, hn] at h
end
end Glif
